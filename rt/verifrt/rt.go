//go:build verif

// Package verifrt is the harness runtime. Under the symbolic executor (gosmt) every
// function here is intercepted by name; the bodies below are the NATIVE semantics used
// when a solver model is replayed against the real build (go test -overlay ...):
// nondeterministic values are read back from the model file named by $VERIF_REPLAY.
package verifrt

import (
	"encoding/json"
	"fmt"
	"os"
	"reflect"
	"runtime"
	"sort"
	"strings"
	"sync"
	"time"
)

type schedEntry struct {
	From string `json:"from"`
	Pos  string `json:"pos"`
	N    int    `json:"n"`
	To   string `json:"to"`
	Op   string `json:"op"`
	Arr  int    `json:"arr"`
}

type replayFile struct {
	Harness  string            `json:"harness"`
	Tier     string            `json:"tier"`
	Values   map[string]uint64 `json:"values"`
	Clock    []int64           `json:"clock"`
	Schedule []schedEntry      `json:"schedule"`
	Repeat   int               `json:"repeat"`
}

var (
	mu      sync.Mutex
	rf      replayFile
	ctr     = map[string]int{}
	clockN  int
	wg      sync.WaitGroup
	allocLo uint64
)

type assumeFalse struct{}

func uniq(name string) string {
	ctr[name]++
	if n := ctr[name]; n > 1 {
		return fmt.Sprintf("%s#%d", name, n)
	}
	return name
}

func val(name string) uint64 {
	mu.Lock()
	defer mu.Unlock()
	return rf.Values[uniq(name)]
}

func Int64(name string) int64           { return int64(val(name)) }
func Uint64(name string) uint64         { return val(name) }
func Int(name string) int               { return int(int64(val(name))) }
func Int32(name string) int32           { return int32(val(name)) }
func Uint32(name string) uint32         { return uint32(val(name)) }
func Int16(name string) int16           { return int16(val(name)) }
func Uint16(name string) uint16         { return uint16(val(name)) }
func Byte(name string) byte             { return byte(val(name)) }
func Bool(name string) bool             { return val(name) != 0 }
func Duration(name string) time.Duration { return time.Duration(int64(val(name))) }

// Choice returns a value in [0,n), case-split by the executor.
func Choice(name string, n int) int {
	mu.Lock()
	defer mu.Unlock()
	return int(rf.Values[uniq("choice:"+name)])
}

func bytesNamed(name string, n int) []byte {
	b := make([]byte, n)
	for i := range b {
		b[i] = byte(rf.Values[fmt.Sprintf("%s[%d]", name, i)])
	}
	return b
}

// Bytes returns a byte slice of length 0..max (length case-split) with arbitrary content.
func Bytes(name string, max int) []byte {
	mu.Lock()
	defer mu.Unlock()
	name = uniq(name)
	return bytesNamed(name, int(rf.Values["len:"+name]))
}

func BytesN(name string, n int) []byte {
	mu.Lock()
	defer mu.Unlock()
	return bytesNamed(uniq(name), n)
}

func String(name string, max int) string { return string(Bytes(name, max)) }
func StringN(name string, n int) string  { return string(BytesN(name, n)) }

func Assume(cond bool) {
	if !cond {
		fmt.Println("VERIF-ASSUME-FALSE")
		panic(assumeFalse{})
	}
}

func Assert(cond bool, label string) {
	if !cond {
		fmt.Printf("VERIF-ASSERT-FAILED %s\n", label)
	}
}

func Reach(label string, cond bool) {
	if cond {
		fmt.Printf("VERIF-REACHED %s\n", label)
	}
}

// Possible: the event must be possible for SOME input / random outcome / schedule. Under the
// symbolic executor a label no path can satisfy is a violation; natively it is a witness print.
func Possible(label string, cond bool) { Reach(label, cond) }

func Observe(tag string, v interface{}) {
	mu.Lock()
	tag = uniq("obs:" + tag)
	mu.Unlock()
	switch x := v.(type) {
	case []byte:
		fmt.Printf("VERIF-OBSERVE %s.len=%d\n", tag, len(x))
		for i, b := range x {
			fmt.Printf("VERIF-OBSERVE %s[%d]=%d\n", tag, i, b)
		}
	case string:
		fmt.Printf("VERIF-OBSERVE %s.len=%d\n", tag, len(x))
		for i := 0; i < len(x); i++ {
			fmt.Printf("VERIF-OBSERVE %s[%d]=%d\n", tag, i, x[i])
		}
	case bool:
		n := 0
		if x {
			n = 1
		}
		fmt.Printf("VERIF-OBSERVE %s=%d\n", tag, n)
	case int:
		fmt.Printf("VERIF-OBSERVE %s=%d\n", tag, uint64(x))
	case int64:
		fmt.Printf("VERIF-OBSERVE %s=%d\n", tag, uint64(x))
	case int32:
		fmt.Printf("VERIF-OBSERVE %s=%d\n", tag, uint64(uint32(x)))
	case int16:
		fmt.Printf("VERIF-OBSERVE %s=%d\n", tag, uint64(uint16(x)))
	case uint64:
		fmt.Printf("VERIF-OBSERVE %s=%d\n", tag, x)
	case uint32:
		fmt.Printf("VERIF-OBSERVE %s=%d\n", tag, uint64(x))
	case uint16:
		fmt.Printf("VERIF-OBSERVE %s=%d\n", tag, uint64(x))
	case uint8:
		fmt.Printf("VERIF-OBSERVE %s=%d\n", tag, uint64(x))
	case time.Duration:
		fmt.Printf("VERIF-OBSERVE %s=%d\n", tag, uint64(x))
	default:
		fmt.Printf("VERIF-OBSERVE-UNSUPPORTED %s %T\n", tag, v)
	}
}

func Tier() int {
	if rf.Tier == "thorough" {
		return 1
	}
	return 0
}

func Bound(name string, quick, thorough int) int {
	if rf.Tier == "thorough" {
		return thorough
	}
	return quick
}

func AllocLimit(n int)  {}

// AllocBound: allocations whose symbolic length can exceed n are explored only up to n
// (larger ones are outside the claim, and counted in the evidence).
func AllocBound(n int) {}
func Preemptions(n int) {}

// StructTag returns the struct tag of the named field of v's (pointed-to) struct type.
func StructTag(v interface{}, field string) string {
	t := reflect.TypeOf(v)
	if t == nil {
		return ""
	}
	if t.Kind() == reflect.Ptr {
		t = t.Elem()
	}
	if t.Kind() != reflect.Struct {
		return ""
	}
	if f, ok := t.FieldByName(field); ok {
		return string(f.Tag)
	}
	return ""
}

// RaceCheck switches the happens-before data-race monitor on for this harness (symbolic runs); a
// race it finds is confirmed natively by running the harness under the Go race detector.
func RaceCheck() {}

// Symbolic reports whether the harness runs under the symbolic executor.
func Symbolic() bool { return false }

// Go starts a named harness thread.
func Go(name string, f func()) {
	if schedOn {
		spawnScheduled(name, f)
		return
	}
	wg.Add(1)
	go func() {
		defer wg.Done()
		f()
	}()
}

// Join waits until all harness threads finished (or, symbolically, are blocked).
func Join() {
	if schedOn {
		schedPoint("join", true)
		return
	}
	c := make(chan struct{})
	go func() { wg.Wait(); close(c) }()
	select {
	case <-c:
	case <-time.After(2 * time.Second):
	}
	// goroutines started by the code under test (pumps ...): natively quiescence is approximated
	// by giving them time to run and block again
	time.Sleep(60 * time.Millisecond)
}

func Atomic(f func()) { f() }
func Yield() {
	if schedOn {
		schedPoint("?yield", false)
	}
}
func Done()           { panic(assumeFalse{}) }

// Stub redirects a function by full name under the symbolic executor. Natively the
// real function runs (harnesses that need a native adaptor provide it themselves).
func Stub(name string, f interface{}) {}

// StubNative is Stub that also holds natively whenever the package under test is replayed from
// its instrumented copy (schedule / crash-point replays): the instrumented function starts with
// `if f := verifrt.NativeStub(name); f != nil { return f.(func(...))(...) }`. Only functions
// declared in the packages under test can be redirected this way.
func StubNative(name string, f interface{}) {
	mu.Lock()
	nativeStubs[name] = f
	mu.Unlock()
}

var nativeStubs = map[string]interface{}{}
var schedDebug = os.Getenv("VERIF_SCHED_DEBUG") != ""

func NativeStub(name string) interface{} {
	mu.Lock()
	defer mu.Unlock()
	return nativeStubs[name]
}

// Now is the model clock: natively the recorded reading, else the real clock.
func Now() time.Time {
	mu.Lock()
	defer mu.Unlock()
	if clockN < len(rf.Clock) {
		t := time.Unix(0, rf.Clock[clockN])
		clockN++
		lastNow = t.UnixNano()
		return t
	}
	t := time.Now()
	lastNow = t.UnixNano()
	return t
}

var lastNow int64

// LastNow is the most recent reading of the model clock handed to the code under test.
func LastNow() int64 {
	mu.Lock()
	defer mu.Unlock()
	return lastNow
}

func Blocked() int { return 0 }

// ClockRange restricts the model clock to [lo, hi) unix nanoseconds (symbolic runs only).
func ClockRange(lo, hi int64) {}

// Panics runs f and reports whether it panicked.
func Panics(f func()) (p bool) {
	defer func() {
		if r := recover(); r != nil {
			if _, ok := r.(assumeFalse); ok {
				panic(r)
			}
			p = true
		}
	}()
	f()
	return false
}

// ReplayMain is called from the generated test: it runs the harness named in the
// replay file and prints VERIF-* markers that the engine parses.
func ReplayMain(harnesses map[string]func()) {
	path := os.Getenv("VERIF_REPLAY")
	if path == "" {
		fmt.Println("VERIF-NO-REPLAY-FILE")
		return
	}
	data, err := os.ReadFile(path)
	if err != nil {
		fmt.Println("VERIF-ERROR", err)
		return
	}
	if err := json.Unmarshal(data, &rf); err != nil {
		fmt.Println("VERIF-ERROR", err)
		return
	}
	schedInit()
	h := harnesses[rf.Harness]
	if h == nil {
		names := []string{}
		for k := range harnesses {
			names = append(names, k)
		}
		sort.Strings(names)
		fmt.Println("VERIF-ERROR unknown harness", rf.Harness, "have", strings.Join(names, ","))
		return
	}
	var ms0, ms1 runtime.MemStats
	runtime.ReadMemStats(&ms0)
	for rep := 1; rep < rf.Repeat; rep++ {
		// "impossible" replays: run the harness repeatedly with the real sources of randomness
		func() {
			defer func() {
				if r := recover(); r != nil {
					if _, ok := r.(assumeFalse); !ok {
						fmt.Printf("VERIF-PANIC %v\n", r)
					}
				}
			}()
			h()
		}()
		mu.Lock()
		ctr = map[string]int{}
		clockN = 0
		mu.Unlock()
	}
	func() {
		defer func() {
			if r := recover(); r != nil {
				if _, ok := r.(assumeFalse); ok {
					return
				}
				buf := make([]byte, 8192)
				n := runtime.Stack(buf, false)
				fmt.Printf("VERIF-PANIC %v\n%s\n", r, buf[:n])
			}
		}()
		h()
	}()
	runtime.ReadMemStats(&ms1)
	fmt.Printf("VERIF-ALLOC %d\n", ms1.TotalAlloc-ms0.TotalAlloc)
	fmt.Println("VERIF-END")
}

// Loop-step mode (symbolic runs only): LoopHavoc names a header variable of the loop-th
// loop of function fn and the value it has on first arrival; LoopStep runs f and returns
// false if it was cut at the back-edge (LoopPost* then give the header variables' next
// values), true if f returned. Natively LoopStep just runs f.
func LoopHavoc(fn string, loop int, name string, v interface{}) {}
func LoopStep(f func()) bool                                  { f(); return true }
func LoopPostInt(name string) int                             { return 0 }
func LoopPostInt64(name string) int64                         { return 0 }
func LoopPostUint64(name string) uint64                       { return 0 }
func LoopPostInt32(name string) int32                         { return 0 }
func LoopPostBool(name string) bool                           { return false }
func LoopPostIsNil(name string) bool                          { return false }

// LoopBlocked: the iteration cut by LoopStep ended waiting in a blocking operation.
func LoopBlocked() bool { return false }

// ---- C16 helpers ----

// InitPackage runs the package-level variable initialisers of a dependency that is not in
// the engine's default init list (symbolic runs only; natively Go has already done it).
func InitPackage(path string) {}

// NativeClock replaces the recorded clock readings that Now() hands out during a native
// replay (a no-op under the symbolic executor). Harnesses whose environment is a real
// loopback socket natively use it to turn a modelled I/O fault into an expired deadline.
func NativeClock(readings []int64) {
	mu.Lock()
	defer mu.Unlock()
	rf.Clock = readings
	clockN = 0
}

// Since is time.Since on the model clock (the replay overlay rewrites time.Since to it).
func Since(t time.Time) time.Duration { return Now().Sub(t) }

// NativeClockUsed reports how many recorded readings Now() has handed out since the last
// NativeClock call (native replay only; 0 under the symbolic executor).
func NativeClockUsed() int {
	mu.Lock()
	defer mu.Unlock()
	return clockN
}

// UsePathFacts (C20): from here on the executor's IndexByte model uses byte comparisons the
// path has already decided (see engine/intrinsics_c20.go). Natively a no-op.
func UsePathFacts() {}

// Rest lets every other goroutine run until nothing can move any more. Under the symbolic
// executor the others are run one at a time to their next blocking point in creation order
// (ONE canonical schedule, no case split - unlike Join, which explores the orders); natively
// it simply waits a moment.
func Rest() { time.Sleep(150 * time.Millisecond) }

// ClockSteps (C14): from here on every reading of the model clock is the previous reading plus
// a fresh non-negative step of `bits` bits (the first one: the ClockRange origin plus a step),
// i.e. the clock is monotone by construction instead of by side constraints, and a history's
// readings span at most (number of readings) x 2^bits ns. Answers that depend only on
// differences of instants are unaffected; the solver is spared 64-bit order reasoning
// (see engine/intrinsics_c14.go). Natively a no-op (readings come from the model file).
func ClockSteps(bits int) {}

// ---- C18 helpers ----

// JSONUnmarshal is encoding/json.Unmarshal. Under the symbolic executor it is the json contract
// model, reachable from a harness function that is itself installed as the Stub of
// encoding/json.Unmarshal (see harness/internal/clusterinfo/c18_getv1.go).
func JSONUnmarshal(data []byte, v interface{}) error { return json.Unmarshal(data, v) }

// ---------------------------------------------------------------------------------------
// Native schedule replay: a deterministic baton scheduler. The instrumented copy of the
// package under test calls Point(pos) at every synchronisation operation and GoAt for every
// go statement; the recorded schedule says at which (thread, point, occurrence) the baton
// moves to which thread. Exactly one registered thread runs at a time.

type nthread struct {
	name    string
	wake    chan struct{}
	visits  map[string]int
	noBaton bool // gave the baton away before a blocking channel operation
}

var (
	schedOn  bool
	schedMu  sync.Mutex
	schedK   int
	nthreads = map[string]*nthread{}
	goidName = map[int64]string{}
)

func goid() int64 {
	var buf [64]byte
	n := runtime.Stack(buf[:], false)
	// "goroutine 123 ["
	var id int64
	for _, c := range buf[10:n] {
		if c < '0' || c > '9' {
			break
		}
		id = id*10 + int64(c-'0')
	}
	return id
}

// schedDone is closed when the last recorded hand-over has been consumed: from then on the symbolic
// run had only threads that were blocked or finished, so natively every thread still parked by
// the baton scheduler (a pump waiting in its select, a goroutine the rest of the harness starts)
// runs freely - e.g. a harness's own clean-up can then stop the pumps and wait for them.
var schedDone = make(chan struct{})

// (schedMu held)
func schedAdvance() {
	schedK++
	if schedK == len(rf.Schedule) {
		close(schedDone)
	}
}

func schedWait(t *nthread) {
	select {
	case <-t.wake:
	case <-schedDone:
	}
}

func schedInit() {
	if len(rf.Schedule) == 0 {
		return
	}
	schedOn = true
	t := &nthread{name: "main", wake: make(chan struct{}, 1), visits: map[string]int{}}
	nthreads["main"] = t
	goidName[goid()] = "main"
}

func uniqueThreadName(name string) string {
	base, k := name, 1
	for {
		if _, dup := nthreads[name]; !dup {
			return name
		}
		k++
		name = fmt.Sprintf("%s#%d", base, k)
	}
}

func spawnScheduled(name string, f func()) {
	schedMu.Lock()
	name = uniqueThreadName(name)
	t := &nthread{name: name, wake: make(chan struct{}, 1), visits: map[string]int{}}
	nthreads[name] = t
	schedMu.Unlock()
	go func() {
		schedMu.Lock()
		goidName[goid()] = name
		schedMu.Unlock()
		schedWait(t) // runs only when the schedule hands it the baton (or the schedule is over)
		f()
		threadExit(t)
	}()
}

// GoAt replaces `go f()` statements of the instrumented code.
func GoAt(pos string, f func()) {
	if !schedOn {
		go f()
		return
	}
	spawnScheduled("go@"+pos, f)
}

func me() *nthread {
	schedMu.Lock()
	defer schedMu.Unlock()
	return nthreads[goidName[goid()]]
}

func handover(from *nthread, to string, park bool) {
	schedMu.Lock()
	t := nthreads[to]
	schedMu.Unlock()
	if t == nil {
		fmt.Printf("VERIF-SCHED-ERROR unknown thread %q\n", to)
		return
	}
	t.visits = map[string]int{}
	select {
	case t.wake <- struct{}{}:
	default: // (already released: the schedule is over)
	}
	if park {
		schedWait(from)
	}
}

func threadExit(t *nthread) {
	schedMu.Lock()
	var e *schedEntry
	if schedK < len(rf.Schedule) && rf.Schedule[schedK].From == t.name && rf.Schedule[schedK].Pos == "exit" {
		e = &rf.Schedule[schedK]
		schedAdvance()
	}
	schedMu.Unlock()
	if e != nil {
		handover(t, e.To, false)
	}
}

// Point is a synchronisation point of the instrumented code.
func Point(pos string) {
	if !schedOn {
		return
	}
	schedPoint(pos, false)
}

func schedPoint(pos string, isJoin bool) {
	t := me()
	if t == nil {
		return // a goroutine the schedule does not know (not spawned through GoAt)
	}
	t.visits[pos]++
	if schedDebug {
		schedMu.Lock()
		nxt := "-"
		if schedK < len(rf.Schedule) {
			nxt = rf.Schedule[schedK].From + "@" + rf.Schedule[schedK].Pos
		}
		fmt.Printf("VERIF-SCHED %s at %s #%d (next: %s)\n", t.name, pos, t.visits[pos], nxt)
		schedMu.Unlock()
	}
	for {
		schedMu.Lock()
		var e *schedEntry
		if schedK < len(rf.Schedule) {
			c := &rf.Schedule[schedK]
			if c.From == t.name && ((c.Pos == pos && (c.N == t.visits[pos] || isJoin)) || (c.Pos == pos+"/wait" && (c.Arr == 0 || c.Arr == t.visits[pos]))) {
				e = c
				schedAdvance()
			}
		}
		schedMu.Unlock()
		if e == nil {
			return
		}
		if e.Pos == pos+"/wait" {
			// about to block in a channel operation: pass the baton on but do NOT park, so the
			// real operation can rendezvous with its partner; After() waits for the baton
			t.noBaton = true
			handover(t, e.To, false)
			return
		}
		handover(t, e.To, true)
		if e.Pos == pos {
			// after being switched back in at the same point the thread may still have a
			// recorded "/wait" hand-over at this operation
			continue
		}
		return
	}
}

// After follows a channel operation of the instrumented code: a thread that gave the baton
// away to block in the operation waits here until the schedule hands it back.
func After(pos string) {
	if !schedOn {
		return
	}
	t := me()
	if t == nil || !t.noBaton {
		return
	}
	schedWait(t)
	t.noBaton = false
}

// ---- C19 helper ----

// FreeRun (C19): the harness drives real goroutines of the code under test and waits for them
// itself (it polls until they are parked in their select), so its native replay needs no
// imposed schedule: switch the baton scheduler off for this run even if the replay file
// carries one. A no-op under the symbolic executor (see engine/intrinsics_c19.go).
func FreeRun() { schedOn = false }

// ---------------------------------------------------------------------------------------
// Native disk faults and crash points: the replay overlay rewrites os.OpenFile / Rename /
// Remove / ReadFile and (*os.File).Write / Sync / Close of the package under test into these
// wrappers. They count effects, fail the faultAt-th one, and "crash" (panic DiskCrash) before
// the crashAt-th one; after a crash, unsynced tails are cut back to the model's torn length.

type DiskCrash struct{}

var (
	diskOn      bool
	diskEffects int
	diskCrashAt = -1
	diskFaultAt = -1
	diskSynced  = map[string]int64{}
	diskNames   = map[*os.File]string{}
)

// NativeDisk arms the wrappers (native replay only; symbolically the harness' own disk model runs).
func NativeDisk(crashAt, faultAt int) {
	diskOn, diskEffects, diskCrashAt, diskFaultAt = true, 0, crashAt, faultAt
	diskSynced = map[string]int64{}
}

// DiskTear cuts the unsynced tail of name back to keep bytes beyond its synced length.
func DiskTear(name string, keep int64) {
	synced, tracked := diskSynced[name]
	if !tracked {
		return // never written through the wrappers: fully durable
	}
	fi, err := os.Stat(name)
	if err != nil {
		return
	}
	n := synced + keep
	if n < fi.Size() {
		os.Truncate(name, n)
	}
}

func diskEffect() error {
	if !diskOn {
		return nil
	}
	k := diskEffects
	diskEffects++
	if k == diskCrashAt {
		panic(DiskCrash{})
	}
	if k == diskFaultAt {
		return fmt.Errorf("verif: injected disk fault at effect %d", k)
	}
	return nil
}

func OSOpenFile(name string, flag int, perm os.FileMode) (*os.File, error) {
	if err := diskEffect(); err != nil {
		return nil, err
	}
	f, err := os.OpenFile(name, flag, perm)
	if err == nil && diskOn {
		diskNames[f] = name
		if flag&os.O_TRUNC != 0 {
			diskSynced[name] = 0
		} else if _, ok := diskSynced[name]; !ok {
			if fi, e := f.Stat(); e == nil {
				diskSynced[name] = fi.Size()
			}
		}
	}
	return f, err
}

func OSWrite(f *os.File, b []byte) (int, error) {
	if err := diskEffect(); err != nil {
		return 0, err
	}
	return f.Write(b)
}

func OSSync(f *os.File) error {
	if err := diskEffect(); err != nil {
		return err
	}
	err := f.Sync()
	if err == nil && diskOn {
		if fi, e := f.Stat(); e == nil {
			diskSynced[diskNames[f]] = fi.Size()
		}
	}
	return err
}

func OSClose(f *os.File) error { return f.Close() }

func OSRename(a, b string) error {
	if err := diskEffect(); err != nil {
		return err
	}
	err := os.Rename(a, b)
	if err == nil && diskOn {
		diskSynced[b] = diskSynced[a]
		delete(diskSynced, a)
	}
	return err
}

func OSRemove(name string) error {
	if err := diskEffect(); err != nil {
		return err
	}
	return os.Remove(name)
}

func OSReadFile(name string) ([]byte, error) { return os.ReadFile(name) }

// SleepYields: under the symbolic scheduler a time.Sleep of the code under test lets every other
// runnable thread go first WITHOUT charging the preemption bound (a sleep is a blocking operation:
// in 100 ms everything else runs). Off by default; a harness switches it on for itself. Natively
// a no-op (the recorded schedule is imposed as usual).
func SleepYields() {}
