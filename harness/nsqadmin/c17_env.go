//go:build verif

package nsqadmin

import (
	"encoding/json"
	"errors"
	"io"
	"net"
	"net/http"
	"net/http/httptest"
	"net/url"
	"strconv"
	"strings"
	"sync"

	"github.com/julienschmidt/httprouter"
	"github.com/nsqio/nsq/internal/clusterinfo"
	"github.com/nsqio/nsq/internal/http_api"
	"github.com/nsqio/nsq/internal/lg"
	"github.com/nsqio/nsq/internal/quantile"
	"github.com/nsqio/nsq/internal/verifrt"
)

// =============================================================================================
// C17 environment.
//
// The "cluster" (every nsqd and nsqlookupd nsqadmin can talk to) exists in two forms that
// answer the same two questions - "how many requests reached an upstream?" and "was action X
// carried out for topic/channel/node Y?":
//   - under gosmt every exported clusterinfo method of the handler's *ClusterInfo is redirected
//     (verifrt.Stub) to a recorder (vCluster.calls); nothing below clusterinfo runs;
//   - in a native replay the real clusterinfo and the real HTTP client run against loopback
//     httptest servers that play nsqlookupd and nsqd and log every request they receive.
// The handler-level harnesses therefore decide "403 => nothing reached the cluster" on the
// recorder, and a replay shows it on real sockets.
// =============================================================================================

type vCall struct {
	kind     string // clusterinfo method name
	topic    string
	channel  string
	node     string
	lookupds []string
	nsqds    []string
}

type vReq struct {
	srv    string // address of the server that received it
	method string
	path   string
	topic  string
	chanl  string
	node   string
	nargs  int  // number of query arguments (all values of all keys)
	bad    bool // the query does not decode
}

type vCluster struct {
	// symbolic
	calls []vCall  // clusterinfo-level recorder (vNewCluster)
	posts []string // HTTP-level recorder: POST endpoints in order (vNewClusterHTTP)
	gets  []string
	// native
	mu      sync.Mutex
	reqs    []vReq
	servers []*httptest.Server
	// the cluster: addresses of its nsqlookupds and nsqds (all nsqds produce topic/channel)
	lookupdAddrs []string
	nsqdAddrs    []string
	// nsqds of the same cluster that do NOT produce `topic` (they produce vOtherTopic): known to
	// every nsqlookupd (/nodes) and, in --nsqd-http-address mode, configured like the others
	idleAddrs []string
	// what each nsqlookupd knows: vViewAll = every producer is registered with every nsqlookupd,
	// vViewSplit = producer j is registered only with nsqlookupd j mod L (the union matters)
	view int
	// configuration handed to nsqadmin (--lookupd-http-address or --nsqd-http-address)
	lookupds []string
	nsqds    []string
	topic    string
	channel  string
	// fault: POSTs to this upstream address fail ("" = none)
	failPost string
	// faults: upstreams whose GET answers (/lookup, /nodes, ...) fail, and upstreams that are
	// down (every request to them fails)
	failGets []string
	down     []string
	// strict: the upstreams hold exactly `topic` with `channel` and answer by the names they read
	// out of the request (c17_names.go): /lookup and /stats know no other topic, a change of
	// something an upstream does not hold is answered 404
	strict bool
}

// getFails / postFails: does a GET / POST to upstream `addr` fail?
func (u *vCluster) getFails(addr string) bool {
	return vIndexOf(u.failGets, addr) >= 0 || vIndexOf(u.down, addr) >= 0
}

func (u *vCluster) postFails(addr string) bool {
	return (u.failPost != "" && u.failPost == addr) || vIndexOf(u.down, addr) >= 0
}

var vMutatingKinds = map[string]bool{
	"CreateTopicChannel": true, "DeleteTopic": true, "DeleteChannel": true,
	"PauseTopic": true, "UnPauseTopic": true, "EmptyTopic": true,
	"PauseChannel": true, "UnPauseChannel": true, "EmptyChannel": true,
	"TombstoneNodeForTopic": true,
}

// native request path (on an nsqlookupd or nsqd) that witnesses a clusterinfo-level action
var vKindPath = map[string]string{
	"CreateTopicChannel":    "/topic/create",
	"DeleteTopic":           "/topic/delete",
	"DeleteChannel":         "/channel/delete",
	"PauseTopic":            "/topic/pause",
	"UnPauseTopic":          "/topic/unpause",
	"EmptyTopic":            "/topic/empty",
	"PauseChannel":          "/channel/pause",
	"UnPauseChannel":        "/channel/unpause",
	"EmptyChannel":          "/channel/empty",
	"TombstoneNodeForTopic": "/topic/tombstone",
}

// Topologies of the nsqd addresses (broadcast address x HTTP port). nsqd i gets host index and
// port index:
//   vHostsDiffer: (i, 0)      every nsqd on its own host, all on the same port
//   vPortsDiffer: (0, i)      every nsqd on the SAME host (same broadcast address), own port
//   vMixed:       (i%2, i/2)  two hosts, nsqd 0/1 share the port, nsqd 0/2 share the host
// Under gosmt host h is "nsqd<h>" and port p is 4151+p; natively host h is 127.0.0.<1+h> and the
// port of index p is whatever the kernel handed out for the first listener of that index.
const (
	vHostsDiffer = iota
	vPortsDiffer
	vMixed
)

const (
	vViewAll = iota
	vViewSplit
)

const vOtherTopic = "zz"

func vTopo(layout, i int) (int, int) {
	switch layout {
	case vPortsDiffer:
		return 0, i
	case vMixed:
		return i % 2, i / 2
	}
	return i, 0
}

// vListen: a loopback listener on host index h with the port of index p (same index => same
// port number on different loopback addresses).
func vListen(h, p int, ports map[int]int) net.Listener {
	host := "127.0.0." + strconv.Itoa(1+h)
	if port, ok := ports[p]; ok {
		if l, err := net.Listen("tcp", host+":"+strconv.Itoa(port)); err == nil {
			return l
		}
	}
	l, err := net.Listen("tcp", host+":0")
	if err != nil {
		l, err = net.Listen("tcp", "127.0.0.1:0")
		if err != nil {
			panic(err)
		}
	}
	if _, ok := ports[p]; !ok {
		_, ps := vHostPort(l.Addr().String())
		ports[p], _ = strconv.Atoi(ps)
	}
	return l
}

// vBuildCluster: nLookupd nsqlookupds (0 = nsqadmin runs in --nsqd-http-address mode) and nNsqd
// nsqds on distinct hosts, each producing topic `topic` with channel `channel`.
func vBuildCluster(nLookupd, nNsqd int, topic, channel string) *vCluster {
	return vBuildClusterTopo(nLookupd, nNsqd, 0, vHostsDiffer, topic, channel)
}

// vBuildClusterTopo: the same with nIdle more nsqds that do not produce `topic`, and the nsqd
// addresses laid out as `layout` says. Natively they are loopback servers.
func vBuildClusterTopo(nLookupd, nNsqd, nIdle, layout int, topic, channel string) *vCluster {
	u := &vCluster{topic: topic, channel: channel}
	if verifrt.Symbolic() {
		for i := 0; i < nNsqd+nIdle; i++ {
			h, p := vTopo(layout, i)
			addr := "nsqd" + strconv.Itoa(h) + ":" + strconv.Itoa(4151+p)
			if i < nNsqd {
				u.nsqdAddrs = append(u.nsqdAddrs, addr)
			} else {
				u.idleAddrs = append(u.idleAddrs, addr)
			}
		}
		for i := 0; i < nLookupd; i++ {
			u.lookupdAddrs = append(u.lookupdAddrs, "lookupd"+strconv.Itoa(i)+":4161")
		}
	} else {
		ports := map[int]int{}
		for i := 0; i < nNsqd+nIdle+nLookupd; i++ {
			var l net.Listener
			if i < nNsqd+nIdle {
				h, p := vTopo(layout, i)
				l = vListen(h, p, ports)
			} else {
				l = vListen(0, -1-i, ports)
			}
			addr := l.Addr().String()
			srv := &httptest.Server{Listener: l, Config: &http.Server{Handler: http.HandlerFunc(func(w http.ResponseWriter, r *http.Request) { u.serve(addr, w, r) })}}
			srv.Start()
			u.servers = append(u.servers, srv)
			switch {
			case i < nNsqd:
				u.nsqdAddrs = append(u.nsqdAddrs, addr)
			case i < nNsqd+nIdle:
				u.idleAddrs = append(u.idleAddrs, addr)
			default:
				u.lookupdAddrs = append(u.lookupdAddrs, addr)
			}
		}
	}
	u.lookupds = u.lookupdAddrs
	if nLookupd == 0 {
		u.nsqds = append(append([]string{}, u.nsqdAddrs...), u.idleAddrs...)
	}
	return u
}

func vIndexOf(l []string, s string) int {
	for i, e := range l {
		if e == s {
			return i
		}
	}
	return -1
}

// registered: does nsqlookupd `lookupd` know producing nsqd j? (an address that is not one of
// the cluster's nsqlookupds knows nothing)
func (u *vCluster) registered(lookupd string, j int) bool {
	li := vIndexOf(u.lookupdAddrs, lookupd)
	if li < 0 {
		return false
	}
	return u.view == vViewAll || j%len(u.lookupdAddrs) == li
}

// vNewCluster: recorder at the clusterinfo level (one nsqd producing "t"/"c").
func vNewCluster(nLookupd int) *vCluster {
	u := vBuildCluster(nLookupd, 1, "t", "c")
	if verifrt.Symbolic() {
		u.stubClusterinfo()
	}
	return u
}

func (u *vCluster) close() {
	for _, s := range u.servers {
		s.Close()
	}
}

// nodeName: the first nsqd's address as nsqadmin names nodes (broadcast_address:http_port)
func (u *vCluster) nodeName() string { return u.nsqdAddrs[0] }

func vHostPort(addr string) (string, string) {
	h, p, _ := net.SplitHostPort(addr)
	return h, p
}

// vProducerJSON: what an nsqlookupd reports about the nsqd at addr producing topic
func vProducerJSON(addr, topic string) string {
	h, p := vHostPort(addr)
	return `{"remote_address":"127.0.0.1:9","hostname":"h","broadcast_address":"` + h + `","tcp_port":4150,"http_port":` + p +
		`,"version":"1.0.0","topics":["` + topic + `"],"tombstones":[false]}`
}

// serve: the native nsqlookupd / nsqd (the role is decided by the path asked for).
func (u *vCluster) serve(addr string, w http.ResponseWriter, r *http.Request) {
	q := r.URL.Query()
	u.mu.Lock()
	rec := vReq{srv: addr, method: r.Method, path: r.URL.Path, topic: q.Get("topic"), chanl: q.Get("channel"), node: q.Get("node")}
	for _, vs := range q {
		rec.nargs += len(vs)
	}
	if _, err := url.ParseQuery(r.URL.RawQuery); err != nil {
		rec.bad = true
	}
	u.reqs = append(u.reqs, rec)
	fail := u.postFails(addr)
	failGet := u.getFails(addr)
	u.mu.Unlock()
	w.Header().Set("Content-Type", "application/json")
	if u.strict {
		// (c17_names.go) the same server as under gosmt
		code, doc := u.serveStrict(&rec)
		if code != 200 {
			w.WriteHeader(code)
			io.WriteString(w, `{"message":"E"}`)
			return
		}
		w.Write(doc)
		return
	}
	if r.Method == "GET" && failGet {
		w.WriteHeader(500)
		io.WriteString(w, `{"message":"INTERNAL_ERROR"}`)
		return
	}
	if r.Method != "GET" {
		if fail {
			w.WriteHeader(500)
			io.WriteString(w, `{"message":"INTERNAL_ERROR"}`)
			return
		}
		io.WriteString(w, "{}")
		return
	}
	// the producers of the cluster's topic this nsqlookupd knows, and every node it knows
	producers, nodes := "", ""
	for j, a := range u.nsqdAddrs {
		if u.registered(addr, j) {
			if producers != "" {
				producers += ","
			}
			producers += vProducerJSON(a, u.topic)
		}
	}
	nodes = producers
	for _, a := range u.idleAddrs {
		if nodes != "" {
			nodes += ","
		}
		nodes += vProducerJSON(a, vOtherTopic)
	}
	idle := vIndexOf(u.idleAddrs, addr) >= 0
	h, port := vHostPort(addr)
	switch r.URL.Path {
	case "/lookup":
		// (the producing nsqds produce whatever topic is asked about)
		io.WriteString(w, `{"channels":["`+u.channel+`"],"producers":[`+producers+`]}`)
	case "/nodes":
		io.WriteString(w, `{"producers":[`+nodes+`]}`)
	case "/topics":
		io.WriteString(w, `{"topics":["`+u.topic+`"]}`)
	case "/channels":
		io.WriteString(w, `{"channels":["`+u.channel+`"]}`)
	case "/info":
		io.WriteString(w, `{"version":"1.0.0","broadcast_address":"`+h+`","hostname":"h","tcp_port":4150,"http_port":`+port+`}`)
	case "/stats":
		// every producing nsqd of this cluster produces the topic it is asked about; an idle one
		// only has vOtherTopic (nsqd's /stats?topic=X lists X alone, or nothing)
		tn := u.topic
		if q.Get("topic") != "" {
			tn = q.Get("topic")
		}
		if idle {
			if q.Get("topic") != "" && q.Get("topic") != vOtherTopic {
				io.WriteString(w, `{"version":"1.0.0","health":"OK","start_time":1,"topics":[]}`)
				return
			}
			tn = vOtherTopic
		}
		io.WriteString(w, `{"version":"1.0.0","health":"OK","start_time":1,"topics":[{"topic_name":"`+tn+
			`","depth":0,"backend_depth":0,"message_count":3,"paused":false,"e2e_processing_latency":{"count":0,"percentiles":null},"channels":[{"channel_name":"`+u.channel+
			`","depth":0,"backend_depth":0,"in_flight_count":0,"deferred_count":0,"message_count":3,"requeue_count":0,"timeout_count":0,"clients":[],"paused":false,"e2e_processing_latency":{"count":0,"percentiles":null}}]}]}`)
	default:
		w.WriteHeader(404)
		io.WriteString(w, `{"message":"NOT_FOUND"}`)
	}
}

// total: how many requests reached the cluster (symbolic: clusterinfo calls; native: HTTP requests)
func (u *vCluster) total() int {
	if verifrt.Symbolic() {
		return len(u.calls) + len(u.posts) + len(u.gets)
	}
	u.mu.Lock()
	defer u.mu.Unlock()
	return len(u.reqs)
}

// mutations: how many state-changing requests reached the cluster
func (u *vCluster) mutations() int {
	n := 0
	if verifrt.Symbolic() {
		for _, c := range u.calls {
			if vMutatingKinds[c.kind] {
				n++
			}
		}
		return n
	}
	u.mu.Lock()
	defer u.mu.Unlock()
	for _, r := range u.reqs {
		if r.method != "GET" {
			n++
		}
	}
	return n
}

func vSameStrings(a, b []string) bool {
	if len(a) != len(b) {
		return false
	}
	for i := range a {
		if a[i] != b[i] {
			return false
		}
	}
	return true
}

// did: action `kind` was requested for exactly (topic, channel, node) against the configured
// nsqlookupds / nsqds.
func (u *vCluster) did(kind, topic, channel, node string) bool {
	if verifrt.Symbolic() {
		for _, c := range u.calls {
			if c.kind == kind && c.topic == topic && c.channel == channel && c.node == node &&
				vSameStrings(c.lookupds, u.lookupds) && vSameStrings(c.nsqds, u.nsqds) {
				return true
			}
		}
		return false
	}
	u.mu.Lock()
	defer u.mu.Unlock()
	find := func(path, ch string) bool {
		for _, r := range u.reqs {
			if r.method == "POST" && r.path == path && r.topic == topic && r.chanl == ch && r.node == node {
				return true
			}
		}
		return false
	}
	if kind == "CreateTopicChannel" {
		// with no nsqlookupd configured there is nowhere to create anything
		if len(u.lookupds) == 0 {
			return true
		}
		if !find("/topic/create", "") {
			return false
		}
		return channel == "" || find("/channel/create", channel)
	}
	return find(vKindPath[kind], channel)
}

// ---- symbolic side: recorders for every exported *ClusterInfo method ----

const vCI = "(*github.com/nsqio/nsq/internal/clusterinfo.ClusterInfo)."

func (u *vCluster) rec(kind, topic, channel, node string, lookupds, nsqds []string) {
	u.calls = append(u.calls, vCall{kind: kind, topic: topic, channel: channel, node: node, lookupds: lookupds, nsqds: nsqds})
}

func (u *vCluster) producers() clusterinfo.Producers {
	return clusterinfo.Producers{&clusterinfo.Producer{
		RemoteAddresses: []string{"127.0.0.1:9"}, RemoteAddress: "127.0.0.1:9", Hostname: "h", BroadcastAddress: "nsqd0",
		TCPPort: 4150, HTTPPort: 4151, Version: "1.0.0", Topics: clusterinfo.ProducerTopics{{Topic: u.topic}},
	}}
}

func (u *vCluster) stubClusterinfo() {
	type CI = clusterinfo.ClusterInfo
	tla := func(kind string) interface{} {
		return func(c *CI, topic string, l []string, n []string) error { u.rec(kind, topic, "", "", l, n); return nil }
	}
	tcla := func(kind string) interface{} {
		return func(c *CI, topic string, channel string, l []string, n []string) error {
			u.rec(kind, topic, channel, "", l, n)
			return nil
		}
	}
	for _, k := range []string{"DeleteTopic", "PauseTopic", "UnPauseTopic", "EmptyTopic"} {
		verifrt.Stub(vCI+k, tla(k))
	}
	for _, k := range []string{"DeleteChannel", "PauseChannel", "UnPauseChannel", "EmptyChannel"} {
		verifrt.Stub(vCI+k, tcla(k))
	}
	verifrt.Stub(vCI+"CreateTopicChannel", func(c *CI, topic string, channel string, l []string) error {
		u.rec("CreateTopicChannel", topic, channel, "", l, u.nsqds)
		return nil
	})
	verifrt.Stub(vCI+"TombstoneNodeForTopic", func(c *CI, topic string, node string, l []string) error {
		u.rec("TombstoneNodeForTopic", topic, "", node, l, u.nsqds)
		return nil
	})
	// reads
	verifrt.Stub(vCI+"GetLookupdTopics", func(c *CI, l []string) ([]string, error) {
		u.rec("GetLookupdTopics", "", "", "", l, nil)
		return []string{u.topic}, nil
	})
	verifrt.Stub(vCI+"GetNSQDTopics", func(c *CI, n []string) ([]string, error) {
		u.rec("GetNSQDTopics", "", "", "", nil, n)
		return []string{u.topic}, nil
	})
	verifrt.Stub(vCI+"GetLookupdTopicChannels", func(c *CI, topic string, l []string) ([]string, error) {
		u.rec("GetLookupdTopicChannels", topic, "", "", l, nil)
		return []string{u.channel}, nil
	})
	verifrt.Stub(vCI+"GetLookupdProducers", func(c *CI, l []string) (clusterinfo.Producers, error) {
		u.rec("GetLookupdProducers", "", "", "", l, nil)
		return u.producers(), nil
	})
	verifrt.Stub(vCI+"GetLookupdTopicProducers", func(c *CI, topic string, l []string) (clusterinfo.Producers, error) {
		u.rec("GetLookupdTopicProducers", topic, "", "", l, nil)
		return u.producers(), nil
	})
	verifrt.Stub(vCI+"GetNSQDProducers", func(c *CI, n []string) (clusterinfo.Producers, error) {
		u.rec("GetNSQDProducers", "", "", "", nil, n)
		return u.producers(), nil
	})
	verifrt.Stub(vCI+"GetNSQDTopicProducers", func(c *CI, topic string, n []string) (clusterinfo.Producers, error) {
		u.rec("GetNSQDTopicProducers", topic, "", "", nil, n)
		return u.producers(), nil
	})
	verifrt.Stub(vCI+"GetProducers", func(c *CI, l []string, n []string) (clusterinfo.Producers, error) {
		u.rec("GetProducers", "", "", "", l, n)
		return u.producers(), nil
	})
	verifrt.Stub(vCI+"GetTopicProducers", func(c *CI, topic string, l []string, n []string) (clusterinfo.Producers, error) {
		u.rec("GetTopicProducers", topic, "", "", l, n)
		return u.producers(), nil
	})
	verifrt.Stub(vCI+"GetNSQDStats", func(c *CI, p clusterinfo.Producers, topic string, channel string, clients bool) ([]*clusterinfo.TopicStats, map[string]*clusterinfo.ChannelStats, error) {
		u.rec("GetNSQDStats", topic, channel, "", nil, nil)
		lat := func() *quantile.E2eProcessingLatencyAggregate { return &quantile.E2eProcessingLatencyAggregate{} }
		cs := &clusterinfo.ChannelStats{Node: "nsqd0:4151", TopicName: u.topic, ChannelName: u.channel, MessageCount: 3, E2eProcessingLatency: lat()}
		cs.NodeStats = []*clusterinfo.ChannelStats{{Node: "nsqd0:4151", TopicName: u.topic, ChannelName: u.channel, MessageCount: 3, E2eProcessingLatency: lat()}}
		ts := &clusterinfo.TopicStats{Node: "nsqd0:4151", TopicName: u.topic, MessageCount: 3, Channels: []*clusterinfo.ChannelStats{cs}, E2eProcessingLatency: lat()}
		m := map[string]*clusterinfo.ChannelStats{u.channel: cs}
		if channel != "" && channel != u.channel {
			m[channel] = &clusterinfo.ChannelStats{TopicName: topic, ChannelName: channel, E2eProcessingLatency: lat()}
		}
		return []*clusterinfo.TopicStats{ts}, m, nil
	})
}

// ---- HTTP-level cluster: the real clusterinfo runs, only the HTTP client is replaced ----

// vNewClusterHTTP: under gosmt (*http_api.Client).POSTV1 / GETV1 are redirected to a model of the
// cluster's HTTP surface (POST: record the endpoint, fail if the upstream is the faulty one; GET:
// answer /lookup, /info, /stats the way nsqlookupd and nsqd do, through the json model).
func vNewClusterHTTP(nLookupd, nNsqd int) *vCluster {
	return vNewClusterHTTPTopo(nLookupd, nNsqd, 0, vHostsDiffer, vViewAll)
}

// vEndpointAddr: host:port of "http://host:port/..."
func vEndpointAddr(endpoint string) string {
	e := strings.TrimPrefix(endpoint, "http://")
	if i := strings.IndexByte(e, '/'); i >= 0 {
		e = e[:i]
	}
	return e
}

func vNewClusterHTTPTopo(nLookupd, nNsqd, nIdle, layout, view int) *vCluster {
	u := vBuildClusterTopo(nLookupd, nNsqd, nIdle, layout, "tt", "cc")
	u.view = view
	if !verifrt.Symbolic() {
		return u
	}
	verifrt.Stub("(*github.com/nsqio/nsq/internal/http_api.Client).POSTV1", func(c *http_api.Client, endpoint string, data url.Values, v interface{}) error {
		u.posts = append(u.posts, endpoint)
		if u.postFails(vEndpointAddr(endpoint)) {
			return errors.New("got response 500 Internal Server Error")
		}
		return nil
	})
	verifrt.Stub("(*github.com/nsqio/nsq/internal/http_api.Client).GETV1", func(c *http_api.Client, endpoint string, v interface{}) error {
		u.gets = append(u.gets, endpoint)
		type producer struct {
			RemoteAddress    string   `json:"remote_address"`
			Hostname         string   `json:"hostname"`
			BroadcastAddress string   `json:"broadcast_address"`
			TCPPort          int      `json:"tcp_port"`
			HTTPPort         int      `json:"http_port"`
			Version          string   `json:"version"`
			Topics           []string `json:"topics"`
			Tombstones       []bool   `json:"tombstones"`
		}
		type topic struct {
			Name string `json:"topic_name"`
		}
		mk := func(a, tn string) producer {
			h, p := vHostPort(a)
			port, _ := strconv.Atoi(p)
			return producer{"127.0.0.1:9", "h", h, 4150, port, "1.0.0", []string{tn}, []bool{false}}
		}
		addr := vEndpointAddr(endpoint)
		if u.getFails(addr) {
			return errors.New("got response 500 Internal Server Error")
		}
		var doc []byte
		switch {
		case strings.Contains(endpoint, "/lookup?"):
			if vIndexOf(u.lookupdAddrs, addr) < 0 {
				return errors.New("got response 404 Not Found")
			}
			ps := []producer{}
			for j, a := range u.nsqdAddrs {
				if u.registered(addr, j) {
					ps = append(ps, mk(a, u.topic))
				}
			}
			doc, _ = json.Marshal(struct {
				Channels  []string   `json:"channels"`
				Producers []producer `json:"producers"`
			}{[]string{u.channel}, ps})
		case strings.HasSuffix(endpoint, "/info"):
			if vIndexOf(u.nsqdAddrs, addr) < 0 && vIndexOf(u.idleAddrs, addr) < 0 {
				return errors.New("got response 404 Not Found")
			}
			h, p := vHostPort(addr)
			port, _ := strconv.Atoi(p)
			doc, _ = json.Marshal(struct {
				Version          string `json:"version"`
				BroadcastAddress string `json:"broadcast_address"`
				Hostname         string `json:"hostname"`
				HTTPPort         int    `json:"http_port"`
				TCPPort          int    `json:"tcp_port"`
			}{"1.0.0", h, "h", port, 4150})
		case strings.Contains(endpoint, "/stats?"):
			// /stats?topic=<the cluster's topic>: a producing nsqd lists it, an idle one lists nothing
			ts := []topic{}
			switch {
			case vIndexOf(u.nsqdAddrs, addr) >= 0:
				ts = append(ts, topic{u.topic})
			case vIndexOf(u.idleAddrs, addr) < 0:
				return errors.New("got response 404 Not Found")
			}
			doc, _ = json.Marshal(struct {
				Topics []topic `json:"topics"`
			}{ts})
		default:
			return errors.New("got response 404 Not Found")
		}
		return json.Unmarshal(doc, v)
	})
	return u
}

// vEscape: application/x-www-form-urlencoded form of the names used here (only ':' needs it)
func vEscape(s string) string { return strings.Replace(s, ":", "%3A", -1) }

// posted: upstream `addr` received POST path with exactly these parameters
func (u *vCluster) posted(addr, path, topic, channel, node string) bool {
	if verifrt.Symbolic() {
		qs := "topic=" + vEscape(topic)
		if channel != "" {
			qs += "&channel=" + vEscape(channel)
		}
		if node != "" {
			qs += "&node=" + vEscape(node)
		}
		want := "http://" + addr + path + "?" + qs
		for _, e := range u.posts {
			if e == want {
				return true
			}
		}
		return false
	}
	u.mu.Lock()
	defer u.mu.Unlock()
	for _, r := range u.reqs {
		if r.srv == addr && r.method == "POST" && r.path == path && r.topic == topic && r.chanl == channel && r.node == node {
			return true
		}
	}
	return false
}

// postsTo: how many POSTs (of any kind) upstream `addr` received
func (u *vCluster) postsTo(addr string) int {
	n := 0
	if verifrt.Symbolic() {
		for _, e := range u.posts {
			if vEndpointAddr(e) == addr {
				n++
			}
		}
		return n
	}
	u.mu.Lock()
	defer u.mu.Unlock()
	for _, r := range u.reqs {
		if r.srv == addr && r.method != "GET" {
			n++
		}
	}
	return n
}

// strayPosts (symbolic recorder only): POSTs to an address that is neither an nsqlookupd nor an
// nsqd of the cluster
func (u *vCluster) strayPosts() int {
	n := 0
	for _, e := range u.posts {
		a := vEndpointAddr(e)
		if vIndexOf(u.lookupdAddrs, a) < 0 && vIndexOf(u.nsqdAddrs, a) < 0 && vIndexOf(u.idleAddrs, a) < 0 {
			n++
		}
	}
	return n
}

// nPosts: how many POSTs reached the cluster
func (u *vCluster) nPosts() int {
	if verifrt.Symbolic() {
		return len(u.posts)
	}
	return u.mutations()
}

// ---- nsqadmin under test ----

func vOptions(u *vCluster) *Options {
	return &Options{
		LogLevel:                 lg.FATAL,
		LogPrefix:                "[nsqadmin] ",
		Logger:                   lg.NilLogger{},
		HTTPAddress:              "127.0.0.1:0",
		BasePath:                 "/",
		StatsdPrefix:             "nsq.%s",
		StatsdCounterFormat:      "stats.counters.%s.count",
		StatsdGaugeFormat:        "stats.gauges.%s",
		StatsdInterval:           60000000000,
		HTTPClientConnectTimeout: 2000000000,
		HTTPClientRequestTimeout: 5000000000,
		ACLHTTPHeader:            "X-Forwarded-User",
		NSQLookupdHTTPAddresses:  u.lookupds,
		NSQDHTTPAddresses:        u.nsqds,
	}
}

// vAdmin: an NSQAdmin without listener or background loops (what New() builds, minus the socket).
func vAdmin(o *Options) *NSQAdmin {
	n := &NSQAdmin{notifications: make(chan *AdminAction)}
	n.swapOpts(o)
	return n
}

// vServer: the httpServer the handlers are methods of (no router: handlers are called directly).
func vServer(n *NSQAdmin) *httpServer {
	client := http_api.NewClient(nil, n.getOpts().HTTPClientConnectTimeout, n.getOpts().HTTPClientRequestTimeout)
	return &httpServer{nsqadmin: n, client: client, ci: clusterinfo.New(n.logf, client), basePath: "/"}
}

// ---- stub ResponseWriter / request ----

type vWriter struct {
	hdr    http.Header
	status int
	body   []byte
	writes int
}

func (w *vWriter) Header() http.Header {
	if w.hdr == nil {
		w.hdr = http.Header{}
	}
	return w.hdr
}
func (w *vWriter) WriteHeader(code int) {
	if w.status == 0 {
		w.status = code
	}
}
func (w *vWriter) Write(p []byte) (int, error) {
	if w.status == 0 {
		w.status = 200
	}
	w.writes++
	w.body = append(w.body, p...)
	return len(p), nil
}

type vBody struct {
	data []byte
	pos  int
}

func (b *vBody) Read(p []byte) (int, error) {
	if b.pos >= len(b.data) {
		return 0, io.EOF
	}
	n := copy(p, b.data[b.pos:])
	b.pos += n
	return n, nil
}
func (b *vBody) Close() error { return nil }

func vRequest(method, path string, hdr http.Header, body []byte, remote string) *http.Request {
	u := &url.URL{Path: path}
	return &http.Request{
		Method: method, URL: u, Proto: "HTTP/1.1", ProtoMajor: 1, ProtoMinor: 1,
		Header: hdr, Body: &vBody{data: body}, ContentLength: int64(len(body)),
		Host: "nsqadmin", RemoteAddr: remote, RequestURI: path,
	}
}

// errCode: the status a handler error maps to (the V1 decorator answers err.(Err).Code)
func vErrCode(err error) int {
	if err == nil {
		return 200
	}
	if e, ok := err.(http_api.Err); ok {
		return e.Code
	}
	return -1
}

// vParams: httprouter parameters for a route pattern such as /api/topics/:topic/:channel
func vParams(pattern string, vals map[string]string) (httprouter.Params, string) {
	var ps httprouter.Params
	segs := strings.Split(pattern, "/")
	for i, s := range segs {
		if len(s) > 0 && s[0] == ':' {
			ps = append(ps, httprouter.Param{Key: s[1:], Value: vals[s[1:]]})
			segs[i] = vals[s[1:]]
		}
	}
	return ps, strings.Join(segs, "/")
}
