//go:build verif

package nsqadmin

import (
	"io"
	"net"
	"net/http"
	"net/http/httptest"
	"net/url"
	"strconv"
	"strings"
	"sync"

	"github.com/julienschmidt/httprouter"
	"github.com/nsqio/nsq/internal/clusterinfo"
	"github.com/nsqio/nsq/internal/http_api"
	"github.com/nsqio/nsq/internal/lg"
	"github.com/nsqio/nsq/internal/verifrt"
)

// =============================================================================================
// C17 environment.
//
// The "cluster" (every nsqd and nsqlookupd nsqadmin can talk to) exists in two forms that
// answer the same two questions - "how many requests reached an upstream?" and "was action X
// carried out for topic/channel/node Y?":
//   - under gosmt every exported clusterinfo method of the handler's *ClusterInfo is redirected
//     (verifrt.Stub) to a recorder (vCluster.calls); nothing below clusterinfo runs;
//   - in a native replay the real clusterinfo and the real HTTP client run against loopback
//     httptest servers that play nsqlookupd and nsqd and log every request they receive.
// The handler-level harnesses therefore decide "403 => nothing reached the cluster" on the
// recorder, and a replay shows it on real sockets.
// =============================================================================================

type vCall struct {
	kind     string // clusterinfo method name
	topic    string
	channel  string
	node     string
	lookupds []string
	nsqds    []string
}

type vReq struct {
	method string
	path   string
	topic  string
	chanl  string
	node   string
	host   string
}

type vCluster struct {
	// symbolic
	calls []vCall
	// native
	mu      sync.Mutex
	reqs    []vReq
	servers []*httptest.Server
	// configuration handed to nsqadmin
	lookupds []string
	nsqds    []string
	// what the cluster contains (reads answer with it)
	topic   string
	channel string
}

var vMutatingKinds = map[string]bool{
	"CreateTopicChannel": true, "DeleteTopic": true, "DeleteChannel": true,
	"PauseTopic": true, "UnPauseTopic": true, "EmptyTopic": true,
	"PauseChannel": true, "UnPauseChannel": true, "EmptyChannel": true,
	"TombstoneNodeForTopic": true,
}

// native request path (on an nsqlookupd or nsqd) that witnesses a clusterinfo-level action
var vKindPath = map[string]string{
	"CreateTopicChannel":    "/topic/create",
	"DeleteTopic":           "/topic/delete",
	"DeleteChannel":         "/channel/delete",
	"PauseTopic":            "/topic/pause",
	"UnPauseTopic":          "/topic/unpause",
	"EmptyTopic":            "/topic/empty",
	"PauseChannel":          "/channel/pause",
	"UnPauseChannel":        "/channel/unpause",
	"EmptyChannel":          "/channel/empty",
	"TombstoneNodeForTopic": "/topic/tombstone",
}

// vNewCluster: nLookupd nsqlookupds (0 = nsqadmin runs in --nsqd-http-address mode) and one nsqd
// producing topic "t" with channel "c".
func vNewCluster(nLookupd int) *vCluster {
	u := &vCluster{topic: "t", channel: "c"}
	if verifrt.Symbolic() {
		for i := 0; i < nLookupd; i++ {
			u.lookupds = append(u.lookupds, "lookupd"+strconv.Itoa(i)+":4161")
		}
		if nLookupd == 0 {
			u.nsqds = []string{"nsqd0:4151"}
		}
		u.stubClusterinfo()
		return u
	}
	nsqd := httptest.NewServer(http.HandlerFunc(u.serve))
	u.servers = append(u.servers, nsqd)
	for i := 0; i < nLookupd; i++ {
		s := httptest.NewServer(http.HandlerFunc(u.serve))
		u.servers = append(u.servers, s)
		u.lookupds = append(u.lookupds, s.Listener.Addr().String())
	}
	if nLookupd == 0 {
		u.nsqds = []string{nsqd.Listener.Addr().String()}
	}
	return u
}

func (u *vCluster) close() {
	for _, s := range u.servers {
		s.Close()
	}
}

// nodeName: the nsqd's address as nsqadmin names nodes (broadcast_address:http_port)
func (u *vCluster) nodeName() string {
	if verifrt.Symbolic() {
		return "nsqd0:4151"
	}
	return u.servers[0].Listener.Addr().String()
}

// serve: the native nsqlookupd / nsqd (both roles on every server; the role is the path).
func (u *vCluster) serve(w http.ResponseWriter, r *http.Request) {
	q := r.URL.Query()
	u.mu.Lock()
	u.reqs = append(u.reqs, vReq{method: r.Method, path: r.URL.Path, topic: q.Get("topic"), chanl: q.Get("channel"), node: q.Get("node"), host: r.Host})
	u.mu.Unlock()
	_, port, _ := net.SplitHostPort(u.servers[0].Listener.Addr().String())
	producer := `{"remote_address":"127.0.0.1:9","hostname":"h","broadcast_address":"127.0.0.1","tcp_port":4150,"http_port":` + port +
		`,"version":"1.0.0","topics":["` + u.topic + `"],"tombstones":[false]}`
	w.Header().Set("Content-Type", "application/json")
	if r.Method != "GET" {
		io.WriteString(w, "{}")
		return
	}
	switch r.URL.Path {
	case "/lookup":
		io.WriteString(w, `{"channels":["`+u.channel+`"],"producers":[`+producer+`]}`)
	case "/nodes":
		io.WriteString(w, `{"producers":[`+producer+`]}`)
	case "/topics":
		io.WriteString(w, `{"topics":["`+u.topic+`"]}`)
	case "/channels":
		io.WriteString(w, `{"channels":["`+u.channel+`"]}`)
	case "/info":
		io.WriteString(w, `{"version":"1.0.0","broadcast_address":"127.0.0.1","hostname":"h","tcp_port":4150,"http_port":`+port+`}`)
	case "/stats":
		io.WriteString(w, `{"version":"1.0.0","health":"OK","start_time":1,"topics":[{"topic_name":"`+u.topic+
			`","depth":0,"backend_depth":0,"message_count":3,"paused":false,"channels":[{"channel_name":"`+u.channel+
			`","depth":0,"backend_depth":0,"in_flight_count":0,"deferred_count":0,"message_count":3,"requeue_count":0,"timeout_count":0,"clients":[],"paused":false}]}]}`)
	default:
		w.WriteHeader(404)
		io.WriteString(w, `{"message":"NOT_FOUND"}`)
	}
}

// total: how many requests reached the cluster (symbolic: clusterinfo calls; native: HTTP requests)
func (u *vCluster) total() int {
	if verifrt.Symbolic() {
		return len(u.calls)
	}
	u.mu.Lock()
	defer u.mu.Unlock()
	return len(u.reqs)
}

// mutations: how many state-changing requests reached the cluster
func (u *vCluster) mutations() int {
	n := 0
	if verifrt.Symbolic() {
		for _, c := range u.calls {
			if vMutatingKinds[c.kind] {
				n++
			}
		}
		return n
	}
	u.mu.Lock()
	defer u.mu.Unlock()
	for _, r := range u.reqs {
		if r.method != "GET" {
			n++
		}
	}
	return n
}

func vSameStrings(a, b []string) bool {
	if len(a) != len(b) {
		return false
	}
	for i := range a {
		if a[i] != b[i] {
			return false
		}
	}
	return true
}

// did: action `kind` was requested for exactly (topic, channel, node) against the configured
// nsqlookupds / nsqds.
func (u *vCluster) did(kind, topic, channel, node string) bool {
	if verifrt.Symbolic() {
		for _, c := range u.calls {
			if c.kind == kind && c.topic == topic && c.channel == channel && c.node == node &&
				vSameStrings(c.lookupds, u.lookupds) && vSameStrings(c.nsqds, u.nsqds) {
				return true
			}
		}
		return false
	}
	u.mu.Lock()
	defer u.mu.Unlock()
	find := func(path, ch string) bool {
		for _, r := range u.reqs {
			if r.method == "POST" && r.path == path && r.topic == topic && r.chanl == ch && r.node == node {
				return true
			}
		}
		return false
	}
	if kind == "CreateTopicChannel" {
		// with no nsqlookupd configured there is nowhere to create anything
		if len(u.lookupds) == 0 {
			return true
		}
		if !find("/topic/create", "") {
			return false
		}
		return channel == "" || find("/channel/create", channel)
	}
	return find(vKindPath[kind], channel)
}

// ---- symbolic side: recorders for every exported *ClusterInfo method ----

const vCI = "(*github.com/nsqio/nsq/internal/clusterinfo.ClusterInfo)."

func (u *vCluster) rec(kind, topic, channel, node string, lookupds, nsqds []string) {
	u.calls = append(u.calls, vCall{kind: kind, topic: topic, channel: channel, node: node, lookupds: lookupds, nsqds: nsqds})
}

func (u *vCluster) producers() clusterinfo.Producers {
	return clusterinfo.Producers{&clusterinfo.Producer{
		RemoteAddresses: []string{"127.0.0.1:9"}, RemoteAddress: "127.0.0.1:9", Hostname: "h", BroadcastAddress: "nsqd0",
		TCPPort: 4150, HTTPPort: 4151, Version: "1.0.0", Topics: clusterinfo.ProducerTopics{{Topic: u.topic}},
	}}
}

func (u *vCluster) stubClusterinfo() {
	type CI = clusterinfo.ClusterInfo
	tla := func(kind string) interface{} {
		return func(c *CI, topic string, l []string, n []string) error { u.rec(kind, topic, "", "", l, n); return nil }
	}
	tcla := func(kind string) interface{} {
		return func(c *CI, topic string, channel string, l []string, n []string) error {
			u.rec(kind, topic, channel, "", l, n)
			return nil
		}
	}
	for _, k := range []string{"DeleteTopic", "PauseTopic", "UnPauseTopic", "EmptyTopic"} {
		verifrt.Stub(vCI+k, tla(k))
	}
	for _, k := range []string{"DeleteChannel", "PauseChannel", "UnPauseChannel", "EmptyChannel"} {
		verifrt.Stub(vCI+k, tcla(k))
	}
	verifrt.Stub(vCI+"CreateTopicChannel", func(c *CI, topic string, channel string, l []string) error {
		u.rec("CreateTopicChannel", topic, channel, "", l, u.nsqds)
		return nil
	})
	verifrt.Stub(vCI+"TombstoneNodeForTopic", func(c *CI, topic string, node string, l []string) error {
		u.rec("TombstoneNodeForTopic", topic, "", node, l, u.nsqds)
		return nil
	})
	// reads
	verifrt.Stub(vCI+"GetLookupdTopics", func(c *CI, l []string) ([]string, error) {
		u.rec("GetLookupdTopics", "", "", "", l, nil)
		return []string{u.topic}, nil
	})
	verifrt.Stub(vCI+"GetNSQDTopics", func(c *CI, n []string) ([]string, error) {
		u.rec("GetNSQDTopics", "", "", "", nil, n)
		return []string{u.topic}, nil
	})
	verifrt.Stub(vCI+"GetLookupdTopicChannels", func(c *CI, topic string, l []string) ([]string, error) {
		u.rec("GetLookupdTopicChannels", topic, "", "", l, nil)
		return []string{u.channel}, nil
	})
	verifrt.Stub(vCI+"GetLookupdProducers", func(c *CI, l []string) (clusterinfo.Producers, error) {
		u.rec("GetLookupdProducers", "", "", "", l, nil)
		return u.producers(), nil
	})
	verifrt.Stub(vCI+"GetLookupdTopicProducers", func(c *CI, topic string, l []string) (clusterinfo.Producers, error) {
		u.rec("GetLookupdTopicProducers", topic, "", "", l, nil)
		return u.producers(), nil
	})
	verifrt.Stub(vCI+"GetNSQDProducers", func(c *CI, n []string) (clusterinfo.Producers, error) {
		u.rec("GetNSQDProducers", "", "", "", nil, n)
		return u.producers(), nil
	})
	verifrt.Stub(vCI+"GetNSQDTopicProducers", func(c *CI, topic string, n []string) (clusterinfo.Producers, error) {
		u.rec("GetNSQDTopicProducers", topic, "", "", nil, n)
		return u.producers(), nil
	})
	verifrt.Stub(vCI+"GetProducers", func(c *CI, l []string, n []string) (clusterinfo.Producers, error) {
		u.rec("GetProducers", "", "", "", l, n)
		return u.producers(), nil
	})
	verifrt.Stub(vCI+"GetTopicProducers", func(c *CI, topic string, l []string, n []string) (clusterinfo.Producers, error) {
		u.rec("GetTopicProducers", topic, "", "", l, n)
		return u.producers(), nil
	})
	verifrt.Stub(vCI+"GetNSQDStats", func(c *CI, p clusterinfo.Producers, topic string, channel string, clients bool) ([]*clusterinfo.TopicStats, map[string]*clusterinfo.ChannelStats, error) {
		u.rec("GetNSQDStats", topic, channel, "", nil, nil)
		cs := &clusterinfo.ChannelStats{Node: "nsqd0:4151", TopicName: u.topic, ChannelName: u.channel, MessageCount: 3}
		cs.NodeStats = []*clusterinfo.ChannelStats{{Node: "nsqd0:4151", TopicName: u.topic, ChannelName: u.channel, MessageCount: 3}}
		ts := &clusterinfo.TopicStats{Node: "nsqd0:4151", TopicName: u.topic, MessageCount: 3, Channels: []*clusterinfo.ChannelStats{cs}}
		m := map[string]*clusterinfo.ChannelStats{u.channel: cs}
		if channel != "" && channel != u.channel {
			m[channel] = &clusterinfo.ChannelStats{TopicName: topic, ChannelName: channel}
		}
		return []*clusterinfo.TopicStats{ts}, m, nil
	})
}

// ---- nsqadmin under test ----

func vOptions(u *vCluster) *Options {
	return &Options{
		LogLevel:                 lg.FATAL,
		LogPrefix:                "[nsqadmin] ",
		HTTPAddress:              "127.0.0.1:0",
		BasePath:                 "/",
		StatsdPrefix:             "nsq.%s",
		StatsdCounterFormat:      "stats.counters.%s.count",
		StatsdGaugeFormat:        "stats.gauges.%s",
		StatsdInterval:           60000000000,
		HTTPClientConnectTimeout: 2000000000,
		HTTPClientRequestTimeout: 5000000000,
		ACLHTTPHeader:            "X-Forwarded-User",
		NSQLookupdHTTPAddresses:  u.lookupds,
		NSQDHTTPAddresses:        u.nsqds,
	}
}

// vAdmin: an NSQAdmin without listener or background loops (what New() builds, minus the socket).
func vAdmin(o *Options) *NSQAdmin {
	n := &NSQAdmin{notifications: make(chan *AdminAction)}
	n.swapOpts(o)
	return n
}

// vServer: the httpServer the handlers are methods of (no router: handlers are called directly).
func vServer(n *NSQAdmin) *httpServer {
	client := http_api.NewClient(nil, n.getOpts().HTTPClientConnectTimeout, n.getOpts().HTTPClientRequestTimeout)
	return &httpServer{nsqadmin: n, client: client, ci: clusterinfo.New(n.logf, client), basePath: "/"}
}

// ---- stub ResponseWriter / request ----

type vWriter struct {
	hdr    http.Header
	status int
	body   []byte
	writes int
}

func (w *vWriter) Header() http.Header {
	if w.hdr == nil {
		w.hdr = http.Header{}
	}
	return w.hdr
}
func (w *vWriter) WriteHeader(code int) {
	if w.status == 0 {
		w.status = code
	}
}
func (w *vWriter) Write(p []byte) (int, error) {
	if w.status == 0 {
		w.status = 200
	}
	w.writes++
	w.body = append(w.body, p...)
	return len(p), nil
}

type vBody struct {
	data []byte
	pos  int
}

func (b *vBody) Read(p []byte) (int, error) {
	if b.pos >= len(b.data) {
		return 0, io.EOF
	}
	n := copy(p, b.data[b.pos:])
	b.pos += n
	return n, nil
}
func (b *vBody) Close() error { return nil }

func vRequest(method, path string, hdr http.Header, body []byte, remote string) *http.Request {
	u := &url.URL{Path: path}
	return &http.Request{
		Method: method, URL: u, Proto: "HTTP/1.1", ProtoMajor: 1, ProtoMinor: 1,
		Header: hdr, Body: &vBody{data: body}, ContentLength: int64(len(body)),
		Host: "nsqadmin", RemoteAddr: remote, RequestURI: path,
	}
}

// errCode: the status a handler error maps to (the V1 decorator answers err.(Err).Code)
func vErrCode(err error) int {
	if err == nil {
		return 200
	}
	if e, ok := err.(http_api.Err); ok {
		return e.Code
	}
	return -1
}

// vParams: httprouter parameters for a route pattern such as /api/topics/:topic/:channel
func vParams(pattern string, vals map[string]string) (httprouter.Params, string) {
	var ps httprouter.Params
	segs := strings.Split(pattern, "/")
	for i, s := range segs {
		if len(s) > 0 && s[0] == ':' {
			ps = append(ps, httprouter.Param{Key: s[1:], Value: vals[s[1:]]})
			segs[i] = vals[s[1:]]
		}
	}
	return ps, strings.Join(segs, "/")
}
