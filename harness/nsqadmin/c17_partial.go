//go:build verif

package nsqadmin

import (
	"net/http"

	"github.com/nsqio/nsq/internal/verifrt"
)

// "With an admin identity, or with no admin list, the action is carried out on every relevant
// nsqd and nsqlookupd" when PART of the nsqlookupd tier is unhealthy.
//
// L >= 2 nsqlookupds of which a non-empty STRICT subset fails - either only its read answers
// (/lookup, /nodes ... answer 500) or everything (the nsqlookupd is down) - N nsqds producing the
// topic, each registered with every nsqlookupd or with one of them only, plus one nsqd of the
// cluster that does not produce the topic. Through the real handler and the real clusterinfo
// (only the HTTP client is replaced), for every topic / channel action:
//   - the answer is neither a refusal nor a server error (nsqadmin could do what was asked on
//     everything it can see; at most it adds a warning to a 2xx answer);
//   - every nsqd that at least one ANSWERING nsqlookupd names as a producer of the topic receives
//     the action's POST for exactly this topic / channel;
//   - every ANSWERING nsqlookupd receives it when the action changes the registry (create, delete);
//   - the nsqd that does not produce the topic, and addresses outside the cluster, receive nothing.
// (An nsqd registered ONLY with failing nsqlookupds cannot be known to nsqadmin: nothing is
// required about it. A failing-but-up nsqlookupd may or may not be sent the registry change.)
// Without an admin identity the answer stays 403 and nothing is sent, whatever the health.
func VerifC17_FanOutPartialLookupdFailure() { verifrt.Atomic(verifC17FanOutPartialLookupdFailure) }

func verifC17FanOutPartialLookupdFailure() {
	// every action of the statement about a topic or a channel (tombstone is about a node and
	// asks the node itself, not the nsqlookupds: VerifC17_FanOut)
	a := vActions[verifrt.Choice("action", 9)]
	nLookupd := 2 + verifrt.Choice("extraLookupds", verifrt.Bound("extraLookupds", 1, 2))
	nNsqd := 1 + verifrt.Choice("nsqds", verifrt.Bound("nsqds", 2, 2))
	who := verifrt.Choice("who", 3) // open, admin, refused
	view, layout := vViewAll, vHostsDiffer
	failMask, down := 1, false
	if who != 2 {
		if nNsqd > 1 {
			view = verifrt.Choice("registration", 2)
			layout = verifrt.Choice("layout", verifrt.Bound("layouts", 1, 2))
		}
		// which nsqlookupds fail: any non-empty strict subset (bit i = nsqlookupd i)
		failMask = 1 + verifrt.Choice("failingLookupds", 1<<uint(nLookupd)-2)
		down = verifrt.Choice("failingLookupdIsDown", 2) == 1
	}
	u := vNewClusterHTTPTopo(nLookupd, nNsqd, 1, layout, view)
	defer u.close()
	var answering []string
	for i, l := range u.lookupdAddrs {
		switch {
		case failMask&(1<<uint(i)) == 0:
			answering = append(answering, l)
		case down:
			u.down = append(u.down, l)
		default:
			u.failGets = append(u.failGets, l)
		}
	}
	o := vOptions(u)
	hdr := http.Header{}
	if who > 0 {
		o.AdminUsers = []string{"root"}
	}
	if who == 1 {
		hdr.Set(o.ACLHTTPHeader, "root")
	}
	s := vServer(vAdmin(o))
	topic, channel := u.topic, u.channel
	req, ps := vActionRequest(a, &vIdentity{hdr: hdr}, topic, channel, u.nodeName(), false)
	w := &vWriter{}
	_, err := vCallHandler(s, a, w, req, ps)
	code := vErrCode(err)
	verifrt.Observe("code", code)
	if who == 2 {
		verifrt.Assert(code == 403, "partial-no-admin-identity-is-403")
		verifrt.Assert(u.total() == 0, "partial-forbidden-sends-nothing")
		verifrt.Reach("partial-forbidden", true)
		return
	}
	verifrt.Assert(code != 403, "partial-admin-not-forbidden")
	verifrt.Assert(code >= 200 && code < 400, "partial-lookupd-failure-is-not-a-refusal-or-server-error")

	// the nsqds nsqadmin can know about: named by at least one answering nsqlookupd
	var known, unknown []string
	for j, n := range u.nsqdAddrs {
		k := false
		for _, l := range answering {
			k = k || u.registered(l, j)
		}
		if k {
			known = append(known, n)
		} else {
			unknown = append(unknown, n)
		}
	}
	onLookupds := func(path, ch string) {
		for _, l := range answering {
			verifrt.Assert(u.posted(l, path, topic, ch, ""), "partial-action-reaches-every-answering-nsqlookupd")
		}
	}
	onNsqds := func(path, ch string) {
		for _, n := range known {
			verifrt.Assert(u.posted(n, path, topic, ch, ""), "partial-action-reaches-every-nsqd-known-through-an-answering-nsqlookupd")
		}
	}
	switch a.kind {
	case "CreateTopicChannel":
		onLookupds("/topic/create", "")
		onLookupds("/channel/create", channel)
		onNsqds("/channel/create", channel)
	case "DeleteTopic":
		onLookupds("/topic/delete", "")
		onNsqds("/topic/delete", "")
	case "DeleteChannel":
		onLookupds("/channel/delete", channel)
		onNsqds("/channel/delete", channel)
	case "PauseTopic", "UnPauseTopic", "EmptyTopic":
		onNsqds("/topic/"+a.action, "")
	default:
		onNsqds("/channel/"+a.action, channel)
	}
	for _, n := range u.idleAddrs {
		verifrt.Assert(u.postsTo(n) == 0, "partial-action-reaches-no-nsqd-that-does-not-produce-the-topic")
	}
	if verifrt.Symbolic() {
		verifrt.Assert(u.strayPosts() == 0, "partial-action-sent-only-to-upstreams-of-the-cluster")
	}
	verifrt.Reach("partial-first-nsqlookupd-fails", failMask == 1)
	verifrt.Reach("partial-last-nsqlookupd-fails", failMask == 1<<uint(nLookupd-1))
	verifrt.Reach("partial-failing-nsqlookupd-answers-500-to-reads", !down)
	verifrt.Reach("partial-failing-nsqlookupd-is-down", down)
	verifrt.Reach("partial-as-admin", who == 1)
	verifrt.Reach("partial-no-admin-list", who == 0)
	verifrt.Reach("partial-two-nsqds-all-known", nNsqd == 2 && len(known) == 2)
	verifrt.Reach("partial-nsqd-registered-only-with-the-failing-nsqlookupd", view == vViewSplit && len(unknown) == 1 && len(known) >= 1)
}
