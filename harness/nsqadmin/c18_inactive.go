//go:build verif

package nsqadmin

import (
	"encoding/json"
	"net/http"
	"net/url"

	"github.com/julienschmidt/httprouter"
	"github.com/nsqio/nsq/internal/http_api"
	"github.com/nsqio/nsq/internal/verifrt"
)

// =============================================================================================
// GET /api/topics?inactive=true (the "lookup" page): the topics registered in nsqlookupd that
// have no producer, each with its channels.
//
// The upstreams are request-aware nsqlookupd (c18_request.go) that answer from a registry the way
// nsqlookupd/http.go does: /topics = the registered topic names; /lookup?topic=X = the channels
// and (active) producers registered for exactly X, 404 TOPIC_NOT_FOUND for a topic this
// nsqlookupd has never heard of; /channels?topic=X = the channels registered for X (an empty
// list for an unknown topic). A failing nsqlookupd fails every request (connection error, error
// status or a non-JSON body).
//
// Oracle (statement: the view lists exactly the union of what the upstream daemons report; with
// a failing subset it is built from the rest and carries a warning; 502 only when none answers):
// a topic is listed iff some ANSWERING nsqlookupd has it registered and no answering nsqlookupd
// reports a producer for it; its channels are the union (by name) of the channels the answering
// nsqlookupd report for it; warning iff some nsqlookupd failed.
// =============================================================================================

type c18TopicsReply struct {
	Topics []string `json:"topics"`
}

type c18ChannelsReply struct {
	Channels []string `json:"channels"`
}

type c18RegistryLookupd struct {
	fail bool
	kind byte
	regs []*c18Registration
}

func (d *c18RegistryLookupd) serve(r *c18Request) (bool, byte, interface{}) {
	if d.fail {
		return true, d.kind, nil
	}
	switch r.path {
	case "/topics":
		names := []string{}
		for _, g := range d.regs {
			names = append(names, g.topic)
		}
		return false, 0, c18TopicsReply{Topics: names}
	case "/channels":
		topic, ok := r.get("topic")
		if !ok {
			return true, 1, nil // 400 MISSING_ARG_TOPIC
		}
		chans := []string{}
		for _, g := range d.regs {
			if g.topic == topic {
				chans = append(chans, g.channels...)
			}
		}
		return false, 0, c18ChannelsReply{Channels: chans}
	case "/lookup":
		topic, ok := r.get("topic")
		if !ok {
			return true, 1, nil // 400 MISSING_ARG_TOPIC
		}
		for _, g := range d.regs {
			if g.topic == topic {
				chans, prods := g.channels, g.producers
				if chans == nil {
					chans = []string{}
				}
				if prods == nil {
					prods = []*c18NodeJSON{}
				}
				return false, 0, c18NodesReply{Channels: chans, Producers: prods}
			}
		}
		return true, 1, nil // 404 TOPIC_NOT_FOUND
	}
	return true, 1, nil
}

// c18GetQuery: c18Get with a query string.
func c18GetQuery(h http_api.APIHandler, path, rawQuery string, ps httprouter.Params) (status int, body []byte, panicked bool) {
	w := &c18Writer{}
	req := &http.Request{Method: "GET", URL: &url.URL{Path: path, RawQuery: rawQuery}, Proto: "HTTP/1.1", ProtoMajor: 1, ProtoMinor: 1,
		Header: http.Header{}, Body: c18Body{}, Host: "nsqadmin", RemoteAddr: "127.0.0.1:5555", RequestURI: path + "?" + rawQuery}
	panicked = verifrt.Panics(func() {
		http_api.Decorate(h, http_api.V1)(w, req, ps)
	})
	if panicked {
		return 500, nil, true
	}
	return w.status, w.body, false
}

type c18InactiveView struct {
	Topics  map[string][]string `json:"topics"`
	Message string              `json:"message"`
}

// what one nsqlookupd has registered for one topic
const (
	c18RegUnknown     = 0 // never heard of the topic (/lookup answers 404)
	c18RegNoProducer  = 1 // topic and one channel registered, no producer
	c18RegProducer    = 2 // topic and one channel registered, one producer
	c18RegNoChannels  = 3 // topic registered, no channel, no producer
	c18RegTwoChannels = 4 // topic and two channels registered, no producer
)

func VerifC18_ViewInactiveTopics() {
	verifrt.Atomic(func() {
		u := c18NewDaemons()
		// bounds: per (nsqlookupd, topic) one of the first `states0` (first topic) / `states1`
		// (second topic) registration states. fleet 0 = two nsqlookupd, two topics, three states
		// each; thorough adds fleet 1 = two nsqlookupd, all five states for the first topic (the
		// second is unknown or without producer), and fleet 2 = three nsqlookupd, one topic.
		// (Every upstream fan-out of nsqadmin is one goroutine per nsqlookupd whose completion
		// orders are all explored: n! schedules per fan-out, 1 + 2 per topic fan-outs per view.)
		nL, nT, states0, states1 := 2, 2, 3, 3
		switch verifrt.Choice("inactive:fleet", verifrt.Bound("inactive:fleets", 1, 3)) {
		case 1:
			states0, states1 = 5, 2
		case 2:
			nL, nT = 3, 1
		}

		// topic names: plain words (they are the keys of the view's JSON object and part of the
		// upstream request lines); an ephemeral one exercises the escaping on the way upstream
		topics := []string{"t", "u#ephemeral"}[:nT]

		var addrs []string
		var lfail []bool
		state := make([][]int, nL)      // [lookupd][topic]
		chans := make([][][]string, nL) // [lookupd][topic] -> channel names registered there
		failed := 0
		for i := 0; i < nL; i++ {
			a := "l" + string(rune('0'+i)) + ":4161"
			addrs = append(addrs, a)
			d := &c18RegistryLookupd{}
			d.fail, d.kind = c18Fail(a)
			lfail = append(lfail, d.fail)
			state[i] = make([]int, nT)
			chans[i] = make([][]string, nT)
			if d.fail {
				failed++
				// what a failing nsqlookupd would have said must not matter: it holds every topic
				// with a producer (nobody gets to see that)
				for k := 0; k < nT; k++ {
					state[i][k] = c18RegProducer
					d.regs = append(d.regs, &c18Registration{topic: topics[k], channels: []string{"hidden"}})
				}
			} else {
				for k := 0; k < nT; k++ {
					tag := a + "." + string(rune('0'+k))
					states := states0
					if k > 0 {
						states = states1
					}
					st := verifrt.Choice(tag+".registration", states)
					state[i][k] = st
					if st == c18RegUnknown {
						continue
					}
					g := &c18Registration{topic: topics[k]}
					// channel names: nondeterministic for the first topic where they can show up in
					// the view (the solver decides equal / smaller / greater across nsqlookupd),
					// plain words elsewhere
					name := func(t, plain string) string {
						if k == 0 && st != c18RegProducer {
							return c18Name(t, 1)
						}
						return plain
					}
					if st != c18RegNoChannels {
						g.channels = append(g.channels, name(tag+".channel", []string{"c", "d", "c"}[i]))
					}
					if st == c18RegTwoChannels {
						g.channels = append(g.channels, name(tag+".channel2", "e"))
					}
					if st == c18RegProducer {
						g.producers = []*c18NodeJSON{{RemoteAddress: "10.0.0.1:1", Hostname: "hb", BroadcastAddress: "b" + string(rune('0'+i)),
							TCPPort: 4150, HTTPPort: 4151, Version: "1.3.0", Tombstones: []bool{false}, Topics: []string{topics[k]}}}
					}
					chans[i][k] = g.channels
					d.regs = append(d.regs, g)
				}
			}
			u.servers[a] = d
		}

		s := c18ServerOn(c18ServedTransport{u}, addrs, nil)
		status, body, panicked := c18GetQuery(s.topicsHandler, "/api/topics", "inactive=true", nil)
		verifrt.Assert(!panicked, "view-inactive:handler-does-not-panic")
		var v c18InactiveView
		verifrt.Assert(json.Unmarshal(body, &v) == nil, "view-inactive:body-is-json")
		if !c18Status("view-inactive", status, v.Message, nL, failed) {
			return
		}
		verifrt.Assert(u.unknown == 0, "view-inactive:no-other-daemon-asked")

		expected := 0
		for k := 0; k < nT; k++ {
			known, hasProducer, knowers := false, false, 0
			var want []string // union of the channels the answering nsqlookupd report
			for i := 0; i < nL; i++ {
				if lfail[i] || state[i][k] == c18RegUnknown {
					continue
				}
				known = true
				knowers++
				hasProducer = hasProducer || state[i][k] == c18RegProducer
				want = append(want, chans[i][k]...)
			}
			cnt := 0
			var got []string
			for name, l := range v.Topics {
				if name == topics[k] {
					cnt++
					got = l
				}
			}
			if !known || hasProducer {
				verifrt.Assert(cnt == 0, "view-inactive:unregistered-or-produced-topic-not-listed")
				verifrt.Reach("view-inactive:topic-with-a-producer-on-one-lookupd-only", hasProducer && knowers >= 2 && cnt == 0)
				continue
			}
			expected++
			verifrt.Assert(cnt == 1, "view-inactive:every-registered-topic-without-producer-listed")
			for _, c := range want {
				verifrt.Assert(c18Has(got, c), "view-inactive:every-reported-channel-listed")
			}
			for _, c := range got {
				verifrt.Assert(c18Has(want, c), "view-inactive:every-listed-channel-was-reported")
			}
			for j := 1; j < len(got); j++ {
				verifrt.Assert(got[j-1] < got[j], "view-inactive:channels-sorted-without-duplicates")
			}
			verifrt.Reach("view-inactive:listed-although-a-lookupd-failed", failed > 0 && cnt == 1)
			verifrt.Reach("view-inactive:listed-although-a-lookupd-does-not-know-it", failed == 0 && knowers < nL && cnt == 1)
			verifrt.Reach("view-inactive:channels-from-two-lookupds", knowers >= 2 && len(got) == 2)
			verifrt.Reach("view-inactive:same-channel-on-two-lookupds", knowers >= 2 && len(want) == 2 && len(got) == 1)
			if verifrt.Tier() == 1 {
				verifrt.Reach("view-inactive:topic-without-channels", len(want) == 0 && cnt == 1 && len(got) == 0)
				verifrt.Reach("view-inactive:listed-with-two-of-three-lookupds-failing", nL == 3 && failed == 2 && cnt == 1)
				verifrt.Reach("view-inactive:channels-from-three-lookupds", nL == 3 && knowers == 3 && len(got) == 3)
			}
		}
		verifrt.Assert(len(v.Topics) == expected, "view-inactive:nothing-but-the-inactive-topics")
		verifrt.Reach("view-inactive:two-inactive-topics", expected == 2 && len(v.Topics) == 2)
		verifrt.Reach("view-inactive:none", expected == 0 && len(v.Topics) == 0)
		verifrt.Observe("view-inactive.n", len(v.Topics))
	})
}
