//go:build verif

package nsqadmin

import (
	"encoding/json"
	"errors"
	"fmt"
	"net"
	"net/http"

	"github.com/julienschmidt/httprouter"
	"github.com/nsqio/nsq/internal/lg"
	"github.com/nsqio/nsq/internal/verifrt"
)

// /config/:opt from every IPv4 client address against every IPv4 CIDR (any 4-byte network, any
// prefix length 0..32), plus an IPv6 client, an unparsable client address and "no CIDR
// configured"; GET and PUT; both writable options.
//   CIDR configured and the client is not inside it  =>  the request is refused, the option is
//   neither read (no value comes back, the option table is not consulted) nor written (the
//   options nsqadmin runs with are the same object with the same values);
//   inside the CIDR, or none configured  =>  the option is read / written.
// "The client" is the peer of the connection (RemoteAddr), whatever the request says about itself:
// the request optionally carries client-supplied forwarding headers (X-Forwarded-For alone / as a
// list, X-Real-Ip, Forwarded, or all the well-known ones at once) naming ANY IPv4 address. A peer
// outside the CIDR that names an address inside stays refused; a peer inside that names an
// address outside stays served.
//
// Under gosmt the three standard-library text parsers doConfig calls (net.ParseCIDR,
// net.SplitHostPort, net.ParseIP) are replaced by their contracts over the harness's bytes (the
// results they produce for the text the native run really passes); (*net.IPNet).Contains - the
// mask comparison - is interpreted. getOptByCfgName (reflection) is replaced by a recorder.
func VerifC17_Config() { verifrt.Atomic(verifC17Config) }

func verifC17Config() {
	u := vNewCluster(1)
	defer u.close()
	o := vOptions(u)
	o.LogLevel = lg.WARN

	netw := verifrt.BytesN("net", 4)
	cl := verifrt.BytesN("client", 4)
	prefix := verifrt.Int("prefixLen")
	verifrt.Assume(prefix >= 0 && prefix <= 32)
	cidr := verifrt.Choice("cidrConfigured", 2) == 1
	// 0 IPv4 client, 1 IPv6 client, 2 RemoteAddr that is not host:port, 3 host that is not an IP
	family := 0
	if cidr {
		family = verifrt.Choice("clientKind", 4)
	}
	// client-supplied forwarding headers: 0 none, then see vForwardingHeaders
	claimed := verifrt.BytesN("claimed", 4)
	fwd := 0
	if cidr {
		if family == 0 {
			fwd = verifrt.Choice("forwardingHeaders", 6)
		} else {
			fwd = verifrt.Choice("forwardingHeaders", 2) * 5
		}
	}
	mask := uint32(0xffffffff) << uint(32-prefix)
	net32 := uint32(netw[0])<<24 | uint32(netw[1])<<16 | uint32(netw[2])<<8 | uint32(netw[3])
	cl32 := uint32(cl[0])<<24 | uint32(cl[1])<<16 | uint32(cl[2])<<8 | uint32(cl[3])
	// reference: membership of an address in a CIDR block
	inside := (net32^cl32)&mask == 0
	allowed := !cidr || (family == 0 && inside)
	hd32 := uint32(claimed[0])<<24 | uint32(claimed[1])<<16 | uint32(claimed[2])<<8 | uint32(claimed[3])
	claimedInside := (net32^hd32)&mask == 0

	remote := fmt.Sprintf("%d.%d.%d.%d:5555", cl[0], cl[1], cl[2], cl[3])
	claimedText := fmt.Sprintf("%d.%d.%d.%d", claimed[0], claimed[1], claimed[2], claimed[3])
	switch family {
	case 1:
		remote = fmt.Sprintf("[2001:db8::%x]:5555", cl[3])
	case 2:
		remote = "not-an-address"
	case 3:
		remote = "localhost:5555"
	}
	if cidr {
		o.AllowConfigFromCIDR = fmt.Sprintf("%d.%d.%d.%d/%d", netw[0], netw[1], netw[2], netw[3], prefix)
	}
	reads := 0
	if verifrt.Symbolic() {
		if cidr {
			o.AllowConfigFromCIDR = "a.b.c.d/n" // the text is the parsers' business
		}
		m := net.IPMask{byte(mask >> 24), byte(mask >> 16), byte(mask >> 8), byte(mask)}
		verifrt.Stub("net.ParseCIDR", func(s string) (net.IP, *net.IPNet, error) {
			ip := net.IP{netw[0], netw[1], netw[2], netw[3]}
			return ip, &net.IPNet{IP: net.IP{netw[0] & m[0], netw[1] & m[1], netw[2] & m[2], netw[3] & m[3]}, Mask: m}, nil
		})
		// the texts stand for themselves: "peer:5555" is the peer's host:port, "claimed" the
		// address the forwarding headers name
		remote, claimedText = "peer:5555", "claimed"
		if family == 2 {
			remote = "peer"
		}
		verifrt.Stub("net.SplitHostPort", func(hostport string) (string, string, error) {
			if hostport == "peer:5555" {
				return "peer", "5555", nil
			}
			return "", "", errors.New("missing port in address")
		})
		verifrt.Stub("net.ParseIP", func(s string) net.IP {
			switch {
			case s == "claimed":
				return net.IP{0, 0, 0, 0, 0, 0, 0, 0, 0, 0, 0xff, 0xff, claimed[0], claimed[1], claimed[2], claimed[3]}
			case s == "192.0.2.1":
				return net.IP{0, 0, 0, 0, 0, 0, 0, 0, 0, 0, 0xff, 0xff, 192, 0, 2, 1}
			case s != "peer":
				return nil
			}
			switch family {
			case 0:
				return net.IP{0, 0, 0, 0, 0, 0, 0, 0, 0, 0, 0xff, 0xff, cl[0], cl[1], cl[2], cl[3]}
			case 1:
				return net.IP{0x20, 0x01, 0x0d, 0xb8, 0, 0, 0, 0, 0, 0, 0, 0, 0, 0, 0, cl[3]}
			}
			return nil
		})
		verifrt.Stub("github.com/nsqio/nsq/nsqadmin.getOptByCfgName", func(opts interface{}, name string) (interface{}, bool) {
			reads++
			op := opts.(*Options)
			switch name {
			case "log_level":
				return op.LogLevel, true
			case "nsqlookupd_http_addresses":
				return op.NSQLookupdHTTPAddresses, true
			}
			return nil, false
		})
	}
	n := vAdmin(o)
	s := vServer(n)

	put := verifrt.Choice("put", 2) == 1
	opt := []string{"log_level", "nsqlookupd_http_addresses"}[verifrt.Choice("opt", 2)]
	method := "GET"
	var body []byte
	if put {
		method = "PUT"
		if opt == "log_level" {
			body = []byte("debug")
		} else {
			body, _ = json.Marshal([]string{"new-lookupd:4161"})
		}
	}
	oldLookupds := o.NSQLookupdHTTPAddresses
	req := vRequest(method, "/config/"+opt, vForwardingHeaders(fwd, claimedText), body, remote)
	w := &vWriter{}
	v, err := s.doConfig(w, req, httprouter.Params{{Key: "opt", Value: opt}})
	code := vErrCode(err)
	verifrt.Observe("code", code)
	now := n.getOpts()

	if !allowed {
		verifrt.Assert(code != 200, "config-refused-outside-cidr")
		verifrt.Assert(v == nil, "config-not-read-outside-cidr")
		verifrt.Assert(reads == 0, "config-option-table-not-consulted-outside-cidr")
		verifrt.Assert(now == o && o.LogLevel == lg.WARN && vSameStrings(o.NSQLookupdHTTPAddresses, oldLookupds), "config-not-written-outside-cidr")
		if family == 0 {
			verifrt.Assert(code == 403, "config-outside-cidr-is-403")
		}
		verifrt.Reach("outside-cidr-get", !put && family == 0)
		verifrt.Reach("outside-cidr-put", put && family == 0)
		verifrt.Reach("outside-one-bit-off", family == 0 && prefix == 31 && (net32^cl32) == 2)
		verifrt.Reach("outside-peer-naming-an-inside-address-get", !put && family == 0 && fwd > 0 && claimedInside)
		verifrt.Reach("outside-peer-naming-an-inside-address-put", put && family == 0 && fwd > 0 && claimedInside)
		verifrt.Reach("outside-peer-x-forwarded-for-inside", family == 0 && fwd == 1 && claimedInside)
		verifrt.Reach("ipv6-peer-naming-an-inside-address", family == 1 && fwd > 0 && claimedInside)
		verifrt.Reach("ipv6-client", family == 1)
		verifrt.Reach("bad-remote-addr", family >= 2)
		return
	}
	verifrt.Assert(code == 200, "config-available-inside-cidr")
	if put {
		if opt == "log_level" {
			verifrt.Assert(now.LogLevel == lg.DEBUG, "config-put-takes-effect")
		} else {
			verifrt.Assert(len(now.NSQLookupdHTTPAddresses) == 1 && now.NSQLookupdHTTPAddresses[0] == "new-lookupd:4161", "config-put-takes-effect")
		}
	} else {
		verifrt.Assert(now == o, "config-get-writes-nothing")
	}
	if opt == "log_level" {
		lv, ok := v.(lg.LogLevel)
		verifrt.Assert(ok && lv == now.LogLevel, "config-returns-current-value")
	}
	verifrt.Reach("inside-peer-naming-an-outside-address-get", !put && cidr && fwd > 0 && !claimedInside)
	verifrt.Reach("inside-peer-naming-an-outside-address-put", put && cidr && fwd > 0 && !claimedInside)
	verifrt.Reach("inside-peer-x-forwarded-for-outside", cidr && fwd == 1 && !claimedInside)
	verifrt.Reach("inside-cidr-put", put && cidr && prefix > 8 && prefix < 32)
	verifrt.Reach("inside-cidr-get", !put && cidr)
	verifrt.Reach("no-cidr", !cidr)
	verifrt.Reach("prefix-0-admits-all", cidr && prefix == 0 && net32 != cl32)
}

// vForwardingHeaders: the headers of a /config request whose sender says "I am <addr>" in one of
// the ways reverse proxies (and therefore any client) can:
//   0 nothing, 1 X-Forwarded-For: addr, 2 X-Forwarded-For: addr, 192.0.2.1 (a proxy chain),
//   3 X-Real-Ip: addr, 4 Forwarded: for=addr, 5 every well-known header at once
func vForwardingHeaders(kind int, addr string) http.Header {
	h := http.Header{}
	switch kind {
	case 1:
		h.Set("X-Forwarded-For", addr)
	case 2:
		h.Set("X-Forwarded-For", addr+", 192.0.2.1")
	case 3:
		h.Set("X-Real-Ip", addr)
	case 4:
		h.Set("Forwarded", "for="+addr)
	case 5:
		for _, k := range []string{"X-Forwarded-For", "X-Real-Ip", "X-Client-Ip", "X-Cluster-Client-Ip", "True-Client-Ip", "Cf-Connecting-Ip", "X-Forwarded", "Forwarded-For"} {
			h.Set(k, addr)
		}
		h.Set("Forwarded", "for="+addr+";proto=http")
		h.Set("X-Forwarded-Host", addr)
	}
	return h
}
