//go:build verif

package nsqadmin

import (
	"strings"

	"github.com/nsqio/nsq/internal/verifrt"
)

// The three options that decide who may change state are settable from the command line AND from
// the config file under their documented names (contrib/nsqadmin.cfg.example): an admin list or a
// CIDR written in the config file must not be silently ignored. The option resolver binds a field
// to the config key given by its `cfg` tag or, without one, by its `flag` name with '-' replaced
// by '_'; the tags are read from the current source.
func vCfgKey(tag string) (flagName, cfgKey string) {
	get := func(key string) string {
		i := strings.Index(tag, key+`:"`)
		if i < 0 {
			return ""
		}
		rest := tag[i+len(key)+2:]
		j := strings.IndexByte(rest, '"')
		if j < 0 {
			return ""
		}
		return rest[:j]
	}
	flagName = get("flag")
	cfgKey = get("cfg")
	if cfgKey == "" {
		cfgKey = strings.ReplaceAll(flagName, "-", "_")
	}
	return
}

func VerifC17_SecurityOptionsKeepTheirDocumentedNames() {
	o := NewOptions()
	for _, want := range [][3]string{
		{"AdminUsers", "admin-user", "admin_users"},
		{"ACLHTTPHeader", "acl-http-header", "acl_http_header"},
		{"AllowConfigFromCIDR", "allow-config-from-cidr", "allow_config_from_cidr"},
	} {
		f, c := vCfgKey(verifrt.StructTag(o, want[0]))
		verifrt.Assert(f == want[1], "option-keeps-its-documented-flag:"+want[0])
		verifrt.Assert(c == want[2], "option-keeps-its-documented-config-key:"+want[0])
	}
	verifrt.Reach("options-inspected", true)
}
