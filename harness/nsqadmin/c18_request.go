//go:build verif

package nsqadmin

import (
	"bytes"
	"encoding/json"
	"errors"
	"io"
	"net/http"
	"net/url"

	"github.com/julienschmidt/httprouter"
	"github.com/nsqio/nsq/internal/http_api"
	"github.com/nsqio/nsq/internal/verifrt"
)

// =============================================================================================
// Upstream daemons that answer according to the REQUEST they receive.
//
// The scripted cluster of c18_env.go is keyed by the complete endpoint string, which only works
// while every name in a request is a plain word. Here every upstream is a server: the endpoint
// that reaches GETV1 is taken apart the way the HTTP client and the server do it
// (scheme://host/path?query#fragment: everything after the first '#' stays in the client; the
// server splits the query at '&' and '=' and percent-decodes it) and the daemon answers from
// what it HOLDS for the names it was asked about - an nsqlookupd from its registrations, an
// nsqd from its topics and channels. Under gosmt GETV1 is redirected to c18ServedGETV1 (the
// small request-line parser below); natively the real GETV1 runs (http.NewRequest = net/url) on
// a RoundTripper that hands req.URL.Host / Path / url.ParseQuery(RawQuery) to the same daemons.
// =============================================================================================

type c18Request struct {
	host string
	path string
	args [][2]string
	bad  bool // the query does not decode: the daemons answer 400 INVALID_REQUEST
}

// first value of an argument, as http_api.ReqParams.Get
func (r *c18Request) get(key string) (string, bool) {
	for _, kv := range r.args {
		if kv[0] == key {
			return kv[1], true
		}
	}
	return "", false
}

func c18Unhex(c byte) (byte, bool) {
	switch {
	case c >= '0' && c <= '9':
		return c - '0', true
	case c >= 'a' && c <= 'f':
		return c - 'a' + 10, true
	case c >= 'A' && c <= 'F':
		return c - 'A' + 10, true
	}
	return 0, false
}

func c18QueryUnescape(s string) (string, bool) {
	var out []byte
	for i := 0; i < len(s); i++ {
		switch s[i] {
		case '%':
			if i+2 >= len(s) {
				return "", false
			}
			hi, ok1 := c18Unhex(s[i+1])
			lo, ok2 := c18Unhex(s[i+2])
			if !ok1 || !ok2 {
				return "", false
			}
			out = append(out, hi<<4|lo)
			i += 2
		case '+':
			out = append(out, ' ')
		default:
			out = append(out, s[i])
		}
	}
	return string(out), true
}

func c18Cut(s string, sep byte) (before, after string, found bool) {
	for i := 0; i < len(s); i++ {
		if s[i] == sep {
			return s[:i], s[i+1:], true
		}
	}
	return s, "", false
}

func c18ParseEndpoint(endpoint string) (*c18Request, bool) {
	const scheme = "http://"
	if len(endpoint) < len(scheme) || endpoint[:len(scheme)] != scheme {
		return nil, false
	}
	rest := endpoint[len(scheme):]
	rest, _, _ = c18Cut(rest, '#')
	rest, query, _ := c18Cut(rest, '?')
	r := &c18Request{}
	host, path, hasPath := c18Cut(rest, '/')
	r.host = host
	r.path = "/"
	if hasPath {
		r.path = "/" + path
	}
	for query != "" {
		var arg string
		arg, query, _ = c18Cut(query, '&')
		if arg == "" {
			continue
		}
		for i := 0; i < len(arg); i++ {
			if arg[i] == ';' {
				r.bad = true
			}
		}
		k, v, _ := c18Cut(arg, '=')
		dk, ok1 := c18QueryUnescape(k)
		dv, ok2 := c18QueryUnescape(v)
		if !ok1 || !ok2 {
			r.bad = true
			continue
		}
		r.args = append(r.args, [2]string{dk, dv})
	}
	return r, true
}

type c18Daemon interface {
	serve(r *c18Request) (fail bool, kind byte, reply interface{})
}

type c18Daemons struct {
	servers  map[string]c18Daemon
	requests []*c18Request
	unknown  int
}

var c18Served *c18Daemons

func c18NewDaemons() *c18Daemons {
	c18Served = &c18Daemons{servers: map[string]c18Daemon{}}
	verifrt.Stub("(*github.com/nsqio/nsq/internal/http_api.Client).GETV1", c18ServedGETV1)
	return c18Served
}

func (u *c18Daemons) dispatch(r *c18Request) (bool, byte, interface{}) {
	u.requests = append(u.requests, r)
	s := u.servers[r.host]
	if s == nil {
		u.unknown++
		return true, 0, nil
	}
	if r.bad {
		return true, 1, nil
	}
	return s.serve(r)
}

func c18ServedGETV1(c *http_api.Client, endpoint string, v interface{}) error {
	r, ok := c18ParseEndpoint(endpoint)
	if !ok {
		return errors.New("verif: unsupported protocol scheme")
	}
	fail, _, reply := c18Served.dispatch(r)
	if fail {
		return errors.New("verif: upstream failed")
	}
	body, _ := json.Marshal(reply)
	return json.Unmarshal(body, v)
}

type c18ServedTransport struct{ u *c18Daemons }

func (t c18ServedTransport) RoundTrip(req *http.Request) (*http.Response, error) {
	c18NativeLock <- struct{}{}
	defer func() { <-c18NativeLock }()
	r := &c18Request{host: req.URL.Host, path: req.URL.Path}
	if r.path == "" {
		r.path = "/"
	}
	vals, err := url.ParseQuery(req.URL.RawQuery)
	if err != nil {
		r.bad = true
	}
	for k, v := range vals {
		if len(v) > 0 {
			r.args = append(r.args, [2]string{k, v[0]})
		}
	}
	mk := func(code int, body []byte) *http.Response {
		return &http.Response{StatusCode: code, Status: http.StatusText(code), Proto: "HTTP/1.1", ProtoMajor: 1, ProtoMinor: 1,
			Header: http.Header{}, Body: io.NopCloser(bytes.NewReader(body)), Request: req}
	}
	fail, kind, reply := t.u.dispatch(r)
	if fail {
		switch kind % 3 {
		case 0:
			return nil, errors.New("verif: connection refused")
		case 1:
			return mk(404, []byte(`{"message":"NOT_FOUND"}`)), nil
		}
		return mk(200, []byte(`nsqd v1.3.0 (built w/go1.23)`)), nil
	}
	body, _ := json.Marshal(reply)
	return mk(200, body), nil
}

// ---- an nsqlookupd with registrations ----
// GET /lookup?topic=X (nsqlookupd/http.go doLookup): the producers and channels registered for
// exactly X; 400 without the argument, 404 TOPIC_NOT_FOUND for a topic nobody registered.

type c18Registration struct {
	topic     string
	channels  []string
	producers []*c18NodeJSON
}

type c18HoldingLookupd struct {
	fail bool
	kind byte
	regs []*c18Registration
}

func (d *c18HoldingLookupd) serve(r *c18Request) (bool, byte, interface{}) {
	if d.fail {
		return true, d.kind, nil
	}
	if r.path != "/lookup" {
		return true, 1, nil
	}
	topic, ok := r.get("topic")
	if !ok {
		return true, 1, nil
	}
	for _, g := range d.regs {
		if g.topic == topic {
			return false, 0, c18NodesReply{Channels: g.channels, Producers: g.producers}
		}
	}
	return true, 1, nil
}

// ---- an nsqd that holds topics and channels ----
// GET /stats (nsqd/http.go doStats, nsqd/stats.go GetStats): `topic` selects the one topic with
// exactly that name (none if absent), `channel` keeps only the topics having exactly that
// channel, reduced to it; include_clients=false|0 leaves the client lists out; anything but
// format=json is the text page. GET /info: who it is.

type c18HoldingNSQD struct {
	fail   bool
	kind   byte
	info   c18InfoReply
	topics []*c18TopicJSON
}

func (d *c18HoldingNSQD) serve(r *c18Request) (bool, byte, interface{}) {
	if d.fail {
		return true, d.kind, nil
	}
	switch r.path {
	case "/info":
		return false, 0, d.info
	case "/stats":
		if f, _ := r.get("format"); f != "json" {
			return true, 2, nil
		}
		topic, _ := r.get("topic")
		channel, _ := r.get("channel")
		ic, _ := r.get("include_clients")
		return false, 0, c18StatsReply{Version: "1.3.0", Health: "OK",
			Topics: c18SelectStats(d.topics, topic, channel, !(ic == "false" || ic == "0"))}
	}
	return true, 1, nil
}

func c18SelectStats(topics []*c18TopicJSON, topic, channel string, includeClients bool) []*c18TopicJSON {
	out := []*c18TopicJSON{}
	for _, t := range topics {
		if topic != "" && t.TopicName != topic {
			continue
		}
		chans := []*c18ChannelJSON{}
		for _, c := range t.Channels {
			if channel != "" && c.ChannelName != channel {
				continue
			}
			cc := *c
			if !includeClients {
				cc.Clients = nil
			}
			chans = append(chans, &cc)
		}
		if channel != "" && len(chans) == 0 {
			continue
		}
		tt := *t
		tt.Channels = chans
		out = append(out, &tt)
	}
	return out
}

func c18Sibling(name string) string {
	const eph = "#ephemeral"
	if len(name) > len(eph) && name[len(name)-len(eph):] == eph {
		return name[:len(name)-len(eph)]
	}
	return name + eph
}

// c18NamedFleet: two nsqd (each failing, or holding the selected topic / channel and their
// siblings - the same names without / with "#ephemeral" - with their own numbers), seen through
// two nsqlookupd (each failing or answering; l0 has both nsqd registered for the selected topic,
// l1 only n1; both have only n1 registered for the sibling) or in direct-nsqd mode.
// The reference fields of c18Fleet (asked, failures per stage) are filled in from what the
// daemons hold, not from what they get asked.
func c18NamedFleet(selTopic, chanName string) (*c18Fleet, *c18Daemons) {
	u := c18NewDaemons()
	f := &c18Fleet{lookupds: []string{"l0:4161", "l1:4161"}, stage1: 2}
	if verifrt.Choice("direct-nsqd-mode", 2) == 1 {
		f.direct = true
		f.lookupds = nil
	}
	sibTopic, sibChan := c18Sibling(selTopic), c18Sibling(chanName)
	holdings := verifrt.Bound("holdings", 2, 4)
	var daemons []*c18HoldingNSQD
	for i := 0; i < 2; i++ {
		n := &c18Node{bcast: []string{"b0", "b1"}[i], host: []string{"hb", "ha"}[i]}
		n.addr = n.bcast + ":4151"
		d := &c18HoldingNSQD{info: c18InfoReply{Version: "1.3.0", BroadcastAddress: n.bcast, Hostname: n.host, HTTPPort: 4151, TCPPort: 4150}}
		n.fail, d.kind = c18Fail(n.addr)
		d.fail = n.fail
		if !n.fail {
			paused := i == 1
			tag := n.addr
			switch verifrt.Choice(n.addr+".holding", holdings) {
			case 0: // the selected topic and its sibling, each with both channels
				n.topics = []*c18TopicJSON{
					c18Topic(tag+"."+sibTopic, sibTopic, false, c18Chan(tag+"."+sibTopic+"."+chanName, chanName, 1, false)),
					c18Topic(tag+"."+selTopic, selTopic, paused,
						c18Chan(tag+"."+selTopic+"."+sibChan, sibChan, 1, false),
						c18Chan(tag+"."+selTopic+"."+chanName, chanName, 2, paused))}
			case 1: // only the selected topic with the selected channel
				n.topics = []*c18TopicJSON{c18Topic(tag+"."+selTopic, selTopic, paused, c18Chan(tag+"."+selTopic+"."+chanName, chanName, 1, paused))}
			case 2: // only the sibling topic: a node that does not (or no longer) have the selected one
				n.topics = []*c18TopicJSON{c18Topic(tag+"."+sibTopic, sibTopic, false, c18Chan(tag+"."+sibTopic+"."+chanName, chanName, 1, false))}
			case 3: // the selected topic with the sibling channel only
				n.topics = []*c18TopicJSON{c18Topic(tag+"."+selTopic, selTopic, paused, c18Chan(tag+"."+selTopic+"."+sibChan, sibChan, 1, false))}
			}
		}
		d.topics = n.topics
		f.nodes = append(f.nodes, n)
		daemons = append(daemons, d)
		u.servers[n.addr] = d
	}
	f.knownBy = make([]int, 2)
	if f.direct {
		// discovery = asking every configured nsqd itself: the producers of the topic are the
		// answering nsqd that hold it
		for j, n := range f.nodes {
			f.nsqds = append(f.nsqds, n.addr)
			if n.fail {
				f.lookupFailed++
				continue
			}
			has := false
			for _, t := range n.topics {
				has = has || t.TopicName == selTopic
			}
			if has {
				f.knownBy[j] = 1
				f.asked = append(f.asked, n)
			}
		}
		return f, u
	}
	peer := func(n *c18Node, topic string) *c18NodeJSON {
		return &c18NodeJSON{RemoteAddress: "10.0.0.1:1", Hostname: n.host, BroadcastAddress: n.bcast,
			TCPPort: 4150, HTTPPort: 4151, Version: "1.3.0", Tombstones: []bool{false}, Topics: []string{topic}}
	}
	for i, l := range f.lookupds {
		d := &c18HoldingLookupd{}
		d.fail, d.kind = c18Fail(l)
		f.lfail = append(f.lfail, d.fail)
		sel := &c18Registration{topic: selTopic, channels: []string{chanName}}
		for j, n := range f.nodes {
			if i == 0 || j == 1 {
				sel.producers = append(sel.producers, peer(n, selTopic))
				if !d.fail {
					f.knownBy[j]++
				}
			}
		}
		d.regs = []*c18Registration{
			{topic: sibTopic, channels: []string{chanName}, producers: []*c18NodeJSON{peer(f.nodes[1], sibTopic)}},
			sel}
		if d.fail {
			f.lookupFailed++
		}
		u.servers[l] = d
	}
	for j, n := range f.nodes {
		if f.knownBy[j] > 0 {
			f.asked = append(f.asked, n)
			if n.fail {
				f.statsFailed++
			}
		}
	}
	return f, u
}

// GET /api/topics/:topic and GET /api/topics/:topic/:channel for names that need care on their
// way into the upstream requests ("#ephemeral" topics and channels): the view is the selected
// topic / channel - exactly that name, nothing of its sibling - aggregated over the nsqd that
// hold it, with the statement's status mapping.
func VerifC18_ViewEphemeralNames() {
	verifrt.Atomic(func() {
		selTopic, selChan := "", ""
		switch verifrt.Choice("selection", verifrt.Bound("selections", 3, 4)) {
		case 0: // topic page of an ephemeral topic
			selTopic = "t#ephemeral"
		case 1: // channel page, both ephemeral
			selTopic, selChan = "t#ephemeral", "c#ephemeral"
		case 2: // channel page, ephemeral channel of a durable topic that has an ephemeral sibling
			selTopic, selChan = "t", "c#ephemeral"
		case 3: // the durable sibling of an ephemeral topic
			selTopic = "t"
		}
		chanName := selChan
		if chanName == "" {
			chanName = "c#ephemeral"
		}
		f, u := c18NamedFleet(selTopic, chanName)
		s := c18ServerOn(c18ServedTransport{u}, f.lookupds, f.nsqds)

		if selChan == "" {
			status, body, panicked := c18Get(s.topicHandler, "/api/topics/"+selTopic, httprouter.Params{{Key: "topic", Value: selTopic}})
			verifrt.Assert(!panicked, "view-named-topic:handler-does-not-panic")
			var v c18TopicView
			verifrt.Assert(json.Unmarshal(body, &v) == nil, "view-named-topic:body-is-json")
			if !f.status("view-named-topic", status, v.Message) {
				return
			}
			verifrt.Assert(u.unknown == 0, "view-named-topic:no-other-daemon-asked")
			have, chanNames := c18CheckTopicView("view-named-topic", f, &v, selTopic)
			verifrt.Reach("view-named-topic:ephemeral-topic-on-two-nodes", selTopic == "t#ephemeral" && have == 2 && len(v.Nodes) == 2)
			verifrt.Reach("view-named-topic:ephemeral-topic-direct-mode", selTopic == "t#ephemeral" && f.direct && have >= 1 && len(v.Nodes) == have)
			verifrt.Reach("view-named-topic:ephemeral-and-durable-channel", have >= 1 && len(chanNames) == 2 && len(v.Channels) == 2)
			verifrt.Observe("view-named-topic.nodes", len(v.Nodes))
			return
		}

		status, body, panicked := c18Get(s.channelHandler, "/api/topics/"+selTopic+"/"+selChan,
			httprouter.Params{{Key: "topic", Value: selTopic}, {Key: "channel", Value: selChan}})
		sum := f.chanSum(selTopic, selChan)
		if panicked {
			// answered with a 500 by the router (no crash); tolerated only where there is nothing
			// to show: no answering node holds the channel
			verifrt.Assert(sum.nodes == 0, "view-named-channel:handler-panics-only-for-a-channel-nobody-reports")
			return
		}
		var v c18ChanView
		verifrt.Assert(json.Unmarshal(body, &v) == nil, "view-named-channel:body-is-json")
		if !f.status("view-named-channel", status, v.Message) {
			return
		}
		verifrt.Assert(u.unknown == 0, "view-named-channel:no-other-daemon-asked")
		c18CheckChannelView("view-named-channel", f, &v, sum, selTopic, selChan)
		verifrt.Reach("view-named-channel:ephemeral-channel-on-two-nodes", sum.nodes == 2 && len(v.Nodes) == 2 && len(v.Clients) == sum.clients && sum.clients >= 2)
		verifrt.Reach("view-named-channel:ephemeral-channel-of-durable-topic", selTopic == "t" && sum.nodes >= 1 && len(v.Nodes) == sum.nodes)
		verifrt.Reach("view-named-channel:direct-mode", f.direct && sum.nodes >= 1 && len(v.Nodes) == sum.nodes)
		verifrt.Observe("view-named-channel.nodes", len(v.Nodes))
	})
}
