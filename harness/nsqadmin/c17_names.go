//go:build verif

package nsqadmin

import (
	"encoding/json"
	"errors"
	"net/http"
	"net/url"
	"strconv"

	"github.com/nsqio/nsq/internal/http_api"
	"github.com/nsqio/nsq/internal/verifrt"
)

// =============================================================================================
// "With an admin identity, or with no admin list, the action is carried out on every relevant nsqd
// and nsqlookupd": THE REQUESTED action on THE NAMED topic / channel / node.
//
// VerifC17_FanOut runs with the plain names "tt" / "cc" and compares the endpoint text. nsq names
// are [.a-zA-Z0-9_-]+ with an optional "#ephemeral" suffix, and '#' starts the URL fragment, which
// never leaves the HTTP client: a name that reaches the URL unescaped arrives cut short, and the
// upstream carries the action out on ANOTHER object (the durable topic / channel of the same base
// name). So here the upstreams are servers ("strict" cluster): they take the request apart the
// way a real one does - split at the first '#', then '?', '&', '=', percent-decode - and they
// answer, and are judged, by the names they READ:
//   - under gosmt (*http_api.Client).GETV1 / POSTV1 are redirected to vqParse + serveStrict;
//   - in a native replay the real client talks to loopback httptest servers (real sockets: the
//     fragment is really not sent) whose handler feeds the same serveStrict.
// An nsqlookupd names producers only for the topic the cluster has, an nsqd lists only the topic it
// has, a change of something an upstream does not hold is answered 404.
// =============================================================================================

func vqUnhex(c byte) (byte, bool) {
	switch {
	case c >= '0' && c <= '9':
		return c - '0', true
	case c >= 'a' && c <= 'f':
		return c - 'a' + 10, true
	case c >= 'A' && c <= 'F':
		return c - 'A' + 10, true
	}
	return 0, false
}

// percent-decoding of one query component (url.QueryUnescape)
func vqUnescape(s string) (string, bool) {
	var out []byte
	for i := 0; i < len(s); i++ {
		switch s[i] {
		case '%':
			if i+2 >= len(s) {
				return "", false
			}
			hi, ok1 := vqUnhex(s[i+1])
			lo, ok2 := vqUnhex(s[i+2])
			if !ok1 || !ok2 {
				return "", false
			}
			out = append(out, hi<<4|lo)
			i += 2
		case '+':
			out = append(out, ' ')
		default:
			out = append(out, s[i])
		}
	}
	return string(out), true
}

func vqCut(s string, sep byte) (before, after string, found bool) {
	for i := 0; i < len(s); i++ {
		if s[i] == sep {
			return s[:i], s[i+1:], true
		}
	}
	return s, "", false
}

// vqParse: the request the server behind `endpoint` gets to see (first value per key, like
// url.Values.Get; nargs counts every argument)
func vqParse(method, endpoint string) (*vReq, bool) {
	const scheme = "http://"
	if len(endpoint) < len(scheme) || endpoint[:len(scheme)] != scheme {
		return nil, false
	}
	rest := endpoint[len(scheme):]
	rest, _, _ = vqCut(rest, '#') // the fragment stays in the client
	rest, query, _ := vqCut(rest, '?')
	r := &vReq{method: method}
	host, path, hasPath := vqCut(rest, '/')
	r.srv = host
	r.path = "/"
	if hasPath {
		r.path = "/" + path
	}
	seenT, seenC, seenN := false, false, false
	for query != "" {
		var arg string
		arg, query, _ = vqCut(query, '&')
		if arg == "" {
			continue
		}
		for i := 0; i < len(arg); i++ {
			if arg[i] == ';' { // url.ParseQuery refuses semicolons
				r.bad = true
			}
		}
		k, v, _ := vqCut(arg, '=')
		dk, ok1 := vqUnescape(k)
		dv, ok2 := vqUnescape(v)
		if !ok1 || !ok2 {
			r.bad = true
			continue
		}
		r.nargs++
		switch {
		case dk == "topic" && !seenT:
			r.topic, seenT = dv, true
		case dk == "channel" && !seenC:
			r.chanl, seenC = dv, true
		case dk == "node" && !seenN:
			r.node, seenN = dv, true
		}
	}
	return r, true
}

type vqProducer struct {
	RemoteAddress    string   `json:"remote_address"`
	Hostname         string   `json:"hostname"`
	BroadcastAddress string   `json:"broadcast_address"`
	TCPPort          int      `json:"tcp_port"`
	HTTPPort         int      `json:"http_port"`
	Version          string   `json:"version"`
	Topics           []string `json:"topics"`
	Tombstones       []bool   `json:"tombstones"`
}

type vqTopic struct {
	Name string `json:"topic_name"`
}

// serveStrict: the nsqlookupd / nsqd at r.srv answers request r (already recorded by the caller)
// from what it holds: status 200 / 400 / 404 and the JSON document of a 200.
func (u *vCluster) serveStrict(r *vReq) (int, []byte) {
	li, ni, ii := vIndexOf(u.lookupdAddrs, r.srv), vIndexOf(u.nsqdAddrs, r.srv), vIndexOf(u.idleAddrs, r.srv)
	if li < 0 && ni < 0 && ii < 0 {
		return 404, nil
	}
	if r.bad {
		return 400, nil
	}
	ok := []byte("{}")
	holds := u.topic // the topic this nsqd has
	if ii >= 0 {
		holds = vOtherTopic
	}
	if r.method != "GET" {
		if r.topic == "" {
			return 400, nil // MISSING_ARG_TOPIC
		}
		switch r.path {
		case "/topic/create":
			return 200, ok
		case "/channel/create":
			if r.chanl == "" {
				return 400, nil
			}
			return 200, ok
		case "/topic/tombstone":
			if li < 0 {
				return 404, nil
			}
			if r.node == "" {
				return 400, nil
			}
			return 200, ok
		case "/topic/delete":
			if li >= 0 || r.topic == holds {
				return 200, ok // (nsqlookupd: removing what is not registered is not an error)
			}
			return 404, nil // TOPIC_NOT_FOUND
		case "/topic/pause", "/topic/unpause", "/topic/empty":
			if li < 0 && r.topic == holds {
				return 200, ok
			}
			return 404, nil
		case "/channel/delete":
			if r.chanl == "" {
				return 400, nil
			}
			if r.topic == holds && r.chanl == u.channel {
				return 200, ok
			}
			return 404, nil // TOPIC_NOT_FOUND / CHANNEL_NOT_FOUND
		case "/channel/pause", "/channel/unpause", "/channel/empty":
			if r.chanl == "" {
				return 400, nil
			}
			if li < 0 && r.topic == holds && r.chanl == u.channel {
				return 200, ok
			}
			return 404, nil
		}
		return 404, nil
	}
	var doc []byte
	switch {
	case r.path == "/lookup" && li >= 0:
		if r.topic == "" {
			return 400, nil
		}
		if r.topic != u.topic {
			return 404, nil // TOPIC_NOT_FOUND
		}
		ps := []vqProducer{}
		for j, a := range u.nsqdAddrs {
			if u.registered(r.srv, j) {
				h, p := vHostPort(a)
				port, _ := strconv.Atoi(p)
				ps = append(ps, vqProducer{"127.0.0.1:9", "h", h, 4150, port, "1.0.0", []string{u.topic}, []bool{false}})
			}
		}
		doc, _ = json.Marshal(struct {
			Channels  []string     `json:"channels"`
			Producers []vqProducer `json:"producers"`
		}{[]string{u.channel}, ps})
	case r.path == "/stats" && li < 0:
		// nsqd's /stats?topic=X lists X alone, or nothing
		ts := []vqTopic{}
		if r.topic == "" || r.topic == holds {
			ts = append(ts, vqTopic{holds})
		}
		doc, _ = json.Marshal(struct {
			Topics []vqTopic `json:"topics"`
		}{ts})
	case r.path == "/info" && li < 0:
		h, p := vHostPort(r.srv)
		port, _ := strconv.Atoi(p)
		doc, _ = json.Marshal(struct {
			Version          string `json:"version"`
			BroadcastAddress string `json:"broadcast_address"`
			Hostname         string `json:"hostname"`
			HTTPPort         int    `json:"http_port"`
			TCPPort          int    `json:"tcp_port"`
		}{"1.0.0", h, "h", port, 4150})
	default:
		return 404, nil
	}
	return 200, doc
}

func vqStatusErr(code int) error {
	switch code {
	case 200:
		return nil
	case 400:
		return errors.New("got response 400 Bad Request")
	}
	return errors.New("got response 404 Not Found")
}

// vNewClusterStrict: nLookupd nsqlookupds (0 = --nsqd-http-address mode) and nNsqd nsqds on
// distinct hosts that hold exactly `topic` with `channel`, every nsqd registered with every
// nsqlookupd, all of them strict servers.
func vNewClusterStrict(nLookupd, nNsqd int, topic, channel string) *vCluster {
	u := vBuildClusterTopo(nLookupd, nNsqd, 0, vHostsDiffer, topic, channel)
	u.strict = true
	if !verifrt.Symbolic() {
		return u
	}
	verifrt.Stub("(*github.com/nsqio/nsq/internal/http_api.Client).POSTV1", func(c *http_api.Client, endpoint string, data url.Values, v interface{}) error {
		r, ok := vqParse("POST", endpoint)
		if !ok {
			return errors.New("verif: unsupported protocol scheme")
		}
		u.reqs = append(u.reqs, *r)
		code, _ := u.serveStrict(r)
		return vqStatusErr(code)
	})
	verifrt.Stub("(*github.com/nsqio/nsq/internal/http_api.Client).GETV1", func(c *http_api.Client, endpoint string, v interface{}) error {
		r, ok := vqParse("GET", endpoint)
		if !ok {
			return errors.New("verif: unsupported protocol scheme")
		}
		u.reqs = append(u.reqs, *r)
		code, doc := u.serveStrict(r)
		if code != 200 {
			return vqStatusErr(code)
		}
		return json.Unmarshal(doc, v)
	})
	return u
}

// what an upstream is expected to be asked
type vqWant struct{ addr, path, topic, channel, node string }

func (q vqWant) matches(r *vReq) bool {
	n := 1
	if q.channel != "" {
		n++
	}
	if q.node != "" {
		n++
	}
	return r.method == "POST" && !r.bad && r.srv == q.addr && r.path == q.path &&
		r.topic == q.topic && r.chanl == q.channel && r.node == q.node && r.nargs == n
}

// seen: the requests the upstreams received (both worlds fill u.reqs for a strict cluster)
func (u *vCluster) seen() []vReq {
	u.mu.Lock()
	defer u.mu.Unlock()
	return append([]vReq{}, u.reqs...)
}

// a valid nsq name, durable or ephemeral: the base is any one character of [.a-zA-Z0-9_-] (the
// solver's choice) when `symbolic`, else `plain`
func vqName(tag string, symbolic bool, plain string) (string, bool) {
	s := plain
	if symbolic {
		s = vName(tag)
	}
	if verifrt.Choice(tag+"Ephemeral", 2) == 1 {
		return s + "#ephemeral", true
	}
	return s, false
}

// Every state-changing handler (all ten actions) through the real clusterinfo, producer discovery
// included, against strict upstreams; nsqadmin open (no admin list) or asked by an admin; topic and
// channel each durable or "#ephemeral" (channel, topic, both, neither); one nsqlookupd with one
// nsqd, two nsqlookupds with two nsqds, or --nsqd-http-address mode with two nsqds. As admin on the
// smallest topology the base name of the topic or of the channel (thorough tier: also both) is ANY
// valid one-character name (solver's choice); elsewhere it is "t" / "c".
//   - every relevant upstream (see VerifC17_FanOut) RECEIVES the action's request and reads exactly
//     the named topic / channel / node out of it, and nothing more;
//   - no upstream receives any other state-changing request: not for another path, not for another
//     topic or channel (the durable one of the same base name, say), not with extra arguments;
//   - the answer is 200.
//
// Without an admin identity the answer is 403 and no upstream receives anything, whatever the names.
func VerifC17_FanOutNamedTargets() { verifrt.Atomic(verifC17FanOutNamedTargets) }

func verifC17FanOutNamedTargets() {
	a := vActions[verifrt.Choice("action", len(vActions))]
	who := verifrt.Choice("who", 3) // open, admin, refused
	aboutChannel := false
	switch a.kind {
	case "DeleteChannel", "PauseChannel", "UnPauseChannel", "EmptyChannel":
		aboutChannel = true
	case "CreateTopicChannel":
		aboutChannel = verifrt.Choice("withChannel", 2) == 1
	}
	// topology: 0 = one nsqlookupd, one nsqd; 1 = two nsqlookupds, two nsqds; 2 = no nsqlookupd, two nsqds
	topo := 0
	if who != 2 {
		n := 3
		if a.kind == "CreateTopicChannel" || a.kind == "TombstoneNodeForTopic" {
			n = 2 // these need an nsqlookupd
		}
		topo = verifrt.Choice("topology", n)
	}
	nLookupd, nNsqd := 1, 1
	switch topo {
	case 1:
		nLookupd, nNsqd = 2, 2
	case 2:
		nLookupd, nNsqd = 0, 2
	}
	symTopic, symChannel := false, false
	if who == 1 && topo == 0 {
		which := 0
		if aboutChannel {
			which = verifrt.Choice("symbolicName", verifrt.Bound("symbolicNames", 2, 3))
		}
		symTopic, symChannel = which != 1, which != 0
	}
	topic, topicEph := vqName("topic", symTopic, "t")
	channel, channelEph := "", false
	if aboutChannel {
		channel, channelEph = vqName("channel", symChannel, "c")
	}
	held := channel
	if held == "" {
		held = "c"
	}
	u := vNewClusterStrict(nLookupd, nNsqd, topic, held)
	defer u.close()

	o := vOptions(u)
	hdr := http.Header{}
	if who > 0 {
		o.AdminUsers = []string{"root"}
	}
	if who == 1 {
		hdr.Set(o.ACLHTTPHeader, "root")
	}
	s := vServer(vAdmin(o))
	node := u.nodeName()
	if a.kind == "TombstoneNodeForTopic" && who != 2 {
		node = u.nsqdAddrs[verifrt.Choice("node", nNsqd)]
	}
	// (a channel action's route always carries a channel; the other routes have none)
	reqChannel := channel
	req, ps := vActionRequest(a, &vIdentity{hdr: hdr}, topic, reqChannel, node, false)
	w := &vWriter{}
	_, err := vCallHandler(s, a, w, req, ps)
	code := vErrCode(err)
	verifrt.Observe("code", code)
	seen := u.seen()
	nPosts := 0
	for i := range seen {
		if seen[i].method != "GET" {
			nPosts++
		}
	}
	verifrt.Observe("posts", nPosts)

	if who == 2 {
		verifrt.Assert(code == 403, "named-no-admin-identity-is-403")
		verifrt.Assert(len(seen) == 0, "named-forbidden-sends-nothing")
		verifrt.Reach("named-forbidden-ephemeral-channel", channelEph)
		return
	}
	verifrt.Assert(code != 403, "named-admin-not-forbidden")

	var want []vqWant
	onLookupds := func(path, ch, nd string) {
		for _, l := range u.lookupdAddrs {
			want = append(want, vqWant{l, path, topic, ch, nd})
		}
	}
	onNsqds := func(path, ch string) {
		for _, n := range u.nsqdAddrs {
			want = append(want, vqWant{n, path, topic, ch, ""})
		}
	}
	switch a.kind {
	case "CreateTopicChannel":
		onLookupds("/topic/create", "", "")
		if channel != "" {
			onLookupds("/channel/create", channel, "")
			onNsqds("/channel/create", channel)
		}
	case "DeleteTopic":
		onLookupds("/topic/delete", "", "")
		onNsqds("/topic/delete", "")
	case "DeleteChannel":
		onLookupds("/channel/delete", channel, "")
		onNsqds("/channel/delete", channel)
	case "TombstoneNodeForTopic":
		onLookupds("/topic/tombstone", "", node)
		want = append(want, vqWant{node, "/topic/delete", topic, "", ""})
	case "PauseTopic", "UnPauseTopic", "EmptyTopic":
		onNsqds("/topic/"+a.action, "")
	default:
		onNsqds("/channel/"+a.action, channel)
	}
	// every relevant upstream is asked for exactly the requested action on the named target ...
	for _, q := range want {
		got := false
		for i := range seen {
			got = got || q.matches(&seen[i])
		}
		verifrt.Assert(got, "named-action-reaches-every-relevant-upstream")
	}
	// ... and no upstream is asked to change anything else
	for i := range seen {
		if seen[i].method == "GET" {
			continue
		}
		expected := false
		for _, q := range want {
			expected = expected || q.matches(&seen[i])
		}
		verifrt.Assert(expected, "upstream-asked-only-for-the-requested-action-on-the-named-target")
	}
	verifrt.Assert(code == 200, "named-action-on-a-healthy-cluster-is-200")

	verifrt.Reach("named-as-admin", who == 1)
	verifrt.Reach("named-no-admin-list", who == 0)
	verifrt.Reach("named-durable-topic-durable-channel", !topicEph && aboutChannel && !channelEph)
	verifrt.Reach("named-ephemeral-channel", !topicEph && channelEph)
	verifrt.Reach("named-ephemeral-topic", topicEph && !channelEph)
	verifrt.Reach("named-ephemeral-topic-ephemeral-channel", topicEph && channelEph)
	verifrt.Reach("named-topic-with-a-dot", topic[0] == '.')
	verifrt.Reach("named-topic-with-a-dash", topic[0] == '-')
	verifrt.Reach("named-topic-upper-case", topic[0] >= 'A' && topic[0] <= 'Z')
	if aboutChannel {
		verifrt.Reach("named-channel-with-an-underscore", channel[0] == '_')
		verifrt.Reach("named-channel-digit", channel[0] >= '0' && channel[0] <= '9')
		verifrt.Reach("named-topic-and-channel-same-base-name", topic[0] == channel[0])
	}
	verifrt.Reach("named-two-nsqlookupds-two-nsqds", nLookupd == 2 && nNsqd == 2)
	verifrt.Reach("named-nsqd-mode", nLookupd == 0)
	verifrt.Reach("named-tombstone-second-node", a.kind == "TombstoneNodeForTopic" && nNsqd == 2 && node == u.nsqdAddrs[1])
}
