//go:build verif

package nsqadmin

import (
	"bytes"
	"encoding/json"
	"errors"
	"io"
	"net/http"
	"net/url"
	"reflect"
	"unsafe"

	"github.com/julienschmidt/httprouter"
	"github.com/nsqio/nsq/internal/clusterinfo"
	"github.com/nsqio/nsq/internal/http_api"
	"github.com/nsqio/nsq/internal/lg"
	"github.com/nsqio/nsq/internal/verifrt"
)

// =============================================================================================
// C18 environment for nsqadmin: the handlers run on the REAL clusterinfo; only the HTTP
// transport below (*http_api.Client).GETV1/POSTV1 is replaced.
//
// Every upstream endpoint (nsqlookupd /topics, /nodes, /lookup, /channels; nsqd /stats, /info)
// has one scripted answer: a failure, or a 200 with the JSON encoding of a reply value the
// harness built from nondeterministic fields. Under gosmt GETV1 is redirected to c18GETV1
// (failure => error, else json.Unmarshal of the scripted body: the tag-directed decode with
// clusterinfo's UnmarshalJSON methods). Natively the real GETV1 runs on an http.Client whose
// RoundTripper serves the same script from memory (connection error / 500 / non-JSON body for
// the three kinds of failure). The view is what the V1 decorator writes: status + JSON body,
// decoded again by the harness.
// =============================================================================================

type c18Answer struct {
	fail bool
	kind byte
	body []byte
}

type c18Cluster struct {
	answers map[string]*c18Answer
	calls   []string
	unknown int
}

var c18Env *c18Cluster

func c18NewCluster() *c18Cluster {
	c18Env = &c18Cluster{answers: map[string]*c18Answer{}}
	verifrt.Stub("(*github.com/nsqio/nsq/internal/http_api.Client).GETV1", c18GETV1)
	verifrt.Stub("(*github.com/nsqio/nsq/internal/http_api.Client).POSTV1", c18POSTV1)
	return c18Env
}

func (u *c18Cluster) script(endpoint string, fail bool, kind byte, reply interface{}) {
	a := &c18Answer{fail: fail, kind: kind}
	if !fail {
		a.body, _ = json.Marshal(reply)
	}
	u.answers[endpoint] = a
}

func c18GETV1(c *http_api.Client, endpoint string, v interface{}) error {
	u := c18Env
	u.calls = append(u.calls, endpoint)
	a := u.answers[endpoint]
	if a == nil {
		u.unknown++
		return errors.New("verif: no such upstream")
	}
	if a.fail {
		return errors.New("verif: upstream failed")
	}
	return json.Unmarshal(a.body, v)
}

func c18POSTV1(c *http_api.Client, endpoint string, data map[string][]string, v interface{}) error {
	u := c18Env
	u.calls = append(u.calls, endpoint)
	a := u.answers[endpoint]
	if a == nil {
		u.unknown++
		return errors.New("verif: no such upstream")
	}
	if a.fail {
		return errors.New("verif: upstream failed")
	}
	return nil
}

type c18Transport struct{ u *c18Cluster }

var c18NativeLock = make(chan struct{}, 1)

func (t c18Transport) RoundTrip(req *http.Request) (*http.Response, error) {
	c18NativeLock <- struct{}{}
	defer func() { <-c18NativeLock }()
	endpoint := req.URL.Scheme + "://" + req.URL.Host + req.URL.RequestURI()
	t.u.calls = append(t.u.calls, endpoint)
	a := t.u.answers[endpoint]
	mk := func(code int, body []byte) *http.Response {
		return &http.Response{StatusCode: code, Status: http.StatusText(code), Proto: "HTTP/1.1", ProtoMajor: 1, ProtoMinor: 1,
			Header: http.Header{}, Body: io.NopCloser(bytes.NewReader(body)), Request: req}
	}
	if a == nil {
		t.u.unknown++
		return mk(404, []byte(`{"message":"NOT_FOUND"}`)), nil
	}
	if a.fail {
		switch a.kind % 3 {
		case 0:
			return nil, errors.New("verif: connection refused")
		case 1:
			return mk(500, []byte(`{"message":"INTERNAL_ERROR"}`)), nil
		}
		return mk(200, []byte(`<html>not json`)), nil
	}
	return mk(200, a.body), nil
}

// c18Server: nsqadmin's httpServer (no listener, no router) over the scripted cluster.
func c18Server(u *c18Cluster, lookupds, nsqds []string) *httpServer {
	return c18ServerOn(c18Transport{u}, lookupds, nsqds)
}

// c18ServerOn: the same over any native transport (rt is only used in native replay).
func c18ServerOn(rt http.RoundTripper, lookupds, nsqds []string) *httpServer {
	o := &Options{
		LogLevel:                 lg.FATAL,
		LogPrefix:                "[nsqadmin] ",
		HTTPAddress:              "127.0.0.1:0",
		BasePath:                 "/",
		StatsdInterval:           60000000000,
		HTTPClientConnectTimeout: 2000000000,
		HTTPClientRequestTimeout: 5000000000,
		ACLHTTPHeader:            "X-Forwarded-User",
		NSQLookupdHTTPAddresses:  lookupds,
		NSQDHTTPAddresses:        nsqds,
	}
	n := &NSQAdmin{notifications: make(chan *AdminAction)}
	n.swapOpts(o)
	cl := &http_api.Client{}
	if !verifrt.Symbolic() {
		f := reflect.ValueOf(cl).Elem().Field(0)
		*(**http.Client)(unsafe.Pointer(f.UnsafeAddr())) = &http.Client{Transport: rt}
	}
	return &httpServer{nsqadmin: n, client: cl, ci: clusterinfo.New(n.logf, cl), basePath: "/"}
}

type c18Writer struct {
	hdr    http.Header
	status int
	body   []byte
}

func (w *c18Writer) Header() http.Header {
	if w.hdr == nil {
		w.hdr = http.Header{}
	}
	return w.hdr
}
func (w *c18Writer) WriteHeader(code int) {
	if w.status == 0 {
		w.status = code
	}
}
func (w *c18Writer) Write(p []byte) (int, error) {
	if w.status == 0 {
		w.status = 200
	}
	w.body = append(w.body, p...)
	return len(p), nil
}

type c18Body struct{}

func (c18Body) Read(p []byte) (int, error) { return 0, io.EOF }
func (c18Body) Close() error               { return nil }

// c18Get: run one GET view through the V1 decorator, as the router would; a panic inside the
// handler is what the router's PanicHandler turns into a 500 (the process survives).
func c18Get(h http_api.APIHandler, path string, ps httprouter.Params) (status int, body []byte, panicked bool) {
	w := &c18Writer{}
	req := &http.Request{Method: "GET", URL: &url.URL{Path: path}, Proto: "HTTP/1.1", ProtoMajor: 1, ProtoMinor: 1,
		Header: http.Header{}, Body: c18Body{}, Host: "nsqadmin", RemoteAddr: "127.0.0.1:5555", RequestURI: path}
	panicked = verifrt.Panics(func() {
		http_api.Decorate(h, http_api.V1)(w, req, ps)
	})
	if panicked {
		return 500, nil, true
	}
	return w.status, w.body, false
}

// ---- what the daemons send ----

type c18NamesReply struct {
	Topics   []string `json:"topics"`
	Channels []string `json:"channels"`
}

type c18NodeJSON struct {
	RemoteAddress    string   `json:"remote_address"`
	Hostname         string   `json:"hostname"`
	BroadcastAddress string   `json:"broadcast_address"`
	TCPPort          int      `json:"tcp_port"`
	HTTPPort         int      `json:"http_port"`
	Version          string   `json:"version"`
	Tombstones       []bool   `json:"tombstones"`
	Topics           []string `json:"topics"`
}

type c18NodesReply struct {
	Channels  []string       `json:"channels,omitempty"`
	Producers []*c18NodeJSON `json:"producers"`
}

type c18InfoReply struct {
	Version          string `json:"version"`
	BroadcastAddress string `json:"broadcast_address"`
	Hostname         string `json:"hostname"`
	HTTPPort         int    `json:"http_port"`
	TCPPort          int    `json:"tcp_port"`
}

type c18E2eJSON struct {
	Count       int                  `json:"count"`
	Percentiles []map[string]float64 `json:"percentiles"`
}

type c18ClientJSON struct {
	ClientID      string `json:"client_id"`
	Hostname      string `json:"hostname"`
	Version       string `json:"version"`
	RemoteAddress string `json:"remote_address"`
	ReadyCount    int    `json:"ready_count"`
	InFlightCount int    `json:"in_flight_count"`
	MessageCount  int64  `json:"message_count"`
	FinishCount   int64  `json:"finish_count"`
	RequeueCount  int64  `json:"requeue_count"`
	ConnectTs     int64  `json:"connect_ts"`
	UserAgent     string `json:"user_agent,omitempty"`
}

type c18ChannelJSON struct {
	ChannelName   string           `json:"channel_name"`
	Depth         int64            `json:"depth"`
	BackendDepth  int64            `json:"backend_depth"`
	InFlightCount int64            `json:"in_flight_count"`
	DeferredCount int64            `json:"deferred_count"`
	MessageCount  int64            `json:"message_count"`
	RequeueCount  int64            `json:"requeue_count"`
	TimeoutCount  int64            `json:"timeout_count"`
	ClientCount   int              `json:"client_count"`
	Clients       []*c18ClientJSON `json:"clients"`
	Paused        bool             `json:"paused"`
	E2e           *c18E2eJSON      `json:"e2e_processing_latency"`
}

type c18TopicJSON struct {
	TopicName    string            `json:"topic_name"`
	Channels     []*c18ChannelJSON `json:"channels"`
	Depth        int64             `json:"depth"`
	BackendDepth int64             `json:"backend_depth"`
	MessageCount int64             `json:"message_count"`
	Paused       bool              `json:"paused"`
	E2e          *c18E2eJSON       `json:"e2e_processing_latency"`
}

type c18StatsReply struct {
	Version string          `json:"version"`
	Health  string          `json:"health"`
	Topics  []*c18TopicJSON `json:"topics"`
}

func c18Name(tag string, n int) string {
	s := verifrt.StringN(tag, n)
	for i := 0; i < len(s); i++ {
		verifrt.Assume(s[i] >= 0x21 && s[i] <= 0x7e)
	}
	return s
}

func c18Fail(tag string) (bool, byte) {
	return verifrt.Choice(tag+".fail", 2) == 1, verifrt.Byte(tag + ".failkind")
}

func c18Has(l []string, s string) bool {
	r := false
	for _, e := range l {
		r = r || e == s
	}
	return r
}

func (u *c18Cluster) called(endpoint string) int {
	n := 0
	for _, c := range u.calls {
		if c == endpoint {
			n++
		}
	}
	return n
}
