//go:build verif

package nsqadmin

import (
	"encoding/json"

	"github.com/julienschmidt/httprouter"
	"github.com/nsqio/nsq/internal/verifrt"
)

// c18Status: the statement's status mapping for a read view that fans out to `total`
// upstreams of which `failed` did not answer: none answers => 502; some => 200 with a
// warning; all answer => 200 without one.
func c18Status(what string, status int, message string, total, failed int) bool {
	if failed == total {
		verifrt.Assert(status == 502, what+":no-upstream-answers-is-502")
		verifrt.Reach(what+":502", true)
		return false
	}
	verifrt.Assert(status == 200, what+":some-upstream-answers-is-200")
	if failed > 0 {
		verifrt.Assert(message != "", what+":partial-view-carries-a-warning")
		verifrt.Reach(what+":warning", status == 200 && message != "")
	} else {
		verifrt.Assert(message == "", what+":complete-view-carries-no-warning")
	}
	return status == 200
}

type c18TopicsView struct {
	Topics  []string `json:"topics"`
	Message string   `json:"message"`
}

// GET /api/topics in nsqlookupd mode and in direct-nsqd mode.
func VerifC18_ViewTopics() {
	verifrt.Atomic(func() {
		u := c18NewCluster()
		direct := verifrt.Choice("direct-nsqd-mode", 2) == 1
		addrs := []string{"u0:4161", "u1:4161"}
		var names [][]string
		var fails []bool
		failed := 0
		for _, a := range addrs {
			f, k := c18Fail(a)
			var l []string
			if f {
				failed++
			} else {
				n := verifrt.Choice(a+".topics", verifrt.Bound("topics-per-upstream", 2, 3))
				for j := 0; j < n; j++ {
					l = append(l, c18Name(a+".topic", 1))
				}
			}
			names = append(names, l)
			fails = append(fails, f)
			if direct {
				r := c18StatsReply{Version: "1.3.0", Health: "OK", Topics: []*c18TopicJSON{}}
				for _, t := range l {
					r.Topics = append(r.Topics, &c18TopicJSON{TopicName: t, Channels: []*c18ChannelJSON{}, E2e: &c18E2eJSON{}})
				}
				u.script("http://"+a+"/stats?format=json", f, k, r)
			} else {
				u.script("http://"+a+"/topics", f, k, c18NamesReply{Topics: l})
			}
		}
		var s *httpServer
		if direct {
			s = c18Server(u, nil, addrs)
		} else {
			s = c18Server(u, addrs, nil)
		}
		status, body, panicked := c18Get(s.topicsHandler, "/api/topics", nil)
		verifrt.Assert(!panicked, "view-topics:handler-does-not-panic")
		var v c18TopicsView
		verifrt.Assert(json.Unmarshal(body, &v) == nil, "view-topics:body-is-json")
		if !c18Status("view-topics", status, v.Message, len(addrs), failed) {
			return
		}
		for i, l := range names {
			for _, t := range l {
				verifrt.Assert(fails[i] || c18Has(v.Topics, t), "view-topics:every-reported-topic-listed")
			}
		}
		for _, t := range v.Topics {
			found := false
			for i, l := range names {
				found = found || (!fails[i] && c18Has(l, t))
			}
			verifrt.Assert(found, "view-topics:every-listed-topic-was-reported")
		}
		for i := 1; i < len(v.Topics); i++ {
			verifrt.Assert(v.Topics[i-1] < v.Topics[i], "view-topics:sorted-without-duplicates")
		}
		verifrt.Assert(u.unknown == 0, "view-topics:no-other-endpoint-asked")
		verifrt.Reach("view-topics:lookupd-mode-two-topics", !direct && len(v.Topics) == 2)
		verifrt.Reach("view-topics:direct-mode-two-topics", direct && len(v.Topics) == 2)
		verifrt.Observe("view-topics.n", len(v.Topics))
	})
}

// ---- a small fleet: two nsqlookupd, two nsqd ----
//
// l0 knows both nsqd, l1 knows only n1 (so what nsqadmin can see depends on which lookupd
// answers); each nsqd answers its /stats (whatever the query string) with one of a menu of
// shapes, all numbers nondeterministic, or fails.

type c18Node struct {
	addr, bcast, host string
	fail              bool
	topics            []*c18TopicJSON
}

type c18Fleet struct {
	u            *c18Cluster
	direct       bool // nsqadmin configured with nsqd addresses instead of nsqlookupd addresses
	lookupds     []string
	nsqds        []string
	lfail        []bool
	lookupFailed int // first stage (node discovery): upstreams that did not answer ...
	stage1       int // ... out of this many
	nodes        []*c18Node
	asked        []*c18Node // the nodes nsqadmin learns about from the answering lookupds
	knownBy      []int      // per node: number of answering lookupds that list it
	statsFailed  int        // among asked
}

func c18Chan(tag, name string, clients int, paused bool) *c18ChannelJSON {
	c := &c18ChannelJSON{ChannelName: name, Depth: verifrt.Int64(tag + ".depth"), BackendDepth: verifrt.Int64(tag + ".backend"),
		InFlightCount: verifrt.Int64(tag + ".inflight"), DeferredCount: verifrt.Int64(tag + ".deferred"), MessageCount: verifrt.Int64(tag + ".msgs"),
		RequeueCount: verifrt.Int64(tag + ".requeue"), TimeoutCount: verifrt.Int64(tag + ".timeout"), ClientCount: verifrt.Int(tag + ".clients"),
		Clients: []*c18ClientJSON{}, Paused: paused, E2e: &c18E2eJSON{Count: verifrt.Int(tag + ".e2e")}}
	for i := 0; i < clients; i++ {
		cl := &c18ClientJSON{ClientID: tag + "#" + string(rune('0'+i)), Hostname: "ch", Version: "V2", RemoteAddress: "10.1.1.1:5", MessageCount: verifrt.Int64(tag + ".client.msgs"), ConnectTs: 1600000000}
		if i%2 == 1 {
			cl.UserAgent = "go-nsq/1.1"
		}
		c.Clients = append(c.Clients, cl)
	}
	return c
}

func c18Topic(tag, name string, paused bool, chans ...*c18ChannelJSON) *c18TopicJSON {
	if chans == nil {
		chans = []*c18ChannelJSON{}
	}
	return &c18TopicJSON{TopicName: name, Channels: chans, Depth: verifrt.Int64(tag + ".depth"), BackendDepth: verifrt.Int64(tag + ".backend"),
		MessageCount: verifrt.Int64(tag + ".msgs"), Paused: paused, E2e: &c18E2eJSON{Count: verifrt.Int(tag + ".e2e")}}
}

func c18Shape(tag string, shape int, paused bool) []*c18TopicJSON {
	switch shape {
	case 0:
		return []*c18TopicJSON{c18Topic(tag+".t", "t", paused, c18Chan(tag+".t.c", "c", 1, paused))}
	case 1:
		return []*c18TopicJSON{c18Topic(tag+".t", "t", paused, c18Chan(tag+".t.c", "c", 2, paused), c18Chan(tag+".t.d", "d", 0, false)),
			c18Topic(tag+".u", "u", false, c18Chan(tag+".u.c", "c", 0, false))}
	case 2:
		return []*c18TopicJSON{c18Topic(tag+".t", "t", paused)}
	}
	return []*c18TopicJSON{c18Topic(tag+".u", "u", false, c18Chan(tag+".u.d", "d", 1, false))}
}

// lookupPath: the nsqlookupd endpoint the view reads its node list from; statsQuery: the
// /stats query nsqadmin is expected to send to each nsqd.
//
// allowDirect: also the same fleet seen in direct-nsqd mode (no lookupd): the nodes
// are discovered by asking each configured nsqd itself (/stats and /info); a node that does
// not answer is the first-stage failure, a node without topic t is not a producer of t.
func c18NewFleet(lookupPath, statsQuery string, allowDirect bool) *c18Fleet {
	f := &c18Fleet{u: c18NewCluster(), lookupds: []string{"l0:4161", "l1:4161"}, stage1: 2}
	if allowDirect && verifrt.Choice("direct-nsqd-mode", 2) == 1 {
		f.direct = true
		f.lookupds = nil
	}
	shapes := verifrt.Bound("shapes", 2, 4)
	for i := 0; i < 2; i++ {
		n := &c18Node{bcast: []string{"b0", "b1"}[i], host: []string{"hb", "ha"}[i]}
		n.addr = n.bcast + ":4151"
		var k byte
		n.fail, k = c18Fail(n.addr)
		if !n.fail {
			n.topics = c18Shape(n.addr, verifrt.Choice(n.addr+".shape", shapes), i == 1)
		}
		f.u.script("http://"+n.addr+statsQuery, n.fail, k, c18StatsReply{Version: "1.3.0", Health: "OK", Topics: n.topics})
		f.nodes = append(f.nodes, n)
	}
	f.knownBy = make([]int, 2)
	if f.direct {
		discover := "/stats?format=json&include_clients=false"
		if lookupPath != "/nodes" {
			discover = "/stats?format=json&topic=t&include_clients=false"
		}
		for j, n := range f.nodes {
			f.nsqds = append(f.nsqds, n.addr)
			f.u.script("http://"+n.addr+"/info", false, 0, c18InfoReply{Version: "1.3.0", BroadcastAddress: n.bcast, Hostname: n.host, HTTPPort: 4151, TCPPort: 4150})
			f.u.script("http://"+n.addr+discover, n.fail, 0, c18StatsReply{Version: "1.3.0", Health: "OK", Topics: n.topics})
			if n.fail {
				f.lookupFailed++
				continue
			}
			hasT := false
			for _, t := range n.topics {
				hasT = hasT || t.TopicName == "t"
			}
			if lookupPath == "/nodes" || hasT {
				f.knownBy[j] = 1
				f.asked = append(f.asked, n)
			}
		}
		return f
	}
	for i, l := range f.lookupds {
		fail, k := c18Fail(l)
		f.lfail = append(f.lfail, fail)
		r := c18NodesReply{Channels: []string{"c"}, Producers: []*c18NodeJSON{}}
		for j, n := range f.nodes {
			if i == 0 || j == 1 {
				r.Producers = append(r.Producers, &c18NodeJSON{RemoteAddress: "10.0.0.1:1", Hostname: n.host, BroadcastAddress: n.bcast,
					TCPPort: 4150, HTTPPort: 4151, Version: "1.3.0", Tombstones: []bool{false}, Topics: []string{"t"}})
				if !fail {
					f.knownBy[j]++
				}
			}
		}
		if fail {
			f.lookupFailed++
		}
		f.u.script("http://"+l+lookupPath, fail, k, r)
	}
	for j, n := range f.nodes {
		if f.knownBy[j] > 0 {
			f.asked = append(f.asked, n)
			if n.fail {
				f.statsFailed++
			}
		}
	}
	return f
}

func (f *c18Fleet) server() *httpServer { return c18Server(f.u, f.lookupds, f.nsqds) }

// status mapping of a view that first asks the lookupds for nodes and then every node for
// its stats: 502 only when a whole stage got no answer.
func (f *c18Fleet) status(what string, status int, message string) bool {
	if f.lookupFailed == f.stage1 {
		verifrt.Assert(status == 502, what+":no-lookupd-answers-is-502")
		verifrt.Reach(what+":no-lookupd-502", !f.direct)
		return false
	}
	if len(f.asked) == 0 {
		// every discovery upstream answered, and none names a node for the topic: there is no
		// nsqd to ask. The statement leaves this corner open ("none answers" is vacuously true):
		// an empty 200 view or a 502 are both accepted.
		verifrt.Assert(status == 200 || status == 502, what+":topic-without-nodes-is-200-or-502")
		if verifrt.Tier() == 1 {
			verifrt.Reach(what+":topic-without-nodes", f.direct)
		}
		return status == 200
	}
	if f.statsFailed == len(f.asked) {
		verifrt.Assert(status == 502, what+":no-nsqd-answers-is-502")
		verifrt.Reach(what+":no-nsqd-502", true)
		return false
	}
	verifrt.Assert(status == 200, what+":some-upstream-answers-is-200")
	if f.lookupFailed > 0 || f.statsFailed > 0 {
		verifrt.Assert(message != "", what+":partial-view-carries-a-warning")
		verifrt.Reach(what+":warning-for-failed-lookupd", status == 200 && f.lookupFailed > 0 && f.statsFailed == 0 && !f.direct)
		verifrt.Reach(what+":warning-for-failed-nsqd", status == 200 && f.lookupFailed == 0 && f.statsFailed > 0)
		verifrt.Reach(what+":direct-mode-warning", status == 200 && f.direct)
	} else {
		verifrt.Assert(message == "", what+":complete-view-carries-no-warning")
	}
	return status == 200
}

type c18ClientView struct {
	Node         string `json:"node"`
	ClientID     string `json:"client_id"`
	Hostname     string `json:"hostname"`
	UserAgent    string `json:"user_agent"`
	MessageCount int64  `json:"message_count"`
}

type c18ChanView struct {
	Node          string           `json:"node"`
	Hostname      string           `json:"hostname"`
	TopicName     string           `json:"topic_name"`
	ChannelName   string           `json:"channel_name"`
	Depth         int64            `json:"depth"`
	MemoryDepth   int64            `json:"memory_depth"`
	BackendDepth  int64            `json:"backend_depth"`
	InFlightCount int64            `json:"in_flight_count"`
	DeferredCount int64            `json:"deferred_count"`
	RequeueCount  int64            `json:"requeue_count"`
	TimeoutCount  int64            `json:"timeout_count"`
	MessageCount  int64            `json:"message_count"`
	ClientCount   int              `json:"client_count"`
	Nodes         []*c18ChanView   `json:"nodes"`
	Clients       []*c18ClientView `json:"clients"`
	Paused        bool             `json:"paused"`
	Message       string           `json:"message"`
}

type c18TopicView struct {
	Node         string          `json:"node"`
	Hostname     string          `json:"hostname"`
	TopicName    string          `json:"topic_name"`
	Depth        int64           `json:"depth"`
	MemoryDepth  int64           `json:"memory_depth"`
	BackendDepth int64           `json:"backend_depth"`
	MessageCount int64           `json:"message_count"`
	Nodes        []*c18TopicView `json:"nodes"`
	Channels     []*c18ChanView  `json:"channels"`
	Paused       bool            `json:"paused"`
	Message      string          `json:"message"`
}

type c18ChanSum struct {
	depth, backend, inflight, deferred, requeue, timeout, msgs int64
	clientCount, clients, nodes                                int
	paused                                                     bool
}

// reference: sum of channel `channel` of topic `topic` over the answering asked nodes
func (f *c18Fleet) chanSum(topic, channel string) c18ChanSum {
	var s c18ChanSum
	for _, n := range f.asked {
		for _, t := range n.topics {
			if t.TopicName != topic {
				continue
			}
			for _, c := range t.Channels {
				if c.ChannelName == channel {
					s.depth += c.Depth
					s.backend += c.BackendDepth
					s.inflight += c.InFlightCount
					s.deferred += c.DeferredCount
					s.requeue += c.RequeueCount
					s.timeout += c.TimeoutCount
					s.msgs += c.MessageCount
					s.clientCount += c.ClientCount
					s.clients += len(c.Clients)
					s.paused = s.paused || c.Paused
					s.nodes++
				}
			}
		}
	}
	return s
}

func c18CheckChan(what string, c *c18ChanView, s c18ChanSum) {
	verifrt.Assert(c.Depth == s.depth, what+":sum:depth")
	verifrt.Assert(c.BackendDepth == s.backend, what+":sum:backend-depth")
	verifrt.Assert(c.MemoryDepth == s.depth-s.backend, what+":sum:memory-depth")
	verifrt.Assert(c.InFlightCount == s.inflight, what+":sum:in-flight")
	verifrt.Assert(c.DeferredCount == s.deferred, what+":sum:deferred")
	verifrt.Assert(c.RequeueCount == s.requeue, what+":sum:requeue-count")
	verifrt.Assert(c.TimeoutCount == s.timeout, what+":sum:timeout-count")
	verifrt.Assert(c.MessageCount == s.msgs, what+":sum:message-count")
	verifrt.Assert(c.ClientCount == s.clientCount, what+":sum:client-count")
	verifrt.Assert(c.Paused == s.paused, what+":paused-if-paused-anywhere")
}

// the topic view oracle: `topic` aggregated over the asked nodes that answer; returns the
// number of nodes that have the topic and the union of its channel names
func c18CheckTopicView(what string, f *c18Fleet, v *c18TopicView, topic string) (int, []string) {
	var depth, backend, msgs int64
	paused := false
	have := 0
	var chanNames []string
	for _, n := range f.asked {
		for _, t := range n.topics {
			if t.TopicName != topic {
				continue
			}
			have++
			depth += t.Depth
			backend += t.BackendDepth
			msgs += t.MessageCount
			paused = paused || t.Paused
			cnt := 0
			for _, nv := range v.Nodes {
				if nv.Node == n.addr {
					cnt++
					verifrt.Assert(nv.Hostname == n.host && nv.Depth == t.Depth && nv.MessageCount == t.MessageCount && nv.BackendDepth == t.BackendDepth,
						what+":node-entry-is-what-the-node-reported")
				}
			}
			verifrt.Assert(cnt == 1, what+":one-node-entry-per-node-with-the-topic")
			for _, c := range t.Channels {
				if !c18Has(chanNames, c.ChannelName) {
					chanNames = append(chanNames, c.ChannelName)
				}
			}
		}
	}
	verifrt.Assert(v.TopicName == topic, what+":name")
	verifrt.Assert(len(v.Nodes) == have, what+":nothing-but-the-reporting-nodes")
	verifrt.Assert(v.Depth == depth, what+":sum:depth")
	verifrt.Assert(v.BackendDepth == backend, what+":sum:backend-depth")
	verifrt.Assert(v.MemoryDepth == depth-backend, what+":sum:memory-depth")
	verifrt.Assert(v.MessageCount == msgs, what+":sum:message-count")
	verifrt.Assert(v.Paused == paused, what+":paused-if-paused-anywhere")
	verifrt.Assert(len(v.Channels) == len(chanNames), what+":channels-are-the-union-by-name")
	for _, name := range chanNames {
		cnt := 0
		for _, c := range v.Channels {
			if c.ChannelName == name {
				cnt++
				c18CheckChan(what+":channel", c, f.chanSum(topic, name))
			}
		}
		verifrt.Assert(cnt == 1, what+":each-channel-listed-once")
	}
	return have, chanNames
}

// GET /api/topics/t: the topic aggregated over the nsqd the lookupds name for it.
func VerifC18_ViewTopic() {
	verifrt.Atomic(func() {
		f := c18NewFleet("/lookup?topic=t", "/stats?format=json&topic=t&include_clients=false", true)
		s := f.server()
		status, body, panicked := c18Get(s.topicHandler, "/api/topics/t", httprouter.Params{{Key: "topic", Value: "t"}})
		verifrt.Assert(!panicked, "view-topic:handler-does-not-panic")
		var v c18TopicView
		verifrt.Assert(json.Unmarshal(body, &v) == nil, "view-topic:body-is-json")
		if !f.status("view-topic", status, v.Message) {
			return
		}
		verifrt.Assert(f.u.unknown == 0, "view-topic:no-other-endpoint-asked")
		have, chanNames := c18CheckTopicView("view-topic", f, &v, "t")
		verifrt.Reach("view-topic:two-nodes", have == 2)
		verifrt.Reach("view-topic:channel-on-one-node-only", have == 2 && len(chanNames) == 2)
		if verifrt.Tier() == 1 { // the shape "node that no longer has the topic" exists in the thorough menu only
			verifrt.Reach("view-topic:stale-node-without-the-topic", have == 0 && len(f.asked) > 0)
		}
		verifrt.Observe("view-topic.nodes", len(v.Nodes))
	})
}

// the channel view oracle: (topic, channel) aggregated over the asked nodes that answer, with
// one node entry per reporting node and every client tagged with its node
func c18CheckChannelView(what string, f *c18Fleet, v *c18ChanView, sum c18ChanSum, topic, channel string) {
	verifrt.Assert(v.ChannelName == channel && v.TopicName == topic, what+":names")
	c18CheckChan(what, v, sum)
	verifrt.Assert(len(v.Nodes) == sum.nodes, what+":one-node-entry-per-reporting-node")
	verifrt.Assert(len(v.Clients) == sum.clients, what+":all-clients-listed")
	for _, n := range f.asked {
		for _, t := range n.topics {
			for _, c := range t.Channels {
				if t.TopicName != topic || c.ChannelName != channel {
					continue
				}
				cnt := 0
				for _, nv := range v.Nodes {
					if nv.Node == n.addr {
						cnt++
						verifrt.Assert(nv.Depth == c.Depth && nv.MessageCount == c.MessageCount && nv.Hostname == n.host, what+":node-entry-is-what-the-node-reported")
					}
				}
				verifrt.Assert(cnt == 1, what+":one-node-entry-per-reporting-node")
				cl := 0
				for _, cv := range v.Clients {
					if cv.Node == n.addr {
						cl++
					}
				}
				verifrt.Assert(cl == len(c.Clients), what+":clients-tagged-with-their-node")
				for _, rc := range c.Clients {
					one := 0
					for _, cv := range v.Clients {
						if cv.ClientID == rc.ClientID {
							one++
							verifrt.Assert(cv.Node == n.addr && cv.Hostname == rc.Hostname && cv.MessageCount == rc.MessageCount && cv.UserAgent == rc.UserAgent,
								what+":client-entry-is-what-its-node-reported")
						}
					}
					verifrt.Assert(one == 1, what+":every-reported-client-listed-once")
				}
			}
		}
	}
}

// GET /api/topics/t/c: one channel aggregated over the nodes, with its clients.
func VerifC18_ViewChannel() {
	verifrt.Atomic(func() {
		f := c18NewFleet("/lookup?topic=t", "/stats?format=json&topic=t&channel=c", true)
		s := f.server()
		status, body, panicked := c18Get(s.channelHandler, "/api/topics/t/c", httprouter.Params{{Key: "topic", Value: "t"}, {Key: "channel", Value: "c"}})
		sum := f.chanSum("t", "c")
		if panicked {
			// a panic in a handler goroutine is answered with a 500 by the router (no crash);
			// tolerated only where there is nothing to show: no answering node reports the channel
			verifrt.Assert(sum.nodes == 0, "view-channel:handler-panics-only-for-a-channel-nobody-reports")
			verifrt.Reach("view-channel:unknown-channel-is-a-500", sum.nodes == 0)
			return
		}
		var v c18ChanView
		verifrt.Assert(json.Unmarshal(body, &v) == nil, "view-channel:body-is-json")
		if !f.status("view-channel", status, v.Message) {
			return
		}
		verifrt.Assert(f.u.unknown == 0, "view-channel:no-other-endpoint-asked")
		c18CheckChannelView("view-channel", f, &v, sum, "t", "c")
		verifrt.Reach("view-channel:two-nodes-three-clients", sum.nodes == 2 && sum.clients == 3)
		verifrt.Observe("view-channel.nodes", len(v.Nodes))
	})
}

type c18CounterView struct {
	Stats map[string]*struct {
		Node         string `json:"node"`
		TopicName    string `json:"topic_name"`
		ChannelName  string `json:"channel_name"`
		MessageCount int64  `json:"message_count"`
	} `json:"stats"`
	Message string `json:"message"`
}

// GET /api/counter: one counter per (topic, channel, node), whose sum is the cluster total.
func VerifC18_ViewCounter() {
	verifrt.Atomic(func() {
		f := c18NewFleet("/nodes", "/stats?format=json&include_clients=false", true)
		s := f.server()
		status, body, panicked := c18Get(s.counterHandler, "/api/counter", nil)
		verifrt.Assert(!panicked, "view-counter:handler-does-not-panic")
		var v c18CounterView
		verifrt.Assert(json.Unmarshal(body, &v) == nil, "view-counter:body-is-json")
		if !f.status("view-counter", status, v.Message) {
			return
		}
		verifrt.Assert(f.u.unknown == 0, "view-counter:no-other-endpoint-asked")
		want := 0
		var total, got int64
		for _, n := range f.asked {
			for _, t := range n.topics {
				for _, c := range t.Channels {
					want++
					total += c.MessageCount
					cnt := 0
					for _, e := range v.Stats {
						if e.Node == n.addr && e.TopicName == t.TopicName && e.ChannelName == c.ChannelName {
							cnt++
							verifrt.Assert(e.MessageCount == c.MessageCount, "view-counter:counter-is-the-channel's-message-count-on-that-node")
						}
					}
					verifrt.Assert(cnt == 1, "view-counter:one-counter-per-topic-channel-node")
				}
			}
		}
		for _, e := range v.Stats {
			got += e.MessageCount
		}
		verifrt.Assert(len(v.Stats) == want, "view-counter:nothing-but-the-reported-channels")
		verifrt.Assert(got == total, "view-counter:total-is-the-sum-over-nodes")
		verifrt.Reach("view-counter:same-channel-on-two-nodes", want >= 2 && len(f.asked) == 2 && f.statsFailed == 0)
		verifrt.Observe("view-counter.n", len(v.Stats))
	})
}

type c18NodeView struct {
	Node          string          `json:"node"`
	TopicStats    []*c18TopicView `json:"topics"`
	TotalMessages int64           `json:"total_messages"`
	TotalClients  int64           `json:"total_clients"`
	Message       string          `json:"message"`
}

// GET /api/nodes/b0:4151: one node's topics, with the node's message and client totals.
func VerifC18_ViewNode() {
	verifrt.Atomic(func() {
		f := c18NewFleet("/nodes", "/stats?format=json", true)
		s := f.server()
		which := verifrt.Choice("node", 2)
		n := f.nodes[which]
		status, body, panicked := c18Get(s.nodeHandler, "/api/nodes/"+n.addr, httprouter.Params{{Key: "node", Value: n.addr}})
		verifrt.Assert(!panicked, "view-node:handler-does-not-panic")
		var v c18NodeView
		verifrt.Assert(json.Unmarshal(body, &v) == nil, "view-node:body-is-json")
		if f.lookupFailed == f.stage1 {
			verifrt.Assert(status == 502, "view-node:no-lookupd-answers-is-502")
			return
		}
		if f.knownBy[which] == 0 {
			verifrt.Assert(status == 404, "view-node:node-unknown-to-the-answering-lookupds-is-404")
			verifrt.Reach("view-node:404", true)
			return
		}
		if n.fail {
			verifrt.Assert(status == 502, "view-node:node-does-not-answer-is-502")
			verifrt.Reach("view-node:502", true)
			return
		}
		verifrt.Assert(status == 200, "view-node:answering-node-is-200")
		verifrt.Assert((v.Message != "") == (f.lookupFailed > 0), "view-node:warning-iff-a-lookupd-failed")
		verifrt.Assert(v.Node == n.addr, "view-node:name")
		var msgs, clients int64
		for _, t := range n.topics {
			msgs += t.MessageCount
			for _, c := range t.Channels {
				clients += int64(len(c.Clients))
			}
			cnt := 0
			for _, tv := range v.TopicStats {
				if tv.TopicName == t.TopicName {
					cnt++
					verifrt.Assert(tv.Depth == t.Depth && tv.MessageCount == t.MessageCount && len(tv.Channels) == len(t.Channels), "view-node:topic-entry-is-what-the-node-reported")
				}
			}
			verifrt.Assert(cnt == 1, "view-node:every-topic-of-the-node-listed-once")
		}
		verifrt.Assert(len(v.TopicStats) == len(n.topics), "view-node:nothing-but-the-node's-topics")
		verifrt.Assert(v.TotalMessages == msgs, "view-node:total-messages-is-the-sum-over-topics")
		verifrt.Assert(v.TotalClients == clients, "view-node:total-clients-is-the-number-of-clients")
		verifrt.Assert(f.u.called("http://"+f.nodes[1-which].addr+"/stats?format=json") == 0, "view-node:other-nodes-not-asked")
		verifrt.Reach("view-node:two-topics", len(n.topics) == 2 && clients == 2)
		verifrt.Reach("view-node:warning", status == 200 && v.Message != "")
		verifrt.Observe("view-node.topics", len(v.TopicStats))
	})
}

type c18NodesView struct {
	Nodes []*struct {
		RemoteAddresses  []string `json:"remote_addresses"`
		Hostname         string   `json:"hostname"`
		BroadcastAddress string   `json:"broadcast_address"`
		TCPPort          int      `json:"tcp_port"`
		HTTPPort         int      `json:"http_port"`
		Version          string   `json:"version"`
		Topics           []struct {
			Topic      string `json:"topic"`
			Tombstoned bool   `json:"tombstoned"`
		} `json:"topics"`
	} `json:"nodes"`
	Message string `json:"message"`
}

// GET /api/nodes in nsqlookupd mode (de-duplicated union over the lookupds) and in
// direct-nsqd mode (the nsqd that answer /info and /stats).
func VerifC18_ViewNodes() {
	verifrt.Atomic(func() {
		var v c18NodesView
		if verifrt.Choice("direct-nsqd-mode", 2) == 0 {
			f := c18NewFleet("/nodes", "/stats?format=json", false)
			s := f.server()
			status, body, panicked := c18Get(s.nodesHandler, "/api/nodes", nil)
			verifrt.Assert(!panicked, "view-nodes:handler-does-not-panic")
			verifrt.Assert(json.Unmarshal(body, &v) == nil, "view-nodes:body-is-json")
			if !c18Status("view-nodes", status, v.Message, len(f.lookupds), f.lookupFailed) {
				return
			}
			verifrt.Assert(len(v.Nodes) == len(f.asked), "view-nodes:nothing-but-the-reported-nodes")
			for j, n := range f.nodes {
				cnt := 0
				for _, nv := range v.Nodes {
					if nv.BroadcastAddress == n.bcast {
						cnt++
						verifrt.Assert(nv.Hostname == n.host && nv.HTTPPort == 4151 && nv.TCPPort == 4150 && nv.Version == "1.3.0", "view-nodes:fields-are-the-reported-ones")
						verifrt.Assert(len(nv.RemoteAddresses) == f.knownBy[j], "view-nodes:one-remote-address-per-reporting-lookupd")
						verifrt.Assert(len(nv.Topics) == 1 && nv.Topics[0].Topic == "t" && !nv.Topics[0].Tombstoned, "view-nodes:topics-are-the-reported-ones")
					}
				}
				if f.knownBy[j] > 0 {
					verifrt.Assert(cnt == 1, "view-nodes:reported-node-listed-exactly-once")
				} else {
					verifrt.Assert(cnt == 0, "view-nodes:unreported-node-not-listed")
				}
			}
			verifrt.Assert(len(f.u.calls) == len(f.lookupds), "view-nodes:only-the-lookupds-asked")
			verifrt.Reach("view-nodes:node-known-to-both-lookupds", len(v.Nodes) == 2 && f.lookupFailed == 0)
			verifrt.Observe("view-nodes.n", len(v.Nodes))
			return
		}
		u := c18NewCluster()
		addrs := []string{"b0:4151", "b1:4151"}
		failed := 0
		var ok []bool
		for i, a := range addrs {
			fi, ki := c18Fail(a + "/info")
			fs, ks := c18Fail(a + "/stats")
			u.script("http://"+a+"/info", fi, ki, c18InfoReply{Version: "1.3.0", BroadcastAddress: []string{"b0", "b1"}[i], Hostname: []string{"hb", "ha"}[i], HTTPPort: 4151, TCPPort: 4150})
			u.script("http://"+a+"/stats?format=json&include_clients=false", fs, ks, c18StatsReply{Version: "1.3.0", Health: "OK", Topics: c18Shape(a, 2, false)})
			ok = append(ok, !fi && !fs)
			if fi || fs {
				failed++
			}
		}
		s := c18Server(u, nil, addrs)
		status, body, panicked := c18Get(s.nodesHandler, "/api/nodes", nil)
		verifrt.Assert(!panicked, "view-nodes:handler-does-not-panic")
		verifrt.Assert(json.Unmarshal(body, &v) == nil, "view-nodes:body-is-json")
		if !c18Status("view-nodes-direct", status, v.Message, len(addrs), failed) {
			return
		}
		verifrt.Assert(len(v.Nodes) == len(addrs)-failed, "view-nodes-direct:nothing-but-the-answering-nodes")
		for i := range addrs {
			cnt := 0
			for _, nv := range v.Nodes {
				if nv.BroadcastAddress == []string{"b0", "b1"}[i] {
					cnt++
					verifrt.Assert(nv.Hostname == []string{"hb", "ha"}[i] && nv.HTTPPort == 4151 && len(nv.Topics) == 1 && nv.Topics[0].Topic == "t", "view-nodes-direct:fields-are-the-reported-ones")
				}
			}
			verifrt.Assert((cnt == 1) == ok[i] && cnt <= 1, "view-nodes-direct:listed-iff-it-answered-both-requests")
		}
		verifrt.Reach("view-nodes-direct:two-nodes", len(v.Nodes) == 2)
	})
}
