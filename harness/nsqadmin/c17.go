//go:build verif

package nsqadmin

import (
	"encoding/json"
	"net/http"

	"github.com/julienschmidt/httprouter"
	"github.com/nsqio/nsq/internal/verifrt"
)

// ---- identity x admin-list x header-name cases (the quantifiers of the statement) ----

type vIdentity struct {
	admins  []string    // configured admin users (non-empty names)
	header  string      // configured ACL header name
	hdr     http.Header // headers of the request
	isAdmin bool        // ghost: the request carries one of the admin names in the ACL header
	kind    int         // 0 absent, 1 present (any value incl. empty), 2 admin name under another header only
	user    string      // value of the ACL header when present
}

var vHeaderNames = []string{"X-Forwarded-User", "X-Auth-Request-Email", "x-user"}

// vIdentityCase: admin list of 0..maxAdmins names (1..nameLen bytes each, any bytes), one of the
// first nHeaders ACL header names, and the request's identity: ACL header absent / present with
// any value of 0..nameLen bytes (empty, an admin's name, a look-alike, anything else) / an
// admin's name presented under a different header.
func vIdentityCase(maxAdmins, nameLen, nHeaders int) *vIdentity {
	id := &vIdentity{}
	nAdmins := verifrt.Choice("admins", maxAdmins+1)
	for i := 0; i < nAdmins; i++ {
		a := verifrt.String("admin", nameLen)
		// an empty admin name is a configuration corner outside the claim (see report)
		verifrt.Assume(len(a) > 0)
		id.admins = append(id.admins, a)
	}
	id.header = vHeaderNames[verifrt.Choice("aclHeader", nHeaders)]
	id.hdr = http.Header{}
	id.hdr.Set("User-Agent", "verif")
	nKinds := 3
	if nAdmins == 0 {
		nKinds = 2
	}
	id.kind = verifrt.Choice("identity", nKinds)
	switch id.kind {
	case 0:
	case 1:
		id.user = verifrt.String("user", nameLen)
		id.hdr.Set(id.header, id.user)
		for _, a := range id.admins {
			if a == id.user {
				id.isAdmin = true
			}
		}
	case 2:
		// the right name in the wrong place is not an identity in the ACL header
		id.hdr.Set("X-Not-The-Acl-Header", id.admins[0])
	}
	return id
}

// mustForbid: the statement's antecedent "admin users are configured and the request does not
// carry an admin identity"
func (id *vIdentity) mustForbid() bool { return len(id.admins) > 0 && !id.isAdmin }

func (id *vIdentity) apply(o *Options) {
	o.AdminUsers = id.admins
	o.ACLHTTPHeader = id.header
}

// ---- the mutating handlers, called directly ----

type vAction struct {
	name    string // what the statement calls it
	method  string
	pattern string
	kind    string // the clusterinfo-level action that carries it out
	action  string // body {"action": ...} for the pause/unpause/empty family
}

var vActions = []vAction{
	{"create topic/channel", "POST", "/api/topics", "CreateTopicChannel", ""},
	{"delete topic", "DELETE", "/api/topics/:topic", "DeleteTopic", ""},
	{"delete channel", "DELETE", "/api/topics/:topic/:channel", "DeleteChannel", ""},
	{"pause topic", "POST", "/api/topics/:topic", "PauseTopic", "pause"},
	{"unpause topic", "POST", "/api/topics/:topic", "UnPauseTopic", "unpause"},
	{"empty topic", "POST", "/api/topics/:topic", "EmptyTopic", "empty"},
	{"pause channel", "POST", "/api/topics/:topic/:channel", "PauseChannel", "pause"},
	{"unpause channel", "POST", "/api/topics/:topic/:channel", "UnPauseChannel", "unpause"},
	{"empty channel", "POST", "/api/topics/:topic/:channel", "EmptyChannel", "empty"},
	{"tombstone node", "DELETE", "/api/nodes/:node", "TombstoneNodeForTopic", ""},
}

func vNameChar(c byte) bool {
	return c == '.' || c == '_' || c == '-' || (c >= 'a' && c <= 'z') || (c >= 'A' && c <= 'Z') || (c >= '0' && c <= '9')
}

// vName: a one-character topic/channel name (valid for nsq and safe inside a URL path)
func vName(tag string) string {
	s := verifrt.StringN(tag, 1)
	verifrt.Assume(vNameChar(s[0]))
	return s
}

// vActionRequest builds the request of action a for (topic, channel, node) and says which handler
// method of httpServer serves it.
func vActionRequest(a vAction, id *vIdentity, topic, channel, node string, junkBody bool) (*http.Request, httprouter.Params) {
	ps, path := vParams(a.pattern, map[string]string{"topic": topic, "channel": channel, "node": node})
	var body []byte
	switch {
	case junkBody:
		body = verifrt.Bytes("junk", 3)
	case a.kind == "CreateTopicChannel":
		body, _ = json.Marshal(struct {
			Topic   string `json:"topic"`
			Channel string `json:"channel"`
		}{topic, channel})
	case a.kind == "TombstoneNodeForTopic":
		body, _ = json.Marshal(struct {
			Topic string `json:"topic"`
		}{topic})
	case a.action != "":
		body, _ = json.Marshal(struct {
			Action string `json:"action"`
		}{a.action})
	}
	return vRequest(a.method, path, id.hdr, body, "10.1.2.3:5555"), ps
}

func vCallHandler(s *httpServer, a vAction, w http.ResponseWriter, req *http.Request, ps httprouter.Params) (interface{}, error) {
	switch a.kind {
	case "CreateTopicChannel":
		return s.createTopicChannelHandler(w, req, ps)
	case "DeleteTopic":
		return s.deleteTopicHandler(w, req, ps)
	case "DeleteChannel":
		return s.deleteChannelHandler(w, req, ps)
	case "TombstoneNodeForTopic":
		return s.tombstoneNodeForTopicHandler(w, req, ps)
	case "PauseTopic", "UnPauseTopic", "EmptyTopic":
		return s.topicActionHandler(w, req, ps)
	}
	return s.channelActionHandler(w, req, ps)
}

// vRunAction performs action a as identity id against cluster u and checks the statement:
//   admin users configured and no admin identity in the ACL header  =>  403 and NOTHING reached
//   any nsqd or nsqlookupd (not even a read), whatever the body;
//   otherwise (admin identity, or no admin list) => not 403 and the action was requested for
//   exactly this topic / channel / node against the configured nsqlookupds / nsqds.
func vRunAction(a vAction, u *vCluster, id *vIdentity) {
	o := vOptions(u)
	id.apply(o)
	s := vServer(vAdmin(o))

	topic := vName("topic")
	channel := ""
	if a.kind == "CreateTopicChannel" {
		if verifrt.Choice("withChannel", 2) == 1 {
			channel = vName("channel")
		}
	} else {
		channel = vName("channel")
	}
	node := u.nodeName()
	junk := false
	if id.mustForbid() && a.method == "POST" {
		junk = verifrt.Choice("junkBody", 2) == 1
	}
	req, ps := vActionRequest(a, id, topic, channel, node, junk)
	w := &vWriter{}
	_, err := vCallHandler(s, a, w, req, ps)
	code := vErrCode(err)
	verifrt.Observe("code", code)

	if id.mustForbid() {
		verifrt.Assert(code == 403, "no-admin-identity-is-403")
		verifrt.Assert(u.total() == 0, "forbidden-request-reaches-no-upstream")
		verifrt.Assert(w.writes == 0 && w.status == 0, "forbidden-handler-writes-nothing-itself")
		verifrt.Reach("forbidden-absent-header", id.kind == 0)
		verifrt.Reach("forbidden-empty-identity", id.kind == 1 && len(id.user) == 0)
		verifrt.Reach("forbidden-non-admin", id.kind == 1 && len(id.user) > 0)
		if a.method == "POST" {
			verifrt.Reach("forbidden-junk-body", junk)
		}
		return
	}
	verifrt.Assert(code != 403, "admin-or-open-is-not-403")
	verifrt.Assert(code == 200, "admin-action-succeeds")
	// which coordinates the action is about
	wantChannel, wantNode := "", ""
	switch a.kind {
	case "CreateTopicChannel", "DeleteChannel", "PauseChannel", "UnPauseChannel", "EmptyChannel":
		wantChannel = channel
	case "TombstoneNodeForTopic":
		wantNode = node
	}
	verifrt.Assert(u.did(a.kind, topic, wantChannel, wantNode), "admin-action-carried-out-for-this-target")
	if verifrt.Symbolic() {
		verifrt.Assert(u.mutations() == 1, "exactly-the-requested-action")
	}
	verifrt.Reach("carried-out-as-admin", len(id.admins) > 0)
	verifrt.Reach("carried-out-no-admin-list", len(id.admins) == 0)
}

// Every state-changing handler x {no admin list, one admin} x {header absent, any value} x
// cluster mode (nsqlookupd / --nsqd-http-address) x {well-formed, arbitrary} body.
func VerifC17_MutatingHandlers() { verifrt.Atomic(verifC17MutatingHandlers) }

func verifC17MutatingHandlers() {
	a := vActions[verifrt.Choice("action", len(vActions))]
	id := vIdentityCase(1, verifrt.Bound("nameLen", 2, 3), 1)
	nLookupd := 1
	if len(id.admins) == 0 && id.kind == 0 && a.kind != "CreateTopicChannel" && a.kind != "TombstoneNodeForTopic" {
		nLookupd = verifrt.Choice("lookupds", 3) // 0 = --nsqd-http-address mode
	}
	u := vNewCluster(nLookupd)
	defer u.close()
	vRunAction(a, u, id)
}

// The identity decision in depth, through two of the handlers: admin lists of 0..2 / 0..3
// names, every configured header name (canonical, default, lower-case), header absent / any
// value (empty, an admin, a look-alike differing in case, length or one byte) / the admin's
// name under another header.
func VerifC17_IdentityDecision() { verifrt.Atomic(verifC17IdentityDecision) }

func verifC17IdentityDecision() {
	a := vActions[1+verifrt.Choice("action", verifrt.Bound("actions", 1, 2))*2] // delete topic, pause topic
	id := vIdentityCase(verifrt.Bound("admins", 2, 3), verifrt.Bound("nameLen", 2, 3), len(vHeaderNames))
	u := vNewCluster(1)
	defer u.close()
	vRunAction(a, u, id)
	if id.mustForbid() {
		verifrt.Reach("forbidden-wrong-header", id.kind == 2)
		verifrt.Reach("forbidden-case-look-alike", id.kind == 1 && len(id.user) == len(id.admins[0]) && len(id.user) > 0 && (id.user[0]|0x20) == (id.admins[0][0]|0x20))
		verifrt.Reach("forbidden-prefix-look-alike", id.kind == 1 && len(id.user) > 0 && len(id.user) < len(id.admins[0]) && id.user[0] == id.admins[0][0])
	} else {
		verifrt.Reach("carried-out-second-admin", len(id.admins) > 1 && id.kind == 1 && id.user == id.admins[1] && id.user != id.admins[0])
	}
}
