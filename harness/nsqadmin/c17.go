//go:build verif

package nsqadmin

import (
	"encoding/json"
	"errors"
	"net/http"

	"github.com/julienschmidt/httprouter"
	"github.com/nsqio/nsq/internal/http_api"
	"github.com/nsqio/nsq/internal/verifrt"
)

// ---- identity x admin-list x header-name cases (the quantifiers of the statement) ----

type vIdentity struct {
	admins  []string    // configured admin users (non-empty names)
	header  string      // configured ACL header name
	hdr     http.Header // headers of the request
	isAdmin bool        // ghost: the request carries one of the admin names in the ACL header
	kind    int         // 0 absent, 1 present (any value incl. empty), 2 admin name under another header only
	user    string      // value of the ACL header when present
}

var vHeaderNames = []string{"X-Forwarded-User", "X-Auth-Request-Email", "x-user"}

// names and identities are ASCII (any of the 128 values, control characters included); bytes
// >= 0x80 would only exercise the standard library's UTF-8 tables: outside the claim
func vAssumeASCII(s string) {
	for i := 0; i < len(s); i++ {
		verifrt.Assume(s[i] < 0x80)
	}
}

// vIdentityCase: admin list of 0..maxAdmins names (1..nameLen ASCII bytes each), one of the
// first nHeaders ACL header names, and the request's identity: ACL header absent / present with
// any value of 0..nameLen bytes (empty, an admin's name, a look-alike, anything else) / an
// admin's name presented under a different header.
func vIdentityCase(maxAdmins, nameLen, nHeaders int) *vIdentity {
	id := &vIdentity{}
	nAdmins := verifrt.Choice("admins", maxAdmins+1)
	for i := 0; i < nAdmins; i++ {
		a := verifrt.String("admin", nameLen)
		// an empty admin name is a configuration corner outside the claim (see report)
		verifrt.Assume(len(a) > 0)
		vAssumeASCII(a)
		id.admins = append(id.admins, a)
	}
	hi := verifrt.Choice("aclHeader", nHeaders)
	id.header = vHeaderNames[hi]
	// another header a proxy might set: one of the other well-known names when several are in play
	other := "X-Not-The-Acl-Header"
	if nHeaders > 1 {
		other = vHeaderNames[(hi+1)%nHeaders]
	}
	id.hdr = http.Header{}
	id.hdr.Set("User-Agent", "verif")
	nKinds := 3
	if nAdmins == 0 {
		nKinds = 2
	}
	id.kind = verifrt.Choice("identity", nKinds)
	switch id.kind {
	case 0:
	case 1:
		id.user = verifrt.String("user", nameLen)
		vAssumeASCII(id.user)
		id.hdr.Set(id.header, id.user)
		for _, a := range id.admins {
			if a == id.user {
				id.isAdmin = true
			}
		}
	case 2:
		// the right name in the wrong place is not an identity in the ACL header
		id.hdr.Set(other, id.admins[0])
	}
	return id
}

// mustForbid: the statement's antecedent "admin users are configured and the request does not
// carry an admin identity"
func (id *vIdentity) mustForbid() bool { return len(id.admins) > 0 && !id.isAdmin }

func (id *vIdentity) apply(o *Options) {
	o.AdminUsers = id.admins
	o.ACLHTTPHeader = id.header
}

// ---- the mutating handlers, called directly ----

type vAction struct {
	name    string // what the statement calls it
	method  string
	pattern string
	kind    string // the clusterinfo-level action that carries it out
	action  string // body {"action": ...} for the pause/unpause/empty family
}

var vActions = []vAction{
	{"create topic/channel", "POST", "/api/topics", "CreateTopicChannel", ""},
	{"delete topic", "DELETE", "/api/topics/:topic", "DeleteTopic", ""},
	{"delete channel", "DELETE", "/api/topics/:topic/:channel", "DeleteChannel", ""},
	{"pause topic", "POST", "/api/topics/:topic", "PauseTopic", "pause"},
	{"unpause topic", "POST", "/api/topics/:topic", "UnPauseTopic", "unpause"},
	{"empty topic", "POST", "/api/topics/:topic", "EmptyTopic", "empty"},
	{"pause channel", "POST", "/api/topics/:topic/:channel", "PauseChannel", "pause"},
	{"unpause channel", "POST", "/api/topics/:topic/:channel", "UnPauseChannel", "unpause"},
	{"empty channel", "POST", "/api/topics/:topic/:channel", "EmptyChannel", "empty"},
	{"tombstone node", "DELETE", "/api/nodes/:node", "TombstoneNodeForTopic", ""},
}

func vNameChar(c byte) bool {
	return c == '.' || c == '_' || c == '-' || (c >= 'a' && c <= 'z') || (c >= 'A' && c <= 'Z') || (c >= '0' && c <= '9')
}

// vName: a one-character topic/channel name (valid for nsq and safe inside a URL path)
func vName(tag string) string {
	s := verifrt.StringN(tag, 1)
	verifrt.Assume(vNameChar(s[0]))
	return s
}

// vActionRequest builds the request of action a for (topic, channel, node) and says which handler
// method of httpServer serves it.
func vActionRequest(a vAction, id *vIdentity, topic, channel, node string, junkBody bool) (*http.Request, httprouter.Params) {
	ps, path := vParams(a.pattern, map[string]string{"topic": topic, "channel": channel, "node": node})
	var body []byte
	switch {
	case junkBody:
		body = verifrt.Bytes("junk", 3)
	case a.kind == "CreateTopicChannel":
		body, _ = json.Marshal(struct {
			Topic   string `json:"topic"`
			Channel string `json:"channel"`
		}{topic, channel})
	case a.kind == "TombstoneNodeForTopic":
		body, _ = json.Marshal(struct {
			Topic string `json:"topic"`
		}{topic})
	case a.action != "":
		body, _ = json.Marshal(struct {
			Action string `json:"action"`
		}{a.action})
	}
	return vRequest(a.method, path, id.hdr, body, "10.1.2.3:5555"), ps
}

func vCallHandler(s *httpServer, a vAction, w http.ResponseWriter, req *http.Request, ps httprouter.Params) (interface{}, error) {
	switch a.kind {
	case "CreateTopicChannel":
		return s.createTopicChannelHandler(w, req, ps)
	case "DeleteTopic":
		return s.deleteTopicHandler(w, req, ps)
	case "DeleteChannel":
		return s.deleteChannelHandler(w, req, ps)
	case "TombstoneNodeForTopic":
		return s.tombstoneNodeForTopicHandler(w, req, ps)
	case "PauseTopic", "UnPauseTopic", "EmptyTopic":
		return s.topicActionHandler(w, req, ps)
	}
	return s.channelActionHandler(w, req, ps)
}

// vRunAction performs action a as identity id against cluster u and checks the statement:
//   admin users configured and no admin identity in the ACL header  =>  403 and NOTHING reached
//   any nsqd or nsqlookupd (not even a read), whatever the body;
//   otherwise (admin identity, or no admin list) => not 403 and the action was requested for
//   exactly this topic / channel / node against the configured nsqlookupds / nsqds.
func vRunAction(a vAction, u *vCluster, id *vIdentity) {
	o := vOptions(u)
	id.apply(o)
	s := vServer(vAdmin(o))

	topic := vName("topic")
	channel := ""
	if a.kind == "CreateTopicChannel" {
		if verifrt.Choice("withChannel", 2) == 1 {
			channel = vName("channel")
		}
	} else {
		channel = vName("channel")
	}
	node := u.nodeName()
	junk := false
	if id.mustForbid() && a.method == "POST" {
		junk = verifrt.Choice("junkBody", 2) == 1
	}
	req, ps := vActionRequest(a, id, topic, channel, node, junk)
	w := &vWriter{}
	_, err := vCallHandler(s, a, w, req, ps)
	code := vErrCode(err)
	verifrt.Observe("code", code)

	if id.mustForbid() {
		verifrt.Assert(code == 403, "no-admin-identity-is-403")
		verifrt.Assert(u.total() == 0, "forbidden-request-reaches-no-upstream")
		verifrt.Assert(w.writes == 0 && w.status == 0, "forbidden-handler-writes-nothing-itself")
		verifrt.Reach("forbidden-absent-header", id.kind == 0)
		verifrt.Reach("forbidden-empty-identity", id.kind == 1 && len(id.user) == 0)
		verifrt.Reach("forbidden-non-admin", id.kind == 1 && len(id.user) > 0)
		if a.method == "POST" {
			verifrt.Reach("forbidden-junk-body", junk)
		}
		return
	}
	verifrt.Assert(code != 403, "admin-or-open-is-not-403")
	verifrt.Assert(code == 200, "admin-action-succeeds")
	// which coordinates the action is about
	wantChannel, wantNode := "", ""
	switch a.kind {
	case "CreateTopicChannel", "DeleteChannel", "PauseChannel", "UnPauseChannel", "EmptyChannel":
		wantChannel = channel
	case "TombstoneNodeForTopic":
		wantNode = node
	}
	verifrt.Assert(u.did(a.kind, topic, wantChannel, wantNode), "admin-action-carried-out-for-this-target")
	if verifrt.Symbolic() {
		verifrt.Assert(u.mutations() == 1, "exactly-the-requested-action")
	}
	verifrt.Reach("carried-out-as-admin", len(id.admins) > 0)
	verifrt.Reach("carried-out-no-admin-list", len(id.admins) == 0)
}

// Every state-changing handler x {no admin list, one admin} x {header absent, any value} x
// cluster mode (nsqlookupd / --nsqd-http-address) x {well-formed, arbitrary} body.
func VerifC17_MutatingHandlers() { verifrt.Atomic(verifC17MutatingHandlers) }

func verifC17MutatingHandlers() {
	a := vActions[verifrt.Choice("action", len(vActions))]
	id := vIdentityCase(1, verifrt.Bound("nameLen", 2, 3), 1)
	nLookupd := 1
	if len(id.admins) == 0 && id.kind == 0 && a.kind != "CreateTopicChannel" && a.kind != "TombstoneNodeForTopic" {
		nLookupd = verifrt.Choice("lookupds", 3) // 0 = --nsqd-http-address mode
	}
	u := vNewCluster(nLookupd)
	defer u.close()
	vRunAction(a, u, id)
}

// The identity decision in depth, through two of the handlers: admin lists of 0..2 / 0..3
// names, every configured header name (canonical, default, lower-case), header absent / any
// value (empty, an admin, a look-alike differing in case, length or one byte) / the admin's
// name under another header.
func VerifC17_IdentityDecision() { verifrt.Atomic(verifC17IdentityDecision) }

func verifC17IdentityDecision() {
	a := vActions[1+verifrt.Choice("action", verifrt.Bound("actions", 1, 2))*2] // delete topic, pause topic
	id := vIdentityCase(verifrt.Bound("admins", 2, 3), verifrt.Bound("nameLen", 2, 3), len(vHeaderNames))
	u := vNewCluster(1)
	defer u.close()
	vRunAction(a, u, id)
	if id.mustForbid() {
		verifrt.Reach("forbidden-wrong-header", id.kind == 2)
		verifrt.Reach("forbidden-case-look-alike", id.kind == 1 && len(id.user) == len(id.admins[0]) && len(id.user) > 0 && (id.user[0]|0x20) == (id.admins[0][0]|0x20))
		verifrt.Reach("forbidden-prefix-look-alike", id.kind == 1 && len(id.user) > 0 && len(id.user) < len(id.admins[0]) && id.user[0] == id.admins[0][0])
	} else {
		verifrt.Reach("carried-out-second-admin", len(id.admins) > 1 && id.kind == 1 && id.user == id.admins[1] && id.user != id.admins[0])
	}
}

// ---- the route table itself ----

type vRoute struct {
	method  string
	pattern string
	handle  httprouter.Handle
}

// vRoutes runs the real NewHTTPServer. Under gosmt (*httprouter.Router).Handle is redirected to
// a recorder, so the table (method, pattern, decorated handler) is whatever the current source
// registers. The chosen route's method and pattern travel to a native replay inside the model
// (fixed-size strings constrained to the recorded text); natively the decorated handler is
// fetched from the real router with Router.Lookup.
func vRoutes(n *NSQAdmin, base string) (*httpServer, vRoute, map[string]string) {
	vals := map[string]string{"topic": "t", "channel": "c", "node": "nsqd0:4151", "opt": "log_level", "asset": "x.js"}
	const padM, padP = 8, 40
	names := func(method string) {
		// read-only views are asked about the topic/channel the cluster has; actions get any name
		if method != "GET" {
			vals["topic"], vals["channel"] = vName("topic"), vName("channel")
		}
	}
	if verifrt.Symbolic() {
		var table []vRoute
		verifrt.Stub("(*github.com/julienschmidt/httprouter.Router).Handle", func(r *httprouter.Router, method, path string, h httprouter.Handle) {
			table = append(table, vRoute{method, path, h})
		})
		s := NewHTTPServer(n)
		vCheckTable(table, base)
		rt := table[verifrt.Choice("route", len(table))]
		m, p := verifrt.StringN("routeMethod", padM), verifrt.StringN("routePattern", padP)
		wantM, wantP := vPad(rt.method, padM), vPad(rt.pattern, padP)
		verifrt.Assume(m == wantM)
		verifrt.Assume(p == wantP)
		names(rt.method)
		return s, rt, vals
	}
	s := NewHTTPServer(n)
	verifrt.Choice("route", 1)
	rt := vRoute{method: vUnpad(verifrt.StringN("routeMethod", padM)), pattern: vUnpad(verifrt.StringN("routePattern", padP))}
	names(rt.method)
	_, path := vParams(rt.pattern, vals)
	rt.handle, _, _ = s.router.(*httprouter.Router).Lookup(rt.method, path)
	return s, rt, vals
}

func vPad(s string, n int) string {
	for len(s) < n {
		s += "\x00"
	}
	return s
}

func vUnpad(s string) string {
	for len(s) > 0 && s[len(s)-1] == 0 {
		s = s[:len(s)-1]
	}
	return s
}

// vCheckTable: every action the statement names is routable (reference list vActions).
func vCheckTable(table []vRoute, base string) {
	for _, a := range vActions {
		found := false
		for _, r := range table {
			if r.method == a.method && r.pattern == base+a.pattern {
				found = true
			}
		}
		verifrt.Assert(found, "statement-action-has-a-route")
	}
	verifrt.Assert(len(table) < 64, "route-table-fits-harness")
}

func vHasPrefix(s, p string) bool { return len(s) >= len(p) && s[:len(p)] == p }

// Every route the current source registers, by its method:
//   not GET, not /config (state-changing): without an admin identity the decorated handler answers
//     403 and nothing reaches the cluster; as admin / with no admin list it is not 403, and when the
//     route is one of the statement's actions that action is carried out;
//   GET /api/... (read-only views): never 403 whatever the identity, and no state-changing
//     request reaches the cluster.
// A handler that loses its identity check, or a new unguarded mutating route, fails here.
func VerifC17_RouteTable() { verifrt.Atomic(verifC17RouteTable) }

func verifC17RouteTable() {
	id := vIdentityCase(verifrt.Bound("admins", 1, 2), verifrt.Bound("nameLen", 1, 2), 1)
	u := vNewCluster(1)
	defer u.close()
	o := vOptions(u)
	id.apply(o)
	o.AllowConfigFromCIDR = ""
	base := ""
	if verifrt.Choice("basePath", verifrt.Bound("basePaths", 1, 2)) == 1 {
		base = "/nsq"
		o.BasePath = base
	}
	if !verifrt.Symbolic() {
		o.GraphiteURL = "http://" + u.lookupds[0]
	}
	verifrt.Stub("(*github.com/nsqio/nsq/internal/http_api.Client).GETV1", func(c *http_api.Client, endpoint string, v interface{}) error {
		u.rec("GETV1", "", "", "", nil, nil)
		return errors.New("verif: graphite is not part of the cluster")
	})
	s, rt, vals := vRoutes(vAdmin(o), base)
	_ = s
	if rt.handle == nil {
		verifrt.Assert(false, "route-not-found-natively")
		return
	}
	vals["node"] = u.nodeName()
	ps, path := vParams(rt.pattern, vals)
	rel := rt.pattern[len(base):] // the route relative to the base path
	isConfig := vHasPrefix(rel, "/config")
	isAPI := vHasPrefix(rel, "/api/")
	if rt.method == "GET" && !isAPI {
		// HTML pages, static assets, /ping, GET /config (VerifC17_Config): not run here
		return
	}
	if isConfig {
		return
	}
	// does the route carry one of the statement's actions? (then send that action's body)
	var body []byte
	act := -1
	var cands []int
	for i, a := range vActions {
		if a.method == rt.method && a.pattern == rel {
			cands = append(cands, i)
		}
	}
	if len(cands) > 0 {
		act = cands[verifrt.Choice("bodyAction", len(cands))]
		a := vActions[act]
		switch {
		case a.kind == "CreateTopicChannel":
			body, _ = json.Marshal(struct {
				Topic   string `json:"topic"`
				Channel string `json:"channel"`
			}{vals["topic"], vals["channel"]})
		case a.kind == "TombstoneNodeForTopic":
			body, _ = json.Marshal(struct {
				Topic string `json:"topic"`
			}{vals["topic"]})
		case a.action != "":
			body, _ = json.Marshal(struct {
				Action string `json:"action"`
			}{a.action})
		}
	} else if rt.method != "GET" {
		body = verifrt.Bytes("junk", 2)
	}
	if verifrt.Symbolic() {
		// the URL is only logged by the Log decorator (the handlers get their arguments from ps);
		// a concrete stand-in keeps net/url's escaping of the symbolic names out of the run
		path = rt.pattern
	}
	req := vRequest(rt.method, path, id.hdr, body, "10.1.2.3:5555")
	if rel == "/api/graphite" {
		req.URL.RawQuery = "metric=rate&target=x"
	}
	w := &vWriter{}
	rt.handle(w, req, ps)
	verifrt.Observe("status", w.status)
	verifrt.Assert(w.status != 0, "route-answers")

	if rt.method == "GET" {
		verifrt.Assert(w.status != 403, "read-only-view-never-forbidden")
		verifrt.Assert(u.mutations() == 0, "read-only-view-changes-nothing")
		verifrt.Reach("read-only-view-as-non-admin", id.mustForbid() && w.status == 200)
		return
	}
	if id.mustForbid() {
		verifrt.Assert(w.status == 403, "mutating-route-without-admin-identity-is-403")
		verifrt.Assert(u.total() == 0, "forbidden-route-reaches-no-upstream")
		verifrt.Reach("mutating-route-forbidden", true)
		return
	}
	verifrt.Assert(w.status != 403, "mutating-route-open-to-admin")
	if act >= 0 {
		a := vActions[act]
		wantChannel, wantNode := "", ""
		switch a.kind {
		case "CreateTopicChannel", "DeleteChannel", "PauseChannel", "UnPauseChannel", "EmptyChannel":
			wantChannel = vals["channel"]
		case "TombstoneNodeForTopic":
			wantNode = vals["node"]
		}
		verifrt.Assert(w.status == 200, "routed-action-succeeds")
		verifrt.Assert(u.did(a.kind, vals["topic"], wantChannel, wantNode), "routed-action-carried-out")
		verifrt.Reach("routed-action-as-admin", len(id.admins) > 0)
	}
}

// ---- fan-out: the real clusterinfo below the handlers ----

// Open nsqadmin (no admin list) or an admin; L nsqlookupds x N nsqds producing the topic (or
// --nsqd-http-address mode), optionally one more nsqd of the cluster that does NOT produce it;
// the nsqd addresses laid out as distinct hosts on one port / ONE host (one broadcast address) on
// distinct ports / a mix; every producer registered with every nsqlookupd or each with one of
// them only; optionally ONE upstream whose POSTs fail. Through the real handler and the real
// clusterinfo, producer discovery included (only the HTTP client is replaced: /lookup, /stats,
// /info answer what the scripted nsqlookupds and nsqds know), the action reaches exactly the
// relevant upstreams:
//   create topic            -> /topic/create on every nsqlookupd
//   create topic + channel  -> also /channel/create on every nsqlookupd and every nsqd producing the topic
//   delete topic / channel  -> /topic/delete | /channel/delete on every nsqlookupd and every producing nsqd
//   pause/unpause/empty     -> /topic/<a> | /channel/<a> on every producing nsqd
//   tombstone node          -> /topic/tombstone on every nsqlookupd and /topic/delete on that node only
// where "every producing nsqd" means every distinct broadcast address AND port, nothing is sent
// to an nsqd that does not produce the topic, and a failing upstream does not keep the others
// from being asked. Without an admin identity nothing at all is sent (same check as
// VerifC17_MutatingHandlers, on the HTTP surface).
func VerifC17_FanOut() { verifrt.Atomic(verifC17FanOut) }

func verifC17FanOut() {
	a := vActions[verifrt.Choice("action", len(vActions))]
	maxUp := verifrt.Bound("upstreams", 2, 3)
	nNsqd := 1 + verifrt.Choice("nsqds", maxUp)
	nLookupd := 1 + verifrt.Choice("lookupds", maxUp)
	if a.kind != "CreateTopicChannel" && a.kind != "TombstoneNodeForTopic" && verifrt.Choice("nsqdMode", 2) == 1 {
		nLookupd = 0
	}
	// identity: open, admin, or refused
	who := verifrt.Choice("who", 3)
	// topology (immaterial when the request is refused: nothing may be sent at all)
	nIdle, layout, view := 0, vHostsDiffer, vViewAll
	if who != 2 {
		nIdle = verifrt.Choice("idleNsqds", 2)
		if nNsqd+nIdle > 1 {
			layout = verifrt.Choice("layout", verifrt.Bound("layouts", 2, 3))
		}
		if nLookupd > 1 && nNsqd > 1 {
			view = verifrt.Choice("registration", 2)
		}
	}
	u := vNewClusterHTTPTopo(nLookupd, nNsqd, nIdle, layout, view)
	defer u.close()
	all := append(append([]string{}, u.lookupdAddrs...), u.nsqdAddrs...)
	if f := verifrt.Choice("failing", len(all)+1); f > 0 {
		u.failPost = all[f-1]
	}
	o := vOptions(u)
	hdr := http.Header{}
	if who > 0 {
		o.AdminUsers = []string{"root"}
	}
	if who == 1 {
		hdr.Set(o.ACLHTTPHeader, "root")
	}
	s := vServer(vAdmin(o))
	topic, channel, node := u.topic, u.channel, u.nodeName()
	if a.kind == "CreateTopicChannel" && verifrt.Choice("withChannel", 2) == 0 {
		channel = ""
	}
	if a.kind == "TombstoneNodeForTopic" && who != 2 {
		node = u.nsqdAddrs[verifrt.Choice("node", nNsqd)]
	}
	id := &vIdentity{hdr: hdr}
	req, ps := vActionRequest(a, id, topic, channel, node, false)
	w := &vWriter{}
	_, err := vCallHandler(s, a, w, req, ps)
	code := vErrCode(err)
	verifrt.Observe("code", code)
	if who == 2 {
		verifrt.Assert(code == 403, "fanout-no-admin-identity-is-403")
		verifrt.Assert(u.total() == 0, "fanout-forbidden-sends-nothing")
		verifrt.Reach("fanout-forbidden", true)
		return
	}
	verifrt.Assert(code != 403, "fanout-admin-not-forbidden")
	onLookupds := func(path, ch, nd string) {
		for _, l := range u.lookupdAddrs {
			verifrt.Assert(u.posted(l, path, topic, ch, nd), "action-reaches-every-nsqlookupd")
		}
	}
	onNsqds := func(path, ch string) {
		for _, n := range u.nsqdAddrs {
			verifrt.Assert(u.posted(n, path, topic, ch, ""), "action-reaches-every-producing-nsqd")
		}
	}
	switch a.kind {
	case "CreateTopicChannel":
		onLookupds("/topic/create", "", "")
		if channel != "" {
			onLookupds("/channel/create", channel, "")
			onNsqds("/channel/create", channel)
		}
	case "DeleteTopic":
		onLookupds("/topic/delete", "", "")
		onNsqds("/topic/delete", "")
	case "DeleteChannel":
		onLookupds("/channel/delete", channel, "")
		onNsqds("/channel/delete", channel)
	case "TombstoneNodeForTopic":
		onLookupds("/topic/tombstone", "", node)
		verifrt.Assert(u.posted(node, "/topic/delete", topic, "", ""), "tombstoned-node-drops-the-topic")
		for _, n := range u.nsqdAddrs {
			if n != node {
				verifrt.Assert(u.postsTo(n) == 0, "tombstone-touches-only-that-node")
			}
		}
	case "PauseTopic", "UnPauseTopic", "EmptyTopic":
		onNsqds("/topic/"+a.action, "")
	default:
		onNsqds("/channel/"+a.action, channel)
	}
	// ... and no other: an nsqd that does not produce the topic is not relevant to the action
	for _, n := range u.idleAddrs {
		verifrt.Assert(u.postsTo(n) == 0, "action-reaches-no-nsqd-that-does-not-produce-the-topic")
	}
	if verifrt.Symbolic() {
		// (natively a request to an address nobody listens on has no observer)
		verifrt.Assert(u.strayPosts() == 0, "action-sent-only-to-upstreams-of-the-cluster")
	}
	if u.failPost == "" {
		verifrt.Assert(code == 200, "fanout-all-up-is-200")
	}
	verifrt.Reach("fanout-two-lookupds-two-nsqds", nLookupd == 2 && nNsqd == 2)
	verifrt.Reach("fanout-nsqd-mode", nLookupd == 0 && nNsqd == 2)
	verifrt.Reach("fanout-with-failing-lookupd", nLookupd == 2 && u.failPost == u.lookupdAddrs[0])
	verifrt.Reach("fanout-with-failing-nsqd", nNsqd == 2 && u.failPost == u.nsqdAddrs[0])
	verifrt.Reach("fanout-two-nsqds-one-host-two-ports", layout == vPortsDiffer && nNsqd == 2 && nLookupd > 0)
	verifrt.Reach("fanout-two-nsqds-two-hosts-one-port", layout == vHostsDiffer && nNsqd == 2 && nLookupd > 0)
	verifrt.Reach("fanout-nsqd-mode-one-host-two-ports", layout == vPortsDiffer && nNsqd == 2 && nLookupd == 0)
	verifrt.Reach("fanout-idle-nsqd-on-a-producers-host", layout == vPortsDiffer && nIdle == 1)
	verifrt.Reach("fanout-producers-split-over-nsqlookupds", view == vViewSplit)
	verifrt.Reach("fanout-tombstone-second-node", a.kind == "TombstoneNodeForTopic" && nNsqd == 2 && node == u.nsqdAddrs[1])
}
