//go:build verif

package nsqd

import (
	"time"

	"github.com/nsqio/nsq/internal/protocol"
	"github.com/nsqio/nsq/internal/verifrt"
)

// One consumer answer (FIN / REQ / TOUCH through the real protocol handlers) from ANY valid
// channel state: accepted iff the id is in flight AND held by the answering connection;
// otherwise the documented non-fatal E_*_FAILED and nothing changes. After an accepted FIN the
// message is in no store; after REQ it is in exactly one of {queue, deferred}; after TOUCH it is
// still held by the same connection with deadline min(now+T, delivered+max-msg-timeout).
func VerifC02_AnswerStep() { verifrt.Atomic(func() { verifAnswerStep(-1) }) }

func verifAnswerStep(fixedOp int) {
	o := verifOpts()
	o.MemQueueSize = 4
	st := verifNewChan(o, "ch")
	a := st.addClient(1)
	b := st.addClient(2)
	nF := verifrt.Choice("nF", verifrt.Bound("inflight", 3, 4))
	nD := verifrt.Choice("nD", 2)
	nM := verifrt.Choice("nM", 2)
	st.populate(nF, nD, nM, 0, 3) // owner 3 = a connection that has gone away
	st.assertInvariants("pre")

	who := a
	if verifrt.Choice("who", 2) == 1 {
		who = b
	}
	id := MessageID{}
	copy(id[:], verifrt.BytesN("id", 16))
	// ghost: is it held by the answering connection?
	held := false
	var target *Message
	for _, m := range st.inFlight {
		if m.ID == id {
			target = m
			if m.clientID == who.ID {
				held = true
			}
		}
	}
	var otherPri [4]int64
	for i, m := range st.inFlight {
		otherPri[i] = m.pri
	}
	preInFlight, preDeferred, preMem := len(st.c.inFlightMessages), len(st.c.deferredMessages), len(st.c.memoryMsgChan)
	preCount := who.InFlightCount
	preFin, preReq := who.FinishCount, who.RequeueCount
	preChanReq := st.c.requeueCount
	p := &protocolV2{nsqd: st.n}
	op := fixedOp
	if op < 0 {
		op = verifrt.Choice("op", 3)
	}
	var err error
	var resp []byte
	var delayMs uint64
	msgTimeout := who.MsgTimeout
	switch op {
	case 0:
		resp, err = p.FIN(who, [][]byte{[]byte("FIN"), id[:]})
	case 1:
		var digits []byte
		delayMs, digits = verifNumber("reqDelayMs")
		resp, err = p.REQ(who, [][]byte{[]byte("REQ"), id[:], digits})
	case 2:
		resp, err = p.TOUCH(who, [][]byte{[]byte("TOUCH"), id[:]})
	}
	verifrt.Assert(resp == nil, "answer-has-no-response-frame")
	st.assertInvariants("post")
	w := st.locate(id)
	if !held {
		ce, nonFatal := err.(*protocol.ClientErr)
		verifrt.Assert(nonFatal, "not-held-answer-is-non-fatal-error")
		if nonFatal {
			want := "E_FIN_FAILED"
			if op == 1 {
				want = "E_REQ_FAILED"
			} else if op == 2 {
				want = "E_TOUCH_FAILED"
			}
			verifrt.Assert(ce.Code == want, "not-held-error-code")
		}
		// nothing changed
		verifrt.Assert(len(st.c.inFlightMessages) == preInFlight && len(st.c.deferredMessages) == preDeferred && len(st.c.memoryMsgChan) == preMem, "not-held-changes-no-store")
		for i, m := range st.inFlight {
			verifrt.Assert(m.pri == otherPri[i], "not-held-changes-no-deadline")
			got, ok := st.c.inFlightMessages[m.ID]
			verifrt.Assert(ok && got == m, "not-held-keeps-every-inflight-message")
		}
		verifrt.Assert(who.InFlightCount == preCount && who.FinishCount == preFin && who.RequeueCount == preReq, "not-held-changes-no-client-counter")
		verifrt.Assert(st.c.requeueCount == preChanReq, "not-held-changes-no-channel-counter")
		verifrt.Reach("rejected-wrong-owner", target != nil)
		verifrt.Reach("rejected-unknown-id", target == nil)
		return
	}
	verifrt.Assert(err == nil, "held-answer-accepted")
	// every OTHER in-flight message is untouched
	for i, m := range st.inFlight {
		if m != target {
			verifrt.Assert(m.pri == otherPri[i], "answer-leaves-other-deadlines")
			got, ok := st.c.inFlightMessages[m.ID]
			verifrt.Assert(ok && got == m, "answer-leaves-other-messages-in-flight")
		}
	}
	switch op {
	case 0:
		verifrt.Assert(w.total() == 0 && w.heap == 0, "fin-removes-from-every-store")
		verifrt.Assert(who.InFlightCount == preCount-1 && who.FinishCount == preFin+1, "fin-client-counters")
		verifrt.Reach("fin-accepted", nF > 1)
	case 1:
		verifrt.Assert(w.inFlight == 0 && w.heap == 0, "req-removes-from-in-flight")
		verifrt.Assert(w.memory+w.backend+w.deferred == 1, "req-requeues-exactly-once")
		maxMs := uint64(st.n.getOpts().MaxReqTimeout / time.Millisecond)
		if delayMs == 0 {
			verifrt.Assert(w.deferred == 0, "req-zero-delay-goes-to-queue")
		} else {
			verifrt.Assert(w.deferred == 1, "req-delay-goes-to-deferred")
			if w.deferred == 1 {
				item := st.c.deferredMessages[id]
				d := item.Priority - verifrt.LastNow()
				if delayMs > maxMs {
					verifrt.Assert(d == int64(st.n.getOpts().MaxReqTimeout), "req-delay-clamped-to-max")
				} else {
					verifrt.Assert(d == int64(time.Duration(delayMs)*time.Millisecond), "req-delay-exact")
				}
			}
		}
		verifrt.Assert(who.InFlightCount == preCount-1 && who.RequeueCount == preReq+1, "req-client-counters")
		verifrt.Assert(st.c.requeueCount == preChanReq+1, "req-channel-counter")
		verifrt.Reach("req-accepted-deferred", delayMs > maxMs)
		verifrt.Reach("req-accepted-immediate", delayMs == 0)
	case 2:
		verifrt.Assert(w.inFlight == 1 && w.heap == 1 && w.total() == 1, "touch-keeps-in-flight-once")
		verifrt.Assert(target.clientID == who.ID, "touch-keeps-owner")
		now := verifrt.LastNow()
		capAt := target.deliveryTS.UnixNano() + int64(st.n.getOpts().MaxMsgTimeout)
		want := now + int64(msgTimeout)
		if want >= capAt {
			want = capAt
		}
		verifrt.Assert(target.pri == want, "touch-deadline-is-min-of-now+timeout-and-cap")
		verifrt.Assert(who.InFlightCount == preCount, "touch-client-counters")
		verifrt.Reach("touch-capped", now+int64(msgTimeout) > capAt)
		verifrt.Reach("touch-uncapped", now+int64(msgTimeout) < capAt)
	}
}

// Fan-out: every channel of a topic owns its OWN message object (owner, attempts, deadline and heap
// index live in it; a shared object would make one channel's delivery state leak into another's).
func VerifC02_FanOutOwnsItsMessage() { verifTopicPumpFanOut() }

// A consumer answer racing the timeout scan for the SAME, expired message (two threads, every
// interleaving within the preemption bound, from any valid state with 1-2 messages in flight):
// exactly one of them wins. An accepted FIN leaves the message in no store (it is never delivered
// again); otherwise (answer refused, or REQ/TOUCH accepted) it is in exactly one store; the
// consumer's in-flight count equals the messages it holds and is never negative; the channel's
// timeout counter counts exactly the messages the scan put back; structures stay consistent.
func VerifC02_AnswerVsScan() { verifAnswerVsScan() }

func verifAnswerVsScan() {
	o := verifOpts()
	o.MemQueueSize = 4
	var st *verifChan
	var cl *clientV2
	var target *Message
	op := verifrt.Choice("op", 3)
	tag := []string{"FIN", "REQ0", "TOUCH"}[op]
	var t int64
	var preTimeouts uint64
	verifrt.Atomic(func() {
		verifConcreteIDs, verifIDSeq = true, 0
		st = verifNewChan(o, "ch")
		cl = st.addClient(1)
		st.populate(verifrt.Choice("nF", 2)+1, 0, 0, 0, 1)
		target = st.inFlight[0]
		t = verifrt.Int64("scan-t")
		verifrt.Assume(t >= target.pri && t <= 3400000000000000000) // the answered message has expired
		preTimeouts = st.c.timeoutCount
	})
	p := &protocolV2{nsqd: st.n}
	id := target.ID
	var err error
	verifrt.Go("answer", func() {
		switch op {
		case 0:
			_, err = p.FIN(cl, [][]byte{[]byte("FIN"), id[:]})
		case 1:
			_, err = p.REQ(cl, [][]byte{[]byte("REQ"), id[:], []byte("0")})
		case 2:
			_, err = p.TOUCH(cl, [][]byte{[]byte("TOUCH"), id[:]})
		}
	})
	verifrt.Go("scan", func() { st.c.processInFlightQueue(t) })
	verifrt.Join()
	st.assertInvariants(tag + ":quiescent")
	w := st.locate(id)
	if op == 0 && err == nil {
		verifrt.Assert(w.total() == 0 && w.heap == 0, tag+":accepted-fin-leaves-the-message-in-no-store")
	} else {
		verifrt.Assert(w.total() == 1, tag+":message-is-in-exactly-one-store")
	}
	verifrt.Assert(cl.InFlightCount >= 0, tag+":consumer-in-flight-count-not-negative")
	verifrt.Assert(cl.InFlightCount == int64(len(st.c.inFlightMessages)), tag+":consumer-in-flight-count-equals-messages-it-holds")
	// every message is accounted for once: still in flight, or finished, or back on the queue
	requeued := uint64(0)
	for _, m := range st.inFlight {
		x := st.locate(m.ID)
		verifrt.Assert(x.total() <= 1, tag+":no-message-duplicated")
		if x.memory+x.backend == 1 && !(op == 1 && err == nil && m.ID == id) {
			requeued++
		}
	}
	verifrt.Assert(st.c.timeoutCount == preTimeouts+requeued, tag+":timeout-counter-counts-exactly-the-timed-out-messages")
	verifrt.Reach(tag+":answer-accepted", err == nil)
	verifrt.Reach(tag+":answer-refused", err != nil)
}

// One consumer, real delivery pump, every history of a few events (shared with C03): a message
// is handed to the consumer at most once while it is held (also with topology-aware consumption,
// where the channel tries the zone / region / memory queues in turn), and the consumer's
// outstanding count equals the messages it holds.
func VerifC02_PumpHistoryExclusive() { verifPumpHistory() }

// Every delivery restarts the message's delivery clock: a message object that was delivered
// before (requeued, timed out) and is delivered again gets a new delivery instant, so the TOUCH
// cap (delivery + max-msg-timeout) of the new holder is measured from ITS delivery.
func VerifC02_RedeliveryRestartsTheDeliveryClock() {
	verifrt.Atomic(func() {
		o := verifOpts()
		verifConcreteIDs, verifIDSeq = true, 0
		st := verifNewChan(o, "ch")
		cl := st.addClient(1)
		m := verifMsg("m", 1)
		old := verifrt.Int64("earlier-delivery")
		verifrt.Assume(old >= 0 && old <= 1500000000000000000)
		if verifrt.Bool("delivered-before") {
			m.deliveryTS = time.Unix(0, old)
			m.Attempts = 1
		}
		st.c.StartInFlightTimeout(m, cl.ID, cl.MsgTimeout)
		now := verifrt.LastNow()
		verifrt.Assert(m.deliveryTS.UnixNano() == now, "delivery-instant-is-this-delivery")
		verifrt.Assert(m.pri == now+int64(cl.MsgTimeout) && m.clientID == cl.ID, "deadline-is-this-delivery-plus-msg-timeout")
		// TOUCH by the new holder: capped relative to this delivery
		id := m.ID
		p := &protocolV2{nsqd: st.n}
		cl.InFlightCount = 1
		_, err := p.TOUCH(cl, [][]byte{[]byte("TOUCH"), id[:]})
		verifrt.Assert(err == nil, "touch-by-the-new-holder-is-accepted")
		verifrt.Assert(m.pri >= now && m.pri <= now+int64(o.MaxMsgTimeout), "touched-deadline-within-max-msg-timeout-of-this-delivery")
		verifrt.Assert(m.pri >= now+int64(cl.MsgTimeout) || m.pri == now+int64(o.MaxMsgTimeout), "touch-never-moves-the-deadline-before-the-untouched-one")
		verifrt.Reach("redelivery", m.Attempts == 1)
	})
}
