//go:build verif

package nsqd

import (
	"bytes"
	"errors"
	"io"
	"time"

	"github.com/nsqio/go-nsq"
	"github.com/nsqio/nsq/internal/lg"
	"github.com/nsqio/nsq/internal/verifrt"
)

// ---------------------------------------------------------------------------------------------
// C16 part 1: the bounded response read (nsqd/lookup_peer.go readResponseBounded).
//
// Statement clause: "No nsqlookupd behaviour - ... malformed, negative-sized or oversized
// replies - crashes nsqd". Reference semantics of one framed reply (written from the wire
// format: 4-byte big-endian signed size, then that many bytes):
//   - fewer than 4 prefix bytes, a size below zero, a size above the limit, or fewer body bytes
//     than announced  => an error, no body, and never a panic;
//   - otherwise exactly the announced bytes, and exactly 4+size bytes are consumed (the next
//     frame starts where this one ends);
//   - the buffer allocated for the body never exceeds the limit (verifrt.AllocLimit).
// ---------------------------------------------------------------------------------------------

func verifI32(b []byte) int32 {
	return int32(uint32(b[0])<<24 | uint32(b[1])<<16 | uint32(b[2])<<8 | uint32(b[3]))
}

func VerifC16_ReadResponseBounded() {
	maxBody := verifrt.Bound("replyBodyBytes", 3, 6)
	limit := verifrt.Int64("limit")
	verifrt.Assume(limit >= 0 && limit <= int64(maxBody))
	verifrt.AllocLimit(maxBody)
	hdr := verifrt.BytesN("size", 4)             // ANY int32 size prefix
	hdrLen := verifrt.Choice("prefixBytes", 5)   // how many of the 4 prefix bytes arrive at all
	avail := verifrt.Bytes("body", maxBody+1)    // the bytes that follow before the stream ends
	ioErr := verifrt.Choice("streamEnd", 2) == 1 // stream ends with an I/O error instead of EOF
	size := verifI32(hdr)

	r := &verifStream{}
	r.data = append(r.data, hdr[:hdrLen]...)
	if hdrLen == 4 {
		r.data = append(r.data, avail...)
	}
	r.err = io.EOF // (set explicitly: common.go's errEOFVerif is nil under the executor's init order)
	if ioErr {
		r.err = errors.New("verif: i/o timeout")
	}
	verifrt.Reach("input-negative-size", hdrLen == 4 && size < 0)
	verifrt.Reach("input-oversize", hdrLen == 4 && int64(size) > limit)

	var resp []byte
	var err error
	panicked := verifrt.Panics(func() { resp, err = readResponseBounded(r, limit) })
	verifrt.Assert(!panicked, "lookupd-reply-size-never-panics-nsqd")
	if panicked {
		return
	}
	switch {
	case hdrLen < 4:
		verifrt.Assert(err != nil && resp == nil, "truncated-size-prefix-is-an-error")
		verifrt.Reach("truncated-prefix", hdrLen > 0)
	case size < 0:
		verifrt.Assert(err != nil && resp == nil, "negative-size-refused")
		verifrt.Reach("negative-refused", true)
	case int64(size) > limit:
		verifrt.Assert(err != nil && resp == nil, "oversize-refused")
		verifrt.Assert(r.pos == 4, "oversize-refused-before-reading-body")
		verifrt.Reach("oversize-refused", true)
	case int(size) > len(avail):
		verifrt.Assert(err != nil && resp == nil, "short-body-is-an-error")
		verifrt.Reach("short-body", size > 1)
	default:
		verifrt.Assert(err == nil, "well-formed-reply-accepted")
		verifrt.Assert(len(resp) == int(size), "reply-has-announced-length")
		same := len(resp) == int(size)
		for i := 0; same && i < len(resp); i++ {
			if resp[i] != avail[i] {
				same = false
			}
		}
		verifrt.Assert(same, "reply-bytes-exact")
		verifrt.Assert(r.pos == 4+int(size), "reply-consumes-exactly-its-frame")
		verifrt.Reach("accepted-nonempty", size > 1)
		verifrt.Reach("accepted-at-limit", int64(size) == limit && size > 0)
		verifrt.Observe("respLen", len(resp))
	}
}

// ---------------------------------------------------------------------------------------------
// C16 part 2: lookupPeer.Command under lookupd faults (nsqd/lookup_peer.go).
//
// A sequence of round trips (nil = "just connect", or PING) against one scripted lookupd with
// up to B faults placed anywhere (see c16_env.go). The connect callback is a ghost that does
// what nsqd's does structurally: one nested round trip, or a rejection (Close). Oracle, from
// the statement ("tolerates its faults", "re-registration on every (re)connect", "periodic
// PING detects dead connections"):
//   - nothing the lookupd does panics nsqd;
//   - success  => the peer is connected, the answer is the lookupd's answer to THIS command;
//   - failure  => the peer is disconnected and no connection is left open (so the next round
//                 trip starts from scratch), and a failed round trip never half-delivers:
//   - a round trip from "disconnected" against a reachable lookupd dials exactly once, sends the
//     magic first, and runs the connect callback exactly once per established connection -
//     before the command itself is written; a round trip on a connected peer never dials;
//   - with a reachable, healthy lookupd and no fault during the round trip it succeeds;
//   - a PING on a connection the lookupd has dropped - hung up (FIN) or reset (RST) - fails
//     (dead connections are detected), and it leaves the peer disconnected: whichever of the
//     write or the read fails, the next round trip dials again.
// ---------------------------------------------------------------------------------------------

func verifLogNop(lvl lg.LogLevel, f string, args ...interface{}) {}

func VerifC16_CommandFaults() { verifrt.Atomic(verifC16CommandFaults) }

func verifC16CommandFaults() {
	w := verifNewWorld(1, verifrt.Bound("faults", 1, 2))
	verifrt.AllocBound(3)
	ld := w.lds[0]
	cbCalls := 0
	cbRejects := verifrt.Choice("callbackRejects", 2) == 1
	var lp *lookupPeer
	lp = newLookupPeer(ld.addr, 100, verifLogNop, func(p *lookupPeer) {
		cbCalls++
		verifrt.Assert(p == lp && p.state == stateConnected && p.conn != nil, "callback-runs-on-the-connected-peer")
		w.nativeSettle()
		w.lock()
		cur := ld.current()
		fresh := cur != nil && len(cur.cmds) == 0
		w.unlock()
		verifrt.Assert(fresh, "callback-runs-before-any-command-on-the-new-connection")
		if cbRejects {
			p.Close() // what nsqd's callback does when the lookupd answers E_INVALID
			return
		}
		p.Command(&nsq.Command{Name: []byte("IDENTIFY"), Body: []byte("{}")})
	})
	steps := verifrt.Bound("roundTrips", 2, 4)
	for i := 0; i < steps; i++ {
		var cmd *nsq.Command
		ping := verifrt.Choice("cmd", 2) == 1
		if ping {
			cmd = nsq.Ping()
		}
		w.beginStep()
		preState := lp.state
		w.lock()
		preSessions := len(ld.sessions)
		preHits := w.hits
		preCur := ld.current()
		preAlive := preCur != nil && !preCur.srvEOF && !preCur.closed
		preCmds := 0
		if preCur != nil {
			preCmds = len(preCur.cmds)
		}
		w.unlock()
		preCb := cbCalls
		var resp []byte
		var err error
		panicked := verifrt.Panics(func() { resp, err = lp.Command(cmd) })
		w.endStep()
		verifrt.Assert(!panicked, "lookupd-fault-never-panics-nsqd")
		if panicked {
			return
		}
		w.lock()
		cur := ld.current()
		newSessions := len(ld.sessions) - preSessions
		stepHits := w.hits - preHits
		established := 0 // connections on which the magic arrived
		open := 0
		for _, s := range ld.sessions {
			if !s.closed {
				open++
			}
		}
		for _, s := range ld.sessions[preSessions:] {
			if len(s.recv) >= 4 {
				established++
				verifrt.Assert(bytes.Equal(s.recv[:4], verifMagic), "magic-is-sent-first")
			}
		}
		pings := 0
		lastIsPing := false
		curAborted := cur != nil && cur.rst
		if cur != nil {
			for k, c := range cur.cmds {
				if cur == preCur && k < preCmds {
					continue
				}
				lastIsPing = c.name == "PING"
				if lastIsPing {
					pings++
				}
			}
		}
		w.unlock()

		if err == nil {
			verifrt.Assert(lp.state == stateConnected, "success-leaves-peer-connected")
			if curAborted {
				// the connection was reset under an idle peer and this round trip did no I/O on it
				// (nothing for nsqd to notice yet; the next PING must - "ping-detects-dropped-connection")
				verifrt.Assert(!ping && preState == stateConnected && open == 0, "only-an-idle-peer-can-miss-a-reset")
			} else {
				verifrt.Assert(open == 1 && cur != nil && !cur.closed, "success-keeps-exactly-one-connection")
			}
			if ping {
				verifrt.Assert(pings == 1 && lastIsPing, "command-delivered-exactly-once")
				if stepHits == 0 {
					verifrt.Assert(string(resp) == "OK", "answer-is-the-lookupd-answer")
				}
			} else {
				verifrt.Assert(resp == nil && pings == 0, "nil-command-sends-nothing")
			}
			verifrt.Assert(!cbRejects || preState == stateConnected, "rejected-connect-is-not-a-success")
		} else {
			verifrt.Assert(lp.state == stateDisconnected, "failure-leaves-peer-disconnected")
			verifrt.Assert(open == 0, "failure-leaves-no-open-connection")
			verifrt.Assert(resp == nil, "failure-returns-no-answer")
		}
		if preState == stateConnected {
			verifrt.Assert(newSessions == 0 && cbCalls == preCb, "connected-peer-does-not-redial")
			if !preAlive && ping {
				verifrt.Assert(err != nil, "ping-detects-dropped-connection")
				verifrt.Reach("dead-connection-detected", true)
			}
		} else {
			if ld.down {
				verifrt.Assert(newSessions == 0 && err != nil, "refused-connection-is-a-failure")
				verifrt.Reach("lookupd-down", true)
			} else {
				verifrt.Assert(newSessions == 1, "disconnected-peer-dials-exactly-once")
			}
			verifrt.Assert(cbCalls-preCb == established, "connect-callback-once-per-established-connection")
			if cbRejects && established == 1 {
				verifrt.Assert(err != nil && pings == 0, "rejected-connect-sends-no-command")
			}
		}
		healthy := !ld.down && stepHits == 0 && (preState != stateConnected || preAlive) && !(cbRejects && preState != stateConnected)
		if healthy {
			verifrt.Assert(err == nil, "healthy-lookupd-round-trip-succeeds")
		}
		verifrt.Reach("a-clean-first-connect", i == 0 && err == nil && ping)
		verifrt.Reach("reconnect-after-failure", i > 0 && preState == stateDisconnected && err == nil && !cbRejects)
		verifrt.Reach("fault-mid-command", stepHits > 0 && err != nil && established == 1)
		verifrt.Reach("bad-reply-seen", stepHits > 0 && cur != nil && cur.srvEOF)
		verifrt.Reach("a-0-reset-connection-detected-by-the-next-command", w.rsts > 0 && !preAlive && preState == stateConnected && ping && err != nil)
		if steps >= 3 {
			verifrt.Reach("redial-after-reset", w.rsts > 0 && preState == stateDisconnected && err == nil && !cbRejects)
		}
	}
	verifrt.Observe("callbacks", cbCalls)
}

// ---------------------------------------------------------------------------------------------
// C16 part 3: nsqd's connect callback (nsqd/lookup.go connectCallback) = full re-registration.
//
// A shell nsqd with 0..2 (thorough: 0..3) topics x 0..2 (0..3) channels connects to a lookupd that has no listing for
// it (fresh or restarted). Oracle: without a fault the lookupd afterwards lists nsqd - under the
// identity nsqd is configured with - as producer of EXACTLY its topics and channels (a topic
// without channels included), and nsqd has learnt the lookupd's HTTP address (needed for the
// channel pre-creation of GetTopic). With a fault anywhere: no panic; a failure leaves the peer
// disconnected with nothing open; and whenever nsqd believes it is connected to a connection
// the lookupd still holds, the listing is complete (a partial registration is never silently
// kept - the invariant convergence rests on).
// ---------------------------------------------------------------------------------------------

func VerifC16_ConnectCallbackRegistersAll() { verifrt.Atomic(verifC16ConnectCallback) }

var verifTopicNames = []string{"t0", "t1", "t2"}
var verifChanNames = []string{"c0", "c1", "c2"}

func verifC16Nsqd(w *verifWorld) *NSQD {
	verifC16Stubs()
	o := verifOpts()
	o.MaxBodySize = 100
	o.BroadcastAddress = "nsqd.example"
	o.BroadcastTCPPort = 4150
	o.BroadcastHTTPPort = 4151
	for _, ld := range w.lds {
		o.NSQLookupdTCPAddresses = append(o.NSQLookupdTCPAddresses, ld.addr)
	}
	return verifShellNSQD(o)
}

func verifC16ConnectCallback() {
	w := verifNewWorld(1, verifrt.Bound("faults", 1, 2))
	verifrt.AllocBound(3)
	ld := w.lds[0]
	n := verifC16Nsqd(w)
	// state generator: any nsqd state with 0..2 topics x 0..2 channels (connectCallback only
	// reads the maps and the names, so the objects are plain - no pumps, no queues)
	nT := verifrt.Choice("topics", 1+verifrt.Bound("topics", 2, 3))
	pairs := 0
	for i := 0; i < nT; i++ {
		t := &Topic{name: verifTopicNames[i], channelMap: map[string]*Channel{}, nsqd: n}
		n.topicMap[t.name] = t
		nC := verifrt.Choice("channels", 1+verifrt.Bound("channelsPerTopic", 2, 3))
		for j := 0; j < nC; j++ {
			t.channelMap[verifChanNames[j]] = &Channel{topicName: t.name, name: verifChanNames[j], nsqd: n}
			pairs++
		}
	}
	lp := newLookupPeer(ld.addr, n.getOpts().MaxBodySize, n.logf, connectCallback(n, "nsqd-host"))
	w.beginStep()
	var err error
	panicked := verifrt.Panics(func() { _, err = lp.Command(nil) })
	w.endStep()
	verifrt.Assert(!panicked, "lookupd-fault-never-panics-nsqd")
	if panicked {
		return
	}
	w.lock()
	cur := ld.current()
	open := 0
	for _, s := range ld.sessions {
		if !s.closed {
			open++
		}
	}
	alive := cur.alive()
	w.unlock()
	inSync := verifInSync(n, ld)
	if err == nil {
		verifrt.Assert(lp.state == stateConnected && open == 1, "success-leaves-peer-connected")
	} else {
		verifrt.Assert(lp.state == stateDisconnected && open == 0, "failure-leaves-peer-disconnected-and-closed")
	}
	if lp.state == stateConnected && alive {
		verifrt.Assert(inSync, "connected-peer-is-fully-registered")
	}
	if w.hits == 0 {
		verifrt.Assert(err == nil, "healthy-lookupd-connect-succeeds")
		verifrt.Assert(inSync, "reconnect-registers-exactly-the-live-topics-and-channels")
		verifrt.Assert(lp.Info.BroadcastAddress == "lookupd.example" && lp.Info.HTTPPort == 4161, "lookupd-http-address-learnt")
		addrs := verifPeerHTTPAddrs(n, lp)
		verifrt.Assert(len(addrs) == 1 && addrs[0] == "lookupd.example:4161", "lookupd-http-address-usable-for-pre-creation")
		if verifrt.Symbolic() {
			id := verifIdentifySeen
			a, _ := id["broadcast_address"].(string)
			tp, _ := id["tcp_port"].(int)
			hp, _ := id["http_port"].(int)
			hn, _ := id["hostname"].(string)
			verifrt.Assert(a == "nsqd.example" && tp == 4150 && hp == 4151 && hn == "nsqd-host", "identifies-with-configured-producer-identity")
		}
		verifrt.Reach("a-registered-two-topics", nT == 2 && pairs >= 2)
		verifrt.Reach("channel-less-topic-registered", nT >= 1 && pairs == 0)
		verifrt.Reach("no-topics", nT == 0)
	} else {
		verifrt.Reach("fault-during-registration", err != nil && cur != nil && len(cur.cmds) >= 2)
		verifrt.Reach("silently-dropped-after-last-reply", err == nil && !alive)
	}
	verifrt.Observe("pairs", pairs)
}

func verifPeerHTTPAddrs(n *NSQD, lp *lookupPeer) []string {
	n.lookupPeers.Store([]*lookupPeer{lp})
	return n.lookupdHTTPAddrs()
}

// ---------------------------------------------------------------------------------------------
// C16 part 4: the real lookupLoop end to end (nsqd/lookup.go).
//
// The real lookupLoop runs as a goroutine of a shell nsqd whose lookupd list names the scripted
// lookupd(s). The harness performs REAL topic/channel churn (GetTopic, GetChannel,
// DeleteExistingChannel, DeleteExistingTopic - their Notify goroutines feed the loop), heartbeat
// ticks and lookupd faults, letting everything come to rest after each step. Oracle = the
// statement's first sentence, bounded:
//   - at every point of rest: if nsqd holds a connection that the lookupd still holds too, the
//     lookupd lists nsqd as producer of exactly its current topics and channels;
//   - once faults have stopped, two heartbeats suffice (one detects a dead connection, the next
//     reconnects and re-registers everything): afterwards every reachable lookupd is in sync;
//   - with no fault at all, it is in sync at every point of rest without any heartbeat;
//   - the loop never dies (no panic escapes it; it still answers the exit signal).
// Symbolically the 15 s ticker is a harness channel; natively the real ticker is awaited.
// Every wait of these harnesses is bounded (rest / nativeSettle / tick sleep for a fixed time,
// the symbolic tick is a rendezvous that the executor reports as a deadlock if the loop is gone):
// a daemon that does not converge ends as a failed "converged:" assertion, not as a hang.
// Each churn operation runs to completion before nsqd's goroutines move (one canonical
// schedule, verifrt.Rest); c16_delrace.go explores the interleavings of a topic deletion.
// The churned objects are durable ones or "#ephemeral" ones (verifLoopRun.names): "exactly its
// current topics and channels" includes the ephemeral ones - consumers find them through
// nsqlookupd like any other -, whether they are created/deleted explicitly or come and go with
// a consumer (SUB; last consumer leaves => nsqd deletes the ephemeral channel, last channel
// gone => nsqd deletes the ephemeral topic). All of it goes through the REAL NSQD.Notify.
// ---------------------------------------------------------------------------------------------

var verifTickC chan time.Time

// verifNativeTickBudget: heartbeats a native replay can wait for (see tick).
const verifNativeTickBudget = 3

func verifNewTickerStub(d time.Duration) *time.Ticker { return &time.Ticker{C: verifTickC} }
func verifTickerStopStub(t *time.Ticker)              {}

type verifLoopRun struct {
	w      *verifWorld
	n      *NSQD
	t0     time.Time // native: when the loop (and its ticker) started
	ticks  int
	exited bool
	// the objects the churn operations work on (default t0 / c0). Either name may carry the
	// "#ephemeral" suffix: nsqlookupd has to list ephemeral topics and channels like any other
	// (consumers discover them there). withConsumer: the channel is created the way a SUB does it
	// (GetChannel + AddClient) and goes away the way a consumer's channel does - its last consumer
	// leaves (RemoveClient); nsqd then deletes an ephemeral channel by itself, and an ephemeral
	// topic by itself once its last channel is gone.
	topic, channel string
	withConsumer   bool
	// topicDeletes: topic deletions so far. Vacuity witnesses that are replayed natively steer
	// clear of them: with real goroutines a topic deletion on a dead connection takes the order
	// that VerifC16_TopicDeleteRacesReconnect reports (c16_delrace.go), which the one canonical
	// schedule of these harnesses does not contain.
	topicDeletes int
}

func verifStartLoop(nLookupd, budget int) *verifLoopRun {
	w := verifNewWorld(nLookupd, budget)
	var addrs []string
	for _, ld := range w.lds {
		addrs = append(addrs, ld.addr)
	}
	return verifStartLoopWith(w, addrs)
}

func verifStartLoopWith(w *verifWorld, addrs []string) *verifLoopRun {
	verifrt.AllocBound(3)
	for _, ld := range w.lds {
		ld.identOK = verifIdentReplyNoAddr // (no HTTP address: GetTopic's pre-creation is part 5)
	}
	n := verifC16Nsqd(w)
	o := *n.getOpts()
	o.NSQLookupdTCPAddresses = addrs
	n.swapOpts(&o)
	r := &verifLoopRun{w: w, n: n, topic: "t0", channel: "c0"}
	if verifrt.Symbolic() {
		verifTickC = make(chan time.Time)
		verifrt.Stub("time.NewTicker", verifNewTickerStub)
		verifrt.Stub("(*time.Ticker).Stop", verifTickerStopStub)
	}
	// step 0: the loop starts and connects to every configured lookupd
	w.beginStep()
	if !verifrt.Symbolic() {
		r.t0 = verifWallNow()
	}
	go func() {
		n.lookupLoop()
		r.exited = true
	}()
	r.rest()
	w.endStep()
	return r
}

// rest: let nsqd's goroutines run until nothing moves any more.
func (r *verifLoopRun) rest() {
	verifrt.Rest()
	r.w.nativeSettle()
}

func (r *verifLoopRun) tick() {
	r.ticks++
	if verifrt.Symbolic() {
		verifTickC <- time.Time{}
		return
	}
	r.nativeTickBudget(0)
	time.Sleep(time.Until(r.t0.Add(time.Duration(r.ticks)*15*time.Second + 400*time.Millisecond)))
}

// nativeTickBudget (native replay only): nsqd's heartbeat ticker is real (15 s) and a native
// replay runs under go test's 60 s timeout, so a scenario that needs more than
// verifNativeTickBudget heartbeats cannot finish. End it as soon as that is known (the engine
// then turns to the next counterexample of the same assertion) instead of running into the
// timeout. `more`: heartbeats still to come after the one counted last.
func (r *verifLoopRun) nativeTickBudget(more int) {
	if verifrt.Symbolic() || r.ticks+more <= verifNativeTickBudget {
		return
	}
	println("VERIF-NOTE native replay abandoned: it needs more than", verifNativeTickBudget, "heartbeats of 15 s")
	verifrt.Done()
}

func (r *verifLoopRun) peers() []*lookupPeer {
	ps, _ := r.n.lookupPeers.Load().([]*lookupPeer)
	return ps
}

func (r *verifLoopRun) peerFor(ld *verifLookupd) *lookupPeer {
	for _, p := range r.peers() {
		if p.addr == ld.addr {
			return p
		}
	}
	return nil
}

// checkRest: the invariant at a point of rest.
func (r *verifLoopRun) checkRest(where string) {
	for _, ld := range r.w.lds {
		p := r.peerFor(ld)
		if p == nil {
			continue
		}
		r.w.lock()
		alive := ld.current().alive()
		r.w.unlock()
		if p.state == stateConnected && alive {
			inSync := verifInSync(r.n, ld)
			if !inSync {
				r.note(ld, where)
			}
			verifrt.Assert(inSync, where+":connected-lookupd-lists-exactly-current-topics-and-channels")
		}
		if r.w.hits == 0 {
			verifrt.Assert(p.state == stateConnected && alive, where+":no-fault-keeps-the-connection")
		}
	}
}

// note (native replay only): what this lookupd has received, for the replay log.
func (r *verifLoopRun) note(ld *verifLookupd, where string) {
	if verifrt.Symbolic() {
		return
	}
	r.w.lock()
	line := "VERIF-NOTE " + where + " step " + string(rune('0'+r.w.step)) + " lookupd " + ld.addr + " received:"
	for i, s := range ld.sessions {
		line += " | conn " + string(rune('0'+i)) + ":"
		for _, c := range s.cmds {
			line += " [" + c.name + " " + c.topic + " " + c.channel + "]"
		}
		if s.srvEOF {
			line += " (lookupd hung up)"
		}
		if s.closed {
			line += " (closed)"
		}
	}
	r.w.unlock()
	println(line)
}

// verifC16Consumer: a consumer as far as Channel.AddClient / RemoveClient / Delete care.
type verifC16Consumer struct{}

func (verifC16Consumer) UnPause()                 {}
func (verifC16Consumer) Pause()                   {}
func (verifC16Consumer) Close() error             { return nil }
func (verifC16Consumer) TimedOutMessage()         {}
func (verifC16Consumer) Stats(string) ClientStats { return nil }
func (verifC16Consumer) Empty()                   {}

// names: which kind of topic / channel the churn operations work on.
//
//	0  t0            c0            durable topic and channel, deleted explicitly (/channel/delete)
//	1  t0            c0#ephemeral  a consumer's ephemeral channel: gone when the consumer leaves
//	2  t0#ephemeral  c0#ephemeral  ... on an ephemeral topic: the topic goes with its last channel
//	3  t0#ephemeral  c0            ephemeral topic, durable channel deleted explicitly
//	4  t0            c0#ephemeral  ephemeral channel deleted explicitly
func (r *verifLoopRun) names(variant int) {
	switch variant {
	case 1:
		r.channel, r.withConsumer = "c0#ephemeral", true
	case 2:
		r.topic, r.channel, r.withConsumer = "t0#ephemeral", "c0#ephemeral", true
	case 3:
		r.topic = "t0#ephemeral"
	case 4:
		r.channel = "c0#ephemeral"
	}
}

// topicObj / channelObj: the churned topic / channel if nsqd currently has it.
func (r *verifLoopRun) topicObj() *Topic {
	t, err := r.n.GetExistingTopic(r.topic)
	if err != nil {
		return nil
	}
	return t
}

func (r *verifLoopRun) channelObj() *Channel {
	t := r.topicObj()
	if t == nil {
		return nil
	}
	c, err := t.GetExistingChannel(r.channel)
	if err != nil {
		return nil
	}
	return c
}

// churn operations on topic r.topic / channel r.channel (the real entry points the TCP/HTTP
// handlers use)
func (r *verifLoopRun) op(k int) {
	n := r.n
	switch k {
	case 0:
		n.GetTopic(r.topic)
	case 1:
		t := n.GetTopic(r.topic)
		r.rest() // (a new topic's pump gets to run before the channel is added)
		c := t.GetChannel(r.channel)
		if r.withConsumer {
			c.AddClient(1, verifC16Consumer{}) // what SUB does
		}
	case 2:
		if r.withConsumer {
			// the channel's only consumer disconnects
			if c := r.channelObj(); c != nil {
				c.RemoveClient(1)
			}
		} else if t := r.topicObj(); t != nil {
			t.DeleteExistingChannel(r.channel)
		}
	case 3:
		if n.DeleteExistingTopic(r.topic) == nil {
			r.topicDeletes++
		}
	case 4:
		r.tick()
	}
}

func (r *verifLoopRun) finish() {
	// faults stop; two heartbeats later every reachable lookupd is in sync
	r.w.budget = 0
	needHeartbeats := r.w.hits > 0
	if needHeartbeats {
		r.nativeTickBudget(2)
	}
	for i := 0; needHeartbeats && i < 2; i++ {
		r.w.beginStep()
		r.tick()
		r.rest()
		r.w.endStep()
	}
	for _, ld := range r.w.lds {
		p := r.peerFor(ld)
		verifrt.Assert(p != nil && p.state == stateConnected, "converged:peer-connected")
		inSync := verifInSync(r.n, ld)
		if !inSync {
			r.note(ld, "converged")
		}
		verifrt.Assert(inSync, "converged:lookupd-lists-exactly-current-topics-and-channels")
	}
	verifrt.Assert(!r.exited, "lookup-loop-still-running")
	close(r.n.exitChan)
	r.rest()
	verifrt.Assert(r.exited, "lookup-loop-answers-exit")
}

// Churn without lookupd faults: every sequence of `steps` operations, on durable and on
// "#ephemeral" topics and channels (see names): the statement's "exactly its current topics and
// channels" makes no exception for ephemeral ones - they are announced and withdrawn like any
// other, whether an operator deletes them or nsqd drops them itself when the last consumer
// (channel) / the last channel (topic) is gone.
func VerifC16_LookupLoopChurn() { verifrt.Atomic(verifC16LoopChurn) }

func verifC16LoopChurn() {
	r := verifStartLoop(1, 0)
	ld := r.w.lds[0]
	variant := verifrt.Choice("names", verifrt.Bound("nameVariants", 3, 5))
	r.names(variant)
	r.checkRest("start")
	steps := verifrt.Bound("churnSteps", 3, 5)
	if stepsEph := verifrt.Bound("churnStepsEphemeral", 3, 4); variant != 0 {
		steps = stepsEph
	}
	deleted, created := false, false
	ephChanListed, ephChanWithdrawn, ephTopicListed, ephTopicWithdrawn := false, false, false, false
	for i := 0; i < steps; i++ {
		k := verifrt.Choice("op", 5)
		hadTopic, hadChannel := r.topicObj() != nil, r.channelObj() != nil
		r.w.beginStep()
		r.op(k)
		r.rest()
		r.w.endStep()
		r.checkRest("churn")
		if k == 3 && hadTopic {
			deleted = true
		}
		if k == 1 && deleted {
			created = true
		}
		// (bookkeeping for the witnesses below; the listing itself is read, not inferred)
		r.w.lock()
		cur := ld.current()
		topicListed := cur != nil && cur.topics[r.topic]
		chanListed := cur != nil && cur.chans[r.topic+" "+r.channel]
		r.w.unlock()
		hasTopic, hasChannel := r.topicObj() != nil, r.channelObj() != nil
		if variant == 1 || variant == 2 || variant == 4 {
			ephChanListed = ephChanListed || (!hadChannel && hasChannel && chanListed)
			ephChanWithdrawn = ephChanWithdrawn || (hadChannel && !hasChannel && !chanListed && k == 2)
		}
		if variant == 2 || variant == 3 {
			ephTopicListed = ephTopicListed || (!hadTopic && hasTopic && topicListed)
			ephTopicWithdrawn = ephTopicWithdrawn || (hadTopic && !hasTopic && !topicListed && k == 2)
		}
	}
	// (the witness replayed natively in the quick tier is the first by name: an ephemeral channel
	// created for a consumer and dropped when it leaves, against the loopback lookupd)
	verifrt.Reach("a-0-ephemeral-channel-listed-then-withdrawn-when-its-consumer-leaves", variant == 1 && ephChanListed && ephChanWithdrawn && r.ticks == 0 && !deleted)
	verifrt.Reach("a-create-then-delete-channel", variant == 0 && len(r.n.topicMap) == 1 && r.ticks == 0 && !deleted)
	verifrt.Reach("ephemeral-topic-listed-then-withdrawn-with-its-last-channel", variant == 2 && ephTopicListed && ephTopicWithdrawn && ephChanWithdrawn)
	verifrt.Reach("topic-deleted-and-recreated", created)
	verifrt.Reach("heartbeat-on-healthy-connection", r.ticks > 0)
	if verifrt.Bound("nameVariants", 3, 5) > 3 {
		verifrt.Reach("ephemeral-topic-with-durable-channel", variant == 3 && ephTopicListed && ephTopicWithdrawn)
		verifrt.Reach("ephemeral-channel-deleted-explicitly", variant == 4 && ephChanListed && ephChanWithdrawn)
	}
	r.finish()
}

// Churn interleaved with lookupd faults.
func VerifC16_LookupLoopFaults() { verifrt.Atomic(verifC16LoopFaults) }

func verifC16LoopFaults() {
	faults := verifrt.Bound("faults", 1, 1)
	steps := verifrt.Bound("churnSteps", 2, 3)
	if verifrt.Bound("alsoTwoFaultsOneStep", 0, 1) == 1 && verifrt.Choice("shape", 2) == 1 {
		faults, steps = 2, 1
	}
	r := verifStartLoop(1, faults)
	// durable objects, or a consumer's ephemeral channel on a durable topic (names 0 / 1; thorough:
	// also 4). Not the ephemeral TOPIC that nsqd deletes by itself after its last channel: that
	// deletion runs in a goroutine of nsqd's own, and with a fault in flight it is the scenario of
	// VerifC16_TopicDeleteRacesReconnect's recorded finding (the re-registration on reconnect reads
	// topicMap while the exiting topic is still in it), which these harnesses steer clear of.
	variant := verifrt.Choice("names", verifrt.Bound("nameVariants", 2, 3))
	if variant == 2 {
		variant = 4
	}
	r.names(variant)
	r.checkRest("start")
	for i := 0; i < steps; i++ {
		k := verifrt.Choice("op", 5)
		if i == 0 {
			verifrt.Assume(k != 2 && k != 3) // nothing to delete yet
			// (the ephemeral variant differs from the durable one only once the channel exists:
			// its runs start with the consumer's SUB)
			verifrt.Assume(variant == 0 || k == 1)
		}
		if i == 1 {
			// (... and go on with that consumer leaving: nsqd then deletes the channel in a goroutine
			// of its own; every other continuation is the durable variant's)
			verifrt.Assume(variant == 0 || k == 2)
		}
		r.w.beginStep()
		r.op(k)
		r.rest()
		r.w.endStep()
		r.checkRest("churn")
	}
	hits := r.w.hits
	verifrt.Reach("a-no-fault-struck", hits == 0 && r.ticks == 0)
	// (witnesses that may be replayed natively: no topic deletion - see topicDeletes - and at most
	// one heartbeat besides the two of finish - see nativeTickBudget)
	verifrt.Reach("fault-then-converged", hits > 0 && r.topicDeletes == 0 && r.ticks <= 1)
	r.finish()
	verifrt.Reach("connection-reset-then-converged", r.w.rsts > 0 && r.topicDeletes == 0 && r.ticks <= 3)
	verifrt.Reach("ephemeral-channel-come-and-gone-with-a-fault-then-converged", variant == 1 && hits > 0 && r.topicObj() != nil && r.channelObj() == nil)
	verifrt.Observe("faults", hits)
}

// ---------------------------------------------------------------------------------------------
// C16 part 2b: a reply with ANY int32 size prefix, end to end through Command.
// The lookupd answers a PING with 4 arbitrary prefix bytes followed by 0..2 bytes and hangs up.
// Oracle: never a panic; the round trip succeeds only if the prefix announces no more than
// what follows and no more than max-body-size, and then returns exactly those bytes; otherwise
// it fails, the peer is disconnected and nothing stays open.
// ---------------------------------------------------------------------------------------------

func VerifC16_CommandSizePrefix() { verifrt.Atomic(verifC16CommandSizePrefix) }

func verifC16CommandSizePrefix() {
	w := verifNewWorld(1, 0)
	verifrt.AllocBound(3)
	ld := w.lds[0]
	hdr := verifrt.BytesN("size", 4)
	junk := []byte("xyz")[:verifrt.Choice("junk", 3)]
	ld.pingReply = append(append([]byte{}, hdr...), junk...)
	size := verifI32(hdr)
	limit := int64(100)
	lp := newLookupPeer(ld.addr, limit, verifLogNop, func(p *lookupPeer) {})
	w.beginStep()
	var resp []byte
	var err error
	panicked := verifrt.Panics(func() { resp, err = lp.Command(nsq.Ping()) })
	w.endStep()
	verifrt.Reach("input-negative-size", size < 0)
	verifrt.Assert(!panicked, "lookupd-reply-size-never-panics-nsqd")
	if panicked {
		return
	}
	w.lock()
	open := 0
	for _, s := range ld.sessions {
		if !s.closed {
			open++
		}
	}
	w.unlock()
	if size >= 0 && int64(size) <= limit && int(size) <= len(junk) {
		verifrt.Assert(err == nil && string(resp) == string(junk[:size]), "well-formed-reply-accepted")
		verifrt.Assert(lp.state == stateConnected && open == 1, "success-leaves-peer-connected")
		verifrt.Reach("accepted", size > 0)
	} else {
		verifrt.Assert(err != nil && resp == nil, "bad-size-prefix-is-an-error")
		verifrt.Assert(lp.state == stateDisconnected && open == 0, "failure-leaves-peer-disconnected-and-closed")
		verifrt.Reach("a-oversize-refused", int64(size) > limit)
		verifrt.Reach("short-body-refused", size >= 0 && int64(size) <= limit)
	}
}

// ---------------------------------------------------------------------------------------------
// C16 part 4b: two lookupds (a failing peer does not stop the others) and runtime
// reconfiguration of the lookupd list.
// ---------------------------------------------------------------------------------------------

func VerifC16_LookupLoopTwoPeers() { verifrt.Atomic(verifC16LoopTwoPeers) }

func verifC16LoopTwoPeers() {
	r := verifStartLoop(2, verifrt.Bound("faults", 1, 1))
	variant := verifrt.Choice("names", 2) // durable objects / a consumer's ephemeral channel
	r.names(variant)
	r.checkRest("start")
	steps := verifrt.Bound("churnSteps", 1, 2)
	for i := 0; i < steps; i++ {
		k := verifrt.Choice("op", 5)
		if i == 0 {
			verifrt.Assume(k != 2 && k != 3) // nothing to delete yet
			// (the ephemeral variant differs from the durable one only once the channel exists:
			// its runs start with the consumer's SUB)
			verifrt.Assume(variant == 0 || k == 1)
		}
		r.w.beginStep()
		r.op(k)
		r.rest()
		r.w.endStep()
		r.checkRest("churn")
	}
	// the lookupd no fault has touched (one connection, still held) is in sync right now
	untouched := 0
	for _, ld := range r.w.lds {
		r.w.lock()
		calm := len(ld.sessions) == 1 && ld.current().alive() && !ld.down
		r.w.unlock()
		if calm {
			untouched++
			verifrt.Assert(verifInSync(r.n, ld), "healthy-lookupd-in-sync-whatever-the-other-does")
		}
	}
	verifrt.Assert(untouched >= 1, "one-fault-touches-one-lookupd")
	verifrt.Reach("a-both-healthy", r.w.hits == 0 && untouched == 2 && r.ticks == 0)
	verifrt.Reach("ephemeral-channel-listed-by-both", variant == 1 && untouched == 2 && r.channelObj() != nil)
	verifrt.Reach("one-failing-one-healthy", r.w.hits > 0 && untouched == 1 && r.topicDeletes == 0 && r.ticks <= 1)
	r.finish()
}

func VerifC16_LookupLoopReconfigure() { verifrt.Atomic(verifC16LoopReconfigure) }

func verifC16LoopReconfigure() {
	w := verifNewWorld(2, 0)
	verifC16Stubs()
	pick := func(mask int) []string {
		var l []string
		for i, ld := range w.lds {
			if mask&(1<<uint(i)) != 0 {
				l = append(l, ld.addr)
			}
		}
		return l
	}
	// the configured set goes before -> mid -> after (each any subset of the two lookupds), with
	// topic/channel churn in between; a lookupd may be removed and configured again
	before := verifrt.Choice("before", 4)
	mid := verifrt.Choice("mid", 4)
	after := verifrt.Choice("after", 4)
	r := verifStartLoopWith(w, pick(before))
	// durable objects, or an ephemeral topic with a consumer's ephemeral channel (names 0 / 2): a
	// lookupd configured at run time learns about the ephemeral objects through the full
	// registration on connect and must see them go when the consumer leaves
	variant := verifrt.Choice("names", 2) * 2
	r.names(variant)
	// (for the ephemeral variant the configured set starts as {lookupd0} and then becomes empty or
	// both - the scenarios in which the variant matters: a lookupd added at run time, or configured
	// again after a spell without any; the set after that is any subset again)
	verifrt.Assume(variant == 0 || (before == 1 && (mid == 0 || mid == 3)))
	r.checkRest("start")
	w.beginStep()
	r.op(1)
	r.rest()
	w.endStep()
	r.checkRest("churn")

	reconfigure := func(mask int) {
		// the operator changes --lookupd-tcp-address at run time
		o := *r.n.getOpts()
		o.NSQLookupdTCPAddresses = pick(mask)
		w.beginStep()
		r.n.swapOpts(&o)
		r.n.triggerOptsNotification()
		r.rest()
		w.endStep()
	}
	check := func(mask int) {
		for i, ld := range w.lds {
			p := r.peerFor(ld)
			w.lock()
			open := 0
			for _, s := range ld.sessions {
				if !s.closed {
					open++
				}
			}
			w.unlock()
			if mask&(1<<uint(i)) != 0 {
				verifrt.Assert(p != nil && p.state == stateConnected, "configured-lookupd-has-a-connected-peer")
				verifrt.Assert(verifInSync(r.n, ld), "configured-lookupd-lists-exactly-current-topics-and-channels")
				verifrt.Assert(open == 1, "one-connection-per-configured-lookupd")
			} else {
				verifrt.Assert(p == nil, "removed-lookupd-has-no-peer")
				verifrt.Assert(open == 0, "removed-lookupd-connection-is-closed")
			}
		}
	}
	reconfigure(mid)
	check(mid)
	w.beginStep()
	r.op(verifrt.Choice("op", 2) + 2) // delete the channel / delete the topic
	r.rest()
	w.endStep()
	check(mid)
	reconfigure(after)
	check(after)
	w.beginStep()
	r.op(1) // (re-)create topic and channel
	r.rest()
	w.endStep()
	check(after)

	verifrt.Reach("a-lookupd-added", before == 1 && mid == 3 && after == 3)
	verifrt.Reach("ephemeral-objects-on-a-lookupd-added-at-run-time", variant == 2 && before == 1 && mid == 3 && after == 3 && r.channelObj() != nil)
	verifrt.Reach("lookupd-removed", before == 3 && mid == 2)
	verifrt.Reach("lookupd-replaced", mid == 1 && after == 2)
	verifrt.Reach("lookupd-removed-then-configured-again", before == 1 && mid == 0 && after == 1)
	verifrt.Assert(!r.exited, "lookup-loop-still-running")
	close(r.n.exitChan)
	r.rest()
	verifrt.Assert(r.exited, "lookup-loop-answers-exit")
}

// ---------------------------------------------------------------------------------------------
// C16 part 4c: interleavings of nsqd's own notification goroutines.
//
// Every creation/deletion hands its object to lookupLoop through a goroutine of its own
// (NSQD.Notify). Here a channel is deleted and immediately re-created (a consumer of an
// ephemeral channel reconnecting, or /channel/delete racing a SUB), so two notifications - the
// old, exiting object and the new one - are in flight at once, and the executor explores the
// orders in which their goroutines reach the loop (verifrt.Join, not the canonical schedule).
// Oracle (statement, first sentence, no lookupd fault involved): at rest the lookupd lists
// exactly the current channels - i.e. the re-created channel IS listed.
// Natively the delete/re-create pair is repeated (the order is up to the Go scheduler).
// ---------------------------------------------------------------------------------------------

func VerifC16_NotifyOrderRace() { verifrt.Atomic(verifC16NotifyOrder) }

func verifC16NotifyOrder() {
	r := verifStartLoop(1, 0)
	ld := r.w.lds[0]
	r.w.beginStep()
	r.op(1)
	r.rest()
	r.w.endStep()
	r.checkRest("setup")
	t, err := r.n.GetExistingTopic("t0")
	verifrt.Assert(err == nil, "setup-topic-exists")
	if err != nil {
		return
	}
	// hunt: how a native replay realises the scenario. A counterexample needs the Go scheduler
	// to produce the bad order, so its replay repeats the racy pair (hunt = true is forced on
	// every counterexample below); the vacuity witness replays the pair with a rest in between.
	hunt := verifrt.Bool("huntNatively")
	topicToo := verifrt.Choice("object", 2) == 1 // 0: the channel, 1: the whole topic
	del := func() {
		if topicToo {
			r.n.DeleteExistingTopic("t0")
		} else {
			t.DeleteExistingChannel("c0")
		}
	}
	create := func() {
		if topicToo {
			t = r.n.GetTopic("t0")
		} else {
			t.GetChannel("c0")
		}
	}
	inSync := true
	if verifrt.Symbolic() {
		r.w.beginStep()
		del()
		create()
		verifrt.Join() // every order in which the pending goroutines get to run
		r.w.endStep()
		inSync = verifInSync(r.n, ld)
		if !inSync {
			verifrt.Assume(hunt)
		}
	} else if hunt {
		for i := 0; i < 40 && inSync; i++ {
			del()
			create()
			r.rest()
			inSync = verifInSync(r.n, ld)
		}
	} else {
		del()
		r.rest()
		create()
		r.rest()
		inSync = verifInSync(r.n, ld)
	}
	if !inSync && !verifrt.Symbolic() {
		r.w.lock()
		line := "VERIF-NOTE lookupd received:"
		for _, c := range ld.current().cmds {
			line += " [" + c.name + " " + c.topic + " " + c.channel + "]"
		}
		r.w.unlock()
		println(line)
	}
	if topicToo {
		_, errT := r.n.GetExistingTopic("t0")
		verifrt.Assert(errT == nil, "recreated-topic-exists-on-nsqd")
		verifrt.Assert(inSync, "recreated-object-is-listed-whatever-the-notification-order")
		verifrt.Reach("topic-delete-then-recreate", inSync && !hunt)
	} else {
		_, errC := t.GetExistingChannel("c0")
		verifrt.Assert(errC == nil, "recreated-channel-exists-on-nsqd")
		verifrt.Assert(inSync, "recreated-object-is-listed-whatever-the-notification-order")
		verifrt.Reach("a-delete-then-recreate", inSync && !hunt)
	}
}
