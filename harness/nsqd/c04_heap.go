//go:build verif

package nsqd

import (
	"container/heap"

	"github.com/nsqio/nsq/internal/pqueue"
	"github.com/nsqio/nsq/internal/verifrt"
)

// ---------------------------------------------------------------------------------------------
// C04: "a message in flight times out msg-timeout after its delivery" rests on the in-flight
// deadline heap handing the queue scan the EARLIEST deadline first (processInFlightQueue stops at
// the first root that is not yet due).
//
// One inductive step of the real inFlightPqueue from an ARBITRARY valid heap: 0..5 messages with
// symbolic deadlines that satisfy the heap order, any spare capacity (none: the next push grows
// the backing array), then one Push / Pop / Remove(i) / PeekAndShift(max) with symbolic
// arguments. Afterwards: the heap order holds again, every message's index field is its
// position, nothing is lost or duplicated, Pop returned a minimum, PeekAndShift answered by the
// root's deadline alone. Histories of any length follow by induction over the invariant
// (bounded here by the heap size).
// ---------------------------------------------------------------------------------------------

func VerifC04_InFlightHeapStep() { verifrt.Atomic(verifC04HeapStep) }

func verifHeapOrdered(pq inFlightPqueue) bool {
	ok := true
	for i := 1; i < len(pq); i++ {
		if pq[(i-1)/2].pri > pq[i].pri {
			ok = false
		}
	}
	return ok
}

func verifC04HeapStep() {
	n := verifrt.Choice("size", verifrt.Bound("heap", 5, 7))
	spare := verifrt.Choice("spare", 2)
	c := n + spare
	if c < 1 {
		c = 1
	}
	pq := make(inFlightPqueue, n, c)
	all := make([]*Message, 0, n+1)
	names := []string{"p0", "p1", "p2", "p3", "p4", "p5", "p6"}
	for i := 0; i < n; i++ {
		m := &Message{pri: verifrt.Int64(names[i]), index: i}
		pq[i] = m
		all = append(all, m)
	}
	verifrt.Assume(verifHeapOrdered(pq))

	var gone *Message
	op := verifrt.Choice("op", 4)
	switch op {
	case 0:
		m := &Message{pri: verifrt.Int64("pnew"), index: -7}
		all = append(all, m)
		pq.Push(m)
		verifrt.Assert(len(pq) == n+1, "push-adds-one")
		verifrt.Reach("push-grows-the-array", spare == 0 && n >= 2)
	case 1:
		if n == 0 {
			return
		}
		gone = pq.Pop()
		min := true
		for _, m := range pq {
			if m.pri < gone.pri {
				min = false
			}
		}
		verifrt.Assert(min, "pop-returns-an-earliest-deadline")
	case 2:
		if n == 0 {
			return
		}
		i := verifrt.Choice("remove", n)
		want := pq[i]
		gone = pq.Remove(i)
		verifrt.Assert(gone == want, "remove-returns-the-message-at-that-index")
	case 3:
		max := verifrt.Int64("now")
		var root *Message
		if n > 0 {
			root = pq[0]
		}
		m, delta := pq.PeekAndShift(max)
		if n == 0 {
			verifrt.Assert(m == nil && delta == 0, "empty-heap-has-nothing-due")
			return
		}
		if root.pri > max {
			verifrt.Assert(m == nil && delta == root.pri-max && len(pq) == n, "nothing-due-before-the-earliest-deadline")
		} else {
			verifrt.Assert(m == root, "due-root-is-handed-out")
			gone = m
			for _, x := range pq {
				verifrt.Assert(x.pri >= m.pri, "handed-out-deadline-is-the-earliest")
			}
		}
	}
	if gone != nil {
		verifrt.Assert(gone.index == -1, "removed-message-has-no-index")
		verifrt.Assert(len(pq) == n-1, "removal-takes-one")
	}
	verifrt.Assert(verifHeapOrdered(pq), "heap-order-holds-after-the-step")
	for i, m := range pq {
		verifrt.Assert(m.index == i, "index-field-is-the-position")
	}
	for _, m := range all {
		k := 0
		for _, x := range pq {
			if x == m {
				k++
			}
		}
		if m == gone {
			verifrt.Assert(k == 0, "removed-message-is-gone")
		} else {
			verifrt.Assert(k == 1, "every-other-message-is-kept-exactly-once")
		}
	}
	verifrt.Reach("heap-step-done", op == 0 && n >= 3)
}

// The same step for the DEFERRED queue (internal/pqueue under container/heap, as Channel uses it:
// heap.Push on defer, PeekAndShift in the scan, heap.Remove when a deferred message is taken out):
// a deferred message becomes due in deadline order.
func VerifC04_DeferredHeapStep() { verifrt.Atomic(verifC04DeferredHeapStep) }

func verifItemsOrdered(pq pqueue.PriorityQueue) bool {
	ok := true
	for i := 1; i < len(pq); i++ {
		if pq[(i-1)/2].Priority > pq[i].Priority {
			ok = false
		}
	}
	return ok
}

func verifC04DeferredHeapStep() {
	n := verifrt.Choice("size", verifrt.Bound("heap", 5, 7))
	spare := verifrt.Choice("spare", 2)
	c := n + spare
	if c < 1 {
		c = 1
	}
	pq := make(pqueue.PriorityQueue, n, c)
	all := make([]*pqueue.Item, 0, n+1)
	names := []string{"p0", "p1", "p2", "p3", "p4", "p5", "p6"}
	for i := 0; i < n; i++ {
		it := &pqueue.Item{Priority: verifrt.Int64(names[i]), Index: i}
		pq[i] = it
		all = append(all, it)
	}
	verifrt.Assume(verifItemsOrdered(pq))
	var gone *pqueue.Item
	op := verifrt.Choice("op", 3)
	switch op {
	case 0:
		it := &pqueue.Item{Priority: verifrt.Int64("pnew"), Index: -7}
		all = append(all, it)
		heap.Push(&pq, it)
		verifrt.Assert(len(pq) == n+1, "push-adds-one")
		verifrt.Reach("deferred-push-grows-the-array", spare == 0 && n >= 2)
	case 1:
		if n == 0 {
			return
		}
		i := verifrt.Choice("remove", n)
		want := pq[i]
		gone = heap.Remove(&pq, i).(*pqueue.Item)
		verifrt.Assert(gone == want, "remove-returns-the-item-at-that-index")
	case 2:
		max := verifrt.Int64("now")
		var root *pqueue.Item
		if n > 0 {
			root = pq[0]
		}
		it, delta := pq.PeekAndShift(max)
		if n == 0 {
			verifrt.Assert(it == nil && delta == 0, "empty-heap-has-nothing-due")
			return
		}
		if root.Priority > max {
			verifrt.Assert(it == nil && delta == root.Priority-max && len(pq) == n, "nothing-due-before-the-earliest-deadline")
		} else {
			verifrt.Assert(it == root, "due-root-is-handed-out")
			gone = it
			for _, x := range pq {
				verifrt.Assert(x.Priority >= it.Priority, "handed-out-deadline-is-the-earliest")
			}
		}
	}
	if gone != nil {
		verifrt.Assert(gone.Index == -1, "removed-item-has-no-index")
		verifrt.Assert(len(pq) == n-1, "removal-takes-one")
	}
	verifrt.Assert(verifItemsOrdered(pq), "heap-order-holds-after-the-step")
	for i, it := range pq {
		verifrt.Assert(it.Index == i, "index-field-is-the-position")
	}
	for _, it := range all {
		k := 0
		for _, x := range pq {
			if x == it {
				k++
			}
		}
		if it == gone {
			verifrt.Assert(k == 0, "removed-item-is-gone")
		} else {
			verifrt.Assert(k == 1, "every-other-item-is-kept-exactly-once")
		}
	}
	verifrt.Reach("deferred-heap-step-done", op == 0 && n >= 3)
}
