//go:build verif

package nsqd

import (
	"crypto/tls"
	"encoding/json"
	"errors"
	"net"
	"net/http"
	"net/http/httptest"
	"strings"
	"time"

	"github.com/nsqio/nsq/internal/auth"
	"github.com/nsqio/nsq/internal/lg"
	"github.com/nsqio/nsq/internal/protocol"
	"github.com/nsqio/nsq/internal/verifrt"
)

type verifListener struct{ port int }

func (l verifListener) Accept() (net.Conn, error) { return nil, errors.New("verif: no accept") }
func (l verifListener) Close() error              { return nil }
func (l verifListener) Addr() net.Addr            { return &net.TCPAddr{Port: l.port} }

type verifRW struct {
	hdr    http.Header
	status int
	body   []byte
}

func (w *verifRW) Header() http.Header         { return w.hdr }
func (w *verifRW) Write(p []byte) (int, error) { w.body = append(w.body, p...); return len(p), nil }
func (w *verifRW) WriteHeader(s int)           { w.status = s }

type verifRouter struct{ calls int }

func (r *verifRouter) ServeHTTP(w http.ResponseWriter, req *http.Request) { r.calls++ }

// TLS-required gate: with TLS required (either policy) no command other than IDENTIFY is executed
// on a connection that has not completed the TLS upgrade - whatever the keyword and state - and
// the refusal is the fatal E_INVALID; plaintext HTTP is answered 403 without reaching the router.
func VerifC11_TLSGate() { verifrt.Atomic(verifC11TLS) }

func verifC11TLS() {
	o := verifOpts()
	o.TLSRequired = verifrt.Choice("tls-required", 3) // not required, required except http, required
	st := verifNewChan(o, "ch")
	cl := st.addClient(1)
	upgraded := verifrt.Bool("tls-upgraded")
	if upgraded {
		cl.TLS = 1
	}
	if verifrt.Bool("state-init") {
		cl.State = stateInit
		cl.Channel = nil
	}
	kws := []string{"FIN", "RDY", "REQ", "PUB", "MPUB", "DPUB", "NOP", "TOUCH", "SUB", "CLS", "AUTH", "ZZZ"}
	kw := kws[verifrt.Choice("kw", len(kws))]
	params := [][]byte{[]byte(kw), []byte("newtopic"), []byte("5")}
	cl.Reader.Reset(&verifStream{data: append(verifBE32(1), 'x'), err: errEOFVerif})
	preState, preRdy := cl.State, cl.ReadyCount
	p := &protocolV2{nsqd: st.n}
	_, err := p.Exec(cl, params)
	if o.TLSRequired != TLSNotRequired && !upgraded {
		code, fatal, _ := verifErr(err)
		verifrt.Assert(fatal && code == "E_INVALID", "plaintext-command-refused-with-fatal-E_INVALID")
		verifrt.Assert(strings.Contains(err.Error(), "TLS"), "refusal-names-tls")
		_, terr := st.n.GetExistingTopic("newtopic")
		verifrt.Assert(terr != nil, "refused-command-creates-no-topic")
		verifrt.Assert(cl.State == preState && cl.ReadyCount == preRdy, "refused-command-changes-no-connection-state")
		verifrt.Reach("publish-refused-on-plaintext", kw == "PUB")
	} else {
		verifrt.Reach("command-runs-after-upgrade", upgraded && kw == "NOP" && err == nil)
	}
	// HTTP side
	n := st.n
	n.httpsListener = verifListener{4152}
	r := &verifRouter{}
	tlsEnabled, tlsRequired := verifrt.Bool("http-tls-enabled"), verifrt.Bool("http-tls-required")
	hs := &httpServer{nsqd: n, tlsEnabled: tlsEnabled, tlsRequired: tlsRequired, router: r}
	w := &verifRW{hdr: http.Header{}}
	greq := verifReq("GET", "/ping", "", nil, false, 0)
	verifC11ProxyHeaders(greq)
	hs.ServeHTTP(w, greq)
	if !tlsEnabled && tlsRequired {
		verifrt.Assert(w.status == 403 && r.calls == 0, "plaintext-http-refused-403-without-routing")
		verifrt.Reach("http-refused", true)
	} else {
		verifrt.Assert(r.calls == 1 && w.status == 0, "allowed-http-request-is-routed")
	}
}

// ---- AUTH ----

type verifAuthReply struct {
	fail  bool
	state auth.State
}

// verifAuthd scripts the auth server: symbolically QueryAnyAuthd is replaced by the script;
// natively a loopback HTTP server answers with the scripted documents.
func verifAuthd(o *Options, replies []verifAuthReply) (queries *int) {
	q := 0
	next := func() (verifAuthReply, bool) {
		if q < len(replies) {
			r := replies[q]
			q++
			return r, true
		}
		q++
		return verifAuthReply{fail: true}, false
	}
	if verifrt.Symbolic() {
		o.AuthHTTPAddresses = []string{"authd:4181"}
		verifrt.Stub("github.com/nsqio/nsq/internal/auth.QueryAnyAuthd", func(authd []string, remoteIP string, tlsEnabled bool, commonName string, authSecret string,
			clientTLSConfig *tls.Config, connectTimeout time.Duration, requestTimeout time.Duration, httpRequestMethod string) (*auth.State, error) {
			r, _ := next()
			if r.fail {
				return nil, errors.New("verif: auth server error")
			}
			s := r.state
			s.Expires = time.Now().Add(time.Duration(s.TTL) * time.Second)
			return &s, nil
		})
		return &q
	}
	srv := httptest.NewServer(http.HandlerFunc(func(w http.ResponseWriter, req *http.Request) {
		r, _ := next()
		if r.fail {
			w.WriteHeader(500)
			return
		}
		b, _ := json.Marshal(r.state)
		w.Write(b)
	}))
	o.AuthHTTPAddresses = []string{strings.TrimPrefix(srv.URL, "http://")}
	o.HTTPClientConnectTimeout = 2 * time.Second
	o.HTTPClientRequestTimeout = 2 * time.Second
	return &q
}

func verifGrant(tag string) auth.Authorization {
	// representative grants (case split): everything; publish on t; subscribe on t/c; another
	// topic; a channel pattern that matches nothing; no permission at all
	switch verifrt.Choice(tag, 8) {
	case 0:
		return auth.Authorization{Topic: ".*", Channels: []string{".*"}, Permissions: []string{"publish", "subscribe"}}
	case 1:
		return auth.Authorization{Topic: "^t$", Channels: []string{".*"}, Permissions: []string{"publish"}}
	case 2:
		return auth.Authorization{Topic: "^t$", Channels: []string{"^c$"}, Permissions: []string{"subscribe"}}
	case 3:
		return auth.Authorization{Topic: "^other$", Channels: []string{".*"}, Permissions: []string{"publish", "subscribe"}}
	case 4:
		return auth.Authorization{Topic: ".*", Channels: []string{"^nope$"}, Permissions: []string{"publish", "subscribe"}}
	case 6:
		// subscribe (to any channel) only: never a publish, however the command is written
		return auth.Authorization{Topic: "^t$", Channels: []string{".*"}, Permissions: []string{"subscribe"}}
	case 5:
		// no channel pattern at all: matches no channel (and no publish, which asks with channel "")
		return auth.Authorization{Topic: ".*", Channels: []string{}, Permissions: []string{"publish", "subscribe"}}
	}
	return auth.Authorization{Topic: ".*", Channels: []string{".*"}, Permissions: []string{}}
}

// reference decision, from the statement: a grant allows publish on topic iff it has the publish
// permission and its topic pattern matches; subscribe additionally needs a matching channel pattern.
func verifGrantAllows(g auth.Authorization, topic, channel string) bool {
	match := func(pat, s string) bool {
		switch pat {
		case ".*":
			return true
		case "^t$":
			return s == "t"
		case "^c$":
			return s == "c"
		}
		return false // "^other$", "^nope$"
	}
	has := func(p string) bool {
		for _, x := range g.Permissions {
			if x == p {
				return true
			}
		}
		return false
	}
	if !match(g.Topic, topic) || len(g.Channels) == 0 {
		return false
	}
	if channel == "" {
		// nsqd asks with an empty channel for publishes; a channel pattern must still accept it
		return has("publish") && match(g.Channels[0], "")
	}
	return has("subscribe") && match(g.Channels[0], channel)
}

// With an auth server configured: PUB/MPUB/DPUB/SUB are carried out only after AUTH and only if
// the server's CURRENT answer (re-fetched once the TTL has passed) grants that permission for
// that topic/channel; every denial is the documented fatal error and creates no topic, channel or
// message.
func VerifC11_AuthGate() { verifrt.Atomic(verifC11Auth) }

func verifC11Auth() {
	o := verifOpts()
	o.MemQueueSize = 2
	// cached state on the connection
	authed, expired, refetchFails, currentEmpty := true, false, false, false
	switch verifrt.Choice("scenario", 5) {
	case 0:
		authed = false
	case 1: // cached grants still valid
	case 2:
		expired, refetchFails = true, true
	case 3:
		expired, currentEmpty = true, true
	case 4:
		expired = true
	}
	cached := verifGrant("cached")
	current := verifGrant("current")
	// an optional SECOND grant in the answer that decides (cached or current): for another topic,
	// with a permission set that may differ from the first grant's - permissions are per grant
	var second []auth.Authorization
	switch verifrt.Choice("second-grant", 4) {
	case 1:
		second = []auth.Authorization{{Topic: "^other$", Channels: []string{".*"}, Permissions: []string{"publish", "subscribe"}}}
	case 2:
		second = []auth.Authorization{{Topic: "^other$", Channels: []string{".*"}, Permissions: []string{"subscribe"}}}
	case 3:
		second = []auth.Authorization{{Topic: "^other$", Channels: []string{".*"}, Permissions: []string{"publish"}}}
	}
	var replies []verifAuthReply
	cur := auth.State{TTL: 60, Authorizations: append([]auth.Authorization{current}, second...)}
	if currentEmpty {
		cur.Authorizations = nil
	}
	replies = append(replies, verifAuthReply{fail: refetchFails, state: cur})
	queries := verifAuthd(o, replies)
	n := verifShellNSQD(o)
	verifrt.StubNative("(*github.com/nsqio/nsq/nsqd.NSQD).Notify", verifNotifyNop)
	cl, _ := verifClient(n, 1, append(verifBE32(5), append(verifBE32(1), append(verifBE32(1), 'x')...)...))
	if authed {
		s := &auth.State{TTL: 60, Authorizations: append([]auth.Authorization{cached}, second...)}
		if expired {
			s.Expires = time.Unix(1, 0) // long ago
		} else {
			s.Expires = time.Unix(1<<32, 0) // year 2106
		}
		cl.AuthState = s
	}
	kw := []string{"PUB", "MPUB", "DPUB", "SUB"}[verifrt.Choice("kw", 4)]
	params := [][]byte{[]byte(kw), []byte("t")}
	channel := ""
	switch kw {
	case "DPUB":
		params = append(params, []byte("5"))
		cl.Reader.Reset(&verifStream{data: append(verifBE32(1), 'x'), err: errEOFVerif})
	case "PUB":
		cl.Reader.Reset(&verifStream{data: append(verifBE32(1), 'x'), err: errEOFVerif})
	case "SUB":
		channel = "c"
		params = append(params, []byte("c"))
	}
	p := &protocolV2{nsqd: n}
	_, err := p.Exec(cl, params)

	// reference outcome
	allowed := false
	wantCode := ""
	switch {
	case !authed:
		wantCode = "E_AUTH_FIRST"
	case !expired:
		allowed = verifGrantAllows(cached, "t", channel)
		wantCode = "E_UNAUTHORIZED"
	case refetchFails:
		wantCode = "E_AUTH_FAILED"
	default:
		allowed = !currentEmpty && verifGrantAllows(current, "t", channel)
		wantCode = "E_UNAUTHORIZED"
	}
	_, terr := n.GetExistingTopic("t")
	if allowed {
		verifrt.Assert(err == nil, "granted-command-is-carried-out")
		verifrt.Reach("granted-after-refetch", expired)
	} else {
		code, fatal, _ := verifErr(err)
		verifrt.Assert(err != nil, "command-without-grant-is-refused")
		if err != nil {
			verifrt.Assert(fatal, "denial-is-fatal")
			verifrt.Assert(code == wantCode || (code == "E_AUTH_FIRST" && authed && expired && currentEmpty), "denial-has-the-documented-code")
		}
		verifrt.Assert(terr != nil, "denied-command-creates-no-topic")
		verifrt.Reach("denied-by-current-answer-after-expiry", authed && expired && !refetchFails && verifGrantAllows(cached, "t", channel))
	}
	if authed && expired {
		verifrt.Assert(*queries == 1, "expired-grants-are-re-fetched-exactly-once")
	} else {
		verifrt.Assert(*queries == 0, "unexpired-grants-are-not-re-fetched")
	}
}

// ---- the wiring in NSQD.Main ----
//
// Main builds the plaintext HTTP server and the HTTPS server from the configured policy. Whatever
// listeners exist: with tls-required=true the server that Main puts on the PLAINTEXT listener
// answers 403 to every request without routing it; in tcp-https mode and without a TLS
// requirement it serves. The real Main runs (the accept loops, the queue scanner and the lookup
// loop are replaced by recorders / no-ops); a request is then sent through the handler Main
// registered for the plaintext listener.

type verifServed struct {
	proto   string
	handler http.Handler
}

var verifServedList []verifServed

func verifServeStub(listener net.Listener, handler http.Handler, proto string, logf lg.AppLogFunc) error {
	verifServedList = append(verifServedList, verifServed{proto, handler})
	return nil
}
func verifTCPServerStub(listener net.Listener, handler protocol.TCPHandler, logf lg.AppLogFunc) error {
	return nil
}
func verifLoopNop(n *NSQD) {}

func VerifC11_MainWiresThePlaintextGate() {
	o := verifOpts()
	policy := verifrt.Choice("tls-required", 3)
	o.TLSRequired = []int{TLSNotRequired, TLSRequiredExceptHTTP, TLSRequired}[policy]
	n := verifShellNSQD(o)
	verifrt.StubNative("(*github.com/nsqio/nsq/nsqd.NSQD).Notify", verifNotifyNop)
	verifrt.StubNative("github.com/nsqio/nsq/internal/http_api.Serve", verifServeStub)
	verifrt.StubNative("github.com/nsqio/nsq/internal/protocol.TCPServer", verifTCPServerStub)
	verifrt.StubNative("(*github.com/nsqio/nsq/nsqd.NSQD).queueScanLoop", verifLoopNop)
	verifrt.StubNative("(*github.com/nsqio/nsq/nsqd.NSQD).lookupLoop", verifLoopNop)
	verifrt.Preemptions(0)
	verifServedList = nil
	n.tcpListener = verifListener{4150}
	n.httpListener = verifListener{4151}
	haveHTTPS := verifrt.Choice("https-listener", 2) == 1
	if haveHTTPS {
		n.httpsListener = verifListener{4152}
	}
	verifrt.Atomic(func() { n.Main() })
	verifrt.Join()
	var plain http.Handler
	for _, s := range verifServedList {
		if s.proto == "HTTP" {
			plain = s.handler
		}
	}
	verifrt.Assert(plain != nil, "main-serves-the-plaintext-http-listener")
	if plain == nil {
		return
	}
	// the handler Main registered, with the routing replaced by a counter
	hs := plain.(*httpServer)
	r := &verifRouter{}
	hs.router = r
	w := &verifRW{hdr: http.Header{}}
	preq := verifReq("POST", "/pub", "topic=t", []byte("x"), false, 1)
	verifC11ProxyHeaders(preq)
	hs.ServeHTTP(w, preq)
	if o.TLSRequired == TLSRequired {
		verifrt.Assert(w.status == 403 && r.calls == 0, "tls-required-refuses-plaintext-http-whatever-listeners-exist")
		verifrt.Reach("refused-without-https-listener", !haveHTTPS)
	} else {
		verifrt.Assert(r.calls == 1 && w.status != 403, "plaintext-http-served-when-tls-is-not-required-for-http")
		verifrt.Reach("tcp-https-mode-serves-plaintext-http", o.TLSRequired == TLSRequiredExceptHTTP)
	}
}

// whatever a plaintext client writes into its request headers proves nothing about the transport:
// the gate looks at the connection, not at forwarded-for / forwarded-proto style claims
func verifC11ProxyHeaders(req *http.Request) {
	switch verifrt.Choice("client-supplied-headers", 3) {
	case 1:
		req.Header.Set("X-Forwarded-Proto", "https")
		req.Header.Set("X-Forwarded-Ssl", "on")
	case 2:
		req.Header.Set("Forwarded", "proto=https")
		req.Header.Set("X-Forwarded-For", "127.0.0.1")
		req.Header.Set("Upgrade-Insecure-Requests", "1")
	}
}

// Permission decisions are per (topic, channel) pair: what was allowed for one pair says nothing
// about another pair, however similar their spelling - in particular SUB "ab" "c" and PUB "abc"
// (same concatenation) are decided independently, in either order, on one connection.
func VerifC11_DecisionsArePerTopicAndChannel() { verifrt.Atomic(verifC11PerPair) }

func verifC11PerPair() {
	o := verifOpts()
	o.MemQueueSize = 2
	// the answer grants: subscribe on topic ab / channel c only; publish on topic pub only
	st := auth.State{TTL: 60, Authorizations: []auth.Authorization{
		{Topic: "^ab$", Channels: []string{"^c$"}, Permissions: []string{"subscribe"}},
		{Topic: "^pub$", Channels: []string{".*"}, Permissions: []string{"publish"}},
	}}
	queries := verifAuthd(o, []verifAuthReply{{state: st}})
	_ = queries
	n := verifShellNSQD(o)
	verifrt.StubNative("(*github.com/nsqio/nsq/nsqd.NSQD).Notify", verifNotifyNop)
	cl, _ := verifClient(n, 1, nil)
	s := st
	s.Expires = time.Unix(1<<32, 0)
	cl.AuthState = &s
	p := &protocolV2{nsqd: n}
	subFirst := verifrt.Choice("order", 2) == 0
	pub := func(topic string) error {
		cl.Reader.Reset(&verifStream{data: append(verifBE32(1), 'x'), err: errEOFVerif})
		_, err := p.Exec(cl, [][]byte{[]byte("PUB"), []byte(topic)})
		return err
	}
	var errSub, errPubAbc, errPubOK error
	if subFirst {
		_, errSub = p.Exec(cl, [][]byte{[]byte("SUB"), []byte("ab"), []byte("c")})
		errPubAbc = pub("abc")
		errPubOK = pub("pub")
	} else {
		errPubOK = pub("pub")
		errPubAbc = pub("abc")
		_, errSub = p.Exec(cl, [][]byte{[]byte("SUB"), []byte("ab"), []byte("c")})
	}
	verifrt.Assert(errSub == nil, "granted-subscribe-is-carried-out")
	verifrt.Assert(errPubOK == nil, "granted-publish-is-carried-out")
	code, fatal, _ := verifErr(errPubAbc)
	verifrt.Assert(errPubAbc != nil && fatal && code == "E_UNAUTHORIZED", "publish-to-a-topic-without-grant-is-refused-whatever-was-allowed-before")
	_, terr := n.GetExistingTopic("abc")
	verifrt.Assert(terr != nil, "refused-publish-creates-no-topic")
	verifrt.Reach("refused-after-an-allowed-subscribe", subFirst && errPubAbc != nil)
}

// A grant is for the names it matches, not for names that merely start with them: "t#ephemeral" /
// "c#ephemeral" are topics / channels of their own ("#ephemeral" is part of the name a client
// sends), so a grant for exactly topic pub (channel c) does not cover them. A grant written for
// the ephemeral name does.
func VerifC11_EphemeralNamesAreNamesOfTheirOwn() { verifrt.Atomic(verifC11Ephemeral) }

func verifC11Ephemeral() {
	o := verifOpts()
	o.MemQueueSize = 2
	st := auth.State{TTL: 60, Authorizations: []auth.Authorization{
		{Topic: "^ab$", Channels: []string{"^c$"}, Permissions: []string{"subscribe"}},
		{Topic: "^pub$", Channels: []string{".*"}, Permissions: []string{"publish"}},
		{Topic: "^eph#ephemeral$", Channels: []string{"^c#ephemeral$"}, Permissions: []string{"publish", "subscribe"}},
	}}
	verifAuthd(o, []verifAuthReply{{state: st}})
	n := verifShellNSQD(o)
	verifrt.StubNative("(*github.com/nsqio/nsq/nsqd.NSQD).Notify", verifNotifyNop)
	cl, _ := verifClient(n, 1, nil)
	s := st
	s.Expires = time.Unix(1<<32, 0)
	cl.AuthState = &s
	p := &protocolV2{nsqd: n}
	var err error
	topic, channel := "", ""
	granted := false
	which := verifrt.Choice("command", 6)
	switch which {
	case 0:
		topic, channel = "ab", "c#ephemeral"
	case 1:
		topic, channel = "ab#ephemeral", "c"
	case 2:
		topic = "pub#ephemeral"
	case 3:
		topic, channel, granted = "eph#ephemeral", "c#ephemeral", true
	case 4:
		topic, granted = "eph#ephemeral", false // the third grant's channel pattern does not accept the empty channel of a publish
	case 5:
		topic, channel = "eph", "c"
	}
	if channel != "" {
		_, err = p.Exec(cl, [][]byte{[]byte("SUB"), []byte(topic), []byte(channel)})
	} else {
		kw := []string{"PUB", "DPUB"}[verifrt.Choice("kw", 2)]
		params := [][]byte{[]byte(kw), []byte(topic)}
		if kw == "DPUB" {
			params = append(params, []byte("5"))
		}
		cl.Reader.Reset(&verifStream{data: append(verifBE32(1), 'x'), err: errEOFVerif})
		_, err = p.Exec(cl, params)
	}
	_, terr := n.GetExistingTopic(topic)
	if granted {
		verifrt.Assert(err == nil, "grant-for-the-ephemeral-name-is-honoured")
		verifrt.Reach("ephemeral-subscribe-granted", which == 3)
		return
	}
	code, fatal, _ := verifErr(err)
	verifrt.Assert(err != nil && fatal && code == "E_UNAUTHORIZED", "grant-for-a-plain-name-does-not-cover-the-ephemeral-name")
	verifrt.Assert(terr != nil, "refused-command-creates-no-ephemeral-topic")
	verifrt.Reach("ephemeral-name-refused", which == 0)
}
