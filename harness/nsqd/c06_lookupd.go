//go:build verif

package nsqd

import "github.com/nsqio/nsq/internal/verifrt"

// ---------------------------------------------------------------------------------------------
// C06: the asynchronous persist of a creation depends on nsqlookupd's liveness.
//
// Statement: after a restart the set of topics and channels "includes every creation ... that had
// completed before the daemon was last idle". nsqd persists a creation from the Notify goroutine,
// and only after lookupLoop has taken the notification (NSQD.Notify: `n.notifyChan <- v`, then
// PersistMetadata). So "idle" only ever means "persisted" if lookupLoop returns to its select
// whatever the configured nsqlookupds do - in particular when one of them accepts the connection
// and then says nothing (hung process, black-holed route, half-open connection).
// The scenario and oracle are those of VerifC16_StalledLookupdDoesNotStopNotifications
// (c16_stall.go): with a silent lookupd - silent from the start or after registration, alone or
// next to a healthy one - a topic and then a channel are created, nsqd is left idle after each,
// and the metadata document (natively: the real nsqd.dat read back, i.e. what a SIGKILL at that
// moment leaves behind) must list them.
// ---------------------------------------------------------------------------------------------

func VerifC06_SilentLookupdDoesNotStopNotifications() { verifrt.Atomic(verifC16Stalled) }
