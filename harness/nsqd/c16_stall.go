//go:build verif

package nsqd

import (
	"encoding/json"
	"os"
	"time"

	"github.com/nsqio/nsq/internal/verifrt"
)

// ---------------------------------------------------------------------------------------------
// C16 part 4e: a STALLED nsqlookupd (also run as a C06 check, see c06_lookupd.go).
//
// Statement (C16): "No nsqlookupd behaviour - down, SLOW, ... - crashes nsqd or stops it publishing
// and delivering", and every REACHABLE nsqlookupd converges to nsqd's current topics and channels.
// Statement (C06): the on-disk metadata "includes every creation ... that had completed before the
// daemon was last idle".
// Both rest on one mechanism: every creation/deletion is handed to lookupLoop by a goroutine of
// its own (NSQD.Notify) which persists the metadata only AFTER lookupLoop has taken the
// notification - so lookupLoop must come back to its select whatever a lookupd does.
//
// Scenario: the real lookupLoop of a shell nsqd against scripted lookupds (c16_env.go). lookupd0
// stalls - it accepts connections and swallows what nsqd writes but never answers - either from
// the very start (the IDENTIFY of the first connect is never answered) or after nsqd has connected
// and registered (the next REGISTER is never answered). Optionally a second, healthy lookupd is
// configured after it. A connection to a stalled lookupd behaves like a real socket: a read
// without a read deadline never returns. Then a topic and a channel are created (the real GetTopic /
// GetChannel with the real Notify) and nsqd is left idle after each.
// Oracle, at each point of rest (natively: within a few seconds - nsqd's deadlines are 1 s):
//   - the creation has been persisted: the metadata document (natively the real nsqd.dat, read
//     back; symbolically what PersistMetadata is asked to write) lists the topic / the channel;
//   - the healthy lookupd lists nsqd as producer of exactly its current topics and channels;
//   - nsqd keeps offering its notifications to the silent lookupd (what lets it converge later);
//   - lookupLoop is still running and answers the exit signal.
// ---------------------------------------------------------------------------------------------

func VerifC16_StalledLookupdDoesNotStopNotifications() { verifrt.Atomic(verifC16Stalled) }

type verifStallRun struct {
	r        *verifLoopRun
	persists int
	doc      map[string]bool // symbolic: the last document PersistMetadata was asked to write
}

var verifStall *verifStallRun

// verifPersistSnap stands in for PersistMetadata in the symbolic run (the real one needs
// encoding/json and a file): it records what the document would list - every non-ephemeral
// topic ("t") and channel ("t c") nsqd has at that moment. The caller holds nsqd's lock.
func verifPersistSnap(n *NSQD) error {
	st := verifStall
	st.persists++
	doc := map[string]bool{}
	for name, t := range n.topicMap {
		if t.ephemeral {
			continue
		}
		doc[name] = true
		t.RLock()
		for cname, c := range t.channelMap {
			if !c.ephemeral {
				doc[name+" "+cname] = true
			}
		}
		t.RUnlock()
	}
	st.doc = doc
	return nil
}

// document: what a restart would load right now (nil: no metadata on disk).
func (st *verifStallRun) document() map[string]bool {
	if verifrt.Symbolic() {
		return st.doc
	}
	data, err := os.ReadFile(newMetadataFile(st.r.n.getOpts()))
	if err != nil {
		return nil
	}
	var m Metadata
	if json.Unmarshal(data, &m) != nil {
		return nil
	}
	doc := map[string]bool{}
	for _, t := range m.Topics {
		doc[t.Name] = true
		for _, c := range t.Channels {
			doc[t.Name+" "+c.Name] = true
		}
	}
	return doc
}

// idle: nsqd is left alone until nothing moves any more; reports whether `key` is in the
// persisted document then. Natively "nothing moves any more" is bounded: a round trip to a
// silent lookupd costs nsqd its one-second deadline, a notification at most two of them.
func (st *verifStallRun) idle(key string) bool {
	st.r.rest()
	if verifrt.Symbolic() {
		return st.document()[key]
	}
	for i := 0; i < 100; i++ {
		if st.document()[key] {
			return true
		}
		time.Sleep(50 * time.Millisecond)
	}
	return false
}

func verifC16Stalled() {
	nLd := 1 + verifrt.Choice("lookupds", 2)     // the stalled lookupd alone / a healthy one configured after it
	stallFrom := verifrt.Choice("stallsFrom", 2) // 0: before nsqd's first connect, 1: once nsqd is connected and registered
	w := verifNewWorld(nLd, 0)
	w.noClockPlan = true
	stalled := w.lds[0]
	stalled.stall = stallFrom == 0
	var addrs []string
	for _, ld := range w.lds {
		addrs = append(addrs, ld.addr)
	}
	st := &verifStallRun{}
	verifStall = st
	r := verifStartLoopWith(w, addrs)
	st.r = r
	verifrt.Stub("(*github.com/nsqio/nsq/nsqd.NSQD).PersistMetadata", verifPersistSnap)
	if stallFrom == 1 {
		r.checkRest("start")
		stalled.stall = true
	}
	healthyInSync := func(label string) {
		if nLd == 2 {
			// natively the document is written as soon as lookupLoop has TAKEN the notification,
			// while the healthy lookupd is told only after the silent one has cost its deadline
			for i := 0; !verifrt.Symbolic() && !verifInSync(r.n, w.lds[1]) && i < 100; i++ {
				time.Sleep(50 * time.Millisecond)
			}
			verifrt.Assert(verifInSync(r.n, w.lds[1]), label)
		}
	}
	received := func() int { // commands the stalled lookupd has received so far
		w.lock()
		defer w.unlock()
		k := 0
		for _, s := range stalled.sessions {
			k += len(s.cmds)
		}
		return k
	}
	base := received()

	// a topic is created; nsqd is left idle
	t := r.n.GetTopic("t0")
	ok := st.idle("t0")
	verifrt.Assert(ok, "topic-creation-persisted-although-a-lookupd-is-silent")
	if !ok {
		return // (natively: lookupLoop is parked for good, every further wait would run to its limit)
	}
	healthyInSync("healthy-lookupd-lists-the-new-topic-although-another-is-silent")

	// ... and a channel
	t.GetChannel("c0")
	ok = st.idle("t0 c0")
	verifrt.Assert(ok, "channel-creation-persisted-although-a-lookupd-is-silent")
	if !ok {
		return
	}
	verifrt.Assert(st.document()["t0"], "persisted-document-still-lists-the-topic")
	healthyInSync("healthy-lookupd-lists-the-new-channel-although-another-is-silent")

	// the stalled lookupd is still offered the notifications (nsqd keeps trying: that is what lets
	// it converge once it answers again) - it has received something since it fell silent
	verifrt.Assert(received() > base || stallFrom == 0, "silent-lookupd-is-still-tried")

	verifrt.Reach("a-silent-from-the-start-creations-persisted", stallFrom == 0 && nLd == 1)
	verifrt.Reach("silent-after-registration-healthy-peer-in-sync", stallFrom == 1 && nLd == 2)
	verifrt.Reach("silent-from-the-start-healthy-peer-in-sync", stallFrom == 0 && nLd == 2)

	verifrt.Assert(!r.exited, "lookup-loop-still-running")
	close(r.n.exitChan)
	r.rest()
	for i := 0; !verifrt.Symbolic() && !r.exited && i < 60; i++ {
		time.Sleep(50 * time.Millisecond)
	}
	verifrt.Assert(r.exited, "lookup-loop-answers-exit")
}
