//go:build verif

package nsqd

import (
	"bufio"
	"errors"
	"net"
	"os"
	"time"

	"github.com/nsqio/go-diskqueue"
	"github.com/nsqio/nsq/internal/verifrt"
)

// ---- FIFO backend stub (contract of go-diskqueue: FIFO, Put may fail) ----

type verifBackend struct {
	items   [][]byte
	failPut bool // next Put fails
	puts    int
	emptied int
	closed  int
	deleted int
	rc      chan []byte
	// record size limits given to diskqueue.New (0 = unchecked): like the real queue, Put refuses
	// a record outside [minSize, maxSize] ("invalid message write size")
	minSize, maxSize int32
}

func (b *verifBackend) Put(p []byte) error {
	b.puts++
	if b.failPut {
		return errors.New("verif: backend put failed")
	}
	if b.maxSize > 0 && (int32(len(p)) < b.minSize || int32(len(p)) > b.maxSize) {
		return errors.New("verif: invalid message write size")
	}
	cp := make([]byte, len(p))
	copy(cp, p)
	b.items = append(b.items, cp)
	return nil
}
func (b *verifBackend) ReadChan() <-chan []byte {
	if b.rc == nil {
		b.rc = make(chan []byte)
	}
	return b.rc
}
func (b *verifBackend) Close() error  { b.closed++; return nil }
func (b *verifBackend) Delete() error { b.deleted++; b.items = nil; return nil }
func (b *verifBackend) Depth() int64  { return int64(len(b.items)) }
func (b *verifBackend) Empty() error  { b.emptied++; b.items = nil; return nil }

func verifDiskqueueNew(name string, dataPath string, maxBytesPerFile int64, minMsgSize int32, maxMsgSize int32,
	syncEvery int64, syncTimeout time.Duration, logf diskqueue.AppLogFunc) diskqueue.Interface {
	return &verifBackend{minSize: minMsgSize, maxSize: maxMsgSize}
}

func verifNotifyNop(n *NSQD, v interface{}, persist bool) {}

// verifOpts: small explicit option set (no hostname/md5 work of NewOptions).
func verifOpts() *Options {
	o := &Options{
		MemQueueSize:           2,
		MaxBytesPerFile:        1024,
		SyncEvery:              2500,
		SyncTimeout:            2 * time.Second,
		MsgTimeout:             60 * time.Second,
		MaxMsgTimeout:          15 * time.Minute,
		MaxMsgSize:             8,
		MaxBodySize:            40,
		MaxReqTimeout:          time.Hour,
		ClientTimeout:          60 * time.Second,
		MaxHeartbeatInterval:   60 * time.Second,
		MaxRdyCount:            2500,
		MaxOutputBufferSize:    64 * 1024,
		MaxOutputBufferTimeout: 30 * time.Second,
		MinOutputBufferTimeout: 25 * time.Millisecond,
		OutputBufferTimeout:    250 * time.Millisecond,
		MaxDeflateLevel:        6,
		LogLevel:               LOG_FATAL,
		AuthHTTPRequestMethod:  "get",
	}
	if !verifrt.Symbolic() {
		d, _ := os.MkdirTemp("", "nsq-verif-")
		o.DataPath = d
	}
	return o
}

// verifShellNSQD builds an NSQD without listeners, lock file or background loops.
func verifShellNSQD(o *Options) *NSQD {
	verifrt.Stub("github.com/nsqio/go-diskqueue.New", verifDiskqueueNew)
	n := &NSQD{
		topicMap:             make(map[string]*Topic),
		exitChan:             make(chan int),
		notifyChan:           make(chan interface{}),
		optsNotificationChan: make(chan struct{}, 1),
	}
	n.swapOpts(o)
	n.errValue.Store(errStore{})
	n.lookupPeers.Store([]*lookupPeer{})
	return n
}

// verifStream: a byte stream with an optional error after the data (truncation / I/O fault).
type verifStream struct {
	data []byte
	pos  int
	err  error
	// chunk > 0: one Read returns at most chunk bytes (a body that arrives in several TCP segments)
	chunk int
	// yieldBetweenReads: the goroutine can be descheduled while it waits for the next segment
	yieldBetweenReads bool
	// chunkUntil > 0: chunking (and yielding) only applies to the first chunkUntil bytes
	chunkUntil int
}

func (s *verifStream) Read(p []byte) (int, error) {
	chunked := s.chunkUntil == 0 || s.pos < s.chunkUntil
	if s.yieldBetweenReads && s.pos > 0 && chunked {
		verifrt.Yield()
	}
	if s.pos >= len(s.data) {
		if s.err != nil {
			return 0, s.err
		}
		return 0, errEOFVerif
	}
	avail := s.data[s.pos:]
	if s.chunk > 0 && chunked && len(avail) > s.chunk {
		avail = avail[:s.chunk]
	}
	n := copy(p, avail)
	s.pos += n
	return n, nil
}

var errEOFVerif = verifEOF()

// verifSink records every byte written.
type verifSink struct {
	data []byte
	fail bool
}

func (w *verifSink) Write(p []byte) (int, error) {
	if w.fail {
		return 0, errors.New("verif: write failed")
	}
	w.data = append(w.data, p...)
	return len(p), nil
}

// 128-bit-free reference parse of a decimal string: returns (value, ok, overflow) where
// overflow means the mathematical value exceeds limit (limit < 2^62), decided digit by digit
// with saturation so nothing ever wraps.
func verifRefDecimal(b []byte, limit uint64) (v uint64, isNum bool, over bool) {
	isNum = true
	for i := 0; i < len(b); i++ {
		d := b[i]
		if d < '0' || d > '9' {
			return 0, false, false
		}
		if !over {
			// v <= limit < 2^62 here, so v*10+9 cannot wrap
			v = v*10 + uint64(d-'0')
			if v > limit {
				over = true
			}
		}
	}
	return v, isNum, over
}

// ---- stub connection and client ----

type verifAddr struct{}

func (verifAddr) Network() string { return "tcp" }
func (verifAddr) String() string  { return "127.0.0.1:4150" }

type verifConn struct {
	in      verifStream
	out     verifSink
	closed  int
	onWrite func(p []byte)
	// yieldOnWrite: a write to the socket is a point where the goroutine can be descheduled
	yieldOnWrite bool
}

func (c *verifConn) Read(p []byte) (int, error) { return c.in.Read(p) }
func (c *verifConn) Write(p []byte) (int, error) {
	if c.onWrite != nil {
		c.onWrite(p)
	}
	if c.yieldOnWrite {
		// the bytes reach the socket in two steps with a scheduling point in between
		h := len(p) / 2
		c.out.Write(p[:h])
		verifrt.Yield()
		_, err := c.out.Write(p[h:])
		return len(p), err
	}
	return c.out.Write(p)
}
func (c *verifConn) Close() error                       { c.closed++; return nil }
func (c *verifConn) LocalAddr() net.Addr                { return verifAddr{} }
func (c *verifConn) RemoteAddr() net.Addr               { return verifAddr{} }
func (c *verifConn) SetDeadline(t time.Time) error      { return nil }
func (c *verifConn) SetReadDeadline(t time.Time) error  { return nil }
func (c *verifConn) SetWriteDeadline(t time.Time) error { return nil }

// verifClient: a clientV2 over a stub connection with small buffers (the 16 KiB default
// buffers only cost interpretation time; buffer-size effects are outside these harnesses).
func verifClient(n *NSQD, id int64, wire []byte) (*clientV2, *verifConn) {
	conn := &verifConn{}
	conn.in.data = wire
	c := &clientV2{
		ID:                  id,
		nsqd:                n,
		Conn:                conn,
		Reader:              bufio.NewReaderSize(conn, 16),
		Writer:              bufio.NewWriterSize(conn, 64),
		OutputBufferSize:    64,
		OutputBufferTimeout: n.getOpts().OutputBufferTimeout,
		MsgTimeout:          n.getOpts().MsgTimeout,
		ReadyStateChan:      make(chan int, 1),
		ExitChan:            make(chan int),
		State:               stateInit,
		SubEventChan:        make(chan *Channel, 1),
		IdentifyEventChan:   make(chan identifyEvent, 1),
		HeartbeatInterval:   n.getOpts().ClientTimeout / 2,
		pubCounts:           make(map[string]uint64),
	}
	c.lenSlice = c.lenBuf[:]
	return c, conn
}

func verifBE32(v uint32) []byte {
	return []byte{byte(v >> 24), byte(v >> 16), byte(v >> 8), byte(v)}
}

// verifFeedBackend: a FIFO disk-queue stand-in whose ReadChan really delivers - a feeder goroutine
// offers the oldest record, like go-diskqueue's ioLoop; Depth counts a record until it has been
// taken; Empty drops everything, also the record on offer.
type verifFeedBackend struct {
	verifBackend
	kick, reset, stop chan struct{}
	out               chan []byte
}

func newVerifFeedBackend() *verifFeedBackend {
	b := &verifFeedBackend{kick: make(chan struct{}, 1), reset: make(chan struct{}, 1), stop: make(chan struct{}), out: make(chan []byte)}
	go b.feed()
	return b
}

func (b *verifFeedBackend) feed() {
	for {
		if len(b.items) == 0 {
			select {
			case <-b.kick:
			case <-b.reset:
			case <-b.stop:
				return
			}
			continue
		}
		select {
		case b.out <- b.items[0]:
			b.items = b.items[1:]
		case <-b.reset:
		case <-b.stop:
			return
		}
	}
}

func (b *verifFeedBackend) Put(p []byte) error {
	err := b.verifBackend.Put(p)
	if err == nil {
		select {
		case b.kick <- struct{}{}:
		default:
		}
	}
	return err
}
func (b *verifFeedBackend) ReadChan() <-chan []byte { return b.out }
func (b *verifFeedBackend) Empty() error {
	err := b.verifBackend.Empty()
	select {
	case b.reset <- struct{}{}:
	default:
	}
	return err
}
func (b *verifFeedBackend) Close() error {
	select {
	case <-b.stop:
	default:
		close(b.stop)
	}
	return b.verifBackend.Close()
}
