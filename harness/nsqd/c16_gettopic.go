//go:build verif

package nsqd

import (
	"errors"
	"net"
	"net/http"
	"strings"
	"time"

	"github.com/nsqio/nsq/internal/clusterinfo"
	"github.com/nsqio/nsq/internal/http_api"
	"github.com/nsqio/nsq/internal/verifrt"
)

// ---------------------------------------------------------------------------------------------
// C16 part 5: channel pre-creation in NSQD.GetTopic (nsqd/nsqd.go; the lookupd query of
// internal/clusterinfo/data.go GetLookupdTopicChannels is the environment here).
//
// Statement: "A topic first created on an nsqd starts with every non-ephemeral channel its
// nsqlookupds already know for it, so those channels receive its very first message."
// Scenario: nsqd knows one or two lookupd HTTP addresses; the lookupds know any subset of
// {c0, c1, e#ephemeral} for topic t0, or fail (all fail / one of two fails). WHILE GetTopic is
// asking them, another producer publishes the topic's first message (the topic is already in
// the map then). Oracle: once GetTopic has returned and nsqd has come to rest, every
// non-ephemeral channel a reachable lookupd knew exists and holds exactly that first message;
// and whatever the lookupds did (error, empty answer) the topic is started: a channel created
// afterwards receives the message too ("No nsqlookupd behaviour ... stops it publishing and
// delivering").
// Symbolically the query is a stub returning the chosen answer; natively it is nsqd's real
// HTTP client talking to a loopback HTTP server that gives the same answer.
// ---------------------------------------------------------------------------------------------

type verifTopicQuery struct {
	n        *NSQD
	names    []string // what the reachable lookupd(s) know
	fail     int      // 0 all answer, 1 all fail, 2 one of two fails (partial answer + error)
	asked    int
	firstMsg bool
}

var verifTQ *verifTopicQuery

// publishFirst: another producer's PUB arrives while the query is in flight.
func (q *verifTopicQuery) publishFirst(topic string) {
	if q.firstMsg {
		return
	}
	q.firstMsg = true
	t := q.n.GetTopic(topic)
	var id MessageID
	copy(id[:], "0123456789abcdef")
	t.PutMessage(NewMessage(id, []byte("first")))
}

func verifTopicChannelsStub(c *clusterinfo.ClusterInfo, topic string, addrs []string) ([]string, error) {
	q := verifTQ
	q.asked++
	q.publishFirst(topic)
	switch q.fail {
	case 1:
		return nil, errors.New("verif: failed to query any nsqlookupd")
	case 2:
		return q.names, errors.New("verif: one nsqlookupd failed")
	}
	return q.names, nil
}

// native: a loopback HTTP lookupd
func (q *verifTopicQuery) serveHTTP(rw http.ResponseWriter, req *http.Request) {
	q.asked++
	q.publishFirst(req.URL.Query().Get("topic"))
	if q.fail == 1 {
		rw.WriteHeader(500)
		rw.Write([]byte(`{"message":"INTERNAL_ERROR"}`))
		return
	}
	body := `{"channels":[`
	for i, nm := range q.names {
		if i > 0 {
			body += ","
		}
		body += `"` + nm + `"`
	}
	body += `]}`
	rw.Header().Set("Content-Type", "application/json")
	rw.Write([]byte(body))
}

func VerifC16_GetTopicPrecreatesChannels() { verifrt.Atomic(verifC16GetTopic) }

func verifC16GetTopic() {
	verifC16Stubs()
	verifrt.Stub("(*github.com/nsqio/nsq/nsqd.NSQD).Notify", verifNotifyNop)
	o := verifOpts()
	o.NSQLookupdTCPAddresses = []string{"lookupd0:4160"}
	n := verifShellNSQD(o)
	q := &verifTopicQuery{n: n}
	verifTQ = q
	pool := []string{"c0", "e#ephemeral", "c1"}
	mask := verifrt.Choice("known", 8)
	for i, nm := range pool {
		if mask&(1<<uint(i)) != 0 {
			q.names = append(q.names, nm)
		}
	}
	if verifrt.Choice("order", 2) == 1 { // lookupds answer in any order
		for i, j := 0, len(q.names)-1; i < j; i, j = i+1, j-1 {
			q.names[i], q.names[j] = q.names[j], q.names[i]
		}
	}
	q.fail = verifrt.Choice("lookupdFails", 3)

	// the lookupd(s) nsqd has learnt the HTTP address of
	peers := []*lookupPeer{{addr: "lookupd0:4160", Info: peerInfo{BroadcastAddress: "lookupd0", HTTPPort: 4161}}}
	if verifrt.Symbolic() {
		verifrt.Stub("(*github.com/nsqio/nsq/internal/clusterinfo.ClusterInfo).GetLookupdTopicChannels", verifTopicChannelsStub)
	} else {
		l, err := net.Listen("tcp", "127.0.0.1:0")
		if err != nil {
			panic(err)
		}
		go http.Serve(l, http.HandlerFunc(q.serveHTTP))
		peers[0].Info = peerInfo{BroadcastAddress: "127.0.0.1", HTTPPort: l.Addr().(*net.TCPAddr).Port}
		n.ci = clusterinfo.New(n.logf, http_api.NewClient(nil, time.Second, 2*time.Second))
	}
	if q.fail == 2 {
		// a second lookupd that is down (natively: a port nobody listens on)
		dead := &lookupPeer{addr: "lookupd1:4160", Info: peerInfo{BroadcastAddress: "lookupd1", HTTPPort: 4161}}
		if !verifrt.Symbolic() {
			l2, _ := net.Listen("tcp", "127.0.0.1:0")
			dead.Info = peerInfo{BroadcastAddress: "127.0.0.1", HTTPPort: l2.Addr().(*net.TCPAddr).Port}
			l2.Close()
		}
		peers = append(peers, dead)
	}
	n.lookupPeers.Store(peers)

	var t *Topic
	panicked := verifrt.Panics(func() { t = n.GetTopic("t0") })
	verifrt.Assert(!panicked && t != nil, "lookupd-answer-never-panics-nsqd")
	if panicked || t == nil {
		return
	}
	verifrt.Rest()
	verifrt.Assert(q.asked >= 1 && q.firstMsg, "new-topic-asks-its-lookupds")

	known := 0
	for _, nm := range q.names {
		if strings.HasSuffix(nm, "#ephemeral") || q.fail == 1 {
			continue
		}
		known++
		c, err := t.GetExistingChannel(nm)
		verifrt.Assert(err == nil && c != nil, "known-channel-exists-on-the-new-topic")
		if err == nil && c != nil {
			verifrt.Assert(c.Depth() == 1, "known-channel-receives-the-very-first-message")
		}
	}
	if known == 0 {
		// nothing to pre-create (or the lookupds failed): the topic must be running all the same
		verifrt.Assert(t.Depth() == 1, "first-message-kept-until-a-channel-exists")
		c := t.GetChannel("late")
		verifrt.Rest()
		verifrt.Assert(c.Depth() == 1 && t.Depth() == 0, "topic-started-despite-lookupd-failure")
		verifrt.Reach("lookupd-failed-topic-still-delivers", q.fail == 1)
		verifrt.Reach("lookupd-knows-nothing", q.fail == 0 && len(q.names) == 0)
	} else {
		verifrt.Assert(t.Depth() == 0, "first-message-left-the-topic-queue")
		verifrt.Reach("a-two-channels-precreated", known == 2 && q.fail == 0)
		verifrt.Reach("partial-answer-precreated", q.fail == 2)
		verifrt.Reach("ephemeral-skipped-or-not", len(q.names) > known)
	}
	// a second GetTopic for the same name does not ask again and returns the same topic
	asked := q.asked
	verifrt.Assert(n.GetTopic("t0") == t && q.asked == asked, "existing-topic-is-returned-without-a-query")
	verifrt.Observe("known", known)
}
