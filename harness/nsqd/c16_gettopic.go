//go:build verif

package nsqd

import (
	"encoding/json"
	"errors"
	"io"
	"net"
	"net/http"
	"strings"
	"time"

	"github.com/nsqio/go-nsq"
	"github.com/nsqio/nsq/internal/clusterinfo"
	"github.com/nsqio/nsq/internal/http_api"
	"github.com/nsqio/nsq/internal/verifrt"
)

// ---------------------------------------------------------------------------------------------
// C16 part 5: channel pre-creation in NSQD.GetTopic (nsqd/nsqd.go; the lookupd query of
// internal/clusterinfo/data.go GetLookupdTopicChannels is the environment here).
//
// Statement: "A topic first created on an nsqd starts with every non-ephemeral channel its
// nsqlookupds already know for it, so those channels receive its very first message."
// Scenario: nsqd knows one or two lookupd HTTP addresses; the lookupds know any subset of
// {c0, c1, e#ephemeral} for topic t0, or fail (all fail / one of two fails). WHILE GetTopic is
// asking them, another producer publishes the topic's first message (the topic is already in
// the map then). Oracle: once GetTopic has returned and nsqd has come to rest, every
// non-ephemeral channel a reachable lookupd knew exists and holds exactly that first message;
// and whatever the lookupds did (error, empty answer) the topic is started: a channel created
// afterwards receives the message too ("No nsqlookupd behaviour ... stops it publishing and
// delivering").
// Symbolically only the HTTP GET (http_api.Client.GETV1) is a stub giving the chosen answer -
// the real GetLookupdTopicChannels runs above it; natively it is nsqd's real HTTP client
// talking to a loopback HTTP server that gives the same answer.
//
// Two more dimensions (both straight from the statement):
//   bystander  WHILE the query is outstanding the other client not only publishes but first
//              creates a channel of its own ("own": a consumer's SUB or /channel/create racing
//              the topic's creation). The lookupd is not instantaneous - natively its answer takes
//              verifSlowLookup after the publish, symbolically nsqd's goroutines may run at the
//              blocking points in between. "own" existed before the publish, the known channels
//              are owed the very first message by the statement: all of them hold it afterwards.
//   dropped    the TCP connection to the lookupd was lost and nsqd has noticed (a PING failed:
//              the write was reset / the lookupd had hung up, so lookupPeer.Command closed the
//              peer) but has not reconnected yet - the reconnect is lazy, it happens with the next
//              command. The lookupd itself is up and still answers on its HTTP port: it is one of
//              the topic's nsqlookupds and the channels it knows must be pre-created all the same.
//
// Native replay: the harness owns real goroutines (the loopback HTTP server) that the symbolic
// schedule does not know - a baton-scheduled replay parks them for good and the query times out
// (asked == 0) - so every replay of this harness lets the goroutines run freely (verifrt.FreeRun)
// and the window "publish while the lookup is outstanding" is held open by the slow answer.
// ---------------------------------------------------------------------------------------------

// verifSlowLookup: how long the native lookupd takes to answer after the bystander has published.
const verifSlowLookup = 40 * time.Millisecond

type verifTopicQuery struct {
	n        *NSQD
	names    []string // what the reachable lookupd(s) know
	fail     int      // 0 all answer, 1 all fail, 2 one of two fails (partial answer + error)
	asked    int
	firstMsg bool
	own      bool // the bystander creates channel "own" before it publishes
}

var verifTQ *verifTopicQuery

// publishFirst: another producer's PUB arrives while the query is in flight.
func (q *verifTopicQuery) publishFirst(topic string) {
	if q.firstMsg {
		return
	}
	q.firstMsg = true
	t := q.n.GetTopic(topic)
	if q.own {
		t.GetChannel("own") // a consumer's SUB / an operator's /channel/create
	}
	var id MessageID
	copy(id[:], "0123456789abcdef")
	t.PutMessage(NewMessage(id, []byte("first")))
}

// The HTTP GET of internal/http_api (net/http cannot be interpreted) is the environment: the
// REAL clusterinfo.GetLookupdTopicChannels runs on top of it - its fan-out goroutines, the
// union of the answers and its "all failed" / "some failed" distinction included. The answer
// body goes through the engine's encoding/json contract model (Marshal -> blob -> Unmarshal).
func verifTopicGETV1(c *http_api.Client, endpoint string, v interface{}) error {
	q := verifTQ
	q.asked++
	q.publishFirst("t0")
	if q.fail == 1 || (q.fail == 2 && strings.Contains(endpoint, "lookupd1")) {
		return errors.New("verif: connection refused")
	}
	body, err := json.Marshal(struct {
		Channels []string `json:"channels"`
	}{q.names})
	if err != nil {
		return err
	}
	return json.Unmarshal(body, v)
}

// native: a loopback HTTP lookupd
func (q *verifTopicQuery) serveHTTP(rw http.ResponseWriter, req *http.Request) {
	q.asked++
	q.publishFirst(req.URL.Query().Get("topic"))
	time.Sleep(verifSlowLookup) // the lookupd is not instantaneous
	if q.fail == 1 {
		rw.WriteHeader(500)
		rw.Write([]byte(`{"message":"INTERNAL_ERROR"}`))
		return
	}
	body := `{"channels":[`
	for i, nm := range q.names {
		if i > 0 {
			body += ","
		}
		body += `"` + nm + `"`
	}
	body += `]}`
	rw.Header().Set("Content-Type", "application/json")
	rw.Write([]byte(body))
}

func VerifC16_GetTopicPrecreatesChannels() { verifrt.Atomic(verifC16GetTopic) }

// verifDropConn: a connection the other side has dropped. kind 1: reset (RST) - every write and
// read fails; kind 2: the lookupd hung up (FIN) - writes are still swallowed, reads give EOF.
type verifDropConn struct {
	kind   int
	closed int
}

func (c *verifDropConn) Read(p []byte) (int, error) {
	if c.kind == 1 {
		return 0, errVerifReset
	}
	return 0, io.EOF
}
func (c *verifDropConn) Write(p []byte) (int, error) {
	if c.kind == 1 {
		return 0, errVerifReset
	}
	return len(p), nil
}
func (c *verifDropConn) Close() error                       { c.closed++; return nil }
func (c *verifDropConn) LocalAddr() net.Addr                { return verifAddr{} }
func (c *verifDropConn) RemoteAddr() net.Addr               { return verifAddr{} }
func (c *verifDropConn) SetDeadline(t time.Time) error      { return nil }
func (c *verifDropConn) SetReadDeadline(t time.Time) error  { return nil }
func (c *verifDropConn) SetWriteDeadline(t time.Time) error { return nil }

// what one run of the scenario shows
type verifTQObs struct {
	panicked   bool
	dropSeen   bool // (dropped != 0) the failed PING left the peer disconnected with its connection closed
	asked      int
	firstMsg   bool
	known      []string // non-ephemeral names a reachable lookupd knew
	exists     []bool
	depth      []int64
	own        bool
	ownDepth   int64 // depth of the bystander's own channel (-1: it does not exist)
	topicDepth int64
	lateDepth  int64 // depth of a channel created afterwards (only when the topic has no channel)
	topicAfter int64
	sameTopic  bool
	askedAgain bool
}

// ok: the oracle (see the header) as a predicate, so that a native replay can repeat the
// scenario: natively the pump goroutine races with GetTopic, and a counterexample found under
// the executor's schedule needs the same interleaving to show up.
func (o *verifTQObs) ok() bool {
	if o.panicked || !o.dropSeen || o.asked < 1 || !o.firstMsg || !o.sameTopic || o.askedAgain {
		return false
	}
	for i := range o.known {
		if !o.exists[i] || o.depth[i] != 1 {
			return false
		}
	}
	if o.own && o.ownDepth != 1 {
		return false
	}
	if len(o.known) == 0 && !o.own {
		return o.topicDepth == 1 && o.lateDepth == 1 && o.topicAfter == 0
	}
	return o.topicDepth == 0
}

func verifC16GetTopicRun(mask, order, fail int, own bool, dropped int) *verifTQObs {
	o := verifOpts()
	o.NSQLookupdTCPAddresses = []string{"lookupd0:4160"}
	n := verifShellNSQD(o)
	q := &verifTopicQuery{n: n, fail: fail, own: own}
	verifTQ = q
	pool := []string{"c0", "e#ephemeral", "c1"}
	for i, nm := range pool {
		if mask&(1<<uint(i)) != 0 {
			q.names = append(q.names, nm)
		}
	}
	if order == 1 { // lookupds answer in any order
		for i, j := 0, len(q.names)-1; i < j; i, j = i+1, j-1 {
			q.names[i], q.names[j] = q.names[j], q.names[i]
		}
	}
	// the lookupd(s) nsqd has learnt the HTTP address of
	peers := []*lookupPeer{{addr: "lookupd0:4160", Info: peerInfo{BroadcastAddress: "lookupd0", HTTPPort: 4161}}}
	if verifrt.Symbolic() {
		n.ci = clusterinfo.New(n.logf, &http_api.Client{})
	} else {
		l, err := net.Listen("tcp", "127.0.0.1:0")
		if err != nil {
			panic(err)
		}
		defer l.Close()
		go http.Serve(l, http.HandlerFunc(q.serveHTTP))
		peers[0].Info = peerInfo{BroadcastAddress: "127.0.0.1", HTTPPort: l.Addr().(*net.TCPAddr).Port}
		n.ci = clusterinfo.New(n.logf, http_api.NewClient(nil, time.Second, 2*time.Second))
	}
	if q.fail == 2 {
		// a second lookupd that is down (natively: a port nobody listens on)
		dead := &lookupPeer{addr: "lookupd1:4160", Info: peerInfo{BroadcastAddress: "lookupd1", HTTPPort: 4161}}
		if !verifrt.Symbolic() {
			l2, _ := net.Listen("tcp", "127.0.0.1:0")
			dead.Info = peerInfo{BroadcastAddress: "127.0.0.1", HTTPPort: l2.Addr().(*net.TCPAddr).Port}
			l2.Close()
		}
		peers = append(peers, dead)
	}
	n.lookupPeers.Store(peers)

	obs := &verifTQObs{own: own, dropSeen: true}
	if dropped != 0 {
		// the established connection to lookupd0 was dropped; nsqd's heartbeat PING runs into it
		// (the REAL lookupPeer.Command: it fails and closes the peer; the reconnect is left to the
		// next command, which has not come yet when the topic is created)
		lp := peers[0]
		dc := &verifDropConn{kind: dropped}
		lp.logf, lp.maxBodySize, lp.conn, lp.state = n.logf, 100, dc, stateConnected
		lp.connectCallback = func(*lookupPeer) {}
		var err error
		obs.panicked = verifrt.Panics(func() { _, err = lp.Command(nsq.Ping()) })
		if obs.panicked {
			return obs
		}
		obs.dropSeen = err != nil && lp.state == stateDisconnected && dc.closed > 0
	}
	var t *Topic
	obs.panicked = verifrt.Panics(func() { t = n.GetTopic("t0") })
	if obs.panicked || t == nil {
		obs.panicked = true
		return obs
	}
	verifrt.Rest()
	obs.asked, obs.firstMsg = q.asked, q.firstMsg
	for _, nm := range q.names {
		if strings.HasSuffix(nm, "#ephemeral") || q.fail == 1 {
			continue
		}
		obs.known = append(obs.known, nm)
		c, err := t.GetExistingChannel(nm)
		obs.exists = append(obs.exists, err == nil && c != nil)
		d := int64(-1)
		if err == nil && c != nil {
			d = c.Depth()
		}
		obs.depth = append(obs.depth, d)
	}
	obs.ownDepth = -1
	if c, err := t.GetExistingChannel("own"); err == nil && c != nil {
		obs.ownDepth = c.Depth()
	}
	obs.topicDepth = t.Depth()
	if len(obs.known) == 0 && !own {
		c := t.GetChannel("late")
		verifrt.Rest()
		obs.lateDepth, obs.topicAfter = c.Depth(), t.Depth()
	}
	obs.sameTopic = n.GetTopic("t0") == t
	obs.askedAgain = q.asked != obs.asked
	return obs
}

func verifC16GetTopic() {
	verifrt.FreeRun() // (native replay: see the header)
	verifrt.StubNative("(*github.com/nsqio/nsq/nsqd.NSQD).Notify", verifNotifyNop)
	verifrt.Stub("(*github.com/nsqio/nsq/internal/http_api.Client).GETV1", verifTopicGETV1)
	if verifrt.Symbolic() {
		verifrt.InitPackage("github.com/nsqio/go-nsq")
	}
	own := verifrt.Choice("bystander", 2) == 0 // 0: creates its own channel and publishes, 1: only publishes
	mask := verifrt.Choice("known", 8)
	order := verifrt.Choice("order", 2)
	fail := verifrt.Choice("lookupdFails", 3)
	// the state of nsqd's TCP connection to lookupd0: 0 established, 1 / 2 dropped and noticed
	// (reset / hung up), not yet re-established
	dropped := verifrt.Choice("connection", 3)
	// (a dropped connection matters where lookupd0's answer does: both lookupds answer; the order
	// of the names is immaterial to it)
	verifrt.Assume(dropped == 0 || (fail == 0 && order == 0))
	obs := verifC16GetTopicRun(mask, order, fail, own, dropped)
	// natively the outcome can depend on the Go scheduler (two pre-created channels: the pump may
	// or may not run between them): repeat a passing run a few times
	for i := 0; !verifrt.Symbolic() && obs.ok() && i < 6; i++ {
		obs = verifC16GetTopicRun(mask, order, fail, own, dropped)
	}
	verifrt.Assert(!obs.panicked, "lookupd-answer-never-panics-nsqd")
	if obs.panicked {
		return
	}
	verifrt.Assert(obs.dropSeen, "failed-ping-leaves-peer-disconnected-and-closed")
	verifrt.Assert(obs.asked >= 1 && obs.firstMsg, "new-topic-asks-its-lookupds")
	for i := range obs.known {
		verifrt.Assert(obs.exists[i], "known-channel-exists-on-the-new-topic")
		if obs.exists[i] {
			verifrt.Assert(obs.depth[i] == 1, "known-channel-receives-the-very-first-message")
		}
	}
	if own {
		verifrt.Assert(obs.ownDepth == 1, "channel-created-before-the-publish-receives-the-message")
	}
	known := len(obs.known)
	if known == 0 && !own {
		// nothing to pre-create (or the lookupds failed): the topic must be running all the same
		verifrt.Assert(obs.topicDepth == 1, "first-message-kept-until-a-channel-exists")
		verifrt.Assert(obs.lateDepth == 1 && obs.topicAfter == 0, "topic-started-despite-lookupd-failure")
		verifrt.Reach("lookupd-failed-topic-still-delivers", fail == 1)
		verifrt.Reach("lookupd-knows-nothing", fail == 0 && mask == 0)
	} else {
		verifrt.Assert(obs.topicDepth == 0, "first-message-left-the-topic-queue")
	}
	if known > 0 {
		verifrt.Reach("a-two-channels-precreated", known == 2 && fail == 0 && !own && dropped == 0)
		verifrt.Reach("partial-answer-precreated", fail == 2)
		verifrt.Reach("ephemeral-skipped-or-not", mask&2 != 0)
		verifrt.Reach("bystander-channel-and-precreated-channels-all-hold-the-first-message", own && known == 2)
		verifrt.Reach("precreated-although-the-lookupd-connection-was-reset", dropped == 1)
		verifrt.Reach("precreated-although-the-lookupd-had-hung-up", dropped == 2 && own)
	} else if own {
		verifrt.Reach("lookupd-failed-bystander-channel-still-served", fail == 1)
	}
	// a second GetTopic for the same name does not ask again and returns the same topic
	verifrt.Assert(obs.sameTopic && !obs.askedAgain, "existing-topic-is-returned-without-a-query")
	verifrt.Observe("known", known)
}
