//go:build verif

package nsqd

import (
	"bytes"
	"errors"
	"io"
	"net/http"
	"net/url"
	"strconv"
	"time"

	"github.com/nsqio/nsq/internal/http_api"
	"github.com/nsqio/nsq/internal/verifrt"
)

// verifBodyChunk > 0: the request body arrives in pieces of at most that many bytes per Read
var verifBodyChunk int

type verifBody struct {
	verifStream
	closed int
}

func (b *verifBody) Close() error { b.closed++; return nil }

func verifStatus(v interface{}, err error) int {
	if err == nil {
		return 200
	}
	if e, ok := err.(http_api.Err); ok {
		return e.Code
	}
	return -1
}

func verifReq(method, path, rawQuery string, body []byte, readErr bool, contentLength int64) *http.Request {
	b := &verifBody{}
	b.data = body
	if readErr {
		b.err = errors.New("verif: body read error")
	} else {
		b.err = io.EOF
	}
	// net/http semantics of a declared length: the handler sees exactly that many bytes, and an
	// upload that ends early (client went away) reads as io.ErrUnexpectedEOF
	if contentLength >= 0 {
		if int64(len(body)) > contentLength {
			b.data = body[:contentLength]
		} else if int64(len(body)) < contentLength && !readErr {
			b.err = io.ErrUnexpectedEOF
		}
	}
	b.chunk = verifBodyChunk
	return &http.Request{
		Method:        method,
		URL:           &url.URL{Path: path, RawQuery: rawQuery},
		Header:        http.Header{},
		Body:          b,
		ContentLength: contentLength,
	}
}

func (n *NSQD) DeleteExistingTopicCallbackVerif() func(*Topic) {
	return func(t *Topic) { n.DeleteExistingTopic(t.name) }
}

func verifHTTPServer(o *Options) (*httpServer, *NSQD) {
	n := verifShellNSQD(o)
	verifrt.StubNative("(*github.com/nsqio/nsq/nsqd.NSQD).Notify", verifNotifyNop)
	return &httpServer{nsqd: n}, n
}

// POST /pub: any body (declared or chunked length, optional read error), topic argument missing /
// invalid / valid, defer missing or any integer. Status is the documented one for some invalid
// aspect (400 argument, 413 size, 500 only after a body read error), 200 enqueues exactly the
// body once with exactly the requested delay - and the TCP PUB/DPUB of the same body under the
// same limits accepts exactly when HTTP does.
func VerifC10_Pub() { verifrt.Atomic(verifC10Pub) }

func verifC10Pub() {
	o := verifOpts()
	o.MaxMsgSize = 3
	o.MemQueueSize = 4
	s, n := verifHTTPServer(o)
	body := verifrt.Bytes("body", 5)
	readErr := verifrt.Bool("body-read-error")
	cl := int64(len(body))
	switch verifrt.Choice("content-length", 3) {
	case 1:
		cl = -1 // chunked
	case 2:
		cl = verifrt.Int64("declared")
		verifrt.Assume(cl >= 0 && cl <= 10)
	}
	q := ""
	topicCase := verifrt.Choice("topic-arg", 3) // missing, valid, arbitrary
	topic := "t"
	switch topicCase {
	case 1:
		q = "topic=t"
	case 2:
		topic = verifrt.String("topic", 2)
		for i := 0; i < len(topic); i++ {
			c := topic[i]
			verifrt.Assume(c != '&' && c != ';' && c != '=' && c != '%' && c != '+' && c != '#')
		}
		q = "topic=" + topic
	}
	var deferMs int64
	hasDefer := verifrt.Bool("has-defer")
	if hasDefer {
		deferMs = verifrt.Int64("deferMs")
		if verifrt.Symbolic() {
			verifrt.Stub("strconv.ParseInt", func(s string, base int, bits int) (int64, error) { return deferMs, nil })
			q += "&defer=0"
		} else {
			q += "&defer=" + strconv.FormatInt(deferMs, 10)
		}
	}
	malformed := verifrt.Choice("malformed-query", 2) == 1
	if malformed {
		q += "&note=100%zz" // not a valid percent escape: the whole request is invalid
	}
	req := verifReq("POST", "/pub", q, body, readErr, cl)
	status := verifStatus(s.doPUB(nil, req, nil))
	if cl >= 0 {
		if int64(len(body)) > cl {
			body = body[:cl] // what the handler can see
		} else if int64(len(body)) < cl {
			readErr = true // the upload ended early
		}
	}
	if malformed {
		_, terr := n.GetExistingTopic(topic)
		verifrt.Assert(status != 200 && terr != nil, "malformed-query-string-is-refused-and-creates-nothing")
		verifrt.Reach("malformed-query-refused-400", status == 400)
	}

	nameOK := topicCase != 0 && verifValidNameRef([]byte(topic))
	maxMs := int64(o.MaxReqTimeout / time.Millisecond)
	deferOK := !hasDefer || (deferMs >= 0 && deferMs <= maxMs)
	tooBig := cl > o.MaxMsgSize || int64(len(body)) > o.MaxMsgSize
	empty := len(body) == 0
	readFails := readErr && int64(len(body)) <= o.MaxMsgSize
	valid := nameOK && deferOK && !tooBig && !empty && !readFails && !malformed
	if valid {
		verifrt.Assert(status == 200, "valid-pub-is-200")
		t, _ := n.GetExistingTopic(topic)
		if t != nil && status == 200 {
			msgs := verifTopicMessages(t)
			verifrt.Assert(len(msgs) == 1 && bytes.Equal(msgs[0].Body, body), "pub-enqueues-exactly-the-body")
			if len(msgs) == 1 {
				want := time.Duration(0)
				if hasDefer {
					want = time.Duration(deferMs) * time.Millisecond
				}
				verifrt.Assert(msgs[0].deferred == want, "pub-delay-exact")
			}
		}
		verifrt.Reach("pub-accepted-deferred", hasDefer && deferMs > 0)
	} else {
		okCode := (status == 400 && (!nameOK || !deferOK || empty || malformed)) || (status == 413 && tooBig) || (status == 500 && readErr) || (status == 400 && readErr)
		verifrt.Assert(okCode, "pub-status-matches-an-invalid-aspect")
		verifrt.Assert(status != 500 || readErr, "no-500-without-a-read-error")
		verifrt.Assert(verifTopicCount(n, topic) == 0, "rejected-pub-enqueues-nothing")
		verifrt.Reach("too-big-chunked", tooBig && cl == -1)
		verifrt.Reach("defer-out-of-range", nameOK && !tooBig && !empty && !readErr && !deferOK)
	}
	// equivalence with TCP: same body bytes under the same limits
	if nameOK && !readErr && !malformed && (cl == int64(len(body)) || cl == -1) {
		n2 := verifShellNSQD(o)
		wire := append(verifBE32(uint32(len(body))), body...)
		c, _ := verifClient(n2, 9, wire)
		p := &protocolV2{nsqd: n2}
		var terr error
		if hasDefer && deferMs >= 0 {
			var digits []byte
			if verifrt.Symbolic() {
				verifrt.Stub("github.com/nsqio/nsq/internal/protocol.ByteToBase10", func(b []byte) (uint64, error) { return uint64(deferMs), nil })
				digits = []byte("0")
			} else {
				digits = strconv.AppendInt(nil, deferMs, 10)
			}
			_, terr = p.Exec(c, [][]byte{[]byte("DPUB"), []byte(topic), digits})
		} else if !hasDefer {
			_, terr = p.Exec(c, [][]byte{[]byte("PUB"), []byte(topic)})
		} else {
			return
		}
		verifrt.Assert((terr == nil) == (status == 200), "http-pub-accepts-exactly-when-tcp-does")
		verifrt.Reach("equivalence-checked-on-rejection", terr != nil)
	}
}

// POST /mpub text mode: messages are exactly the non-empty newline-separated records of the body,
// byte-exact (also \r, NUL ...), in order; a record above max-msg-size or a body above max-body-size
// (declared or chunked) is 413 and enqueues nothing.
func VerifC10_MpubText() { verifrt.Atomic(verifC10MpubText) }

func verifC10MpubText() {
	o := verifOpts()
	o.MaxMsgSize = 2
	o.MaxBodySize = 5
	o.MemQueueSize = 6
	s, n := verifHTTPServer(o)
	body := verifrt.Bytes("body", verifrt.Bound("body", 7, 8))
	cl := int64(len(body))
	if verifrt.Choice("chunked", 2) == 1 {
		cl = -1
	}
	// the body arrives whole or one byte per read (the handler must not keep slices of a buffer
	// that a later read reuses)
	verifBodyChunk = verifrt.Choice("body-segments", 2)
	req := verifReq("POST", "/mpub", "topic=t", body, false, cl)
	verifBodyChunk = 0
	status := verifStatus(s.doMPUB(nil, req, nil))
	// reference split
	var recs [][]byte
	start := 0
	tooLong := false
	for i := 0; i <= len(body); i++ {
		if i == len(body) || body[i] == '\n' {
			if i > start {
				recs = append(recs, body[start:i])
				if int64(i-start) > o.MaxMsgSize {
					tooLong = true
				}
			}
			start = i + 1
		}
	}
	bodyTooBig := int64(len(body)) > o.MaxBodySize
	if !bodyTooBig && !tooLong {
		verifrt.Assert(status == 200, "valid-text-mpub-is-200")
		t, _ := n.GetExistingTopic("t")
		msgs := verifTopicMessages(t)
		verifrt.Assert(len(msgs) == len(recs), "text-mpub-one-message-per-non-empty-record")
		if len(msgs) == len(recs) {
			for i := range recs {
				verifrt.Assert(bytes.Equal(msgs[i].Body, recs[i]), "text-mpub-record-byte-exact")
			}
		}
		verifrt.Reach("record-ending-in-cr", len(recs) > 0 && recs[len(recs)-1][len(recs[len(recs)-1])-1] == '\r')
		verifrt.Reach("three-records", len(recs) == 3)
	} else {
		verifrt.Assert(status == 413, "oversize-text-mpub-is-413")
		verifrt.Assert(verifTopicCount(n, "t") == 0, "rejected-mpub-enqueues-nothing")
		verifrt.Reach("chunked-body-too-big-with-newline", bodyTooBig && cl == -1 && len(recs) > 1)
	}
}

// POST /mpub?binary=true parses exactly what TCP MPUB parses: same bytes, same limits => both
// accept the same messages or both reject.
func VerifC10_MpubBinaryEquiv() { verifrt.Atomic(verifC10MpubBinary) }

func verifC10MpubBinary() {
	o := verifOpts()
	o.MaxMsgSize = 2
	o.MaxBodySize = 14
	o.MemQueueSize = 4
	s, n := verifHTTPServer(o)
	verifrt.AllocLimit(int(o.MaxBodySize))
	body := verifrt.Bytes("body", verifrt.Bound("body", 14, 16))
	req := verifReq("POST", "/mpub", "topic=t&binary=true", body, false, int64(len(body)))
	status := verifStatus(s.doMPUB(nil, req, nil))
	n2 := verifShellNSQD(o)
	wire := append(verifBE32(uint32(len(body))), body...)
	c, _ := verifClient(n2, 9, wire)
	_, terr := (&protocolV2{nsqd: n2}).Exec(c, [][]byte{[]byte("MPUB"), []byte("t")})
	declaredOK := len(body) >= 1 && int64(len(body)) <= o.MaxBodySize
	if declaredOK {
		verifrt.Assert((terr == nil) == (status == 200), "binary-mpub-accepts-exactly-when-tcp-does")
		if terr == nil && status == 200 {
			t1, _ := n.GetExistingTopic("t")
			t2, _ := n2.GetExistingTopic("t")
			a, b := verifTopicMessages(t1), verifTopicMessages(t2)
			verifrt.Assert(len(a) == len(b), "binary-mpub-same-message-count-as-tcp")
			if len(a) == len(b) {
				for i := range a {
					verifrt.Assert(bytes.Equal(a[i].Body, b[i].Body), "binary-mpub-same-bodies-as-tcp")
				}
			}
			verifrt.Reach("both-accept-two", len(a) == 2)
		}
		verifrt.Reach("both-reject", terr != nil && status != 200)
	}
	verifrt.Assert(status == 200 || status == 413 || status == 400, "binary-mpub-status-documented")
	if status != 200 {
		verifrt.Assert(verifTopicCount(n, "t") == 0, "rejected-binary-mpub-enqueues-nothing")
	}
}

// Admin endpoints: 400 for a missing/invalid argument, 404 for an unknown topic/channel, otherwise
// 200 and exactly the stated effect; pause/unpause persist the metadata before answering.
func VerifC10_AdminEndpoints() { verifrt.Atomic(verifC10Admin) }

func verifC10Admin() {
	o := verifOpts()
	s, n := verifHTTPServer(o)
	persisted := 0
	verifrt.Stub("(*github.com/nsqio/nsq/nsqd.NSQD).PersistMetadata", func(n *NSQD) error { persisted++; return nil })
	// the topic is registered but not started, so its pump delivers nothing during the request
	// names (and an unrelated extra argument) that contain the word the pause handlers look for
	// in the request: the action is decided by the PATH alone
	tn, cn, extra := "t", "c", ""
	if verifrt.Choice("names", 2) == 1 {
		tn, cn, extra = "unpause_t", "c.unpause", "&note=unpause"
	}
	t := NewTopic(tn, n, n.DeleteExistingTopicCallbackVerif())
	n.topicMap[tn] = t
	ch := t.GetChannel(cn)
	// both start paused or both running: pause and unpause each have something to change
	startPaused := verifrt.Bool("start-paused")
	if startPaused {
		t.paused, ch.paused = 1, 1
	}
	t.PutMessage(verifMsg("q", 1))
	ch.PutMessage(verifMsg("cq", 1))
	eps := []string{"/topic/create", "/topic/delete", "/topic/empty", "/topic/pause", "/topic/unpause",
		"/channel/create", "/channel/delete", "/channel/empty", "/channel/pause", "/channel/unpause"}
	ep := eps[verifrt.Choice("endpoint", len(eps))]
	topicArg := []string{"", "topic=" + tn, "topic=nope", "topic=b%24d"}[verifrt.Choice("topic", 4)]
	chanArg := []string{"", "&channel=" + cn, "&channel=nope", "&channel=b%24d"}[verifrt.Choice("channel", 4)]
	req := verifReq("POST", ep, topicArg+chanArg+extra, nil, false, 0)
	var v interface{}
	var err error
	switch ep {
	case "/topic/create":
		v, err = s.doCreateTopic(nil, req, nil)
	case "/topic/delete":
		v, err = s.doDeleteTopic(nil, req, nil)
	case "/topic/empty":
		v, err = s.doEmptyTopic(nil, req, nil)
	case "/topic/pause", "/topic/unpause":
		v, err = s.doPauseTopic(nil, req, nil)
	case "/channel/create":
		v, err = s.doCreateChannel(nil, req, nil)
	case "/channel/delete":
		v, err = s.doDeleteChannel(nil, req, nil)
	case "/channel/empty":
		v, err = s.doEmptyChannel(nil, req, nil)
	case "/channel/pause", "/channel/unpause":
		v, err = s.doPauseChannel(nil, req, nil)
	}
	status := verifStatus(v, err)
	if !verifrt.Symbolic() {
		// native replay: the real PersistMetadata ran; it counts if nsqd.dat is on disk
		if verifFileExists(newMetadataFile(n.getOpts())) {
			persisted = 1
		}
	}
	isChannel := ep[1] == 'c'
	topicMissing, topicBad, topicKnown := topicArg == "", topicArg == "topic=b%24d", topicArg == "topic="+tn
	chanMissing, chanBad, chanKnown := chanArg == "", chanArg == "&channel=b%24d", chanArg == "&channel="+cn
	verifrt.Assert(status != 500, "admin-endpoint-never-500")
	switch {
	case topicMissing:
		verifrt.Assert(status == 400, "missing-topic-is-400")
	case isChannel && chanMissing:
		verifrt.Assert(status == 400, "missing-channel-is-400")
	case topicBad && ep != "/topic/delete" && ep != "/topic/pause" && ep != "/topic/unpause":
		verifrt.Assert(status == 400, "invalid-topic-is-400")
	case isChannel && chanBad:
		verifrt.Assert(status == 400 || status == 404, "invalid-channel-is-400-or-404")
	case !topicKnown && ep != "/topic/create":
		verifrt.Assert(status == 404 || (topicBad && status == 400), "unknown-topic-is-404")
	case isChannel && !chanKnown && ep != "/channel/create":
		verifrt.Assert(status == 404, "unknown-channel-is-404")
	default:
		verifrt.Assert(status == 200, "valid-admin-request-is-200")
		_, terr := n.GetExistingTopic(tn)
		switch ep {
		case "/topic/delete":
			verifrt.Assert(terr != nil, "topic-deleted")
		case "/topic/empty":
			verifrt.Assert(t.Depth() == 0 && ch.Depth() == 1, "topic-empty-discards-topic-queue-only")
		case "/topic/pause":
			verifrt.Assert(t.IsPaused() && persisted == 1 && ch.IsPaused() == startPaused, "topic-paused-and-persisted")
		case "/topic/unpause":
			verifrt.Assert(!t.IsPaused() && persisted == 1 && ch.IsPaused() == startPaused, "topic-unpaused-and-persisted")
		case "/channel/delete":
			_, cerr := t.GetExistingChannel(cn)
			verifrt.Assert(cerr != nil && terr == nil, "channel-deleted-topic-kept")
		case "/channel/empty":
			verifrt.Assert(ch.Depth() == 0 && t.Depth() == 1, "channel-empty-discards-channel-queue-only")
		case "/channel/pause":
			verifrt.Assert(ch.IsPaused() && persisted == 1 && t.IsPaused() == startPaused, "channel-paused-and-persisted")
		case "/channel/unpause":
			verifrt.Assert(!ch.IsPaused() && persisted == 1 && t.IsPaused() == startPaused, "channel-unpaused-and-persisted")
		case "/channel/create":
			_, cerr := t.GetExistingChannel(chanArg[len("&channel="):])
			verifrt.Assert(cerr == nil, "channel-created")
		}
		verifrt.Reach("admin-ok", true)
	}
	if status != 200 {
		verifrt.Assert(t.Depth() == 1 && ch.Depth() == 1 && t.IsPaused() == startPaused && ch.IsPaused() == startPaused && persisted == 0, "refused-admin-request-changes-nothing")
	}
}

// The `binary` argument of /mpub selects the mode by its VALUE: true / 1 = length-prefixed binary
// batch, false / 0 (or no argument) = newline-separated text. A text body sent with binary=false
// is split into its lines; the same bytes sent with binary=true are parsed as a binary batch.
func VerifC10_MpubBinaryArgument() { verifrt.Atomic(verifC10MpubBinaryArg) }

func verifC10MpubBinaryArg() {
	o := verifOpts()
	o.MaxMsgSize = 4
	o.MaxBodySize = 32
	o.MemQueueSize = 6
	s, n := verifHTTPServer(o)
	arg := []string{"", "&binary=false", "&binary=0", "&binary=true", "&binary=1"}[verifrt.Choice("binary-arg", 5)]
	binary := arg == "&binary=true" || arg == "&binary=1"
	c := verifrt.Byte("c")
	verifrt.Assume(c != '\n')
	var body []byte
	if binary {
		body = append(verifBE32(2), append(verifBE32(1), c)...)
		body = append(body, append(verifBE32(1), 'z')...)
	} else {
		body = []byte{c, '\n', 'z'}
	}
	req := verifReq("POST", "/mpub", "topic=t"+arg, body, false, int64(len(body)))
	status := verifStatus(s.doMPUB(nil, req, nil))
	verifrt.Assert(status == 200, "mpub-in-the-requested-mode-is-accepted")
	t, _ := n.GetExistingTopic("t")
	if t != nil {
		msgs := verifTopicMessages(t)
		verifrt.Assert(len(msgs) == 2, "mpub-mode-follows-the-value-of-the-binary-argument")
		if len(msgs) == 2 {
			verifrt.Assert(len(msgs[0].Body) == 1 && msgs[0].Body[0] == c && string(msgs[1].Body) == "z", "mpub-bodies-exact-in-the-requested-mode")
		}
	}
	verifrt.Reach("explicit-text-mode", arg == "&binary=false")
	verifrt.Reach("binary-mode", binary)
}
