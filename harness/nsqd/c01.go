//go:build verif

package nsqd

import (
	"bytes"

	"github.com/nsqio/nsq/internal/verifrt"
)

// C01 is decided compositionally (DESIGN.md section 5): an acknowledged publish is in the topic
// queue (PublishAck); the topic pump hands every queued message to every channel of the topic
// (TopicPumpFanOut, ChannelCreatedBeforeNextMessage); on a channel a message stays in exactly one
// of {queue, in flight, deferred} until an accepted FIN: answers (AnswerStep), timeout/deferred
// scans - also for consumers that have gone away (ScanStep) - and the delivery pump registers it
// in flight before writing it (PumpIteration).

func VerifC01_PublishAck()   { verifrt.Atomic(verifC09PubFraming) }
func VerifC01_MpubAck()      { verifrt.Atomic(verifC09Mpub) }
func VerifC01_HTTPPubAck()   { verifrt.Atomic(verifC10Pub) }
func VerifC01_HTTPMpubAck()  { verifrt.Atomic(verifC10MpubText) }
func VerifC01_AnswerVsScan() { verifAnswerVsScan() }
func VerifC01_AnswerStep()   { verifrt.Atomic(func() { verifAnswerStep(-1) }) }
func VerifC01_ScanStep()     { verifrt.Atomic(verifScanStep) }
func VerifC01_PumpIteration() {
	verifrt.Atomic(func() { verifPumpIteration() })
}

// The real topic pump goroutine: every message published to a started topic reaches EVERY channel
// that existed when it was published - the original object on one channel, a distinct copy with the
// same id, body, timestamp and delay on the others - immediate ones on the channel queue, delayed
// ones in the channel's deferred set; nothing stays behind in the topic.
func VerifC01_TopicPumpFanOut() { verifTopicPumpFanOut() }

func verifTopicPumpFanOut() {
	o := verifOpts()
	o.MemQueueSize = 2
	n := verifShellNSQD(o)
	verifrt.StubNative("(*github.com/nsqio/nsq/nsqd.NSQD).Notify", verifNotifyNop)
	verifrt.Preemptions(1)
	var t *Topic
	var chans []*Channel
	// three channels: the first gets the original object, every further one its own copy
	nCh := verifrt.Choice("channels", 3) + 1
	verifrt.Atomic(func() {
		t = NewTopic("t", n, func(*Topic) {})
		for i := 0; i < nCh; i++ {
			chans = append(chans, t.GetChannel([]string{"a", "b", "c"}[i]))
		}
		t.Start()
	})
	m := verifMsg("m", 2)
	delayed := verifrt.Bool("delayed")
	if delayed {
		m.deferred = 5000000
	}
	verifrt.Assert(t.PutMessage(m) == nil, "publish-acknowledged")
	verifrt.Join()
	verifrt.Assert(t.Depth() == 0, "topic-queue-drained-by-pump")
	var seen []*Message
	for _, c := range chans {
		var got *Message
		if delayed {
			verifrt.Assert(len(c.deferredMessages) == 1 && c.Depth() == 0, "delayed-message-deferred-on-every-channel")
			if item, ok := c.deferredMessages[m.ID]; ok {
				got = item.Value.(*Message)
			}
		} else {
			verifrt.Assert(c.Depth() == 1 && len(c.deferredMessages) == 0, "message-queued-on-every-channel")
			if len(c.memoryMsgChan) == 1 {
				got = <-c.memoryMsgChan
				c.memoryMsgChan <- got
			}
		}
		verifrt.Assert(got != nil, "every-channel-received-the-message")
		if got != nil {
			verifrt.Assert(got.ID == m.ID && bytes.Equal(got.Body, m.Body) && got.Timestamp == m.Timestamp && got.deferred == m.deferred, "channel-copy-identical-id-body-timestamp-delay")
			for _, s := range seen {
				verifrt.Assert(s != got, "each-channel-owns-its-own-message-object")
			}
			seen = append(seen, got)
		}
		verifrt.Assert(c.messageCount == 1, "channel-counts-the-message")
	}
	verifrt.Reach("two-channels-delayed", nCh == 2 && delayed)
	verifrt.Reach("two-channels-immediate", nCh == 2 && !delayed)
	verifrt.Reach("three-channels", nCh == 3)
}

// A channel created on a running topic receives every message published after its creation
// returned (GetChannel hands the new channel to the pump before it returns).
func VerifC01_ChannelCreatedBeforeNextMessage() {
	o := verifOpts()
	o.MemQueueSize = 2
	n := verifShellNSQD(o)
	verifrt.StubNative("(*github.com/nsqio/nsq/nsqd.NSQD).Notify", verifNotifyNop)
	verifrt.Preemptions(1)
	var t *Topic
	var a *Channel
	verifrt.Atomic(func() {
		t = NewTopic("t", n, func(*Topic) {})
		a = t.GetChannel("a")
		t.Start()
	})
	m1 := verifMsg("m1", 1)
	t.PutMessage(m1)
	b := t.GetChannel("b")
	m2 := verifMsg("m2", 1)
	verifrt.Assume(m1.ID != m2.ID)
	verifrt.Assert(t.PutMessage(m2) == nil, "publish-acknowledged")
	verifrt.Join()
	verifrt.Assert(a.Depth() == 2, "existing-channel-gets-both")
	found := false
	k := len(b.memoryMsgChan)
	for i := 0; i < k; i++ {
		x := <-b.memoryMsgChan
		if x.ID == m2.ID {
			found = true
		}
		b.memoryMsgChan <- x
	}
	verifrt.Assert(found, "new-channel-gets-message-published-after-its-creation")
	verifrt.Reach("new-channel-also-got-earlier-message", k == 2)
	verifrt.Reach("new-channel-missed-earlier-message", k == 1)
}

// A message of ANY legal size (1..max-msg-size bytes) that does not fit the memory queue goes to
// the disk queue of the topic / of the channel and is accepted there: both queues are opened with
// record limits that admit the largest legal message plus its 26-byte header (a refused record is
// only logged - the acknowledged message would be gone). mem-queue-size 0: everything overflows.
func VerifC01_MaxSizeMessageOverflow() { verifrt.Atomic(verifMaxSizeOverflow) }

func verifMaxSizeOverflow() {
	o := verifOpts()
	o.MemQueueSize = 0
	o.MaxMsgSize = int64(verifrt.Bound("max-msg-size", 3, 6))
	n := verifShellNSQD(o)
	verifrt.StubNative("(*github.com/nsqio/nsq/nsqd.NSQD).Notify", verifNotifyNop)
	t := NewTopic("t", n, func(*Topic) {})
	c := NewChannel("t", "c", n, nil)
	body := verifrt.Bytes("body", int(o.MaxMsgSize))
	verifrt.Assume(len(body) >= 1)
	m := NewMessage(t.GenerateID(), body)
	onTopic := verifrt.Choice("queue", 2) == 0
	if onTopic {
		verifrt.Assert(t.PutMessage(m) == nil, "max-size-message-accepted-by-topic-disk-queue")
		verifrt.Assert(t.Depth() == 1, "overflowed-message-is-in-the-topic-disk-queue")
	} else {
		verifrt.Assert(c.PutMessage(m) == nil, "max-size-message-accepted-by-channel-disk-queue")
		verifrt.Assert(c.Depth() == 1, "overflowed-message-is-in-the-channel-disk-queue")
	}
	verifrt.Reach("largest-legal-body-on-topic", onTopic && len(body) == int(o.MaxMsgSize))
	verifrt.Reach("largest-legal-body-on-channel", !onTopic && len(body) == int(o.MaxMsgSize))
	if !verifrt.Symbolic() {
		t.Close()
		c.Close()
	}
}

// The real delivery pump (shared with C03) also with a disk-backed channel (mem-queue-size 0): a
// message that sits in the channel's disk queue is delivered when the consumer is ready - also
// after the consumer went through a not-ready phase - and a timed-out message is delivered again.
func VerifC01_PumpHistoryDelivers() { verifPumpHistory() }

// (shared with C04) messages of a channel created after another was deleted are still redelivered:
// the queue scanner picks the new channel up at its next refresh.
func VerifC01_QueueScanFollowsChannelChurn() { VerifC04_QueueScanFollowsChannelChurn() }

// A publisher racing another first user of a new topic (a second publisher, a SUB) must end up on
// the ONE Topic object the topic map holds - see verifRacingGetTopic (c12.go).
func VerifC01_RacingTopicCreationYieldsOneTopic() { verifRacingGetTopic() }
