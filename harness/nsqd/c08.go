//go:build verif

package nsqd

import (
	"bufio"
	"time"

	"github.com/nsqio/nsq/internal/verifrt"
)

// Empty from any valid state: everything queued, in flight and deferred at that moment is
// discarded, the backend is emptied, subscriptions are kept and every consumer's in-flight
// count is zero. Delete additionally closes the consumers and deletes the backend.
func VerifC08_EmptyAndDeleteStep() { verifrt.Atomic(verifC08Step) }

type verifConsumer struct {
	closed, emptied, paused, timedOut int
}

func (v *verifConsumer) UnPause()                 {}
func (v *verifConsumer) Pause()                   { v.paused++ }
func (v *verifConsumer) Close() error             { v.closed++; return nil }
func (v *verifConsumer) TimedOutMessage()         { v.timedOut++ }
func (v *verifConsumer) Stats(string) ClientStats { return nil }
func (v *verifConsumer) Empty()                   { v.emptied++ }

func verifC08Step() {
	o := verifOpts()
	o.MemQueueSize = 3
	st := verifNewChan(o, "ch")
	cl := st.addClient(1)
	extra := &verifConsumer{}
	st.c.AddClient(2, extra)
	st.populate(verifrt.Choice("nF", 3), verifrt.Choice("nD", 2), verifrt.Choice("nM", 2), verifrt.Choice("nB", 2), 2)
	total := len(st.all())
	del := verifrt.Choice("delete", 2) == 1
	var err error
	if del {
		err = st.c.Delete()
	} else {
		err = st.c.Empty()
	}
	verifrt.Assert(err == nil, "empty-or-delete-succeeds")
	st.assertInvariants("post")
	verifrt.Assert(len(st.c.inFlightMessages) == 0 && len(st.c.inFlightPQ) == 0, "in-flight-discarded")
	verifrt.Assert(len(st.c.deferredMessages) == 0 && len(st.c.deferredPQ) == 0, "deferred-discarded")
	verifrt.Assert(len(st.c.memoryMsgChan) == 0 && len(st.be.items) == 0 && st.c.Depth() == 0, "queue-discarded")
	verifrt.Assert(st.be.emptied >= 1, "backend-emptied")
	verifrt.Assert(cl.InFlightCount == 0 && extra.emptied == 1, "consumer-in-flight-counts-zeroed")
	verifrt.Assert(len(st.c.clients) == 2, "subscriptions-kept-in-client-list")
	if del {
		verifrt.Assert(extra.closed == 1 && st.conns[0].closed >= 1, "delete-disconnects-consumers")
		verifrt.Assert(st.be.deleted == 1, "delete-removes-backend")
		verifrt.Assert(st.c.Exiting(), "deleted-channel-is-exiting")
		verifrt.Assert(st.c.PutMessage(verifMsg("late", 1)) != nil, "deleted-channel-refuses-publish")
		verifrt.Reach("deleted-with-backlog", total > 1)
	} else {
		verifrt.Assert(extra.closed == 0 && st.conns[0].closed == 0, "empty-keeps-consumers-connected")
		verifrt.Assert(st.c.PutMessage(verifMsg("next", 1)) == nil && st.c.Depth() == 1, "emptied-channel-keeps-working")
		verifrt.Reach("emptied-with-backlog", total > 1)
	}
}

// Ephemeral channel: created without disk backend, never written to disk, and removed through its
// delete callback exactly once when the last consumer leaves.
func VerifC08_Ephemeral() {
	verifrt.Atomic(func() {
		o := verifOpts()
		o.MemQueueSize = 1
		n := verifShellNSQD(o)
		verifrt.StubNative("(*github.com/nsqio/nsq/nsqd.NSQD).Notify", verifNotifyNop)
		calls := 0
		c := NewChannel("t", "ch#ephemeral", n, func(*Channel) { calls++ })
		_, isDummy := c.backend.(*dummyBackendQueue)
		verifrt.Assert(c.ephemeral && isDummy, "ephemeral-channel-has-no-disk-backend")
		a, b := &verifConsumer{}, &verifConsumer{}
		c.AddClient(1, a)
		c.AddClient(2, b)
		c.PutMessage(verifMsg("m0", 1))
		c.PutMessage(verifMsg("m1", 1)) // overflows the memory queue: dropped, never on disk
		verifrt.Assert(c.Depth() == 1, "ephemeral-overflow-is-dropped-not-stored")
		c.RemoveClient(1)
		verifrt.Join()
		verifrt.Assert(calls == 0, "ephemeral-channel-stays-while-a-consumer-remains")
		c.RemoveClient(2)
		c.RemoveClient(2)
		verifrt.Join()
		verifrt.Assert(calls == 1, "ephemeral-channel-deleted-exactly-once-when-last-consumer-leaves")
		verifrt.Reach("ephemeral-done", true)
	})
}

// Empty racing one consumer answer / scan (two threads, every interleaving within the preemption
// bound), from any valid state. At quiescence: no crash, no deadlock, structures consistent, and -
// since Empty discards everything present and both serial orders end empty - nothing remains and no
// counter is off.
func VerifC08_EmptyVsAnswer() {
	o := verifOpts()
	o.MemQueueSize = 3
	var st *verifChan
	var cl *clientV2
	var target *Message
	op := verifrt.Choice("op", 5)
	verifrt.Atomic(func() {
		verifConcreteIDs, verifIDSeq = true, 0
		st = verifNewChan(o, "ch")
		cl = st.addClient(1)
		st.populate(verifrt.Choice("nF", 2)+1, 0, 0, 0, 1)
		target = st.inFlight[0]
	})
	p := &protocolV2{nsqd: st.n}
	id := target.ID
	names := []string{"FIN", "REQ0", "REQd", "TOUCH", "SCAN"}
	tag := names[op]
	verifrt.Go("answer", func() {
		switch op {
		case 0:
			p.FIN(cl, [][]byte{[]byte("FIN"), id[:]})
		case 1:
			p.REQ(cl, [][]byte{[]byte("REQ"), id[:], []byte("0")})
		case 2:
			p.REQ(cl, [][]byte{[]byte("REQ"), id[:], []byte("5")})
		case 3:
			p.TOUCH(cl, [][]byte{[]byte("TOUCH"), id[:]})
		case 4:
			st.c.processInFlightQueue(int64(3500000000000000000))
		}
	})
	verifrt.Go("empty", func() { st.c.Empty() })
	verifrt.Join()
	st.assertInvariants(tag + ":quiescent")
	verifrt.Assert(len(st.c.inFlightMessages) == 0 && len(st.c.inFlightPQ) == 0, tag+":nothing-in-flight-after-empty")
	verifrt.Assert(len(st.c.deferredMessages) == 0, tag+":nothing-deferred-after-empty")
	verifrt.Assert(st.c.Depth() == 0, tag+":nothing-queued-after-empty")
	verifrt.Assert(cl.InFlightCount == 0, tag+":consumer-in-flight-count-zero-after-empty")
	verifrt.Reach("raced:"+tag, true)
	_ = time.Second
}

// Emptying a channel keeps the subscriptions working: with the REAL delivery pump, a consumer
// that sat at its RDY limit when the channel was emptied has nothing outstanding afterwards and
// is served again (the pump is woken), under every short history of consumer events that contains
// the Empty (shared with C03).
func VerifC08_EmptyKeepsSubscriptionsServed() { verifPumpHistory() }

// Answers racing the timeout scan (shared with C02): no finished or discarded message is put
// back, counters stay exact.
func VerifC08_AnswerVsScan() { verifAnswerVsScan() }

// A consumer that goes away - with or without a CLS first - leaves its channel: the real command
// loop (IOLoop with its delivery pump) reads SUB [CLS] and then the end of the connection. The
// channel no longer lists the consumer, and an ephemeral channel (and then its ephemeral topic)
// disappears.
func VerifC08_DisconnectRemovesTheConsumer() {
	o := verifOpts()
	n := verifShellNSQD(o)
	verifrt.StubNative("(*github.com/nsqio/nsq/nsqd.NSQD).Notify", verifNotifyNop)
	verifrt.Preemptions(0)
	if verifrt.Symbolic() {
		verifTickC = make(chan time.Time)
		verifrt.Stub("time.NewTicker", verifNewTickerStub)
		verifrt.Stub("(*time.Ticker).Stop", verifTickerStopStub)
	}
	ephemeral := verifrt.Choice("ephemeral", 2) == 1
	withCLS := verifrt.Choice("cls-before-disconnect", 2) == 1
	topicName, chanName := "t", "c"
	if ephemeral {
		topicName, chanName = "t#ephemeral", "c#ephemeral"
	}
	wire := []byte("SUB " + topicName + " " + chanName + "\n")
	if withCLS {
		wire = append(wire, []byte("CLS\n")...)
	}
	cl, conn := verifClient(n, 1, wire)
	conn.in.err = errEOFVerif
	cl.Reader = bufio.NewReaderSize(conn, 64)
	p := &protocolV2{nsqd: n}
	err := p.IOLoop(cl)
	verifrt.Rest()
	verifrt.Assert(err == nil, "clean-disconnect")
	ch := cl.Channel
	verifrt.Assert(ch != nil, "sub-attached-the-consumer")
	if ch != nil {
		_, still := ch.clients[cl.ID]
		verifrt.Assert(!still || ch.Exiting(), "disconnected-consumer-is-no-longer-on-the-channel")
	}
	t := n.topicMap[topicName]
	if ephemeral {
		verifrt.Assert(t == nil || len(t.channelMap) == 0, "ephemeral-channel-disappears-with-its-last-consumer")
		verifrt.Assert(t == nil, "ephemeral-topic-disappears-with-its-last-channel")
	} else {
		verifrt.Assert(t != nil && t.channelMap[chanName] != nil, "durable-channel-stays")
	}
	verifrt.Reach("left-after-cls", withCLS && ephemeral)
}
