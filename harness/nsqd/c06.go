//go:build verif

package nsqd

import (
	"encoding/json"
	"errors"
	"io/fs"
	"os"
	"strings"

	"github.com/nsqio/nsq/internal/dirlock"
	"github.com/nsqio/nsq/internal/verifrt"
)

// ---- disk model (symbolic runs): paths -> content + durable prefix; effects are counted so that a
// crash point and a fault position can be chosen; natively the verifrt OS wrappers do the same on
// real files (DESIGN.md appendix E) ----

type vFileC06 struct {
	data    []byte
	durable int
}

type vDiskC06 struct {
	files    map[string]*vFileC06
	handles  map[*os.File]string
	effects  int
	crashAt  int
	faultAt  int
	crashed  bool
	staleTmp bool // a stale, longer temp file from an earlier kill may sit at the temp name
}

type vCrashC06 struct{}

func (d *vDiskC06) effect() error {
	k := d.effects
	d.effects++
	if k == d.crashAt {
		d.crashed = true
		panic(vCrashC06{})
	}
	if k == d.faultAt {
		return errors.New("verif: injected disk fault")
	}
	return nil
}

func (d *vDiskC06) install() {
	verifrt.Stub("os.OpenFile", func(name string, flag int, perm os.FileMode) (*os.File, error) {
		if err := d.effect(); err != nil {
			return nil, err
		}
		f := d.files[name]
		if f == nil && d.staleTmp && strings.HasSuffix(name, ".tmp") {
			f = &vFileC06{data: []byte("STALE-LONGER-DOCUMENT-FROM-AN-EARLIER-KILL"), durable: 42}
			d.files[name] = f
		}
		if f == nil {
			if flag&os.O_CREATE == 0 {
				return nil, fs.ErrNotExist
			}
			f = &vFileC06{}
			d.files[name] = f
		} else if flag&os.O_EXCL != 0 {
			return nil, fs.ErrExist
		}
		if flag&os.O_TRUNC != 0 {
			f.data, f.durable = nil, 0
		}
		h := new(os.File)
		d.handles[h] = name
		return h, nil
	})
	verifrt.Stub("(*os.File).Write", func(h *os.File, b []byte) (int, error) {
		if err := d.effect(); err != nil {
			return 0, err
		}
		f := d.files[d.handles[h]]
		// written from offset 0 of a freshly opened file: overwrite, keep any longer old tail
		pos := 0
		nd := append([]byte{}, b...)
		if len(f.data) > pos+len(b) {
			nd = append(nd, f.data[pos+len(b):]...)
		}
		f.data = nd
		if f.durable > 0 {
			f.durable = 0 // overwritten region no longer known durable
		}
		return len(b), nil
	})
	verifrt.Stub("(*os.File).Sync", func(h *os.File) error {
		if err := d.effect(); err != nil {
			return err
		}
		f := d.files[d.handles[h]]
		f.durable = len(f.data)
		return nil
	})
	verifrt.Stub("(*os.File).Close", func(h *os.File) error { return nil })
	verifrt.Stub("os.Rename", func(a, b string) error {
		if err := d.effect(); err != nil {
			return err
		}
		f := d.files[a]
		if f == nil {
			return fs.ErrNotExist
		}
		d.files[b] = f
		delete(d.files, a)
		return nil
	})
	verifrt.Stub("os.Remove", func(name string) error {
		if err := d.effect(); err != nil {
			return err
		}
		if d.files[name] == nil {
			return &fs.PathError{Op: "remove", Path: name, Err: fs.ErrNotExist}
		}
		delete(d.files, name) // an unlink is durable at once in this model (like rename)
		return nil
	})
	verifrt.Stub("os.ReadFile", func(name string) ([]byte, error) {
		f := d.files[name]
		if f == nil {
			return nil, fs.ErrNotExist
		}
		return append([]byte{}, f.data...), nil
	})
}

// afterCrash: what a restart finds: names as they are, each file cut to its durable prefix plus an
// arbitrary part of its unsynced tail.
func (d *vDiskC06) afterCrash() {
	for _, f := range d.files {
		if f.durable < len(f.data) {
			keep := verifrt.Choice("disk:torn-tail", len(f.data)-f.durable+1)
			f.data = f.data[:f.durable+keep]
		}
	}
}

func verifC06TopicSet(n *NSQD) string {
	s := ""
	for _, name := range []string{"a", "b", "c"} {
		if t, err := n.GetExistingTopic(name); err == nil {
			s += name
			if t.IsPaused() {
				s += "!"
			}
			s += ","
		}
	}
	return s
}

// Kill -9 at EVERY point of PersistMetadata's write protocol (and a failing disk operation at every
// point): the metadata file a restart finds is absent or a complete loadable document, and what it
// describes is the old or the new topic set; a failed write or fsync never replaces the old file.
func VerifC06_PersistCrashPoints() { verifrt.Atomic(verifC06Persist) }

func verifC06Persist() {
	verifrt.StubNative("(*github.com/nsqio/nsq/nsqd.NSQD).Notify", verifNotifyNop)
	o := verifOpts()
	n := verifShellNSQD(o)
	fn := newMetadataFile(o)
	// old state on disk: absent, or topic "a" (complete, durable)
	nOld := verifShellNSQD(o)
	hasOld := verifrt.Choice("disk:old-file", 2) == 1
	oldSet := ""
	var oldBlob []byte
	if hasOld {
		nOld.GetTopic("a")
		oldBlob, _ = json.Marshal(nOld.GetMetadata(false))
		oldSet = verifC06TopicSet(nOld)
	}
	// new state in memory: topics b (paused or not) and maybe c
	tb := n.GetTopic("b")
	if verifrt.Choice("b-paused", 2) == 1 {
		tb.paused = 1
	}
	if verifrt.Choice("has-c", 2) == 1 {
		n.GetTopic("c")
	}
	newSet := verifC06TopicSet(n)
	mode := verifrt.Choice("disk:mode", 3) // 0 crash, 1 fault, 2 clean run
	point := verifrt.Choice("disk:point", 6)
	stale := verifrt.Choice("disk:stale-temp-file", 2) == 1
	crashAt, faultAt := -1, -1
	if mode == 0 {
		crashAt = point
	} else if mode == 1 {
		faultAt = point
	}
	var d *vDiskC06
	if verifrt.Symbolic() {
		d = &vDiskC06{files: map[string]*vFileC06{}, handles: map[*os.File]string{}, crashAt: crashAt, faultAt: faultAt, staleTmp: stale}
		if hasOld {
			d.files[fn] = &vFileC06{data: oldBlob, durable: len(oldBlob)}
		}
		d.install()
	} else {
		if hasOld {
			osWriteFile(fn, oldBlob)
		}
		if stale {
			// a stale temp file can only collide with a predictable temp name
			osWriteFile(fn+".tmp", []byte("STALE-LONGER-DOCUMENT-FROM-AN-EARLIER-KILL-----------------------------------------------------------------------------------------------------"))
		}
		verifrt.NativeDisk(crashAt, faultAt)
	}
	var err error
	crashed := false
	func() {
		defer func() {
			if r := recover(); r != nil {
				if _, ok := r.(vCrashC06); ok {
					crashed = true
					return
				}
				if _, ok := r.(verifrt.DiskCrash); ok {
					crashed = true
					return
				}
				panic(r)
			}
		}()
		err = n.PersistMetadata()
	}()
	if crashed {
		if verifrt.Symbolic() {
			d.afterCrash()
		} else {
			verifrt.DiskTear(fn, int64(verifrt.Choice("disk:torn-tail", 1)))
		}
	}
	if !verifrt.Symbolic() {
		verifrt.NativeDisk(-1, -1)
	}
	// restart on that data path
	n2 := verifShellNSQD(o)
	lerr := n2.LoadMetadata()
	verifrt.Assert(lerr == nil, "metadata-file-is-absent-or-a-complete-loadable-document")
	got := verifC06TopicSet(n2)
	switch {
	case crashed:
		verifrt.Assert(got == oldSet || got == newSet, "after-kill-the-state-is-the-old-or-the-new-one")
		verifrt.Reach("killed-before-rename", got == oldSet && hasOld && point == 3)
	case err != nil:
		verifrt.Assert(got == oldSet, "failed-persist-leaves-the-old-document")
		verifrt.Reach("persist-failed", true)
	default:
		verifrt.Assert(got == newSet, "completed-persist-is-what-a-restart-loads")
		verifrt.Reach("persist-completed", mode == 2)
	}
}

// Tolerant load: no file is a fresh start; invalid topic / channel names in the document are
// skipped; an unparsable document is an error (the daemon refuses to start on it).
func VerifC06_LoadTolerant() { verifrt.Atomic(verifC06Load) }

func verifC06Load() {
	verifrt.StubNative("(*github.com/nsqio/nsq/nsqd.NSQD).Notify", verifNotifyNop)
	o := verifOpts()
	n := verifShellNSQD(o)
	kind := verifrt.Choice("file", 3)
	var doc []byte
	switch kind {
	case 1:
		m := Metadata{Version: "x", Topics: []TopicMetadata{
			{Name: "ok", Channels: []ChannelMetadata{{Name: "c"}, {Name: "bad name"}}},
			{Name: "bad$topic"},
		}}
		doc, _ = json.Marshal(m)
	case 2:
		doc = verifrt.Bytes("garbage", 3)
	}
	if verifrt.Symbolic() {
		verifrt.Stub("github.com/nsqio/nsq/nsqd.readOrEmpty", func(fn string) ([]byte, error) { return doc, nil })
	} else if kind != 0 {
		osWriteFile(newMetadataFile(o), doc)
	}
	err := n.LoadMetadata()
	switch kind {
	case 0:
		verifrt.Assert(err == nil && len(n.topicMap) == 0, "missing-file-is-a-fresh-start")
	case 1:
		verifrt.Assert(err == nil, "document-with-invalid-names-loads")
		_, e1 := n.GetExistingTopic("ok")
		_, e2 := n.GetExistingTopic("bad$topic")
		verifrt.Assert(e1 == nil && e2 != nil && len(n.topicMap) == 1, "invalid-topic-name-skipped")
		if e1 == nil {
			t, _ := n.GetExistingTopic("ok")
			_, c1 := t.GetExistingChannel("c")
			verifrt.Assert(c1 == nil && len(t.channelMap) == 1, "invalid-channel-name-skipped")
		}
		verifrt.Reach("skipped-invalid", true)
	case 2:
		if len(doc) > 0 {
			verifrt.Reach("unparsable-refused", err != nil)
		}
	}
}

// Pause / unpause over HTTP persist the metadata before answering (shares the C10 harness).
func VerifC06_PausePersistsBeforeAnswer() { verifrt.Atomic(verifC10Admin) }

// Delete / create against the asynchronous persist (Notify goroutine + lookup loop receiver): when
// everything is at rest, the persisted document describes exactly the live topics and channels.
func VerifC06_DeleteIsPersisted() {
	o := verifOpts()
	n := verifShellNSQD(o)
	verifrt.Preemptions(1)
	persisted := "none"
	verifrt.Stub("(*github.com/nsqio/nsq/nsqd.NSQD).PersistMetadata", func(n *NSQD) error {
		s := ""
		for _, t := range n.GetMetadata(false).Topics {
			s += t.Name + ":"
			for _, c := range t.Channels {
				s += c.Name + ","
			}
			s += ";"
		}
		persisted = s
		return nil
	})
	readPersisted := func() string {
		if verifrt.Symbolic() {
			return persisted
		}
		// native replay: the real PersistMetadata wrote the real file
		data, err := os.ReadFile(newMetadataFile(o))
		if err != nil {
			return "none"
		}
		var m Metadata
		if json.Unmarshal(data, &m) != nil {
			return "unparsable"
		}
		s := ""
		for _, t := range m.Topics {
			s += t.Name + ":"
			for _, c := range t.Channels {
				s += c.Name + ","
			}
			s += ";"
		}
		return s
	}
	op := verifrt.Choice("op", 2)
	var t *Topic
	verifrt.Go("lookuploop", func() {
		for {
			select {
			case <-n.notifyChan:
			case <-n.exitChan:
				return
			}
		}
	})
	verifrt.Atomic(func() {
		t = n.GetTopic("a")
		if op == 1 {
			t.GetChannel("x")
		}
		verifrt.Join()
	})
	if op == 0 {
		verifrt.Assert(n.DeleteExistingTopic("a") == nil, "topic-delete-succeeds")
		verifrt.Join()
		verifrt.Assert(readPersisted() == "", "DELETE-TOPIC:persisted-document-excludes-the-deleted-topic")
	} else {
		verifrt.Assert(t.DeleteExistingChannel("x") == nil, "channel-delete-succeeds")
		verifrt.Join()
		verifrt.Assert(readPersisted() == "a:;", "DELETE-CHANNEL:persisted-document-excludes-the-deleted-channel")
	}
	verifrt.Reach("deleted", true)
}

// Two pause / unpause requests for DIFFERENT topics at the same time, every interleaving within
// the preemption bound, real PersistMetadata against the disk model: once both requests have been
// answered 200, a restart on that data path finds BOTH acknowledged states (the handlers serialise
// the snapshot-and-write, so an older snapshot can never overwrite a newer document).
func VerifC06_ConcurrentPausesArePersisted() {
	o := verifOpts()
	s, n := verifHTTPServer(o)
	fn := newMetadataFile(o)
	verifrt.Preemptions(1)
	var ta, tb *Topic
	verifrt.Atomic(func() {
		ta = NewTopic("a", n, func(*Topic) {})
		n.topicMap["a"] = ta
		tb = NewTopic("b", n, func(*Topic) {})
		n.topicMap["b"] = tb
		if verifrt.Symbolic() {
			d := &vDiskC06{files: map[string]*vFileC06{}, handles: map[*os.File]string{}, crashAt: -1, faultAt: -1}
			d.install()
		}
	})
	bUnpause := verifrt.Choice("second-is-unpause", verifrt.Bound("pause-variants", 1, 2)) == 1
	epB := "/topic/pause"
	if bUnpause {
		tb.paused = 1
		epB = "/topic/unpause"
	}
	var errA, errB error
	verifrt.Go("pause-a", func() {
		_, errA = s.doPauseTopic(nil, verifReq("POST", "/topic/pause", "topic=a", nil, false, 0), nil)
	})
	verifrt.Go("pause-b", func() {
		_, errB = s.doPauseTopic(nil, verifReq("POST", epB, "topic=b", nil, false, 0), nil)
	})
	verifrt.Join()
	verifrt.Assert(errA == nil && errB == nil, "both-requests-answered-200")
	n2 := verifShellNSQD(o)
	var lerr error
	verifrt.Atomic(func() { lerr = n2.LoadMetadata() })
	verifrt.Assert(lerr == nil, "metadata-loadable-after-concurrent-pauses")
	want := "a!,b!,"
	if bUnpause {
		want = "a!,b,"
	}
	verifrt.Assert(verifC06TopicSet(n2) == want, "every-acknowledged-pause-is-in-the-persisted-document")
	verifrt.Reach("both-persisted", verifC06TopicSet(n2) == want)
	_ = fn
}

// Shutdown keeps the data-path lock until every subsystem goroutine has stopped: while anything
// of the old daemon can still write (metadata, queues), no second nsqd may take the data path.
// The real NSQD.Exit runs with one subsystem goroutine that finishes its work only after the exit
// signal; the lock's Unlock is observed.
func VerifC06_ExitReleasesTheLockLast() {
	o := verifOpts()
	n := verifShellNSQD(o)
	verifrt.StubNative("(*github.com/nsqio/nsq/nsqd.NSQD).Notify", verifNotifyNop)
	verifrt.StubNative("(*github.com/nsqio/nsq/nsqd.NSQD).PersistMetadata", func(n *NSQD) error { return nil })
	subsystemDone, unlocked, unlockedEarly := false, 0, false
	verifrt.StubNative("(*github.com/nsqio/nsq/internal/dirlock.DirLock).Unlock", func(l *dirlock.DirLock) error {
		unlocked++
		if !subsystemDone {
			unlockedEarly = true
		}
		return nil
	})
	n.dl = dirlock.New(o.DataPath)
	n.ctxCancel = func() {}
	verifrt.Atomic(func() {
		n.GetTopic("t")
		n.waitGroup.Wrap(func() {
			<-n.exitChan
			verifrt.Yield() // still busy (e.g. flushing) when the exit signal has been given
			subsystemDone = true
		})
	})
	n.Exit()
	verifrt.Join()
	verifrt.Assert(unlocked == 1, "exit-releases-the-data-path-lock-once")
	verifrt.Assert(!unlockedEarly, "data-path-lock-released-only-after-every-subsystem-stopped")
	verifrt.Reach("exit-completed", subsystemDone && unlocked == 1)
}

// (shared with C05) a persist that runs while shutdown is closing the topics keeps them.
func VerifC06_MetadataDuringShutdownKeepsTopics() { VerifC05_MetadataDuringShutdownKeepsTopics() }
