//go:build verif

package nsqd

import (
	"bytes"
	"encoding/json"

	"github.com/nsqio/nsq/internal/verifrt"
)

// Channel close (graceful shutdown) from any valid state: the backend receives exactly the
// unfinished messages - queued, in flight and deferred - byte-identical (id, timestamp, attempts,
// body), each once; consumers are disconnected; nothing else is written.
func VerifC05_ChannelCloseFlush() { verifrt.Atomic(verifC05Channel) }

func verifC05Channel() {
	o := verifOpts()
	o.MemQueueSize = 3
	st := verifNewChan(o, "ch")
	st.addClient(1)
	st.populate(verifrt.Choice("nF", 3), verifrt.Choice("nD", 3), verifrt.Choice("nM", 2), verifrt.Choice("nB", 2), 2)
	all := st.all()
	err := st.c.Close()
	verifrt.Assert(err == nil, "close-succeeds")
	verifrt.Assert(len(st.be.items) == len(all), "backend-holds-every-unfinished-message-once")
	for _, m := range all {
		found := 0
		for _, raw := range st.be.items {
			d, derr := decodeMessage(raw)
			verifrt.Assert(derr == nil, "backend-record-decodes")
			if derr == nil && d.ID == m.ID {
				found++
				verifrt.Assert(d.Timestamp == m.Timestamp && d.Attempts == m.Attempts && bytes.Equal(d.Body, m.Body), "flushed-message-byte-identical")
			}
		}
		verifrt.Assert(found == 1, "unfinished-message-flushed-exactly-once")
	}
	verifrt.Assert(st.be.closed == 1 && st.be.deleted == 0 && st.be.emptied == 0, "close-keeps-the-disk-queue")
	verifrt.Assert(st.conns[0].closed >= 1, "close-disconnects-consumers")
	verifrt.Assert(st.c.PutMessage(verifMsg("late", 1)) != nil, "closed-channel-refuses-publish")
	verifrt.Reach("all-kinds-present", len(st.inFlight) > 0 && len(st.deferred) > 0 && len(st.memory) > 0)
}

// Topic close against the real pump thread: the pump stops, every channel is closed (flushing its
// messages) and the topic's own memory queue is flushed to its backend, byte-identical.
func VerifC05_TopicCloseFlush() {
	o := verifOpts()
	o.MemQueueSize = 2
	n := verifShellNSQD(o)
	verifrt.StubNative("(*github.com/nsqio/nsq/nsqd.NSQD).Notify", verifNotifyNop)
	var t *Topic
	verifrt.Atomic(func() { t = NewTopic("t", n, func(*Topic) {}) })
	if !verifrt.Symbolic() {
		t.backend.Close()
		t.backend = &verifBackend{}
	}
	// no channels and not started: published messages stay in the topic queue
	k := verifrt.Choice("queued", 3)
	var msgs []*Message
	for i := 0; i < k; i++ {
		m := verifMsg("q", 1)
		m.Attempts = 0
		msgs = append(msgs, m)
		verifrt.Assert(t.PutMessage(m) == nil, "publish-before-shutdown")
	}
	// a channel that is already closing (an ephemeral channel deleting itself during shutdown): its
	// Close answers "exiting"; the topic must flush its own queue all the same
	chanExiting := verifrt.Choice("channel-already-exiting", 2) == 1
	if chanExiting {
		var c *Channel
		verifrt.Atomic(func() { c = t.GetChannel("gone#ephemeral") })
		c.exitFlag = 1
	}
	err := t.Close()
	verifrt.Join()
	verifrt.Assert(err == nil || chanExiting, "topic-close-succeeds")
	be := t.backend.(*verifBackend)
	verifrt.Assert(len(be.items) == k && len(t.memoryMsgChan) == 0, "topic-queue-flushed-to-disk")
	for i, m := range msgs {
		if i < len(be.items) {
			d, derr := decodeMessage(be.items[i])
			verifrt.Assert(derr == nil && d.ID == m.ID && d.Timestamp == m.Timestamp && bytes.Equal(d.Body, m.Body), "topic-flush-byte-identical-in-order")
		}
	}
	verifrt.Assert(t.PutMessage(verifMsg("late", 1)) != nil, "closed-topic-refuses-publish")
	verifrt.Reach("flushed-two", k == 2)
}

// Metadata round trip: what GetMetadata/PersistMetadata write is what LoadMetadata restores on a
// fresh daemon: every non-ephemeral topic and channel with its paused flag, no ephemeral ones, and
// every restored topic is started (also one without channels) after its channels exist.
func VerifC05_MetadataRoundTrip() { verifC05Metadata() }

func verifC05Metadata() {
	verifrt.StubNative("(*github.com/nsqio/nsq/nsqd.NSQD).Notify", verifNotifyNop)
	verifrt.Preemptions(0)
	n1 := verifShellNSQD(verifOpts())
	type spec struct {
		topic, channel string
		tp, cp         bool
	}
	var want []spec
	var blob []byte
	var n2 *NSQD
	var started []*Topic
	nTopics := 0
	verifrt.Atomic(func() {
		// topic a: durable, optionally channels x (durable) and y#ephemeral, symbolic paused flags
		ta := n1.GetTopic("a")
		tp := verifrt.Bool("a-paused")
		if tp {
			ta.paused = 1
		}
		if verifrt.Bool("a-has-x") {
			cx := ta.GetChannel("x")
			cp := verifrt.Bool("x-paused")
			if cp {
				cx.paused = 1
			}
			want = append(want, spec{"a", "x", tp, cp})
		}
		if verifrt.Bool("a-has-y-ephemeral") {
			ta.GetChannel("y#ephemeral")
		}
		want = append(want, spec{"a", "", tp, false})
		// topic b#ephemeral with a durable-named channel: never persisted
		n1.GetTopic("b#ephemeral").GetChannel("z")
		// topic c: durable, no channels, optional
		if verifrt.Bool("has-c") {
			n1.GetTopic("c")
			want = append(want, spec{"c", "", false, false})
		}
		var err error
		blob, err = json.Marshal(n1.GetMetadata(false))
		verifrt.Assert(err == nil, "metadata-marshals")
		verifrt.Stub("github.com/nsqio/nsq/nsqd.readOrEmpty", func(fn string) ([]byte, error) { return blob, nil })
		n2 = verifShellNSQD(verifOpts())
		if !verifrt.Symbolic() {
			// native replay: the real readOrEmpty reads the file the real daemon would have written
			verifWriteFile(newMetadataFile(n2.getOpts()), blob)
		}
		verifrt.Assert(n2.LoadMetadata() == nil, "metadata-loads")
		for _, w := range want {
			t, terr := n2.GetExistingTopic(w.topic)
			verifrt.Assert(terr == nil, "topic-restored")
			if terr != nil {
				continue
			}
			if w.channel == "" {
				nTopics++
				verifrt.Assert(t.IsPaused() == w.tp, "topic-paused-flag-restored")
				started = append(started, t)
			} else {
				c, cerr := t.GetExistingChannel(w.channel)
				verifrt.Assert(cerr == nil, "channel-restored")
				if cerr == nil {
					verifrt.Assert(c.IsPaused() == w.cp, "channel-paused-flag-restored")
				}
			}
		}
		verifrt.Assert(len(n2.topicMap) == nTopics, "no-ephemeral-or-extra-topic-restored")
		for _, t := range n2.topicMap {
			for _, c := range t.channelMap {
				verifrt.Assert(!c.ephemeral, "no-ephemeral-channel-restored")
			}
		}
	})
	// a restored topic is started: once it has a channel and is not paused, what is published
	// reaches that channel (its pump left the pre-start gate)
	for _, t := range started {
		var probe *Channel
		verifrt.Atomic(func() {
			probe = t.GetChannel("probe")
			if t.IsPaused() {
				t.UnPause()
			}
			t.PutMessage(verifMsg("probe", 1))
		})
		verifrt.Join()
		verifrt.Assert(probe.Depth() == 1, "restored-topic-is-started-and-delivers")
	}
	verifrt.Reach("topic-without-channels", nTopics > 0 && len(want) == nTopics)
	verifrt.Reach("paused-channel", len(want) > nTopics)
}

// Channel close racing one operation that is moving a message (two threads, all interleavings
// within the preemption bound): when both are done, every message the channel still owed - and
// every publish that was acknowledged - is in the disk queue, so a restart delivers it again.
func VerifC05_CloseVsOps() {
	o := verifOpts()
	o.MemQueueSize = 3
	var st *verifChan
	var cl *clientV2
	op := verifrt.Choice("op", 4)
	verifrt.Atomic(func() {
		verifConcreteIDs, verifIDSeq = true, 0
		st = verifNewChan(o, "ch")
		cl = st.addClient(1)
		st.populate(1, 1, 0, 0, 1)
	})
	names := []string{"SCAN", "DSCAN", "REQ0", "PUT"}
	tag := names[op]
	target := st.inFlight[0]
	extra := verifMsg("pub", 1)
	acked := false
	verifrt.Go("op", func() {
		switch op {
		case 0:
			st.c.processInFlightQueue(int64(3500000000000000000))
		case 1:
			st.c.processDeferredQueue(int64(3500000000000000000))
		case 2:
			st.c.RequeueMessage(cl.ID, target.ID, 0)
		case 3:
			acked = st.c.PutMessage(extra) == nil
		}
	})
	verifrt.Go("close", func() { st.c.Close() })
	verifrt.Join()
	owed := st.all()
	if acked {
		owed = append(owed, extra)
	}
	for _, m := range owed {
		found := 0
		for _, raw := range st.be.items {
			if d, err := decodeMessage(raw); err == nil && d.ID == m.ID {
				found++
			}
		}
		verifrt.Assert(found >= 1, tag+":owed-message-on-disk-after-close")
	}
	verifrt.Reach("raced:"+tag, true)
}

// Topic close racing a publish: an acknowledged publish is on disk when close has returned.
func VerifC05_TopicCloseVsPublish() {
	o := verifOpts()
	o.MemQueueSize = 2
	n := verifShellNSQD(o)
	verifrt.StubNative("(*github.com/nsqio/nsq/nsqd.NSQD).Notify", verifNotifyNop)
	var t *Topic
	verifrt.Atomic(func() {
		verifConcreteIDs, verifIDSeq = true, 0
		t = NewTopic("t", n, func(*Topic) {})
		if !verifrt.Symbolic() {
			t.backend.Close()
			t.backend = &verifBackend{}
		}
	})
	m := verifMsg("pub", 1)
	acked := false
	verifrt.Go("publish", func() { acked = t.PutMessage(m) == nil })
	verifrt.Go("close", func() { t.Close() })
	verifrt.Join()
	if acked {
		found := 0
		for _, raw := range t.backend.(*verifBackend).items {
			if d, err := decodeMessage(raw); err == nil && d.ID == m.ID {
				found++
			}
		}
		verifrt.Assert(found == 1, "acknowledged-publish-on-disk-after-topic-close")
		verifrt.Reach("acked-during-close", true)
	}
}

// What graceful shutdown flushes must be accepted by the disk queues: a message of any legal size
// fits the record limits of the topic's and the channel's disk queue (shared with C01).
func VerifC05_MaxSizeMessageFitsDiskQueues() { verifrt.Atomic(verifMaxSizeOverflow) }

// A metadata snapshot taken while (or after) the topics are being closed for shutdown - a late
// Notify-triggered persist can run then - still lists every non-ephemeral topic and channel with
// its paused flag: closing is not deleting.
func VerifC05_MetadataDuringShutdownKeepsTopics() {
	verifrt.Atomic(func() {
		verifrt.StubNative("(*github.com/nsqio/nsq/nsqd.NSQD).Notify", verifNotifyNop)
		n := verifShellNSQD(verifOpts())
		t := n.GetTopic("a")
		c := t.GetChannel("x")
		if verifrt.Bool("paused") {
			t.paused, c.paused = 1, 1
		}
		before := n.GetMetadata(false)
		switch verifrt.Choice("closed", 3) {
		case 1:
			c.Close()
		case 2:
			t.Close()
		}
		after := n.GetMetadata(false)
		verifrt.Assert(len(after.Topics) == 1 && len(after.Topics[0].Channels) == 1, "closing-topic-and-channel-stay-in-the-metadata")
		if len(after.Topics) == 1 && len(before.Topics) == 1 {
			verifrt.Assert(after.Topics[0].Name == "a" && after.Topics[0].Paused == before.Topics[0].Paused, "closing-topic-keeps-name-and-paused-flag")
		}
		verifrt.Reach("snapshot-after-topic-close", len(after.Topics) == 1)
	})
}

// Topic close while its pump is busy: messages still in the topic queue when shutdown is
// requested end up, byte-identical and exactly once, in the topic's or in a channel's disk queue -
// whichever side of the pump they are on when it stops (every interleaving within the preemption
// bound; the pump is stopped BEFORE the channels are closed, a message handed to an already
// closed channel would be dropped).
func VerifC05_TopicCloseWithBusyPump() {
	o := verifOpts()
	o.MemQueueSize = 2
	n := verifShellNSQD(o)
	verifrt.StubNative("(*github.com/nsqio/nsq/nsqd.NSQD).Notify", verifNotifyNop)
	verifrt.Preemptions(1)
	verifrt.FreeRun() // natively the pump and the close race freely (the imposed schedule can park the pump for good)
	var t *Topic
	var ch *Channel
	var msgs []*Message
	k := verifrt.Choice("queued", 2) + 1
	verifrt.Atomic(func() {
		verifConcreteIDs, verifIDSeq = true, 0
		t = NewTopic("t", n, func(*Topic) {})
		ch = t.GetChannel("ch")
		if !verifrt.Symbolic() {
			t.backend.Close()
			t.backend = &verifBackend{}
			ch.backend.Close()
			ch.backend = &verifBackend{}
		}
		for i := 0; i < k; i++ {
			m := verifMsg("q", 1)
			m.Body[0] = byte('a' + i)
			msgs = append(msgs, m)
			t.PutMessage(m)
		}
		t.Start() // the pump will begin moving the backlog when it next runs
	})
	err := t.Close()
	verifrt.Join()
	verifrt.Assert(err == nil, "topic-close-succeeds")
	tb, cb := t.backend.(*verifBackend), ch.backend.(*verifBackend)
	for _, m := range msgs {
		found := 0
		for _, raw := range append(append([][]byte{}, tb.items...), cb.items...) {
			d, derr := decodeMessage(raw)
			if derr == nil && d.ID == m.ID {
				found++
				verifrt.Assert(bytes.Equal(d.Body, m.Body), "flushed-message-byte-identical")
			}
		}
		verifrt.Assert(found == 1, "every-queued-message-is-on-disk-exactly-once-after-close")
	}
	verifrt.Reach("sym:pump-moved-some-before-the-close", len(cb.items) > 0) // schedule-dependent: not replayed natively
	verifrt.Reach("sym:some-flushed-by-the-topic", len(tb.items) > 0) // schedule-dependent as well
	verifrt.Reach("closed-with-a-backlog", err == nil && len(tb.items)+len(cb.items) == k)
}
