//go:build verif

package nsqd

import (
	"time"

	"github.com/nsqio/nsq/internal/verifrt"
)

// Ledger: k operations (publish, deferred publish, delivery, FIN, REQ, TOUCH, timeout scan, deferred
// scan, empty) from any valid channel state. After every operation:
//
//	received == depth + in flight + deferred + finished + discarded-by-empty
//
// and no counter of the channel or of the connection is negative.
func VerifC13_Ledger() { verifrt.Atomic(verifC13Ledger) }

func verifC13Ledger() {
	o := verifOpts()
	o.MemQueueSize = 3
	st := verifNewChan(o, "ch")
	cl := st.addClient(1)
	other := st.addClient(2)
	if verifrt.Choice("who", 2) == 1 {
		cl, other = other, cl
	}
	nF := verifrt.Choice("nF", 3)
	nD := verifrt.Choice("nD", 2)
	nM := verifrt.Choice("nM", 2)
	st.populate(nF, nD, nM, 0, 2)
	c := st.c
	p := &protocolV2{nsqd: st.n}
	finished, emptied := uint64(0), uint64(0)
	preFin, preReq := cl.FinishCount, cl.RequeueCount
	didFin, didReq := uint64(0), uint64(0)
	known := st.all()
	fresh := func(tag string) *Message {
		// message ids are unique per topic (C12): a newly published message differs from all others
		m := verifMsg(tag, 1)
		for _, o := range known {
			verifrt.Assume(o.ID != m.ID)
		}
		known = append(known, m)
		return m
	}
	steps := verifrt.Bound("steps", 1, 2)
	for s := 0; s < steps; s++ {
		present := uint64(c.Depth()) + uint64(len(c.inFlightMessages)) + uint64(len(c.deferredMessages))
		switch verifrt.Choice("op", 9) {
		case 0: // publish (the backend may fail when memory is full)
			st.be.failPut = verifrt.Bool("backend-fails")
			m := fresh("new")
			before := c.messageCount
			err := c.PutMessage(m)
			if err != nil {
				verifrt.Assert(c.messageCount == before, "failed-put-not-counted")
			}
			st.be.failPut = false
		case 1: // deferred publish
			c.PutMessageDeferred(fresh("newd"), time.Second)
		case 2: // delivery of a queued message
			if len(c.memoryMsgChan) > 0 {
				m := <-c.memoryMsgChan
				m.Attempts++
				c.StartInFlightTimeout(m, cl.ID, time.Minute)
				cl.SendingMessage()
			}
		case 3: // FIN for any id
			id := MessageID{}
			copy(id[:], verifrt.BytesN("fin-id", 16))
			_, err := p.FIN(cl, [][]byte{[]byte("FIN"), id[:]})
			if err == nil {
				finished++
				didFin++
			}
		case 4: // REQ for any id, immediate or delayed
			id := MessageID{}
			copy(id[:], verifrt.BytesN("req-id", 16))
			d := []byte("0")
			if verifrt.Bool("req-delayed") {
				d = []byte("5")
			}
			if _, err := p.REQ(cl, [][]byte{[]byte("REQ"), id[:], d}); err == nil {
				didReq++
			}
		case 5:
			c.processInFlightQueue(verifrt.Int64("scan-t"))
		case 6:
			c.processDeferredQueue(verifrt.Int64("dscan-t"))
		case 8: // TOUCH for any id (also one whose deadline already sits at the max-msg-timeout cap)
			id := MessageID{}
			copy(id[:], verifrt.BytesN("touch-id", 16))
			p.TOUCH(cl, [][]byte{[]byte("TOUCH"), id[:]})
		case 7:
			c.Empty()
			emptied += present
			verifrt.Assert(cl.InFlightCount == 0 && other.InFlightCount == 0, "empty-zeroes-consumer-in-flight-count")
		}
		depth := uint64(c.Depth())
		verifrt.Assert(c.messageCount == depth+uint64(len(c.inFlightMessages))+uint64(len(c.deferredMessages))+finished+emptied, "received-equals-depth+inflight+deferred+finished+emptied")
		for _, k := range []*clientV2{cl, other} {
			verifrt.Assert(k.InFlightCount >= 0, "consumer-in-flight-count-not-negative")
			var owned int64
			for _, m := range c.inFlightPQ {
				if m.clientID == k.ID {
					owned++
				}
			}
			verifrt.Assert(k.InFlightCount == owned, "consumer-in-flight-count-equals-messages-it-holds")
		}
		verifrt.Assert(cl.FinishCount == preFin+didFin, "consumer-finish-count-equals-its-accepted-fins")
		verifrt.Assert(cl.RequeueCount == preReq+didReq, "consumer-requeue-count-equals-its-accepted-reqs")
		st.assertInvariants("ledger")
	}
	verifrt.Reach("something-finished", finished > 0)
	verifrt.Reach("something-emptied", emptied > 0)
}

// Topic counters: message_count / message_bytes equal exactly what was acknowledged, also when a
// multi-publish fails part-way (backend failure at message i).
func VerifC13_TopicCounters() { verifrt.Atomic(verifC13Topic) }

func verifC13Topic() {
	o := verifOpts()
	o.MemQueueSize = 1
	n := verifShellNSQD(o)
	verifrt.StubNative("(*github.com/nsqio/nsq/nsqd.NSQD).Notify", verifNotifyNop)
	t := NewTopic("t", n, func(*Topic) {})
	if !verifrt.Symbolic() {
		t.backend.Close()
		t.backend = &verifBackend{}
	}
	be := t.backend.(*verifBackend)
	k := verifrt.Choice("batch", 3) + 1
	var msgs []*Message
	var total uint64
	for i := 0; i < k; i++ {
		m := verifMsg("m", verifrt.Choice("len", 3))
		msgs = append(msgs, m)
		total += uint64(len(m.Body))
	}
	be.failPut = verifrt.Bool("backend-fails")
	var err error
	if k == 1 {
		err = t.PutMessage(msgs[0])
	} else {
		err = t.PutMessages(msgs)
	}
	stored := uint64(t.Depth())
	var storedBytes uint64
	for _, m := range verifTopicMessages(t) {
		storedBytes += uint64(len(m.Body))
	}
	verifrt.Assert(t.messageCount == stored, "topic-message-count-equals-messages-accepted")
	verifrt.Assert(t.messageBytes == storedBytes, "topic-message-bytes-equals-bytes-accepted")
	if err == nil {
		verifrt.Assert(stored == uint64(k) && storedBytes == total, "acknowledged-publish-stored-completely")
		verifrt.Reach("batch-ok", k > 1)
	} else {
		verifrt.Reach("partial-batch", stored > 0 && stored < uint64(k))
	}
}

// /stats assembly: every reported number equals its source counter, and topic / channel filters
// select exactly the named objects (three topics; channel "ch" on the first and third only).
func VerifC13_StatsWiring() { verifrt.Atomic(verifC13Stats) }

func verifC13Stats() {
	o := verifOpts()
	n := verifShellNSQD(o)
	n.tcpServer = &tcpServer{nsqd: n}
	verifrt.StubNative("(*github.com/nsqio/nsq/nsqd.NSQD).Notify", verifNotifyNop)
	mk := func(name string, chans ...string) *Topic {
		t := NewTopic(name, n, func(*Topic) {})
		n.topicMap[name] = t
		for _, cn := range chans {
			c := NewChannel(name, cn, n, nil)
			t.channelMap[cn] = c
		}
		return t
	}
	ta := mk("a", "ch")
	mk("b", "other")
	tc := mk("c", "ch", "other")
	// symbolic counters on topic c / channel ch
	cc := tc.channelMap["ch"]
	tc.messageCount, tc.messageBytes = verifrt.Uint64("t.count"), verifrt.Uint64("t.bytes")
	cc.messageCount, cc.requeueCount, cc.timeoutCount = verifrt.Uint64("c.count"), verifrt.Uint64("c.requeue"), verifrt.Uint64("c.timeout")
	if verifrt.Bool("paused") {
		cc.paused = 1
	}
	nIn := verifrt.Choice("inflight", 3)
	for i := 0; i < nIn; i++ {
		m := verifMsg("f", 1)
		m.ID[0] = byte(i)
		cc.pushInFlightMessage(m)
		cc.addToInFlightPQ(m)
	}
	filterTopic := []string{"", "a", "c", "zzz"}[verifrt.Choice("topic-filter", 4)]
	filterChan := []string{"", "ch", "other", "nope"}[verifrt.Choice("channel-filter", 4)]
	s := n.GetStats(filterTopic, filterChan, false)
	// reference: which (topic, channel) pairs must appear
	type pair struct{ t, c string }
	all := []pair{{"a", "ch"}, {"b", "other"}, {"c", "ch"}, {"c", "other"}}
	var want []pair
	wantTopics := map[string]bool{}
	for _, pr := range all {
		if (filterTopic == "" || filterTopic == pr.t) && (filterChan == "" || filterChan == pr.c) {
			want = append(want, pr)
			wantTopics[pr.t] = true
		}
	}
	got := 0
	for _, ts := range s.Topics {
		verifrt.Assert(wantTopics[ts.TopicName], "stats-lists-only-requested-topics")
		for _, cs := range ts.Channels {
			got++
			found := false
			for _, pr := range want {
				if pr.t == ts.TopicName && pr.c == cs.ChannelName {
					found = true
				}
			}
			verifrt.Assert(found, "stats-lists-only-requested-channels")
			if ts.TopicName == "c" && cs.ChannelName == "ch" {
				verifrt.Assert(cs.MessageCount == cc.messageCount && cs.RequeueCount == cc.requeueCount && cs.TimeoutCount == cc.timeoutCount, "channel-stats-equal-counters")
				verifrt.Assert(cs.InFlightCount == nIn && cs.DeferredCount == 0 && cs.Depth == 0, "channel-stats-equal-queue-sizes")
				verifrt.Assert(cs.Paused == (cc.paused == 1), "channel-stats-paused-flag")
			}
		}
		if ts.TopicName == "c" {
			verifrt.Assert(ts.MessageCount == tc.messageCount && ts.MessageBytes == tc.messageBytes, "topic-stats-equal-counters")
		}
	}
	verifrt.Assert(got == len(want), "stats-lists-every-requested-channel")
	if filterChan == "" {
		verifrt.Assert(len(s.Topics) == len(wantTopics), "stats-lists-every-requested-topic")
	}
	verifrt.Reach("channel-filter-across-topics", filterTopic == "" && filterChan == "ch")
	_ = ta
}

// Counters under an answer racing the timeout scan (shared with C02): no count negative, the
// timeout counter and the consumer's in-flight count match what actually happened.
func VerifC13_AnswerVsScanCounters() { verifAnswerVsScan() }

// Per-channel accounting needs per-channel message objects: the fan-out (also of a deferred
// publish) gives every channel its own object, so one channel's owner / attempts / in-flight
// bookkeeping cannot leak into another's counters (shared with C01).
func VerifC13_FanOutKeepsChannelsApart() { verifTopicPumpFanOut() }

// /stats with clients: every channel lists exactly its own consumers with their own counters
// (two channels, each with one consumer whose counters are symbolic).
func VerifC13_StatsPerConsumer() { verifrt.Atomic(verifC13PerConsumer) }

func verifC13PerConsumer() {
	o := verifOpts()
	n := verifShellNSQD(o)
	n.tcpServer = &tcpServer{nsqd: n}
	verifrt.StubNative("(*github.com/nsqio/nsq/nsqd.NSQD).Notify", verifNotifyNop)
	t := NewTopic("t", n, func(*Topic) {})
	n.topicMap["t"] = t
	names := []string{"alpha", "beta"}
	var cls []*clientV2
	for i, cn := range names {
		c := NewChannel("t", cn, n, nil)
		t.channelMap[cn] = c
		cl, _ := verifClient(n, int64(i+1), nil)
		cl.ClientID = "consumer-of-" + cn
		cl.Channel = c
		cl.State = stateSubscribed
		cl.MessageCount = verifrt.Uint64("messages-" + cn)
		cl.FinishCount = verifrt.Uint64("finished-" + cn)
		cl.RequeueCount = verifrt.Uint64("requeued-" + cn)
		cl.ReadyCount = int64(verifrt.Uint16("rdy-" + cn))
		cl.InFlightCount = int64(verifrt.Uint16("inflight-" + cn))
		c.AddClient(cl.ID, cl)
		cls = append(cls, cl)
	}
	s := n.GetStats("", "", true)
	verifrt.Assert(len(s.Topics) == 1 && len(s.Topics[0].Channels) == 2, "stats-list-both-channels")
	if len(s.Topics) != 1 {
		return
	}
	for _, cs := range s.Topics[0].Channels {
		idx := 0
		if cs.ChannelName == "beta" {
			idx = 1
		}
		verifrt.Assert(cs.ClientCount == 1 && len(cs.Clients) == 1, "channel-lists-exactly-its-own-consumer")
		if len(cs.Clients) == 1 {
			got, ok := cs.Clients[0].(ClientV2Stats)
			verifrt.Assert(ok, "consumer-stats-type")
			if ok {
				want := cls[idx]
				verifrt.Assert(got.ClientID == want.ClientID, "channel-reports-its-own-consumer")
				verifrt.Assert(got.MessageCount == want.MessageCount && got.FinishCount == want.FinishCount && got.RequeueCount == want.RequeueCount &&
					got.ReadyCount == want.ReadyCount && got.InFlightCount == want.InFlightCount, "consumer-counters-are-that-consumers-own")
			}
		}
	}
	verifrt.Reach("two-channels-with-consumers", len(s.Topics[0].Channels) == 2)
}

// The ledger also holds for the LARGEST legal message on a disk-backed channel (mem-queue-size 0:
// whatever goes back to the queue goes to the channel's disk queue, opened by the real NewChannel
// with its record limits): published, or held and then requeued with REQ 0, or held and timed
// out, or deferred and come due - the message is afterwards still counted in the channel's depth
// (a record the disk queue refuses is only logged: the message would have left every counter
// while message_count still includes it).
func VerifC13_MaxSizeMessageStaysInTheLedger() { verifrt.Atomic(verifC13MaxSize) }

func verifC13MaxSize() {
	o := verifOpts()
	o.MemQueueSize = 0
	o.MaxMsgSize = int64(verifrt.Bound("max-msg-size", 3, 6))
	n := verifShellNSQD(o)
	verifrt.StubNative("(*github.com/nsqio/nsq/nsqd.NSQD).Notify", verifNotifyNop)
	c := NewChannel("t", "c", n, nil)
	body := verifrt.Bytes("body", int(o.MaxMsgSize))
	verifrt.Assume(len(body) >= 1)
	verifConcreteIDs, verifIDSeq = true, 0
	m := verifMsg("m", 1)
	m.Body = body
	path := verifrt.Choice("path", 4)
	var err error
	switch path {
	case 0:
		err = c.PutMessage(m)
	case 1: // held by a consumer, then REQ 0
		c.messageCount = 1
		verifrt.Assert(c.StartInFlightTimeout(m, 7, time.Minute) == nil, "in-flight-registered")
		err = c.RequeueMessage(7, m.ID, 0)
	case 2: // held, then timed out by the scan
		c.messageCount = 1
		verifrt.Assert(c.StartInFlightTimeout(m, 7, time.Minute) == nil, "in-flight-registered")
		verifrt.Assert(c.processInFlightQueue(m.pri+1), "scan-times-the-message-out")
	case 3: // deferred, then due
		c.messageCount = 1
		c.StartDeferredTimeout(m, time.Minute)
		var due int64
		for _, it := range c.deferredMessages {
			due = it.Priority
		}
		verifrt.Assert(c.processDeferredQueue(due+1), "scan-finds-the-deferred-message-due")
	}
	verifrt.Assert(err == nil, "max-size-message-goes-back-to-the-queue")
	present := uint64(c.Depth()) + uint64(len(c.inFlightMessages)) + uint64(len(c.deferredMessages))
	verifrt.Assert(c.messageCount == 1 && present == 1, "max-size-message-is-still-in-the-ledger")
	verifrt.Assert(c.Depth() == 1, "max-size-message-is-counted-in-the-disk-depth")
	verifrt.Reach("largest-body-requeued-to-disk", path == 1 && len(body) == int(o.MaxMsgSize))
	verifrt.Reach("largest-body-timed-out-to-disk", path == 2 && len(body) == int(o.MaxMsgSize))
	if !verifrt.Symbolic() {
		c.Close()
	}
}
