//go:build verif

package nsqd

import (
	"github.com/nsqio/nsq/internal/verifrt"
)

// ---------------------------------------------------------------------------------------------
// C16 part 4d: a topic deletion concurrent with nsqd's own lookup goroutines.
//
// The LookupLoop* harnesses of c16.go let every churn operation run to completion before
// nsqd's goroutines (the Notify goroutines, lookupLoop) move - one canonical schedule. Here
// the deletion of topic t0 (with channel c0) runs as an ordinary thread: the executor explores
// the interleavings of NSQD.DeleteExistingTopic with the notification goroutines it spawns and
// with lookupLoop, up to `preemptions` preemptive context switches (every choice of who runs
// next at a blocking point is explored in any case). The connection to the lookupd is
//   0: healthy,
//   1: dead since the lookupd restarted (FIN; nsqd has not noticed yet: it is idle),
//   2: dead since it was reset (RST; thorough tier only - for this scenario it differs from 1
//      only in whether the write or the read of the first UNREGISTER fails).
// Oracle = the statement's first sentence: once everything has come to rest and (if the
// connection had died) two heartbeats have passed, the lookupd lists nsqd as producer of
// exactly its current topics and channels - after the deletion: of nothing.
// Natively nsqd's goroutines run freely against the loopback lookupd.
// ---------------------------------------------------------------------------------------------

func VerifC16_TopicDeleteRacesReconnect() {
	var r *verifLoopRun
	var ld *verifLookupd
	kind := 0
	verifrt.Atomic(func() {
		r = verifStartLoop(1, 0)
		ld = r.w.lds[0]
		r.w.beginStep()
		r.op(1)
		r.rest()
		r.w.endStep()
		r.checkRest("setup")
		kind = verifrt.Choice("connection", verifrt.Bound("connectionStates", 2, 3))
		r.w.beginStep()
		switch kind {
		case 1:
			r.w.hits++
			ld.restart()
		case 2:
			r.w.hits++
			r.w.rsts++
			ld.abort()
		}
	})
	verifrt.Preemptions(verifrt.Bound("preemptions", 1, 2))
	err := r.n.DeleteExistingTopic("t0")
	verifrt.Atomic(func() {
		r.rest()
		r.w.endStep()
		verifrt.Assert(err == nil, "existing-topic-is-deleted")
		_, errT := r.n.GetExistingTopic("t0")
		verifrt.Assert(errT != nil, "deleted-topic-is-gone-from-nsqd")
		if kind == 0 {
			// (labels of their own: the healthy case is not covered by the finding recorded for
			// the dead-connection case below)
			r.checkRest("healthy-delete")
			verifrt.Reach("a-delete-with-healthy-connection", verifInSync(r.n, ld))
		} else {
			r.checkRest("deleted")
		}
		r.finish()
		// ("sym:": not replayed natively as a witness - with real goroutines the run takes the
		// order reported as the known finding of this harness)
		verifrt.Reach("sym:delete-on-dead-connection-then-converged", kind != 0)
	})
}
