//go:build verif

package nsqd

import (
	"bytes"

	"github.com/nsqio/nsq/internal/protocol"
	"github.com/nsqio/nsq/internal/verifrt"
)

func verifSymMessage(maxBody int) *Message {
	m := &Message{}
	copy(m.ID[:], verifrt.BytesN("id", 16))
	m.Timestamp = verifrt.Int64("ts")
	m.Attempts = verifrt.Uint16("attempts")
	m.Body = verifrt.Bytes("body", maxBody)
	return m
}

// decodeMessage(WriteTo(m)) == m for every timestamp, attempts, id and body within the bound.
func VerifC07_RoundTrip() {
	m := verifSymMessage(verifrt.Bound("body", 4, 12))
	var buf bytes.Buffer
	n, err := m.WriteTo(&buf)
	verifrt.Assert(err == nil, "writeto-no-error")
	enc := buf.Bytes()
	verifrt.Assert(n == int64(len(enc)), "writeto-count")
	verifrt.Assert(len(enc) == 26+len(m.Body), "encoded-length")
	d, err := decodeMessage(enc)
	verifrt.Assert(err == nil, "decode-no-error")
	verifrt.Assert(d.Timestamp == m.Timestamp, "timestamp-roundtrip")
	verifrt.Assert(d.Attempts == m.Attempts, "attempts-roundtrip")
	verifrt.Assert(d.ID == m.ID, "id-roundtrip")
	verifrt.Assert(bytes.Equal(d.Body, m.Body), "body-roundtrip")
	verifrt.Observe("enc", enc)
	verifrt.Reach("nonempty-body", len(m.Body) > 1)
}

// decodeMessage rejects anything shorter than the 26-byte envelope and never panics.
func VerifC07_DecodeAnyBuffer() {
	b := verifrt.Bytes("buf", verifrt.Bound("buf", 28, 30))
	d, err := decodeMessage(b)
	if len(b) < 26 {
		verifrt.Assert(err != nil, "short-buffer-rejected")
		verifrt.Reach("rejected", true)
	} else {
		verifrt.Assert(err == nil, "full-envelope-accepted")
		verifrt.Assert(len(d.Body) == len(b)-26, "body-is-the-rest")
		verifrt.Reach("accepted", true)
	}
}

// writeMessageToBackend hands the backend exactly the wire encoding (pooled buffer reused and reset).
func VerifC07_BackendEncoding() {
	be := &verifBackend{}
	first := verifSymMessage(3)
	verifrt.Assert(writeMessageToBackend(first, be) == nil, "first-put-ok")
	m := verifSymMessage(verifrt.Bound("body", 3, 8))
	verifrt.Assert(writeMessageToBackend(m, be) == nil, "second-put-ok")
	verifrt.Assert(len(be.items) == 2, "two-items")
	d, err := decodeMessage(be.items[1])
	verifrt.Assert(err == nil, "backend-bytes-decode")
	verifrt.Assert(d.ID == m.ID && d.Timestamp == m.Timestamp && d.Attempts == m.Attempts, "backend-envelope")
	verifrt.Assert(bytes.Equal(d.Body, m.Body), "backend-body")
	d0, _ := decodeMessage(be.items[0])
	verifrt.Assert(bytes.Equal(d0.Body, first.Body) && d0.ID == first.ID, "first-item-untouched-by-buffer-reuse")
	verifrt.Reach("done", len(m.Body) > 0)
}

// SendFramedResponse: size = len+4, frame type, data byte-exact.
func VerifC07_Framing() {
	data := verifrt.Bytes("data", verifrt.Bound("data", 4, 10))
	ft := verifrt.Int32("frameType")
	w := &verifSink{}
	n, err := protocol.SendFramedResponse(w, ft, data)
	verifrt.Assert(err == nil, "frame-no-error")
	verifrt.Assert(n == len(data)+8, "frame-count")
	out := w.data
	verifrt.Assert(len(out) == len(data)+8, "frame-length")
	size := uint32(out[0])<<24 | uint32(out[1])<<16 | uint32(out[2])<<8 | uint32(out[3])
	typ := uint32(out[4])<<24 | uint32(out[5])<<16 | uint32(out[6])<<8 | uint32(out[7])
	verifrt.Assert(size == uint32(len(data))+4, "frame-size-field")
	verifrt.Assert(int32(typ) == ft, "frame-type-field")
	verifrt.Assert(bytes.Equal(out[8:], data), "frame-data")
	verifrt.Reach("framed", len(data) > 0)
}
