//go:build verif

package nsqd

import (
	"bufio"
	"bytes"

	"github.com/nsqio/nsq/internal/protocol"
	"github.com/nsqio/nsq/internal/verifrt"
)

func verifSymMessage(maxBody int) *Message {
	m := &Message{}
	copy(m.ID[:], verifrt.BytesN("id", 16))
	m.Timestamp = verifrt.Int64("ts")
	m.Attempts = verifrt.Uint16("attempts")
	m.Body = verifrt.Bytes("body", maxBody)
	return m
}

// decodeMessage(WriteTo(m)) == m for every timestamp, attempts, id and body within the bound.
func VerifC07_RoundTrip() {
	m := verifSymMessage(verifrt.Bound("body", 4, 12))
	var buf bytes.Buffer
	n, err := m.WriteTo(&buf)
	verifrt.Assert(err == nil, "writeto-no-error")
	enc := buf.Bytes()
	verifrt.Assert(n == int64(len(enc)), "writeto-count")
	verifrt.Assert(len(enc) == 26+len(m.Body), "encoded-length")
	d, err := decodeMessage(enc)
	verifrt.Assert(err == nil, "decode-no-error")
	verifrt.Assert(d.Timestamp == m.Timestamp, "timestamp-roundtrip")
	verifrt.Assert(d.Attempts == m.Attempts, "attempts-roundtrip")
	verifrt.Assert(d.ID == m.ID, "id-roundtrip")
	verifrt.Assert(bytes.Equal(d.Body, m.Body), "body-roundtrip")
	verifrt.Observe("enc", enc)
	verifrt.Reach("nonempty-body", len(m.Body) > 1)
}

// decodeMessage rejects anything shorter than the 26-byte envelope and never panics.
func VerifC07_DecodeAnyBuffer() {
	b := verifrt.Bytes("buf", verifrt.Bound("buf", 28, 30))
	d, err := decodeMessage(b)
	if len(b) < 26 {
		verifrt.Assert(err != nil, "short-buffer-rejected")
		verifrt.Reach("rejected", true)
	} else {
		verifrt.Assert(err == nil, "full-envelope-accepted")
		verifrt.Assert(len(d.Body) == len(b)-26, "body-is-the-rest")
		verifrt.Reach("accepted", true)
	}
}

// writeMessageToBackend hands the backend exactly the wire encoding (pooled buffer reused and reset).
func VerifC07_BackendEncoding() {
	be := &verifBackend{}
	first := verifSymMessage(3)
	verifrt.Assert(writeMessageToBackend(first, be) == nil, "first-put-ok")
	m := verifSymMessage(verifrt.Bound("body", 3, 8))
	verifrt.Assert(writeMessageToBackend(m, be) == nil, "second-put-ok")
	verifrt.Assert(len(be.items) == 2, "two-items")
	d, err := decodeMessage(be.items[1])
	verifrt.Assert(err == nil, "backend-bytes-decode")
	verifrt.Assert(d.ID == m.ID && d.Timestamp == m.Timestamp && d.Attempts == m.Attempts, "backend-envelope")
	verifrt.Assert(bytes.Equal(d.Body, m.Body), "backend-body")
	d0, _ := decodeMessage(be.items[0])
	verifrt.Assert(bytes.Equal(d0.Body, first.Body) && d0.ID == first.ID, "first-item-untouched-by-buffer-reuse")
	verifrt.Reach("done", len(m.Body) > 0)
}

// SendFramedResponse: size = len+4, frame type, data byte-exact.
func VerifC07_Framing() {
	data := verifrt.Bytes("data", verifrt.Bound("data", 4, 10))
	ft := verifrt.Int32("frameType")
	w := &verifSink{}
	n, err := protocol.SendFramedResponse(w, ft, data)
	verifrt.Assert(err == nil, "frame-no-error")
	verifrt.Assert(n == len(data)+8, "frame-count")
	out := w.data
	verifrt.Assert(len(out) == len(data)+8, "frame-length")
	size := uint32(out[0])<<24 | uint32(out[1])<<16 | uint32(out[2])<<8 | uint32(out[3])
	typ := uint32(out[4])<<24 | uint32(out[5])<<16 | uint32(out[6])<<8 | uint32(out[7])
	verifrt.Assert(size == uint32(len(data))+4, "frame-size-field")
	verifrt.Assert(int32(typ) == ft, "frame-type-field")
	verifrt.Assert(bytes.Equal(out[8:], data), "frame-data")
	verifrt.Reach("framed", len(data) > 0)
}

// Frames on one connection are atomic: the delivery pump (SendMessage) and the command loop (Send
// of a response) write to the same connection from two goroutines; whatever the interleaving -
// including being descheduled in the middle of a socket write - the byte stream is a sequence of
// whole frames carrying exactly the message encoding and the response.
func VerifC07_FrameAtomicity() {
	var st *verifChan
	var cl *clientV2
	var conn *verifConn
	var m *Message
	verifrt.Atomic(func() {
		verifConcreteIDs, verifIDSeq = true, 0
		st = verifNewChan(verifOpts(), "ch")
		cl = st.addClient(1)
		conn = st.conns[0]
		conn.yieldOnWrite = true
		cl.Writer = bufio.NewWriterSize(conn, 16)
		m = verifMsg("m", 0)
		m.Body = verifrt.BytesN("body", 6)
	})
	p := &protocolV2{nsqd: st.n}
	verifrt.Go("pump", func() { p.SendMessage(cl, m) })
	verifrt.Go("ioloop", func() { p.Send(cl, frameTypeResponse, []byte("OK")) })
	verifrt.Join()
	cl.writeLock.Lock()
	cl.Flush()
	cl.writeLock.Unlock()
	out := conn.out.data
	var enc bytes.Buffer
	m.WriteTo(&enc)
	want := enc.Bytes()
	// parse frames
	pos, frames, sawMsg, sawResp := 0, 0, 0, 0
	okStream := true
	for pos < len(out) {
		if len(out)-pos < 8 {
			okStream = false
			break
		}
		size := int(uint32(out[pos])<<24 | uint32(out[pos+1])<<16 | uint32(out[pos+2])<<8 | uint32(out[pos+3]))
		typ := int(uint32(out[pos+4])<<24 | uint32(out[pos+5])<<16 | uint32(out[pos+6])<<8 | uint32(out[pos+7]))
		if size < 4 || pos+4+size > len(out) {
			okStream = false
			break
		}
		data := out[pos+8 : pos+4+size]
		if typ == int(frameTypeMessage) && bytes.Equal(data, want) {
			sawMsg++
		} else if typ == int(frameTypeResponse) && bytes.Equal(data, []byte("OK")) {
			sawResp++
		} else {
			okStream = false
		}
		frames++
		pos += 4 + size
	}
	verifrt.Assert(okStream, "connection-stream-is-whole-frames")
	verifrt.Assert(frames == 2 && sawMsg == 1 && sawResp == 1, "message-frame-and-response-frame-each-intact-once")
	verifrt.Reach("both-frames-written", len(out) > 40)
}

// Text /mpub bodies (shares the C10 harness): every non-empty newline-separated record of the
// HTTP body becomes one message, byte for byte (CR, NUL, any value).
func VerifC07_HTTPTextMpubBodies() { verifrt.Atomic(verifC10MpubText) }

// Envelope on every channel: the topic pump hands every channel a message with the same id, body
// and publish timestamp (real topic pump, 1-3 channels).
func VerifC07_FanOutEnvelope() { verifTopicPumpFanOut() }

// PUB / DPUB / MPUB store exactly the bytes after the length prefix, whether the bytes arrive in
// one piece or one per read (shared with C09).
func VerifC07_PublishBodyExact()      { verifrt.Atomic(verifC09PubFraming) }
func VerifC07_MultiPublishBodyExact() { verifrt.Atomic(verifC09Mpub) }

// Two deliveries at the same time (two connections, each with its own delivery pump; the encode
// buffers come from one shared pool): each connection receives exactly its own message frame,
// byte for byte, also when one pump is descheduled inside its socket write while the other
// encodes (a buffer handed back to the pool before its bytes are on the wire would be reused and
// overwritten).
func VerifC07_ConcurrentDeliveriesKeepTheirBytes() {
	var st *verifChan
	var clA, clB *clientV2
	var mA, mB *Message
	verifrt.Atomic(func() {
		verifConcreteIDs, verifIDSeq = true, 0
		st = verifNewChan(verifOpts(), "ch")
		clA = st.addClient(1)
		clB = st.addClient(2)
		st.conns[0].yieldOnWrite = true
		clA.Writer = bufio.NewWriterSize(st.conns[0], 16)
		clB.Writer = bufio.NewWriterSize(st.conns[1], 16)
		mA = verifMsg("a", 0)
		mA.Body = verifrt.BytesN("bodyA", 4)
		mB = verifMsg("b", 0)
		mB.Body = verifrt.BytesN("bodyB", 4)
	})
	p := &protocolV2{nsqd: st.n}
	verifrt.Go("pump-a", func() { p.SendMessage(clA, mA) })
	verifrt.Go("pump-b", func() { p.SendMessage(clB, mB) })
	verifrt.Join()
	for i, cl := range []*clientV2{clA, clB} {
		cl.writeLock.Lock()
		cl.Flush()
		cl.writeLock.Unlock()
		m := []*Message{mA, mB}[i]
		var enc bytes.Buffer
		m.WriteTo(&enc)
		want := append(verifBE32(uint32(4+enc.Len())), verifBE32(uint32(frameTypeMessage))...)
		want = append(want, enc.Bytes()...)
		verifrt.Assert(bytes.Equal(st.conns[i].out.data, want), "each-connection-receives-exactly-its-own-message-frame")
	}
	verifrt.Reach("two-deliveries-done", len(st.conns[0].out.data) > 20 && len(st.conns[1].out.data) > 20)
}

// HTTP /pub stores exactly the uploaded bytes; an upload that ends before its declared length
// (client went away: the body reads as io.ErrUnexpectedEOF) is never published truncated
// (shared with C10).
func VerifC07_HTTPPubBodyExact() { verifrt.Atomic(verifC10Pub) }

// A buffer taken from the encode pool is always empty, whatever the previous user did with it -
// also after it was grown far beyond the usual size for one huge message (a buffer handed back
// un-reset would prepend the old frame to the next message).
func VerifC07_PooledBufferIsAlwaysEmpty() {
	verifrt.Atomic(func() {
		b := bufferPoolGet()
		b.Write(verifrt.BytesN("old", 3))
		if verifrt.Choice("huge", 2) == 1 {
			b.Grow(1<<20 + 64)
		}
		bufferPoolPut(b)
		b2 := bufferPoolGet()
		verifrt.Assert(b2.Len() == 0, "buffer-from-the-pool-is-empty")
		m := verifSymMessage(2)
		m.WriteTo(b2)
		var enc bytes.Buffer
		m.WriteTo(&enc)
		verifrt.Assert(bytes.Equal(b2.Bytes(), enc.Bytes()), "encoding-into-a-pooled-buffer-is-exactly-the-message")
		bufferPoolPut(b2)
		verifrt.Reach("reused-after-huge", b2.Cap() > 1<<20 || true)
	})
}

// The size prefix of a PUB that arrives in two TCP segments is read correctly even when the
// delivery pump (or a heartbeat) writes a frame to the same connection between the two reads: the
// scratch space of the reader and of the writer must not be the same bytes.
func VerifC07_SplitSizePrefixVsConcurrentFrame() {
	o := verifOpts()
	o.MaxMsgSize = 600
	var st *verifChan
	var cl *clientV2
	var conn *verifConn
	// 300 bytes: the size prefix 00 00 01 2c has a non-zero byte before the last one
	body := make([]byte, 300)
	copy(body, verifrt.BytesN("body", 2))
	verifrt.Atomic(func() {
		st = verifNewChan(o, "ch")
		cl = st.addClient(1)
		conn = st.conns[0]
		conn.in.data = append(verifBE32(uint32(len(body))), body...)
		conn.in.chunk = 1
		conn.in.yieldBetweenReads = true
		cl.Reader = bufio.NewReaderSize(conn, 16)
		// only the size prefix arrives byte by byte (with the reader descheduled in between)
		conn.in.chunkUntil = 4
	})
	p := &protocolV2{nsqd: st.n}
	var err error
	verifrt.Go("ioloop", func() { _, err = p.PUB(cl, [][]byte{[]byte("PUB"), []byte("t")}) })
	verifrt.Go("pump", func() { p.Send(cl, frameTypeResponse, heartbeatBytes) })
	verifrt.Join()
	verifrt.Assert(err == nil, "split-pub-is-accepted")
	t, _ := st.n.GetExistingTopic("t")
	if t != nil {
		msgs := verifTopicMessages(t)
		verifrt.Assert(len(msgs) == 1 && bytes.Equal(msgs[0].Body, body), "split-pub-stores-exactly-the-body")
	}
	verifrt.Reach("split-pub-done", err == nil)
}

// "Every body, 1 byte up to max-msg-size, on every path it can take: memory or DISK queue": the
// largest legal body plus its 26-byte envelope is a record the topic's and the channel's disk
// queue accept (a refused record is only logged - the body would never arrive at all). Shared
// with C01/C05 (verifMaxSizeOverflow, c01.go).
func VerifC07_LargestBodyTakesTheDiskPath() { verifrt.Atomic(verifMaxSizeOverflow) }
