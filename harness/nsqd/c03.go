//go:build verif

package nsqd

import (
	"bufio"
	"time"

	"github.com/nsqio/nsq/internal/verifrt"
)

// IsReadyForMessages for every counter value: true => channel not paused, RDY > 0 and fewer
// messages outstanding than RDY. CLS forces RDY 0. The per-connection counters move by exactly
// one per transition.
func VerifC03_ReadinessPredicate() {
	verifrt.Atomic(func() {
		st := verifNewChan(verifOpts(), "ch")
		cl := st.addClient(1)
		cl.ReadyCount = verifrt.Int64("rdy")
		cl.InFlightCount = verifrt.Int64("inflight")
		paused := verifrt.Bool("paused")
		if paused {
			st.c.Pause()
		}
		ready := cl.IsReadyForMessages()
		if ready {
			verifrt.Assert(!paused, "ready-implies-not-paused")
			verifrt.Assert(cl.ReadyCount > 0 && cl.InFlightCount < cl.ReadyCount, "ready-implies-outstanding-below-rdy")
			verifrt.Reach("ready", true)
		} else {
			verifrt.Assert(paused || cl.ReadyCount <= 0 || cl.InFlightCount >= cl.ReadyCount, "not-ready-has-a-reason")
			verifrt.Reach("not-ready-at-limit", !paused && cl.ReadyCount > 0)
		}
		rdy, inf := cl.ReadyCount, cl.InFlightCount
		fin, req, msgs := cl.FinishCount, cl.RequeueCount, cl.MessageCount
		switch verifrt.Choice("transition", 5) {
		case 0:
			cl.SendingMessage()
			verifrt.Assert(cl.InFlightCount == inf+1 && cl.MessageCount == msgs+1 && cl.ReadyCount == rdy, "sending-counts-one")
		case 1:
			cl.FinishedMessage()
			verifrt.Assert(cl.InFlightCount == inf-1 && cl.FinishCount == fin+1 && cl.ReadyCount == rdy, "finished-counts-one")
		case 2:
			cl.RequeuedMessage()
			verifrt.Assert(cl.InFlightCount == inf-1 && cl.RequeueCount == req+1 && cl.ReadyCount == rdy, "requeued-counts-one")
		case 3:
			cl.TimedOutMessage()
			verifrt.Assert(cl.InFlightCount == inf-1 && cl.ReadyCount == rdy, "timed-out-counts-one")
		case 4:
			cl.StartClose()
			verifrt.Assert(cl.ReadyCount == 0 && cl.State == stateClosing, "cls-forces-rdy-zero")
			verifrt.Assert(!cl.IsReadyForMessages(), "closing-connection-is-never-ready")
		}
	})
}

// RDY range through the real handler for every number (shares the C09 harness body).
func VerifC03_RdyRange() { verifrt.Atomic(verifC09Rdy) }

// ONE iteration of the delivery pump (the real messagePump loop) from an arbitrary loop-head
// state: any RDY / in-flight counters, paused or not, flushed or not, a message waiting or not,
// a pending RDY/exit/heartbeat event or not, a failing connection or not. If a message frame is
// written in this iteration then, at the top of this same iteration, the connection was ready
// (not paused, outstanding < RDY); exactly one message is sent; it was registered in flight for
// this connection BEFORE the write, with attempts one higher; when not ready the pump stops
// selecting on the queues and flushes.
func VerifC03_PumpIteration() { verifrt.Atomic(func() { verifPumpIteration() }) }

type verifPumpObs struct {
	st                *verifChan
	cl                *clientV2
	conn              *verifConn
	msg               *Message
	registeredAtWrite int // -1 unknown, 0 no, 1 yes
}

func verifPumpIteration() {
	const fn = "(*github.com/nsqio/nsq/nsqd.protocolV2).messagePump"
	o := verifOpts()
	o.MemQueueSize = 2
	st := verifNewChan(o, "ch")
	cl := st.addClient(7)
	conn := st.conns[0]
	cl.Writer = bufio.NewWriterSize(conn, 16) // small: a message frame reaches the connection at once
	rdy := verifrt.Int64("rdy")
	inflight := verifrt.Int64("inflight")
	verifrt.Assume(rdy >= 0 && rdy <= 3 && inflight >= 0 && inflight <= 3)
	cl.ReadyCount, cl.InFlightCount = rdy, inflight
	paused := verifrt.Bool("paused")
	if paused {
		st.c.paused = 1
	}
	var waiting *Message
	if verifrt.Bool("message-waiting") {
		waiting = verifMsg("w", 1)
		st.c.memoryMsgChan <- waiting
	}
	if verifrt.Bool("rdy-event") {
		cl.ReadyStateChan <- 1
	}
	exitEvent := verifrt.Bool("exit-event")
	if exitEvent {
		close(cl.ExitChan)
	}
	conn.out.fail = verifrt.Bool("conn-write-fails")
	subscribed := verifrt.Bool("subscribed")
	flushed := verifrt.Bool("flushed")
	msgTimeout := verifrt.Duration("msgTimeout")
	verifrt.Assume(msgTimeout >= time.Second && msgTimeout <= 15*time.Minute)
	hb := make(chan time.Time, 1)
	if verifrt.Bool("heartbeat-due") {
		hb <- time.Time{}
	}
	var hbRO <-chan time.Time = hb
	var sub *Channel
	if subscribed {
		sub = st.c
	}
	preAttempts := uint16(0)
	if waiting != nil {
		preAttempts = waiting.Attempts
	}
	preMsgCount := cl.MessageCount
	// observe the in-flight registration at the moment the frame reaches the connection
	registered := -1
	conn.onWrite = func(p []byte) {
		if waiting != nil && registered < 0 && len(conn.out.data) >= 0 {
			if m, ok := st.c.inFlightMessages[waiting.ID]; ok && m == waiting && m.clientID == cl.ID {
				registered = 1
			} else {
				registered = 0
			}
		}
	}
	p := &protocolV2{nsqd: st.n}
	started := make(chan bool)
	var returned bool
	if verifrt.Symbolic() {
		verifrt.LoopHavoc(fn, 0, "subChannel", sub)
		verifrt.LoopHavoc(fn, 0, "flushed", flushed)
		verifrt.LoopHavoc(fn, 0, "msgTimeout", msgTimeout)
		verifrt.LoopHavoc(fn, 0, "heartbeatChan", hbRO)
		returned = verifrt.LoopStep(func() { p.messagePump(cl, started) })
	} else {
		// native replay: reach the same loop-head state through the real entry (the subscription
		// and msg timeout arrive as the events the pump expects), let the pump run, then stop it
		cl.MsgTimeout = msgTimeout
		if sub != nil {
			cl.SubEventChan <- sub
		}
		done := make(chan struct{})
		go func() { p.messagePump(cl, started); close(done) }()
		<-started
		time.Sleep(150 * time.Millisecond)
		select {
		case <-cl.ExitChan:
		default:
			close(cl.ExitChan)
		}
		select {
		case <-done:
		case <-time.After(2 * time.Second):
		}
		returned = true
	}

	readyAtTop := subscribed && !paused && rdy > 0 && inflight < rdy
	sent := cl.MessageCount - preMsgCount
	verifrt.Assert(sent <= 1, "at-most-one-message-per-iteration")
	if sent == 1 {
		verifrt.Assert(readyAtTop, "message-sent-only-when-ready-at-top-of-iteration")
		verifrt.Assert(waiting != nil && waiting.Attempts == preAttempts+1, "delivery-increments-attempts-by-one")
		w := st.locate(waiting.ID)
		verifrt.Assert(w.inFlight == 1 && w.heap == 1 && w.memory == 0, "sent-message-is-in-flight")
		verifrt.Assert(waiting.clientID == cl.ID, "sent-message-owned-by-this-connection")
		verifrt.Assert(waiting.pri == verifrt.LastNow()+int64(msgTimeout) || waiting.pri-int64(msgTimeout) <= verifrt.LastNow(), "deadline-is-delivery-time-plus-msg-timeout")
		verifrt.Assert(cl.InFlightCount == inflight+1, "in-flight-count-incremented-before-send")
		if registered >= 0 {
			verifrt.Assert(registered == 1, "registered-in-flight-before-written-to-connection")
		}
		if conn.out.fail {
			verifrt.Assert(returned, "send-error-ends-the-pump")
			verifrt.Reach("sym:send-failed-message-still-in-flight", w.inFlight == 1)
		}
		verifrt.Reach("message-sent", !conn.out.fail && !exitEvent)
	} else if waiting != nil {
		w := st.locate(waiting.ID)
		verifrt.Assert(w.total() == 1 && w.memory == 1, "unsent-message-stays-queued")
		verifrt.Assert(waiting.Attempts == preAttempts, "unsent-message-keeps-attempts")
	}
	if verifrt.Symbolic() && !returned && !readyAtTop && !verifrt.LoopBlocked() {
		verifrt.Assert(verifrt.LoopPostBool("flushed"), "not-ready-forces-flush")
		verifrt.Reach("sym:not-ready-iteration", waiting != nil)
	}
	if verifrt.Symbolic() {
		verifrt.Reach("sym:iteration-ends-waiting", verifrt.LoopBlocked())
	}
	_ = started
}

// FIN through the real handler from any valid channel state (shares the answer-step harness): the
// connection's in-flight count drops only for an accepted FIN; a refused (late, foreign, duplicate)
// FIN changes no counter, so it cannot buy extra RDY credit.
func VerifC03_FinCounters() { verifrt.Atomic(func() { verifAnswerStep(0) }) }

// Topic pause against the REAL topic pump goroutine (all interleavings of the pump with the
// operations below, bounded preemptions): a paused topic hands nothing to its channels - whether it
// was paused before or after Start (restart of a topic persisted as paused) - keeps accepting
// publishes, and delivers them once unpaused.
func VerifC03_TopicPause() {
	o := verifOpts()
	o.MemQueueSize = 2
	n := verifShellNSQD(o)
	verifrt.StubNative("(*github.com/nsqio/nsq/nsqd.NSQD).Notify", verifNotifyNop)
	var t *Topic
	var ch *Channel
	verifrt.Atomic(func() {
		t = NewTopic("t", n, func(*Topic) {})
	})
	ch = t.GetChannel("ch") // handshake with the pump's pre-start loop
	pauseFirst := verifrt.Choice("pause-before-start", 2) == 1
	if pauseFirst {
		t.Pause()
		t.Start()
	} else {
		t.Start()
		t.Pause()
	}
	m := verifMsg("p", 1)
	verifrt.Assert(t.PutMessage(m) == nil, "paused-topic-accepts-publish")
	verifrt.Join()
	verifrt.Assert(ch.Depth() == 0 && len(ch.inFlightMessages) == 0, "paused-topic-hands-nothing-to-channels")
	verifrt.Assert(t.Depth() == 1, "paused-topic-keeps-the-message")
	t.UnPause()
	verifrt.Join()
	verifrt.Assert(ch.Depth() == 1 && t.Depth() == 0, "unpaused-topic-delivers")
	verifrt.Reach("paused-before-start", pauseFirst)
	verifrt.Reach("paused-after-start", !pauseFirst)
}

// The REAL delivery pump goroutine through a bounded history of consumer events (RDY n, CLS,
// channel pause / unpause, publish, FIN), one event at a time with everything at rest in between
// (canonical schedule): after every event the number of messages the pump sent is EXACTLY what the
// statement allows - min(queued, RDY - outstanding) when the channel is not paused and the
// consumer has not sent CLS, none otherwise. In particular a RDY decrease, CLS or pause that
// arrives while the pump is parked in its select takes effect before the next message, and a
// raise / unpause resumes delivery. Runs without topology awareness, and with the topology
// experiment for a zone-local and a region-local consumer (messages are then handed over on the
// unbuffered zone / region channels).
func VerifC03_PumpHistory() { verifPumpHistory() }

func verifPumpHistory() {
	o := verifOpts()
	o.MemQueueSize = 4
	topo := verifrt.Choice("topology", 3) // 0 off, 1 zone-local consumer, 2 region-local consumer
	if topo > 0 {
		o.Experiments = []string{string(TopologyAwareConsumption)}
		o.TopologyRegion, o.TopologyZone = "r1", "z1"
	}
	verifrt.Preemptions(0)
	// disk-backed: mem-queue-size 0, every message goes through the channel's disk queue and comes
	// back on its read channel (only without topology awareness, to keep the product small)
	diskBacked := topo == 0 && verifrt.Choice("disk-backed", 2) == 1
	if diskBacked {
		o.MemQueueSize = 0
	}
	var st *verifChan
	var cl *clientV2
	var feed *verifFeedBackend
	verifrt.Atomic(func() {
		verifConcreteIDs, verifIDSeq = true, 0
		st = verifNewChan(o, "ch")
		cl = st.addClient(7)
		cl.State = stateInit
		if diskBacked {
			feed = newVerifFeedBackend()
			st.c.backend = feed
		}
	})
	if verifrt.Symbolic() {
		verifTickC = make(chan time.Time)
		verifrt.Stub("time.NewTicker", verifNewTickerStub)
		verifrt.Stub("(*time.Ticker).Stop", verifTickerStopStub)
	}
	p := &protocolV2{nsqd: st.n}
	started := make(chan bool)
	go p.messagePump(cl, started)
	<-started
	ev := identifyEvent{OutputBufferTimeout: 250 * time.Millisecond, HeartbeatInterval: 30 * time.Second, MsgTimeout: time.Minute}
	switch topo {
	case 1:
		ev.TopologyRegion, ev.TopologyZone = "r1", "z1"
	case 2:
		ev.TopologyRegion, ev.TopologyZone = "r1", "z9"
	}
	cl.IdentifyEventChan <- ev
	verifrt.Rest()
	// start: plain; the channel was paused BEFORE this consumer subscribed; or the consumer is
	// already at its RDY limit (RDY 1, one message outstanding)
	start := verifrt.Choice("start", 3)
	if start == 1 {
		// paused while this consumer is not yet on the channel: it joins a paused channel
		st.c.RemoveClient(cl.ID)
		st.c.Pause()
		st.c.AddClient(cl.ID, cl)
	}
	cl.Channel = st.c
	cl.State = stateSubscribed
	cl.SubEventChan <- st.c
	verifrt.Rest()
	var held []*Message
	closing := false
	if start == 2 {
		p.RDY(cl, [][]byte{[]byte("RDY"), []byte("1")})
		m0 := verifMsg("p0", 1)
		st.c.PutMessage(m0)
		held = append(held, m0)
		verifrt.Rest()
		verifrt.Assert(cl.MessageCount == 1 && cl.InFlightCount == 1, "prefix:consumer-at-its-rdy-limit")
	}
	steps := verifrt.Bound("pump-history-steps", 3, 4)
	seq := 0
	for s := 0; s < steps; s++ {
		sentBefore := cl.MessageCount
		queuedBefore := st.c.Depth()
		published := int64(0)
		switch verifrt.Choice("event", 8) {
		case 0: // RDY n
			nrdy := []string{"0", "1", "2"}[verifrt.Choice("rdy", 3)]
			p.RDY(cl, [][]byte{[]byte("RDY"), []byte(nrdy)})
		case 1: // publish one message to the channel
			seq++
			m := verifMsg("p", 1)
			// with topology awareness put() hands the message straight to a pump that selects on the
			// zone / region channel; otherwise it is queued
			st.c.PutMessage(m)
			held = append(held, m)
			published = 1
		case 2: // FIN the oldest message the consumer holds
			for _, m := range held {
				if x, ok := st.c.inFlightMessages[m.ID]; ok && x.clientID == cl.ID {
					id := m.ID
					p.FIN(cl, [][]byte{[]byte("FIN"), id[:]})
					break
				}
			}
		case 3:
			if !closing {
				p.CLS(cl, [][]byte{[]byte("CLS")})
				closing = true
			}
		case 4:
			st.c.Pause()
		case 5:
			st.c.UnPause()
		case 6: // the channel is emptied: outstanding messages are gone, the subscription stays
			st.c.Empty()
			queuedBefore = 0
		case 7: // every outstanding message times out: back on the queue, to be delivered again
			st.c.processInFlightQueue(int64(3500000000000000000))
			queuedBefore = st.c.Depth()
		}
		// state after the event, before the pump reacts (nothing else runs until Rest)
		rdy, out := cl.ReadyCount, cl.InFlightCount
		paused := st.c.IsPaused()
		sentDuringEvent := int64(cl.MessageCount - sentBefore) // hand-over inside PutMessage (topology channels)
		verifrt.Rest()
		sent := int64(cl.MessageCount - sentBefore)
		allowed := int64(0)
		if !paused && !closing && rdy > 0 && rdy > out-sentDuringEvent {
			allowed = rdy - (out - sentDuringEvent)
		}
		avail := queuedBefore + published
		want := allowed
		if avail < want {
			want = avail
		}
		verifrt.Assert(sent <= allowed, "never-more-than-rdy-allows-and-nothing-when-rdy0-cls-or-paused")
		verifrt.Assert(sent == want, "delivers-exactly-what-flow-control-allows")
		verifrt.Assert(cl.InFlightCount == int64(len(st.c.inFlightMessages)), "outstanding-count-equals-messages-held")
	}
	verifrt.Reach("history-with-delivery", cl.MessageCount > 0)
	verifrt.Reach("history-with-cls", closing)
	close(cl.ExitChan)
	if feed != nil {
		feed.Close()
	}
	verifrt.Rest()
}

// Pause / unpause over HTTP have exactly their stated effect whatever the names and extra
// arguments look like (shared with C10).
func VerifC03_PauseEndpoints() { verifrt.Atomic(verifC10Admin) }

// The RDY count reaches the range check through the decimal parser: "RDY n is refused above
// max-rdy-count" holds for numbers of ANY length only if the parser never hands back a wrapped
// value (RDY 2^64+1 must not be honoured as RDY 1). The parser's inductive loop-step lemma
// (c04.go) is therefore part of this property's check too.
func VerifC03_RdyCountParserLoopStep() { VerifC04_Base10LoopStep() }
