//go:build verif

package nsqd

import "io"

func verifEOF() error { return io.EOF }
