//go:build verif

package nsqd

import "io"

func verifEOF() error { return io.EOF }

func verifWriteFile(name string, data []byte) { osWriteFile(name, data) }
