//go:build verif

package nsqd

import "os"

func osWriteFile(name string, data []byte) { os.WriteFile(name, data, 0600) }
