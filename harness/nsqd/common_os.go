//go:build verif

package nsqd

import "os"

func osWriteFile(name string, data []byte) { os.WriteFile(name, data, 0600) }

func verifFileExists(name string) bool {
	fi, err := os.Stat(name)
	return err == nil && fi.Size() > 0
}
