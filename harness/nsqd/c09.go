//go:build verif

package nsqd

import (
	"bytes"
	"encoding/json"
	"time"

	"github.com/nsqio/nsq/internal/protocol"
	"github.com/nsqio/nsq/internal/verifrt"
)

func verifErr(err error) (code string, fatal bool, child bool) {
	switch e := err.(type) {
	case *protocol.FatalClientErr:
		return e.Code, true, true
	case *protocol.ClientErr:
		return e.Code, false, true
	}
	return "", false, false
}

// reference name rule written from the protocol documentation
func verifValidNameRef(name []byte) bool {
	n := len(name)
	if n < 1 || n > 64 {
		return false
	}
	end := n
	suf := []byte("#ephemeral")
	if n >= len(suf) && bytes.Equal(name[n-len(suf):], suf) {
		end = n - len(suf)
	}
	if end == 0 {
		return false
	}
	ok := true
	for i := 0; i < end; i++ {
		c := name[i]
		good := c == '.' || c == '_' || c == '-' || (c >= 'a' && c <= 'z') || (c >= 'A' && c <= 'Z') || (c >= '0' && c <= '9')
		if !good {
			ok = false
		}
	}
	return ok
}

// topic content in publish order (memory queue then backend stub), without disturbing it
func verifTopicMessages(t *Topic) []*Message {
	var r []*Message
	k := len(t.memoryMsgChan)
	for i := 0; i < k; i++ {
		m := <-t.memoryMsgChan
		r = append(r, m)
		t.memoryMsgChan <- m
	}
	if be, ok := t.backend.(*verifBackend); ok {
		for _, raw := range be.items {
			if d, err := decodeMessage(raw); err == nil {
				r = append(r, d)
			}
		}
	}
	return r
}

func verifTopicCount(n *NSQD, name string) int {
	t, err := n.GetExistingTopic(name)
	if err != nil {
		return 0
	}
	return len(verifTopicMessages(t))
}

// Name rule: IsValidTopicName/IsValidChannelName agree with the documented rule for EVERY string
// up to the bound (the regexp is re-read from the source on every run), and > 64 chars is invalid.
func VerifC09_NameRule() {
	name := verifrt.Bytes("name", verifrt.Bound("name", 12, 16))
	got := protocol.IsValidTopicName(string(name))
	verifrt.Assert(got == verifValidNameRef(name), "topic-name-rule")
	verifrt.Assert(protocol.IsValidChannelName(string(name)) == got, "channel-rule-equals-topic-rule")
	verifrt.Reach("valid-ephemeral", got && len(name) > 10)
	verifrt.Reach("invalid", !got && len(name) > 0)
	long := make([]byte, 65)
	for i := range long {
		long[i] = 'a'
	}
	verifrt.Assert(!protocol.IsValidTopicName(string(long)), "65-chars-invalid")
	verifrt.Assert(protocol.IsValidTopicName(string(long[:64])), "64-chars-valid")
	// the 64-byte limit counts the whole name, "#ephemeral" suffix included: every total length
	// around the limit, with and without the suffix, with one symbolic character in the base
	total := 50 + verifrt.Choice("total-length", 30) // 50..79
	withSuffix := verifrt.Choice("ephemeral-suffix", 2) == 1
	nm := make([]byte, 0, 80)
	base := total
	if withSuffix {
		base = total - 10
	}
	ch := verifrt.Byte("base-char")
	for i := 0; i < base; i++ {
		if i == 1 {
			nm = append(nm, ch)
		} else {
			nm = append(nm, 'a')
		}
	}
	if withSuffix {
		nm = append(nm, []byte("#ephemeral")...)
	}
	verifrt.Assert(protocol.IsValidTopicName(string(nm)) == verifValidNameRef(nm), "name-length-limit-counts-the-ephemeral-suffix")
	verifrt.Assert(protocol.IsValidChannelName(string(nm)) == verifValidNameRef(nm), "channel-name-length-limit-counts-the-ephemeral-suffix")
	verifrt.Reach("overlong-ephemeral-name", withSuffix && total > 64)
	verifrt.Reach("longest-ephemeral-name", withSuffix && total == 64 && verifValidNameRef(nm))
}

// PUB / DPUB with ANY topic bytes, ANY 4-byte size and ANY following bytes (also truncated):
// accepted iff the name is valid, 1 <= size <= max-msg-size and the body is complete; then exactly
// one message whose body is exactly the bytes after the prefix is enqueued and exactly 4+size bytes
// are consumed. Otherwise a FATAL error with the documented code, nothing enqueued, and no
// allocation above max-msg-size happened before the refusal.
func VerifC09_PubFraming() { verifrt.Atomic(verifC09PubFraming) }

func verifC09PubFraming() {
	o := verifOpts()
	o.MaxMsgSize = 3
	o.MemQueueSize = 4
	n := verifShellNSQD(o)
	verifrt.AllocLimit(int(o.MaxMsgSize))
	topic := verifrt.Bytes("topic", 2)
	wire := verifrt.Bytes("wire", verifrt.Bound("wire", 8, 10))
	c, conn := verifClient(n, 1, wire)
	// the bytes arrive all at once, or one byte per read (several TCP segments)
	conn.in.chunk = verifrt.Choice("segment", 2)
	p := &protocolV2{nsqd: n}
	dpub := verifrt.Choice("cmd", 2) == 1
	var resp []byte
	var err error
	if dpub {
		resp, err = p.Exec(c, [][]byte{[]byte("DPUB"), topic, []byte("5")})
	} else {
		resp, err = p.Exec(c, [][]byte{[]byte("PUB"), topic})
	}
	nameOK := verifValidNameRef(topic)
	var size int32
	haveSize := len(wire) >= 4
	if haveSize {
		size = int32(uint32(wire[0])<<24 | uint32(wire[1])<<16 | uint32(wire[2])<<8 | uint32(wire[3]))
	}
	sizeOK := haveSize && size >= 1 && int64(size) <= o.MaxMsgSize
	complete := sizeOK && len(wire)-4 >= int(size)
	if nameOK && complete {
		verifrt.Assert(err == nil && string(resp) == "OK", "valid-pub-accepted")
		if err == nil {
			t, _ := n.GetExistingTopic(string(topic))
			msgs := verifTopicMessages(t)
			verifrt.Assert(len(msgs) == 1, "pub-enqueues-exactly-one")
			if len(msgs) == 1 {
				verifrt.Assert(bytes.Equal(msgs[0].Body, wire[4:4+int(size)]), "pub-body-is-the-bytes-on-the-wire")
				verifrt.Assert((msgs[0].deferred != 0) == dpub, "deferred-only-for-dpub")
				verifrt.Observe("body", msgs[0].Body)
			}
			// the rest of the stream is untouched: the next read continues right after the body
			nRest := len(wire) - 4 - int(size)
			for i := 0; i < nRest; i++ {
				b, e := c.Reader.ReadByte()
				verifrt.Assert(e == nil && b == wire[4+int(size)+i], "pub-consumes-exactly-prefix-and-body")
			}
			verifrt.Reach("accepted-with-trailing-bytes", nRest > 0)
		}
		return
	}
	code, fatal, child := verifErr(err)
	verifrt.Assert(err != nil && child, "rejection-is-a-protocol-error")
	verifrt.Assert(fatal, "pub-rejection-is-fatal")
	ok := (!nameOK && code == "E_BAD_TOPIC") || (!complete && code == "E_BAD_MESSAGE")
	verifrt.Assert(ok, "pub-rejection-code-matches-an-invalid-aspect")
	verifrt.Assert(verifTopicCount(n, string(topic)) == 0, "rejected-pub-enqueues-nothing")
	verifrt.Reach("bad-topic", !nameOK)
	verifrt.Reach("negative-size", nameOK && haveSize && size < 0)
	verifrt.Reach("oversize", nameOK && haveSize && int64(size) > o.MaxMsgSize)
	verifrt.Reach("truncated-body", nameOK && sizeOK && !complete)
}

// MPUB with ANY sizes/counts/bytes: all-or-nothing. Valid batches enqueue exactly their messages in
// order; anything else is a fatal E_BAD_BODY / E_BAD_MESSAGE and enqueues nothing. The whole batch
// (count word and framed messages) must fit max-body-size.
func VerifC09_MpubAllOrNothing() { verifrt.Atomic(verifC09Mpub) }

func verifBE(b []byte) int32 {
	return int32(uint32(b[0])<<24 | uint32(b[1])<<16 | uint32(b[2])<<8 | uint32(b[3]))
}

func verifC09Mpub() {
	o := verifOpts()
	o.MaxMsgSize = 2
	o.MaxBodySize = 14 // 4 (count) + two framed 1-byte messages (5 each) = 14
	o.MemQueueSize = 4
	n := verifShellNSQD(o)
	verifrt.AllocLimit(int(o.MaxBodySize))
	wire := verifrt.Bytes("wire", verifrt.Bound("wire", 20, 22))
	c, conn := verifClient(n, 1, wire)
	conn.in.chunk = verifrt.Choice("segment", 2)
	p := &protocolV2{nsqd: n}
	resp, err := p.Exec(c, [][]byte{[]byte("MPUB"), []byte("t")})

	// reference parse, from the protocol description
	pos := 0
	valid := true
	badBody, badMsg := false, false
	var bodies [][]byte
	var count int32
	if len(wire) < 8 {
		valid, badBody = false, true
	} else {
		bodyLen := verifBE(wire[0:4])
		count = verifBE(wire[4:8])
		pos = 8
		if bodyLen <= 0 || int64(bodyLen) > o.MaxBodySize || count <= 0 || int64(count) > (o.MaxBodySize-4)/5 {
			valid, badBody = false, true
		}
	}
	// every invalid aspect is collected (the order in which nsqd checks them is not pinned)
	total := int64(4)
	for i := int32(0); valid && i < count; i++ {
		if len(wire)-pos < 4 {
			valid, badMsg = false, true
			break
		}
		sz := verifBE(wire[pos : pos+4])
		pos += 4
		if sz <= 0 || int64(sz) > o.MaxMsgSize {
			valid, badMsg = false, true
			break
		}
		total += 4 + int64(sz)
		if total > o.MaxBodySize {
			badBody = true
		}
		if len(wire)-pos < int(sz) {
			valid, badMsg = false, true
			break
		}
		bodies = append(bodies, wire[pos:pos+int(sz)])
		pos += int(sz)
	}
	if badBody {
		valid = false
	}
	if valid {
		verifrt.Assert(err == nil && string(resp) == "OK", "valid-mpub-accepted")
		if err == nil {
			t, _ := n.GetExistingTopic("t")
			msgs := verifTopicMessages(t)
			verifrt.Assert(len(msgs) == len(bodies), "mpub-enqueues-every-message")
			if len(msgs) == len(bodies) {
				for i := range bodies {
					verifrt.Assert(bytes.Equal(msgs[i].Body, bodies[i]), "mpub-bodies-in-order")
				}
			}
			verifrt.Reach("two-messages", len(bodies) == 2)
		}
		return
	}
	code, fatal, child := verifErr(err)
	verifrt.Assert(err != nil && child && fatal, "mpub-rejection-is-fatal-protocol-error")
	verifrt.Assert((badBody && code == "E_BAD_BODY") || (badMsg && code == "E_BAD_MESSAGE"), "mpub-rejection-code-matches-an-invalid-aspect")
	verifrt.Assert(verifTopicCount(n, "t") == 0, "rejected-mpub-enqueues-nothing")
	verifrt.Reach("second-message-bad", badMsg && len(bodies) == 1)
	verifrt.Reach("batch-exceeds-body-limit", badBody && len(bodies) > 0)
}

// Command dispatch in every connection state: unknown keywords, commands out of state, missing
// params and wrong-length ids are fatal E_INVALID; nothing panics; every error implements ChildErr
// (IOLoop type-asserts it without a check).
func VerifC09_StateMachine() { verifrt.Atomic(verifC09State) }

func verifC09State() {
	o := verifOpts()
	st := verifNewChan(o, "ch")
	cl := st.addClient(1)
	state := int32(verifrt.Choice("state", 3)) // init, subscribed(=3?), closing
	switch state {
	case 0:
		cl.State = stateInit
		cl.Channel = nil
	case 1:
		cl.State = stateSubscribed
	case 2:
		cl.State = stateClosing
	}
	kws := []string{"FIN", "RDY", "REQ", "NOP", "TOUCH", "CLS", "SUB", "XYZ"}
	kw := kws[verifrt.Choice("kw", len(kws))]
	np := verifrt.Choice("nparams", 3)
	params := [][]byte{[]byte(kw)}
	for i := 0; i < np; i++ {
		params = append(params, verifrt.Bytes("param", 2))
	}
	p := &protocolV2{nsqd: st.n}
	var resp []byte
	var err error
	panicked := verifrt.Panics(func() { resp, err = p.Exec(cl, params) })
	verifrt.Assert(!panicked, "exec-never-panics")
	if panicked {
		return
	}
	code, fatal, child := verifErr(err)
	if err != nil {
		verifrt.Assert(child, "every-exec-error-implements-ChildErr")
	}
	inSub := state == 1
	inSubOrClosing := state == 1 || state == 2
	switch kw {
	case "XYZ":
		verifrt.Assert(fatal && code == "E_INVALID", "unknown-command-is-E_INVALID")
	case "NOP":
		verifrt.Assert(err == nil && resp == nil, "nop-no-response")
	case "CLS":
		if inSub {
			verifrt.Assert(err == nil && string(resp) == "CLOSE_WAIT", "cls-close-wait")
			verifrt.Assert(cl.ReadyCount == 0 && cl.State == stateClosing, "cls-forces-rdy-0-and-closing")
		} else {
			verifrt.Assert(fatal && code == "E_INVALID", "cls-out-of-state-is-E_INVALID")
		}
	case "FIN", "TOUCH", "REQ":
		// params here are at most 2 bytes: never a valid 16-byte id
		verifrt.Assert(fatal && code == "E_INVALID", "answer-out-of-state-or-malformed-is-E_INVALID")
		verifrt.Reach("answer-in-init-state", !inSubOrClosing)
	case "RDY":
		if state == 2 {
			verifrt.Assert(err == nil || (fatal && code == "E_INVALID"), "rdy-when-closing-ignored")
			verifrt.Assert(cl.ReadyCount == 2 || true, "noop")
		} else if !inSub {
			verifrt.Assert(fatal && code == "E_INVALID", "rdy-out-of-state-is-E_INVALID")
		}
	case "SUB":
		if state != 0 {
			verifrt.Assert(fatal && code == "E_INVALID", "sub-out-of-state-is-E_INVALID")
		} else if np < 2 {
			verifrt.Assert(fatal && code == "E_INVALID", "sub-missing-params-is-E_INVALID")
		}
	}
}

// RDY: accepted iff subscribed and 0 <= count <= max-rdy-count, for every number however written;
// then the connection's ready count is exactly that number. Otherwise fatal E_INVALID and the ready
// count is unchanged.
func VerifC09_RdyRange() { verifrt.Atomic(verifC09Rdy) }

func verifC09Rdy() {
	o := verifOpts()
	o.MaxRdyCount = int64(verifrt.Choice("maxRdy", 3)) * 1250 // 0, 1250, 2500
	st := verifNewChan(o, "ch")
	cl := st.addClient(1)
	cl.ReadyCount = 7
	count, digits := verifNumber("count")
	p := &protocolV2{nsqd: st.n}
	resp, err := p.Exec(cl, [][]byte{[]byte("RDY"), digits})
	if count <= uint64(o.MaxRdyCount) {
		verifrt.Assert(err == nil && resp == nil, "rdy-in-range-accepted")
		verifrt.Assert(cl.ReadyCount == int64(count), "rdy-sets-ready-count")
		verifrt.Reach("rdy-accepted", count > 0)
	} else {
		code, fatal, _ := verifErr(err)
		verifrt.Assert(fatal && code == "E_INVALID", "rdy-out-of-range-is-fatal-E_INVALID")
		verifrt.Assert(cl.ReadyCount == 7, "rdy-rejected-leaves-ready-count")
		verifrt.Reach("rdy-beyond-int64", count > 1<<63)
	}
}

// DPUB with any decimal delay: out-of-range is a FATAL E_INVALID (the body that follows on the wire
// must not be parsed as commands), nothing is created; in range is accepted with the exact delay.
func VerifC09_DpubDelayRange() { verifrt.Atomic(verifC04DPUBRange) }

// IDENTIFY option ranges, for EVERY value: heartbeat_interval (-1 off, 0 default, else 1000 ms ..
// max-heartbeat-interval), output_buffer_size (-1 off, 0 default, else 64 .. max-output-buffer-size),
// output_buffer_timeout (-1 off, 0 default, else min .. max-output-buffer-timeout), sample_rate
// (0..99) and msg_timeout (0 default, else 1000 ms .. max-msg-timeout). The real clientV2.Identify
// accepts exactly the in-range combinations and then holds exactly the requested values.
func VerifC09_IdentifyOptionRanges() { verifrt.Atomic(verifC09IdentifyRanges) }

func verifC09IdentifyRanges() {
	o := verifOpts()
	// the limits are distinct numbers so that no range can be mistaken for another
	o.MaxHeartbeatInterval = 61 * time.Second
	o.MaxOutputBufferSize = 4096
	o.MinOutputBufferTimeout = 25 * time.Millisecond
	o.MaxOutputBufferTimeout = 31 * time.Second
	o.MaxMsgTimeout = 16 * time.Minute
	o.MaxReqTimeout = 2 * time.Hour
	n := verifShellNSQD(o)
	cl, _ := verifClient(n, 1, nil)
	d := identifyDataV2{
		HeartbeatInterval: verifrt.Int("heartbeat_interval"),
		// the buffer size becomes an allocation: boundary values instead of a symbolic length
		OutputBufferSize:    []int{-2, -1, 0, 63, 64, 4096, 4097}[verifrt.Choice("output_buffer_size", 7)],
		OutputBufferTimeout: verifrt.Int("output_buffer_timeout"),
		SampleRate:          verifrt.Int32("sample_rate"),
		MsgTimeout:          verifrt.Int("msg_timeout"),
	}
	preHB, preMT := cl.HeartbeatInterval, cl.MsgTimeout
	err := cl.Identify(d)
	ms := func(x time.Duration) int { return int(x / time.Millisecond) }
	hbOK := d.HeartbeatInterval == -1 || d.HeartbeatInterval == 0 || (d.HeartbeatInterval >= 1000 && d.HeartbeatInterval <= ms(o.MaxHeartbeatInterval))
	obtOK := d.OutputBufferTimeout == -1 || d.OutputBufferTimeout == 0 || (d.OutputBufferTimeout >= ms(o.MinOutputBufferTimeout) && d.OutputBufferTimeout <= ms(o.MaxOutputBufferTimeout))
	obsOK := d.OutputBufferSize == -1 || d.OutputBufferSize == 0 || (d.OutputBufferSize >= 64 && int64(d.OutputBufferSize) <= o.MaxOutputBufferSize)
	srOK := d.SampleRate >= 0 && d.SampleRate <= 99
	mtOK := d.MsgTimeout == 0 || (d.MsgTimeout >= 1000 && d.MsgTimeout <= ms(o.MaxMsgTimeout))
	allOK := hbOK && obtOK && obsOK && srOK && mtOK
	verifrt.Assert((err == nil) == allOK, "identify-accepts-exactly-the-in-range-options")
	if err == nil {
		switch {
		case d.HeartbeatInterval == -1:
			verifrt.Assert(cl.HeartbeatInterval == 0, "heartbeat-disabled")
		case d.HeartbeatInterval == 0:
			verifrt.Assert(cl.HeartbeatInterval == preHB, "heartbeat-default-kept")
		default:
			verifrt.Assert(cl.HeartbeatInterval == time.Duration(d.HeartbeatInterval)*time.Millisecond, "heartbeat-as-requested")
		}
		if d.MsgTimeout == 0 {
			verifrt.Assert(cl.MsgTimeout == preMT, "msg-timeout-default-kept")
		} else {
			verifrt.Assert(cl.MsgTimeout == time.Duration(d.MsgTimeout)*time.Millisecond, "msg-timeout-as-requested")
			verifrt.Assert(cl.MsgTimeout <= o.MaxMsgTimeout, "msg-timeout-never-above-max-msg-timeout")
		}
		verifrt.Assert(cl.SampleRate == d.SampleRate, "sample-rate-as-requested")
		verifrt.Reach("identify-accepted-with-custom-msg-timeout", d.MsgTimeout > 1000)
	}
	verifrt.Reach("identify-refused-msg-timeout-above-max", !mtOK && hbOK && obtOK && obsOK && srOK)
}

// Message ids in FIN / REQ / TOUCH are exactly 16 bytes: any other length (shorter, or a held id
// with extra bytes appended) is the fatal E_INVALID and changes nothing - in particular a command
// whose id merely STARTS with the id of a held message does not act on that message.
func VerifC09_MessageIDLength() { verifrt.Atomic(verifC09IDLength) }

func verifC09IDLength() {
	o := verifOpts()
	verifConcreteIDs, verifIDSeq = true, 0
	st := verifNewChan(o, "ch")
	cl := st.addClient(1)
	st.populate(1, 0, 0, 0, 1)
	held := st.inFlight[0]
	n := 12 + verifrt.Choice("id-length", 9) // 12..20 bytes
	id := make([]byte, n)
	for i := range id {
		if i < 16 {
			id[i] = held.ID[i] // a prefix of / the held id ...
		} else {
			id[i] = verifrt.Byte("extra") // ... followed by arbitrary bytes
		}
	}
	kw := []string{"FIN", "REQ", "TOUCH"}[verifrt.Choice("kw", 3)]
	// a consumer that has sent CLS still answers for the messages it holds
	if verifrt.Choice("after-cls", 2) == 1 {
		cl.State = stateClosing
	}
	params := [][]byte{[]byte(kw), id}
	if kw == "REQ" {
		params = append(params, []byte("0"))
	}
	prePri, preCount := held.pri, cl.InFlightCount
	p := &protocolV2{nsqd: st.n}
	_, err := p.Exec(cl, params)
	if n == 16 {
		verifrt.Assert(err == nil, "well-formed-answer-for-a-held-message-is-accepted")
		verifrt.Reach("exact-id-accepted", true)
		return
	}
	code, fatal, _ := verifErr(err)
	verifrt.Assert(fatal && code == "E_INVALID", "wrong-length-message-id-is-fatal-E_INVALID")
	w := st.locate(held.ID)
	verifrt.Assert(w.inFlight == 1 && w.heap == 1 && w.total() == 1 && held.pri == prePri && cl.InFlightCount == preCount, "wrong-length-message-id-changes-nothing")
	verifrt.Reach("overlong-id-refused", n > 16)
	verifrt.Reach("short-id-refused", n < 16)
}

// Short names exhaustively (up to 3 arbitrary bytes, with or without "#ephemeral"); separate from
// VerifC09_NameRule so that a branching hand-written validator cannot make it explode.
func VerifC09_ShortNameRule() {
	base := verifrt.Bytes("base", 3)
	name := base
	if verifrt.Choice("ephemeral-suffix", 2) == 1 {
		name = append(append([]byte{}, base...), []byte("#ephemeral")...)
	}
	got := protocol.IsValidTopicName(string(name))
	verifrt.Assert(got == verifValidNameRef(name), "short-name-rule")
	verifrt.Assert(protocol.IsValidChannelName(string(name)) == got, "short-channel-rule-equals-topic-rule")
	verifrt.Reach("bare-suffix-refused", len(base) == 0 && len(name) > 0 && !got)
	verifrt.Reach("short-ephemeral-accepted", len(base) > 0 && len(name) > 10 && got)
}

// The command loop itself (real IOLoop with its delivery pump goroutine) over a line with ANY
// ending: "NOP" followed by up to 2 arbitrary bytes and the newline. Exactly one optional '\r'
// before the '\n' belongs to the line ending; the command is the first space-separated token of
// what remains. If that is NOP nothing is answered and the connection stays; anything else
// ("NOP\r", "NOPx", ...) is an unknown command: fatal E_INVALID, connection closed.
func VerifC09_IOLoopLineEndings() {
	o := verifOpts()
	n := verifShellNSQD(o)
	verifrt.StubNative("(*github.com/nsqio/nsq/nsqd.NSQD).Notify", verifNotifyNop)
	verifrt.Preemptions(0)
	if verifrt.Symbolic() {
		verifTickC = make(chan time.Time)
		verifrt.Stub("time.NewTicker", verifNewTickerStub)
		verifrt.Stub("(*time.Ticker).Stop", verifTickerStopStub)
	}
	tail := verifrt.Bytes("tail", 2)
	for _, b := range tail {
		verifrt.Assume(b != '\n')
	}
	wire := append(append([]byte("NOP"), tail...), '\n')
	cl, conn := verifClient(n, 1, wire)
	conn.in.err = errEOFVerif
	p := &protocolV2{nsqd: n}
	err := p.IOLoop(cl)
	verifrt.Rest()
	// reference
	line := append([]byte("NOP"), tail...)
	if len(line) > 0 && line[len(line)-1] == '\r' {
		line = line[:len(line)-1]
	}
	first := line
	for i, b := range line {
		if b == ' ' {
			first = line[:i]
			break
		}
	}
	isNop := string(first) == "NOP"
	cl.writeLock.Lock()
	cl.Flush()
	cl.writeLock.Unlock()
	if isNop {
		verifrt.Assert(err == nil && len(conn.out.data) == 0, "nop-with-a-proper-line-ending-answers-nothing")
		verifrt.Reach("nop-crlf", len(tail) == 1 && tail[0] == '\r')
	} else {
		verifrt.Assert(err != nil, "unknown-command-ends-the-connection")
		want := []byte("E_INVALID")
		got := conn.out.data
		verifrt.Assert(len(got) >= 8+len(want) && got[7] == byte(frameTypeError) && bytes.Equal(got[8:8+len(want)], want), "unknown-command-is-answered-E_INVALID")
		verifrt.Reach("double-cr-is-not-a-line-ending", len(tail) == 2 && tail[0] == '\r' && tail[1] == '\r')
	}
}

// A command line longer than the connection's read buffer is never executed: the connection is
// ended (the 16 KiB line limit; here a 16-byte reader and a 20-byte "NOP   ..." line).
func VerifC09_OversizedLineEndsTheConnection() {
	o := verifOpts()
	n := verifShellNSQD(o)
	verifrt.StubNative("(*github.com/nsqio/nsq/nsqd.NSQD).Notify", verifNotifyNop)
	verifrt.Preemptions(0)
	if verifrt.Symbolic() {
		verifTickC = make(chan time.Time)
		verifrt.Stub("time.NewTicker", verifNewTickerStub)
		verifrt.Stub("(*time.Ticker).Stop", verifTickerStopStub)
	}
	pad := 14 + verifrt.Choice("padding", 6) // line of 17..22 bytes + newline: always above the 16-byte buffer
	wire := []byte("NOP")
	for i := 0; i < pad; i++ {
		wire = append(wire, ' ')
	}
	wire = append(wire, '\n')
	wire = append(wire, []byte("PUB t\n")...)
	wire = append(wire, append(verifBE32(1), 'x')...)
	cl, conn := verifClient(n, 1, wire)
	conn.in.err = errEOFVerif
	p := &protocolV2{nsqd: n}
	err := p.IOLoop(cl)
	verifrt.Rest()
	verifrt.Assert(err != nil, "oversized-command-line-ends-the-connection")
	_, terr := n.GetExistingTopic("t")
	verifrt.Assert(terr != nil, "nothing-after-an-oversized-line-is-executed")
	verifrt.Reach("oversized-line-refused", err != nil)
}

// IDENTIFY feature negotiation, compression level: "nsqd stays up" for every deflate_level a
// client asks for. compress/flate knows levels -2..9 only (NewWriter returns NO writer for any
// other, and the next flush through it would take the whole process down), so the level the real
// IDENTIFY hands to UpgradeDeflate must be within 1..max-deflate-level for EVERY requested value:
// the requested level if positive, else 6, and never above --max-deflate-level (1..9 by option
// validation). The decoded IDENTIFY body is an arbitrary identifyDataV2 (symbolically the json
// decoder is replaced by its contract: it yields the struct; natively the body is that struct's
// real JSON); UpgradeDeflate is replaced by a recorder.
func VerifC09_IdentifyDeflateLevel() { verifrt.Atomic(verifC09Deflate) }

var verifDeflateLevels []int

func verifUpgradeDeflateRec(c *clientV2, level int) error {
	verifDeflateLevels = append(verifDeflateLevels, level)
	return nil
}

func verifC09Deflate() {
	o := verifOpts()
	o.DeflateEnabled = verifrt.Choice("deflate-enabled", 4) != 0
	o.SnappyEnabled = true
	o.MaxBodySize = 4096
	o.MaxDeflateLevel = 1 + verifrt.Choice("max-deflate-level", 9)
	n := verifShellNSQD(o)
	d := identifyDataV2{
		FeatureNegotiation: true,
		Deflate:            verifrt.Choice("deflate", 4) != 0,
		DeflateLevel:       verifrt.Int("deflate_level"),
		Snappy:             verifrt.Choice("snappy", 4) == 0,
	}
	body := []byte("{}")
	if verifrt.Symbolic() {
		verifrt.Stub("encoding/json.Unmarshal", func(data []byte, v interface{}) error {
			*(v.(*identifyDataV2)) = d
			return nil
		})
		verifrt.Stub("encoding/json.Marshal", func(v interface{}) ([]byte, error) { return []byte("{}"), nil })
	} else {
		body, _ = json.Marshal(d)
	}
	verifDeflateLevels = nil
	verifrt.StubNative("(*github.com/nsqio/nsq/nsqd.clientV2).UpgradeDeflate", verifUpgradeDeflateRec)
	verifrt.StubNative("(*github.com/nsqio/nsq/nsqd.clientV2).UpgradeSnappy", func(c *clientV2) error { return nil })
	cl, _ := verifClient(n, 1, append(verifBE32(uint32(len(body))), body...))
	p := &protocolV2{nsqd: n}
	_, err := p.Exec(cl, [][]byte{[]byte("IDENTIFY")})
	deflate := o.DeflateEnabled && d.Deflate
	if deflate && d.Snappy {
		code, fatal, _ := verifErr(err)
		verifrt.Assert(err != nil && fatal && code == "E_IDENTIFY_FAILED" && len(verifDeflateLevels) == 0, "both-compressions-refused")
		return
	}
	verifrt.Assert(err == nil, "identify-with-any-deflate-level-is-answered")
	if !deflate {
		verifrt.Assert(len(verifDeflateLevels) == 0, "no-deflate-unless-enabled-and-asked-for")
		return
	}
	verifrt.Assert(len(verifDeflateLevels) == 1, "deflate-upgrade-happens-once")
	if len(verifDeflateLevels) != 1 {
		return
	}
	lvl := verifDeflateLevels[0]
	want := 6
	if d.DeflateLevel > 0 {
		want = d.DeflateLevel
	}
	if want > o.MaxDeflateLevel {
		want = o.MaxDeflateLevel
	}
	verifrt.Assert(lvl >= 1 && lvl <= 9, "deflate-level-is-one-compress-flate-knows")
	verifrt.Assert(lvl <= o.MaxDeflateLevel, "deflate-level-never-above-max-deflate-level")
	verifrt.Assert(lvl == want, "deflate-level-is-the-requested-one-clamped")
	verifrt.Reach("requested-level-clamped-to-max", d.DeflateLevel > o.MaxDeflateLevel)
	verifrt.Reach("default-level-clamped-to-max", d.DeflateLevel <= 0 && o.MaxDeflateLevel < 6)
}
