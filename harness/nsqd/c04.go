//go:build verif

package nsqd

import (
	"strconv"
	"time"

	"github.com/nsqio/nsq/internal/protocol"
	"github.com/nsqio/nsq/internal/verifrt"
)

// Parser lemma, inductive over the parser's loop: ONE iteration of ByteToBase10's loop from an
// ARBITRARY loop-head state (any accumulated value n, any position i, any next character):
// non-digit => error; digit and n*10+d fits 64 bits => next n is exactly n*10+d and i advances;
// digit and it does not fit => error (never a wrapped value); i at the end => returns n, nil.
// With the loop entered at n=0, i=0 (VerifC04_Base10Short) this gives, for strings of ANY length:
// a nil error means the result is the number written.
func VerifC04_Base10LoopStep() {
	const fn = "github.com/nsqio/nsq/internal/protocol.ByteToBase10"
	b := verifrt.BytesN("b", 3)
	n0 := verifrt.Uint64("n0")
	i0 := verifrt.Int("i0")
	verifrt.Assume(i0 >= 0 && i0 <= len(b))
	var n uint64
	var err error
	var returned bool
	var nextN uint64
	var nextI int
	if verifrt.Symbolic() {
		verifrt.LoopHavoc(fn, 0, "n", n0)
		verifrt.LoopHavoc(fn, 0, "i", i0)
		returned = verifrt.LoopStep(func() { n, err = protocol.ByteToBase10(b) })
		if !returned {
			nextN, nextI = verifrt.LoopPostUint64("n"), verifrt.LoopPostInt("i")
		}
	} else {
		// native replay: reach the same loop-head state through the real entry by writing n0 in
		// decimal, then feed the next character; "not returned" = the longer string parses on
		pre := strconv.AppendUint(nil, n0, 10)
		if i0 == len(b) {
			n, err = protocol.ByteToBase10(pre)
			returned = true
		} else {
			n, err = protocol.ByteToBase10(append(pre, b[i0]))
			returned = err != nil
			nextN, nextI = n, i0+1
		}
	}
	if i0 == len(b) {
		verifrt.Assert(returned && err == nil && n == n0, "base10-end-returns-accumulated-value")
		verifrt.Reach("end-of-string", true)
		return
	}
	d := b[i0]
	if d < '0' || d > '9' {
		verifrt.Assert(returned && err != nil, "base10-non-digit-rejected")
		verifrt.Reach("non-digit", true)
		return
	}
	v := uint64(d - '0')
	fits := n0 < 1844674407370955161 || (n0 == 1844674407370955161 && v <= 5)
	if fits {
		verifrt.Assert(!returned, "base10-fitting-number-accepted")
		verifrt.Assert(nextN == n0*10+v, "base10-value-exact")
		verifrt.Assert(nextI == i0+1, "base10-advances-one-char")
		verifrt.Reach("fits", n0 > 1000)
	} else {
		verifrt.Assert(returned && err != nil, "base10-overflow-rejected")
		verifrt.Reach("overflow", true)
	}
}

// Whole runs on short strings (loop entry state n=0, i=0; every byte value).
func VerifC04_Base10Short() {
	a := verifrt.Bytes("a", verifrt.Bound("chars", 3, 5))
	n, err := protocol.ByteToBase10(a)
	var ref uint64
	ok := true
	for i := 0; i < len(a); i++ {
		if a[i] < '0' || a[i] > '9' {
			ok = false
			break
		}
		ref = ref*10 + uint64(a[i]-'0')
	}
	if ok {
		verifrt.Assert(err == nil && n == ref, "base10-short-exact")
		verifrt.Reach("short-number", len(a) > 1)
	} else {
		verifrt.Assert(err != nil, "base10-short-non-digit-rejected")
		verifrt.Reach("short-non-digit", true)
	}
	verifrt.Observe("n", n)
}

func VerifC04_Base10Empty() {
	n, err := protocol.ByteToBase10([]byte{})
	verifrt.Assert(err == nil && n == 0, "base10-empty-is-zero")
	verifrt.Reach("empty", true)
}

// verifNumber: an arbitrary uint64 written in decimal. Symbolically the parser is replaced by
// its lemma-checked contract (returns exactly this number); natively the real parser reads the
// real digits, so a counterexample replays through the real code.
func verifNumber(name string) (uint64, []byte) {
	v := verifrt.Uint64(name)
	if verifrt.Symbolic() {
		verifrt.Stub("github.com/nsqio/nsq/internal/protocol.ByteToBase10", func(b []byte) (uint64, error) { return v, nil })
		return v, []byte("0")
	}
	return v, strconv.AppendUint(nil, v, 10)
}

// DPUB with any numeric delay and any max-req-timeout: accepted => 0 <= delay <= max and the delay
// stored on the message is exactly that many milliseconds; an in-range delay is accepted.
func VerifC04_DPUBRange() { verifrt.Atomic(verifC04DPUBRange) }

// max-req-timeout settings explored (case split): 0, 1 ms, the 1 h default, 2^40 ms.
func verifLimitMs() int64 {
	switch verifrt.Choice("maxReqMs", 4) {
	case 0:
		return 0
	case 1:
		return 1
	case 2:
		return 3600000
	}
	return 1 << 40
}

func verifC04DPUBRange() {
	o := verifOpts()
	limitMs := verifLimitMs()
	o.MaxReqTimeout = time.Duration(limitMs) * time.Millisecond
	n := verifShellNSQD(o)
	ms, digits := verifNumber("delayMs")
	body := []byte{'x'}
	wire := append(verifBE32(uint32(len(body))), body...)
	c, _ := verifClient(n, 1, wire)
	resp, err := (&protocolV2{nsqd: n}).DPUB(c, [][]byte{[]byte("DPUB"), []byte("t"), digits})
	inRange := ms <= uint64(limitMs)
	if err == nil {
		verifrt.Assert(inRange, "dpub-accepted-implies-in-range")
		verifrt.Assert(string(resp) == "OK", "dpub-ok-response")
		t, _ := n.GetExistingTopic("t")
		verifrt.Assert(t != nil && len(t.memoryMsgChan) == 1, "dpub-enqueued-once")
		m := <-t.memoryMsgChan
		verifrt.Assert(m.deferred == time.Duration(ms)*time.Millisecond, "dpub-delay-exact")
		verifrt.Observe("deferred", int64(m.deferred))
		verifrt.Reach("dpub-accepted", ms > 1)
	} else {
		_, fatal := err.(*protocol.FatalClientErr)
		verifrt.Assert(fatal, "dpub-rejection-is-fatal")
		verifrt.Assert(!inRange, "dpub-valid-delay-not-rejected")
		_, e := n.GetExistingTopic("t")
		verifrt.Assert(e != nil, "dpub-rejected-creates-nothing")
		verifrt.Reach("dpub-rejected-out-of-range", true)
	}
}

// DPUB with a non-numeric delay is E_INVALID and creates nothing.
func VerifC04_DPUBNonNumeric() {
	n := verifShellNSQD(verifOpts())
	digits := verifrt.Bytes("timeout", 3)
	bad := false
	for i := 0; i < len(digits); i++ {
		if digits[i] < '0' || digits[i] > '9' {
			bad = true
		}
	}
	verifrt.Assume(bad)
	c, _ := verifClient(n, 1, append(verifBE32(1), 'x'))
	var err error
	verifrt.Atomic(func() {
		_, err = (&protocolV2{nsqd: n}).DPUB(c, [][]byte{[]byte("DPUB"), []byte("t"), digits})
	})
	fe, fatal := err.(*protocol.FatalClientErr)
	verifrt.Assert(fatal && fe.Code == "E_INVALID", "dpub-non-numeric-is-E_INVALID")
	_, e := n.GetExistingTopic("t")
	verifrt.Assert(e != nil, "dpub-non-numeric-creates-nothing")
	verifrt.Reach("non-numeric", true)
}

// TOUCH from any valid channel state (shares the answer-step harness): the new deadline is
// min(now+msg_timeout, delivery time+max-msg-timeout) - restarted but never beyond the cap.
func VerifC04_TouchCap() { verifrt.Atomic(func() { verifAnswerStep(2) }) }

// The timeout / deferred scans from any valid state, for any scan instant t: exactly the
// entries whose deadline is <= t leave (never early), each is back on the queue exactly once,
// everything else is untouched, and the heaps stay valid.
func VerifC04_ScanStep() { verifrt.Atomic(verifScanStep) }

func verifScanStep() {
	o := verifOpts()
	o.MemQueueSize = 8
	st := verifNewChan(o, "ch")
	a := st.addClient(1)
	nF := verifrt.Choice("nF", verifrt.Bound("inflight", 3, 4))
	nD := verifrt.Choice("nD", verifrt.Bound("deferred", 3, 4))
	st.populate(nF, nD, 0, 0, 2) // owner 2 = a connection that has gone away
	t := verifrt.Int64("t")
	preTimeouts := st.c.timeoutCount
	preA := a.InFlightCount
	var duePri [4]bool
	dueOwnedByA := int64(0)
	nDue := 0
	for i, m := range st.inFlight {
		if m.pri <= t {
			duePri[i] = true
			nDue++
			if m.clientID == 1 {
				dueOwnedByA++
			}
		}
	}
	inflightScan := verifrt.Choice("scan", 2) == 0
	if inflightScan {
		dirty := st.c.processInFlightQueue(t)
		st.assertInvariants("post-scan")
		verifrt.Assert(dirty == (nDue > 0), "scan-dirty-iff-something-due")
		for i, m := range st.inFlight {
			w := st.locate(m.ID)
			if duePri[i] {
				verifrt.Assert(w.inFlight == 0 && w.heap == 0, "timed-out-message-leaves-in-flight")
				verifrt.Assert(w.memory+w.backend == 1 && w.deferred == 0, "timed-out-message-requeued-once")
			} else {
				verifrt.Assert(w.inFlight == 1 && w.heap == 1 && w.total() == 1, "unexpired-message-stays-in-flight")
			}
		}
		verifrt.Assert(st.c.timeoutCount == preTimeouts+uint64(nDue), "timeout-counter-counts-each-expiry")
		verifrt.Assert(a.InFlightCount == preA-dueOwnedByA, "owner-in-flight-count-drops-per-expiry")
		verifrt.Assert(len(st.c.deferredMessages) == nD, "in-flight-scan-leaves-deferred")
		verifrt.Reach("some-expired-some-not", nDue > 0 && nDue < nF)
	} else {
		nRel := 0
		var rel [4]bool
		for i, m := range st.deferred {
			if m.pri <= t {
				rel[i] = true
				nRel++
			}
		}
		dirty := st.c.processDeferredQueue(t)
		st.assertInvariants("post-scan")
		verifrt.Assert(dirty == (nRel > 0), "deferred-scan-dirty-iff-something-due")
		for i, m := range st.deferred {
			w := st.locate(m.ID)
			if rel[i] {
				verifrt.Assert(w.deferred == 0 && w.memory+w.backend == 1, "released-message-queued-once")
			} else {
				verifrt.Assert(w.deferred == 1 && w.total() == 1, "unreleased-message-stays-deferred")
			}
		}
		verifrt.Assert(len(st.c.inFlightMessages) == nF, "deferred-scan-leaves-in-flight")
		verifrt.Reach("some-released-some-not", nRel > 0 && nRel < nD)
	}
}

// ---- "delivered soon after": the queue scanner can reach every channel ------------------------
//
// queueScanLoop wakes on its ticker, hands QueueScanSelectionCount randomly selected channels of
// its cached channel list to the worker pool and repeats at once while more than
// QueueScanDirtyPercent of them had work. Which channels are looked at is random, so nothing
// holds for every random outcome - but for every channel there must BE an outcome that selects
// it, otherwise its expired and deferred messages are never delivered. The real loop and its
// real workers run as goroutines against three channels that each hold one due deferred
// message; math/rand is an arbitrary value (the solver picks the outcomes); the property is
// verifrt.Possible: some outcome of one tick releases all three (a channel that no outcome can
// select makes this unsatisfiable on every path = violation). For every outcome: no panic (index
// arithmetic of the selection), nothing is released that is not due, every worker answer is
// collected (the loop is back at its select afterwards: it still answers the exit signal).

var verifScanTick, verifRefreshTick chan time.Time
var verifScanInterval time.Duration

func verifScanTickerStub(d time.Duration) *time.Ticker {
	if d == verifScanInterval {
		return &time.Ticker{C: verifScanTick}
	}
	return &time.Ticker{C: verifRefreshTick}
}

func VerifC04_QueueScanReachesEveryChannel() {
	o := verifOpts()
	o.MemQueueSize = 2
	o.QueueScanInterval = 20 * time.Millisecond
	o.QueueScanRefreshInterval = time.Hour
	o.QueueScanSelectionCount = verifrt.Bound("scan-selection-count", 1, 2)
	o.QueueScanWorkerPoolMax = 2
	o.QueueScanDirtyPercent = 0.25
	n := verifShellNSQD(o)
	verifrt.StubNative("(*github.com/nsqio/nsq/nsqd.NSQD).Notify", verifNotifyNop)
	verifrt.Preemptions(0)
	verifrt.FreeRun() // native replays wait for the real scanner themselves (canonical schedule only)
	if verifrt.Symbolic() {
		verifScanInterval = o.QueueScanInterval
		verifScanTick, verifRefreshTick = make(chan time.Time), make(chan time.Time)
		verifrt.Stub("time.NewTicker", verifScanTickerStub)
		verifrt.Stub("(*time.Ticker).Stop", verifTickerStopStub)
	}
	names := []string{"a", "b", "c"}[:verifrt.Bound("scan-channels", 2, 3)]
	var chans []*Channel
	var due, later []*Message
	exited := false
	verifrt.Atomic(func() {
		verifConcreteIDs, verifIDSeq = true, 0
		t := NewTopic("t", n, func(*Topic) {})
		n.topicMap["t"] = t
		for _, nm := range names {
			c := t.GetChannel(nm)
			chans = append(chans, c)
			m := verifMsg("due-"+nm, 1)
			c.StartDeferredTimeout(m, 0)
			// already due: released by the first scan that looks at this channel
			c.deferredPQ[0].Priority = 1
			due = append(due, m)
			l := verifMsg("later-"+nm, 1)
			c.StartDeferredTimeout(l, time.Hour)
			c.deferredMessages[l.ID].Priority = 1 << 62 // not due under any clock
			later = append(later, l)
		}
	})
	go func() {
		n.queueScanLoop()
		exited = true
	}()
	verifrt.Rest()
	if verifrt.Symbolic() {
		verifScanTick <- time.Time{}
	} else {
		time.Sleep(400 * time.Millisecond)
	}
	verifrt.Rest()
	released := 0
	for i, c := range chans {
		_, stillDeferred := c.deferredMessages[due[i].ID]
		if !stillDeferred {
			released++
			verifrt.Assert(c.Depth() == 1, "released-message-is-queued-once")
		} else {
			verifrt.Assert(c.Depth() == 0, "unscanned-channel-unchanged")
		}
		_, laterDeferred := c.deferredMessages[later[i].ID]
		verifrt.Assert(laterDeferred, "message-not-yet-due-stays-deferred")
	}
	verifrt.Assert(released >= o.QueueScanSelectionCount, "one-tick-scans-the-configured-number-of-channels")
	verifrt.Possible("some-outcome-of-a-tick-reaches-every-channel", released == len(chans))
	close(n.exitChan)
	verifrt.Rest()
	if !verifrt.Symbolic() {
		time.Sleep(100 * time.Millisecond)
	}
	verifrt.Assert(exited, "scan-loop-still-answers-the-exit-signal")
}

// A deferred publish keeps its delay on EVERY channel of the topic (real topic pump, 1-3 channels).
func VerifC04_DeferredFanOut() { verifTopicPumpFanOut() }

// A consumer that never sends IDENTIFY gets the server defaults from the connection constructor:
// the real newClientV2 installs --msg-timeout (so its messages are not redelivered before it), the
// default heartbeat and output buffer settings; with it the first delivery's deadline is
// delivery time + msg-timeout.
func VerifC04_DefaultsWithoutIdentify() { verifrt.Atomic(verifC04Defaults) }

func verifC04Defaults() {
	o := verifOpts()
	o.MsgTimeout = time.Duration(verifrt.Int64("msg-timeout-ms")) * time.Millisecond
	verifrt.Assume(o.MsgTimeout >= time.Second && o.MsgTimeout <= o.MaxMsgTimeout)
	n := verifShellNSQD(o)
	verifrt.StubNative("(*github.com/nsqio/nsq/nsqd.NSQD).Notify", verifNotifyNop)
	conn := &verifConn{}
	cl := newClientV2(5, conn, n)
	verifrt.Assert(cl.MsgTimeout == o.MsgTimeout, "connection-starts-with-the-configured-msg-timeout")
	verifrt.Assert(cl.HeartbeatInterval == o.ClientTimeout/2, "connection-starts-with-the-default-heartbeat")
	verifrt.Assert(cl.OutputBufferTimeout == o.OutputBufferTimeout, "connection-starts-with-the-default-output-buffer-timeout")
	// SUB without IDENTIFY, then one delivery through the channel with the connection's timeout
	c := NewChannel("t", "ch", n, nil)
	c.AddClient(cl.ID, cl)
	m := verifMsg("m", 1)
	c.StartInFlightTimeout(m, cl.ID, cl.MsgTimeout)
	verifrt.Assert(m.pri == verifrt.LastNow()+int64(o.MsgTimeout), "first-deadline-is-delivery-plus-msg-timeout")
	verifrt.Assert(!c.processInFlightQueue(verifrt.LastNow()+int64(o.MsgTimeout)-1), "not-timed-out-before-the-msg-timeout")
	verifrt.Reach("defaults-installed", cl.MsgTimeout > time.Second)
	if !verifrt.Symbolic() {
		c.Close()
	}
}

// A timed-out message is delivered again right after the timeout to a consumer that has RDY
// credit for it (the timeout wakes the delivery pump; shared with C03).
func VerifC04_PumpHistoryRedeliversTimeouts() { verifPumpHistory() }

// REQ with ANY numeric delay under max-req-timeout settings below and above max-msg-timeout: the
// message comes back after exactly min(delay, max-req-timeout) - immediately for 0 - measured from
// the REQ; the limit that applies is max-req-timeout, not any other option.
func VerifC04_ReqDelayClamp() { verifrt.Atomic(verifC04ReqClamp) }

func verifC04ReqClamp() {
	o := verifOpts()
	o.MaxMsgTimeout = 15 * time.Minute
	o.MaxReqTimeout = []time.Duration{time.Second, time.Hour}[verifrt.Choice("max-req-timeout", 2)]
	verifConcreteIDs, verifIDSeq = true, 0
	st := verifNewChan(o, "ch")
	cl := st.addClient(1)
	st.populate(1, 0, 0, 0, 1)
	held := st.inFlight[0]
	ms, digits := verifNumber("delayMs")
	verifrt.Assume(ms <= 1<<42)
	id := held.ID
	p := &protocolV2{nsqd: st.n}
	_, err := p.REQ(cl, [][]byte{[]byte("REQ"), id[:], digits})
	verifrt.Assert(err == nil, "req-by-the-holder-is-accepted")
	want := time.Duration(ms) * time.Millisecond
	if want > o.MaxReqTimeout {
		want = o.MaxReqTimeout
	}
	w := st.locate(id)
	if want == 0 {
		verifrt.Assert(w.memory+w.backend == 1 && w.deferred == 0 && w.inFlight == 0, "req-0-requeues-at-once")
	} else {
		item, ok := st.c.deferredMessages[id]
		verifrt.Assert(ok && w.total() == 1, "delayed-req-is-deferred-once")
		if ok {
			verifrt.Assert(item.Priority == verifrt.LastNow()+int64(want), "req-delay-is-min-of-requested-and-max-req-timeout")
		}
	}
	verifrt.Reach("clamped-to-max-req-timeout-below-max-msg-timeout", o.MaxReqTimeout == time.Second && ms > 1000)
	verifrt.Reach("delay-between-max-msg-timeout-and-max-req-timeout-kept", o.MaxReqTimeout == time.Hour && ms > 900000 && ms < 3600000)
}

// The queue scanner follows channel churn: a channel that is deleted and another one created
// (same number of channels) is picked up at the next refresh of the scanner's channel list and
// its due messages are released (real queueScanLoop + worker, one channel, selection count 1).
func VerifC04_QueueScanFollowsChannelChurn() {
	o := verifOpts()
	o.MemQueueSize = 2
	o.QueueScanInterval = 20 * time.Millisecond
	o.QueueScanRefreshInterval = 500 * time.Millisecond
	o.QueueScanSelectionCount = 1
	o.QueueScanWorkerPoolMax = 1
	o.QueueScanDirtyPercent = 0.25
	n := verifShellNSQD(o)
	verifrt.StubNative("(*github.com/nsqio/nsq/nsqd.NSQD).Notify", verifNotifyNop)
	verifrt.Preemptions(0)
	verifrt.FreeRun() // native replays wait for the real scanner themselves (canonical schedule only)
	if verifrt.Symbolic() {
		verifScanInterval = o.QueueScanInterval
		verifScanTick, verifRefreshTick = make(chan time.Time), make(chan time.Time)
		verifrt.Stub("time.NewTicker", verifScanTickerStub)
		verifrt.Stub("(*time.Ticker).Stop", verifTickerStopStub)
	}
	var t *Topic
	due := func(c *Channel, tag string) *Message {
		m := verifMsg(tag, 1)
		c.StartDeferredTimeout(m, 0)
		c.deferredMessages[m.ID].Priority = 1
		return m
	}
	verifrt.Atomic(func() {
		verifConcreteIDs, verifIDSeq = true, 0
		t = NewTopic("t", n, func(*Topic) {})
		n.topicMap["t"] = t
		t.Start()
		t.GetChannel("a")
	})
	go n.queueScanLoop()
	verifrt.Rest()
	// churn: a goes, b comes (the number of channels is the same as before)
	var b *Channel
	var mb *Message
	// natively the churn happens back to back, well inside one refresh interval, so that no
	// refresh observes the moment without channels
	t.DeleteExistingChannel("a")
	if verifrt.Symbolic() {
		verifrt.Rest()
	}
	b = t.GetChannel("b")
	if verifrt.Symbolic() {
		verifrt.Rest()
	}
	mb = due(b, "due-b")
	if verifrt.Symbolic() {
		verifRefreshTick <- time.Time{}
		verifrt.Rest()
		verifScanTick <- time.Time{}
	} else {
		time.Sleep(1200 * time.Millisecond)
	}
	verifrt.Rest()
	_, stillDeferred := b.deferredMessages[mb.ID]
	verifrt.Assert(!stillDeferred && b.Depth() == 1, "re-created-channel-is-scanned-after-the-next-refresh")
	verifrt.Reach("churned-channel-scanned", !stillDeferred)
	close(n.exitChan)
	verifrt.Rest()
}
