//go:build verif

package nsqd

import (
	"fmt"
	"time"

	"github.com/nsqio/nsq/internal/pqueue"
	"github.com/nsqio/nsq/internal/verifrt"
)

// verifChan: a channel built by the real NewChannel (disk queue replaced by the FIFO stub)
// and populated, through the real insertion code, with symbolic messages in every store.
// Pushing arbitrary priorities through the real heap code reaches every valid heap shape.
type verifChan struct {
	n       *NSQD
	c       *Channel
	be      *verifBackend
	clients []*clientV2
	conns   []*verifConn
	// ghost copies of what was put where (ids, owners, deadlines) for the oracles
	inFlight []*Message
	deferred []*Message
	memory   []*Message
	backend  []*Message
	now0     int64
}

func verifNewChan(o *Options, name string) *verifChan {
	n := verifShellNSQD(o)
	verifrt.StubNative("(*github.com/nsqio/nsq/nsqd.NSQD).Notify", verifNotifyNop)
	c := NewChannel("t", name, n, nil)
	st := &verifChan{n: n, c: c}
	if !c.ephemeral {
		st.be = &verifBackend{}
		if made, ok := c.backend.(*verifBackend); ok {
			st.be.minSize, st.be.maxSize = made.minSize, made.maxSize
		}
		if !verifrt.Symbolic() {
			c.backend.Close()
		}
		c.backend = st.be
	}
	return st
}

func (st *verifChan) addClient(id int64) *clientV2 {
	cl, conn := verifClient(st.n, id, nil)
	cl.Channel = st.c
	cl.State = stateSubscribed
	// a negotiated msg_timeout that differs from the server default (60 s)
	cl.MsgTimeout = 37 * time.Second
	st.c.AddClient(id, cl)
	st.clients = append(st.clients, cl)
	st.conns = append(st.conns, conn)
	return cl
}

// verifConcreteIDs: schedule-oriented harnesses use fixed, distinct ids (the races do not depend
// on id values) so that the solver only sees deadlines, owners and counters.
var verifConcreteIDs bool
var verifIDSeq byte

func verifMsg(tag string, bodyLen int) *Message {
	m := &Message{}
	if verifConcreteIDs {
		verifIDSeq++
		for i := range m.ID {
			m.ID[i] = 'a' + verifIDSeq
		}
		m.Body = make([]byte, bodyLen)
		m.Timestamp = verifrt.Int64(tag + ".ts")
		return m
	}
	copy(m.ID[:], verifrt.BytesN(tag+".id", 16))
	m.Body = verifrt.BytesN(tag+".body", bodyLen)
	m.Timestamp = verifrt.Int64(tag + ".ts")
	m.Attempts = verifrt.Uint16(tag + ".attempts")
	return m
}

// distinct: ids are pairwise distinct across all stores (representation invariant).
func (st *verifChan) all() []*Message {
	var r []*Message
	r = append(r, st.inFlight...)
	r = append(r, st.deferred...)
	r = append(r, st.memory...)
	r = append(r, st.backend...)
	return r
}

// populate with nF in-flight, nD deferred, nM memory and nB backend messages.
// owners are symbolic ids in [1, maxOwner].
func (st *verifChan) populate(nF, nD, nM, nB int, maxOwner int64) {
	c := st.c
	for i := 0; i < nF; i++ {
		m := verifMsg(fmt.Sprintf("f%d", i), 1)
		for _, o := range st.all() {
			verifrt.Assume(o.ID != m.ID)
		}
		owner := verifrt.Int64(fmt.Sprintf("f%d.owner", i))
		verifrt.Assume(owner >= 1 && owner <= maxOwner)
		m.clientID = owner
		del := verifrt.Int64(fmt.Sprintf("f%d.delivered", i))
		pri := verifrt.Int64(fmt.Sprintf("f%d.deadline", i))
		// delivered in the past, deadline within max-msg-timeout of the delivery
		verifrt.Assume(del >= 1356998400000000000 && del <= 3400000000000000000)
		verifrt.Assume(pri >= del && pri-del <= int64(st.n.getOpts().MaxMsgTimeout))
		m.deliveryTS = time.Unix(0, del)
		m.pri = pri
		verifrt.Assert(c.pushInFlightMessage(m) == nil, "gen-push-inflight")
		c.addToInFlightPQ(m)
		st.inFlight = append(st.inFlight, m)
	}
	for i := 0; i < nD; i++ {
		m := verifMsg(fmt.Sprintf("d%d", i), 1)
		for _, o := range st.all() {
			verifrt.Assume(o.ID != m.ID)
		}
		rel := verifrt.Int64(fmt.Sprintf("d%d.release", i))
		verifrt.Assume(rel >= 1356998400000000000 && rel <= 3400000000000000000)
		item := &pqueue.Item{Value: m, Priority: rel}
		verifrt.Assert(c.pushDeferredMessage(item) == nil, "gen-push-deferred")
		c.addToDeferredPQ(item)
		m.pri = rel
		st.deferred = append(st.deferred, m)
	}
	for i := 0; i < nM; i++ {
		m := verifMsg(fmt.Sprintf("m%d", i), 1)
		for _, o := range st.all() {
			verifrt.Assume(o.ID != m.ID)
		}
		c.memoryMsgChan <- m
		st.memory = append(st.memory, m)
	}
	for i := 0; i < nB; i++ {
		m := verifMsg(fmt.Sprintf("b%d", i), 1)
		for _, o := range st.all() {
			verifrt.Assume(o.ID != m.ID)
		}
		writeMessageToBackend(m, st.be)
		st.backend = append(st.backend, m)
	}
	atomicStoreCounts(st)
}

// counters consistent with the population (Ic): each client's in-flight count is the
// number of in-flight messages it owns; the channel has received exactly what it holds.
func atomicStoreCounts(st *verifChan) {
	for _, cl := range st.clients {
		var k int64
		for _, m := range st.inFlight {
			if m.clientID == cl.ID {
				k++
			}
		}
		cl.InFlightCount = k
		cl.ReadyCount = k + 1
	}
	st.c.messageCount = uint64(len(st.all()))
}

// ---- invariant I2 / I2d, asserted after every operation ----

func (st *verifChan) assertInvariants(where string) {
	c := st.c
	pq := c.inFlightPQ
	verifrt.Assert(len(c.inFlightMessages) == len(pq), where+":inflight-map-and-heap-same-size")
	for i := range pq {
		verifrt.Assert(pq[i].index == i, where+":heap-back-index")
		if i > 0 {
			verifrt.Assert(pq[(i-1)/2].pri <= pq[i].pri, where+":heap-order")
		}
		got, ok := c.inFlightMessages[pq[i].ID]
		verifrt.Assert(ok && got == pq[i], where+":heap-member-in-map")
	}
	dq := c.deferredPQ
	verifrt.Assert(len(c.deferredMessages) == len(dq), where+":deferred-map-and-heap-same-size")
	for i := range dq {
		verifrt.Assert(dq[i].Index == i, where+":deferred-back-index")
		if i > 0 {
			verifrt.Assert(dq[(i-1)/2].Priority <= dq[i].Priority, where+":deferred-heap-order")
		}
		got, ok := c.deferredMessages[dq[i].Value.(*Message).ID]
		verifrt.Assert(ok && got == dq[i], where+":deferred-member-in-map")
	}
}

// where is the message with this id now? (counts per store)
type verifWhere struct{ inFlight, heap, deferred, memory, backend int }

func (st *verifChan) locate(id MessageID) verifWhere {
	var w verifWhere
	c := st.c
	if _, ok := c.inFlightMessages[id]; ok {
		w.inFlight++
	}
	for _, m := range c.inFlightPQ {
		if m.ID == id {
			w.heap++
		}
	}
	if _, ok := c.deferredMessages[id]; ok {
		w.deferred++
	}
	// memory queue: drain and refill to look inside
	k := len(c.memoryMsgChan)
	for i := 0; i < k; i++ {
		m := <-c.memoryMsgChan
		if m.ID == id {
			w.memory++
		}
		c.memoryMsgChan <- m
	}
	if st.be != nil {
		for _, raw := range st.be.items {
			d, err := decodeMessage(raw)
			if err == nil && d.ID == id {
				w.backend++
			}
		}
	}
	return w
}

func (w verifWhere) total() int { return w.inFlight + w.deferred + w.memory + w.backend }
