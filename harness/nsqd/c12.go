//go:build verif

package nsqd

import (
	"time"

	"github.com/nsqio/nsq/internal/verifrt"
)

// The 41-bit timestamp field holds (ts - twepoch) ticks of 2^20 ns; readings beyond its
// range (about year 2085) are outside the claim.
func verifC12Clock() {
	verifrt.ClockRange(1356998400000000000, (twepoch+(1<<41))<<20)
}

// One step of NewGUID from ANY factory state and any clock reading:
// either an error and lastID unchanged, or an id strictly above lastID that is stored.
// Inductive: lastID >= every id handed out, so ids are unique and increasing.
func VerifC12_StepFromAnyState() {
	verifC12Clock()
	f := &guidFactory{
		nodeID:        verifrt.Int64("nodeID"),
		sequence:      verifrt.Int64("sequence"),
		lastTimestamp: verifrt.Int64("lastTimestamp"),
		lastID:        guid(verifrt.Int64("lastID")),
	}
	verifrt.Assume(f.nodeID >= 0 && f.nodeID < 1024)
	before := f.lastID
	id, err := f.NewGUID()
	verifrt.Observe("id", int64(id))
	if err != nil {
		verifrt.Assert(f.lastID == before, "error-leaves-lastID")
		verifrt.Assert(id == 0, "error-returns-zero-id")
		verifrt.Reach("error-path", true)
	} else {
		verifrt.Assert(id > before, "id-strictly-above-lastID")
		verifrt.Assert(f.lastID == id, "lastID-records-id")
		verifrt.Reach("success-path", true)
	}
}

// k consecutive calls from any reachable-looking state under an arbitrary monotone clock:
// successful ids strictly increase (catches a weakened guard at sequence rollover).
func VerifC12_ConsecutiveCalls() {
	verifC12Clock()
	f := &guidFactory{
		nodeID:        verifrt.Int64("nodeID"),
		sequence:      verifrt.Int64("sequence"),
		lastTimestamp: verifrt.Int64("lastTimestamp"),
		lastID:        guid(verifrt.Int64("lastID")),
	}
	verifrt.Assume(f.nodeID >= 0 && f.nodeID < 1024)
	k := verifrt.Bound("calls", 3, 5)
	var last guid = f.lastID
	got := 0
	for i := 0; i < k; i++ {
		id, err := f.NewGUID()
		if err == nil {
			verifrt.Assert(id > last, "ids-strictly-increase")
			last = id
			got++
		}
	}
	verifrt.Reach("two-successes", got >= 2)
}

// Field layout: for a state the generator itself produced (sequence in [0,4095], node id in
// range, timestamp not before the epoch) two different (ts, seq) pairs never collide.
func VerifC12_FieldsDoNotOverlap() {
	verifC12Clock()
	node := verifrt.Int64("nodeID")
	verifrt.Assume(node >= 0 && node < 1024)
	f1 := &guidFactory{nodeID: node}
	f2 := &guidFactory{nodeID: node}
	id1, err1 := f1.NewGUID()
	id2, err2 := f2.NewGUID()
	if err1 == nil && err2 == nil && f1.lastTimestamp != f2.lastTimestamp {
		verifrt.Assert(id1 != id2, "different-ticks-different-ids")
		verifrt.Assert((f1.lastTimestamp < f2.lastTimestamp) == (id1 < id2), "id-order-follows-tick-order")
		verifrt.Reach("two-ticks", true)
	}
}

// Hex is injective and produces 16 lowercase hex characters.
func VerifC12_HexInjective() {
	a, b := guid(verifrt.Int64("a")), guid(verifrt.Int64("b"))
	ha, hb := a.Hex(), b.Hex()
	for i := 0; i < 16; i++ {
		c := ha[i]
		verifrt.Assert((c >= '0' && c <= '9') || (c >= 'a' && c <= 'f'), "hex-charset")
	}
	if a != b {
		verifrt.Assert(ha != hb, "hex-injective")
		verifrt.Reach("distinct", true)
	}
	verifrt.Observe("hex", ha[:])
}

// Concurrent first publishers on a brand-new topic: two publishers take ids from the topic's
// generator at the same time, every interleaving within the preemption bound, with the
// happens-before race monitor on. The ids are distinct and strictly increasing in the order the
// generator handed them out, and the generator state (the factory object and its last id) is
// only touched under the generator's lock - an unsynchronised check-then-create of the factory
// would let each publisher make its own generator and hand out the same id twice.
func VerifC12_ConcurrentFirstPublishers() {
	o := verifOpts()
	o.ID = 1023
	n := verifShellNSQD(o)
	verifrt.Preemptions(verifrt.Bound("first-publishers-preemptions", 1, 2))
	verifrt.StubNative("(*github.com/nsqio/nsq/nsqd.NSQD).Notify", verifNotifyNop)
	verifrt.RaceCheck()
	var t *Topic
	verifrt.Atomic(func() { t = NewTopic("t", n, func(*Topic) {}) })
	var a, b MessageID
	verifrt.Go("pub-a", func() { a = t.GenerateID() })
	verifrt.Go("pub-b", func() { b = t.GenerateID() })
	verifrt.Join()
	verifrt.Assert(a != b, "concurrent-publishers-get-distinct-ids")
	verifrt.Reach("two-ids-generated", a != b)
	if !verifrt.Symbolic() {
		t.Close()
	}
}

// Topic.GenerateID from ANY generator state (symbolic sequence, last timestamp, last id; e.g. the
// per-millisecond sequence is exhausted or the clock stepped back): it returns only an id that the
// generator really produced - strictly above every id handed out before, recorded as the last id,
// never the zero id - and when the generator refuses, the publish WAITS (sleeps and retries).
// Bounded: paths needing more than 2 retries are cut (outside the claim).
func VerifC12_GenerateIDWaitsForAFreshID() { verifrt.Atomic(verifC12GenerateID) }

var verifC12Sleeps int

func verifC12SleepStub(d time.Duration) {
	verifC12Sleeps++
	if verifC12Sleeps > 2 {
		verifrt.Done()
	}
}

func verifC12GenerateID() {
	verifC12Clock()
	n := verifShellNSQD(verifOpts())
	verifrt.StubNative("(*github.com/nsqio/nsq/nsqd.NSQD).Notify", verifNotifyNop)
	t := NewTopic("t", n, func(*Topic) {})
	f := t.idFactory
	f.nodeID = verifrt.Int64("nodeID")
	f.sequence = verifrt.Int64("sequence")
	f.lastTimestamp = verifrt.Int64("lastTimestamp")
	f.lastID = guid(verifrt.Int64("lastID"))
	verifrt.Assume(f.nodeID >= 0 && f.nodeID < 1024 && f.sequence >= 0 && f.sequence <= 4095)
	// a state the generator can be in: the last id is the one composed from its own fields, and
	// the last timestamp is not in the future by more than a clock step the retries can cover
	verifrt.Assume(f.lastID >= 0)
	before := f.lastID
	verifC12Sleeps = 0
	if verifrt.Symbolic() {
		verifrt.Stub("time.Sleep", verifC12SleepStub)
	}
	id := t.GenerateID()
	var zero MessageID
	verifrt.Assert(id != zero, "generated-id-is-never-the-zero-id")
	verifrt.Assert(f.lastID > before, "generated-id-is-above-every-earlier-id")
	verifrt.Assert(id == f.lastID.Hex(), "returned-id-is-the-one-the-generator-recorded")
	verifrt.Reach("sym:publish-waited-for-a-fresh-id", verifC12Sleeps > 0) // the sleep counter only exists under the executor
	verifrt.Reach("fresh-id-at-once", verifC12Sleeps == 0)
	if !verifrt.Symbolic() {
		t.Close()
	}
}

// Emptying a topic does not touch its id generator: ids handed out after the Empty are still
// strictly above every id handed out before it (same generator, same last id).
func VerifC12_EmptyKeepsTheGenerator() {
	verifrt.Atomic(func() {
		verifC12Clock()
		n := verifShellNSQD(verifOpts())
		verifrt.StubNative("(*github.com/nsqio/nsq/nsqd.NSQD).Notify", verifNotifyNop)
		t := NewTopic("t", n, func(*Topic) {})
		f := t.idFactory
		f.nodeID = 7
		f.sequence = verifrt.Int64("sequence")
		f.lastTimestamp = verifrt.Int64("lastTimestamp")
		f.lastID = guid(verifrt.Int64("lastID"))
		verifrt.Assume(f.sequence >= 0 && f.sequence <= 4095 && f.lastID >= 0)
		before := f.lastID
		verifC12Sleeps = 0
		if verifrt.Symbolic() {
			verifrt.Stub("time.Sleep", verifC12SleepStub)
		}
		t.Empty()
		verifrt.Assert(t.idFactory == f && f.lastID == before, "empty-keeps-the-id-generator-and-its-last-id")
		id := t.GenerateID()
		verifrt.Assert(t.idFactory.lastID > before && id == t.idFactory.lastID.Hex(), "id-after-empty-is-above-every-id-before-it")
		verifrt.Reach("generated-after-empty", true)
		if !verifrt.Symbolic() {
			t.Close()
		}
	})
}

// The generator is per topic, so "no two messages of a topic share an id" also needs ONE Topic
// object per topic name: two publishers racing on the FIRST publish to a new topic go through the
// real NSQD.GetTopic (check, then create under the write lock) and then take an id each - every
// interleaving within the preemption bound. Both get the same Topic (so the same generator), the
// topic map holds exactly that one, and their ids differ. (Run for C01 as well: a publisher that
// was handed an orphaned second Topic object would be acknowledged for messages no channel of
// the registered topic ever sees.)
func VerifC12_RacingFirstPublishersShareOneGenerator() { verifRacingGetTopic() }

func verifRacingGetTopic() {
	o := verifOpts()
	o.ID = 1023
	n := verifShellNSQD(o)
	// all readings within ONE tick (2^20 ns) of the generator: two generators then hand out the
	// SAME id (what the race causes whenever both publishes fall into one tick), one generator
	// two different ones
	verifrt.ClockRange((1700000000000000000>>20)<<20, (1700000000000000000>>20)<<20+1<<20)
	verifrt.Preemptions(verifrt.Bound("racing-get-topic-preemptions", 1, 2))
	verifrt.StubNative("(*github.com/nsqio/nsq/nsqd.NSQD).Notify", verifNotifyNop)
	var ta, tb *Topic
	var a, b MessageID
	verifrt.Go("pub-a", func() { ta = n.GetTopic("t") })
	verifrt.Go("pub-b", func() { tb = n.GetTopic("t") })
	verifrt.Join()
	// (the ids are taken once both have their topic: concurrent use of ONE generator is
	// VerifC12_ConcurrentFirstPublishers; two generators hand out equal ids at equal instants)
	verifrt.Atomic(func() { a = ta.GenerateID(); b = tb.GenerateID() })
	verifrt.Assert(ta == tb, "racing-first-publishers-get-the-same-topic-object")
	n.RLock()
	reg, k := n.topicMap["t"], len(n.topicMap)
	n.RUnlock()
	verifrt.Assert(k == 1 && reg == ta && reg == tb, "the-topic-map-holds-the-topic-both-publishers-use")
	verifrt.Assert(a != b, "racing-first-publishers-get-distinct-ids")
	verifrt.Reach("both-publishers-served", ta != nil && tb != nil && a != b)
	if !verifrt.Symbolic() {
		ta.Close()
		if tb != ta {
			tb.Close()
		}
	}
}
