//go:build verif

package nsqd

import (
	"time"

	"github.com/nsqio/go-diskqueue"
	"github.com/nsqio/nsq/internal/verifrt"
)

// ---- disk queues keyed by NAME -------------------------------------------------------------
//
// go-diskqueue keeps a queue in files named after it (<topic>[:<channel>].diskqueue.*): two
// queue objects opened under one name work on the same files, and Delete of one removes the
// files under the other. verifDisk is the contract model of that: it records which names are
// open, every open of a name that is already open, and every Delete that pulls the files from
// under another open handle. Symbolically it replaces diskqueue.New through verifrt.Stub,
// natively through the call-site rewrite to verifHookDiskqueueNew (engine/instrument.go).

type verifDisk struct {
	// files: the name has queue files on disk (written by Put, removed ONLY by Empty - like
	// go-diskqueue, whose Delete just closes the queue)
	files         map[string]bool
	open          map[string]int
	handles       []*verifNamedBackend
	doubleOpen    int
	deletedOthers int
}

type verifNamedBackend struct {
	verifBackend
	name   string
	d      *verifDisk
	isOpen bool
}

func (b *verifNamedBackend) release() {
	if b.isOpen {
		b.isOpen = false
		b.d.open[b.name]--
	}
}
func (b *verifNamedBackend) Close() error { b.release(); return b.verifBackend.Close() }
func (b *verifNamedBackend) Put(p []byte) error {
	err := b.verifBackend.Put(p)
	if err == nil {
		b.d.files[b.name] = true
	}
	return err
}
func (b *verifNamedBackend) Empty() error {
	b.d.files[b.name] = false
	return b.verifBackend.Empty()
}
func (b *verifNamedBackend) Delete() error {
	b.release()
	if b.d.open[b.name] > 0 {
		b.d.deletedOthers++
	}
	b.closed++
	b.deleted++
	b.items = nil
	return nil
}

var verifDiskHook func(name string) diskqueue.Interface
var verifDiskLimits [2]int32

func (d *verifDisk) new(name string) diskqueue.Interface {
	if d.open[name] > 0 {
		d.doubleOpen++
	}
	d.open[name]++
	b := &verifNamedBackend{name: name, d: d, isOpen: true}
	b.minSize, b.maxSize = verifDiskLimits[0], verifDiskLimits[1]
	d.handles = append(d.handles, b)
	return b
}

func verifNewDisk() *verifDisk {
	d := &verifDisk{open: map[string]int{}, files: map[string]bool{}}
	verifDiskHook = d.new
	verifrt.Stub("github.com/nsqio/go-diskqueue.New", verifHookDiskqueueNew)
	return d
}

// verifHookDiskqueueNew stands in for diskqueue.New (see above); without an installed model the
// real constructor runs.
func verifHookDiskqueueNew(name string, dataPath string, maxBytesPerFile int64, minMsgSize int32, maxMsgSize int32,
	syncEvery int64, syncTimeout time.Duration, logf diskqueue.AppLogFunc) diskqueue.Interface {
	if verifDiskHook != nil {
		verifDiskLimits[0], verifDiskLimits[1] = minMsgSize, maxMsgSize
		return verifDiskHook(name)
	}
	if verifrt.Symbolic() {
		return &verifBackend{}
	}
	return diskqueue.New(name, dataPath, maxBytesPerFile, minMsgSize, maxMsgSize, syncEvery, syncTimeout, logf)
}

// reachable: the backends of every topic and channel reachable from the daemon's maps.
func (d *verifDisk) reachable(n *NSQD) map[*verifNamedBackend]bool {
	r := map[*verifNamedBackend]bool{}
	for _, t := range n.topicMap {
		if b, ok := t.backend.(*verifNamedBackend); ok {
			r[b] = true
		}
		for _, c := range t.channelMap {
			if b, ok := c.backend.(*verifNamedBackend); ok {
				r[b] = true
			}
		}
	}
	return r
}

// assertNoLeak: every disk queue still open belongs to a topic/channel that exists (delete
// "removes its disk files": nothing is left open, hence on disk, for an object that is gone).
func (d *verifDisk) assertNoLeak(n *NSQD, tag string) {
	r := d.reachable(n)
	for _, b := range d.handles {
		if b.isOpen {
			verifrt.Assert(r[b], tag+":no-disk-queue-left-behind-by-a-deleted-object")
		}
	}
	for _, b := range d.handles {
		if !r[b] && d.open[b.name] == 0 {
			verifrt.Assert(!d.files[b.name], tag+":deleted-object-leaves-no-disk-files")
		}
	}
	verifrt.Assert(d.doubleOpen == 0, tag+":one-disk-queue-per-name-at-a-time")
	verifrt.Assert(d.deletedOthers == 0, tag+":delete-never-removes-the-files-of-a-live-queue")
}

// Channel delete racing a create/publish of the same channel name (SUB, /channel/create,
// lookupd pre-creation all go through Topic.GetChannel), every interleaving within the preemption
// bound, against the real topic pump. The name must never be served by two channel objects at
// once (two disk queues over one set of files), the files of the surviving channel must not be
// removed by the delete of its predecessor, and a re-created channel starts empty.
func VerifC08_DeleteChannelVsCreate() {
	o := verifOpts()
	o.MemQueueSize = 1
	n := verifShellNSQD(o)
	disk := verifNewDisk()
	verifrt.StubNative("(*github.com/nsqio/nsq/nsqd.NSQD).Notify", verifNotifyNop)
	var t *Topic
	var c1, c2 *Channel
	var err2 error
	verifrt.Atomic(func() {
		verifConcreteIDs, verifIDSeq = true, 0
		t = NewTopic("t", n, func(*Topic) {})
		n.topicMap["t"] = t
		c1 = t.GetChannel("ch")
		t.Start()
		// one message in memory, one on disk
		c1.PutMessage(verifMsg("old0", 1))
		c1.PutMessage(verifMsg("old1", 1))
	})
	publish := verifrt.Choice("publish-after-create", 2) == 1
	verifrt.Go("delete", func() { t.DeleteExistingChannel("ch") })
	verifrt.Go("create", func() {
		c2 = t.GetChannel("ch")
		if publish {
			err2 = c2.PutMessage(verifMsg("new", 1))
			if err2 == nil {
				err2 = c2.PutMessage(verifMsg("new2", 1)) // overflows to the disk queue
			}
		}
	})
	verifrt.Join()
	disk.assertNoLeak(n, "delete-vs-create")
	live := t.channelMap["ch"]
	verifrt.Assert(c1.Exiting(), "deleted-channel-object-is-exiting")
	if live != nil {
		verifrt.Assert(live != c1 && !live.Exiting(), "channel-in-the-map-after-delete-is-a-new-live-object")
		want := int64(0)
		if live == c2 && publish && err2 == nil {
			want = 2
		}
		verifrt.Assert(live.Depth() == want, "re-created-channel-starts-empty")
		if b, ok := live.backend.(*verifNamedBackend); ok {
			verifrt.Assert(b.isOpen && b.deleted == 0, "re-created-channel-keeps-its-disk-queue")
		}
	}
	verifrt.Reach("recreated-after-delete", live != nil)
	verifrt.Reach("create-saw-the-dying-channel", live == nil)
}

// SUB racing the deletion of its topic (explicit delete, or the auto-delete of an ephemeral
// topic: both run NSQD.DeleteExistingTopic), every interleaving within the preemption bound.
// "Deleting a topic disconnects its consumers": a SUB that was answered OK is either attached to
// a channel that exists (reachable from the daemon's topic map, not exiting, listing this
// consumer) or its connection has been closed; nothing belonging to the deleted topic stays open.
func VerifC08_SubVsTopicDelete() { verifSubVsTopicDelete(1, verifrt.Choice("ephemeral-topic", 2) == 1) }

// The same race for an ephemeral topic with SUB's back-off sleep treated as what it is - 100 ms in
// which every other thread runs, free of charge to the preemption bound (verifrt.SleepYields):
// deep enough for the stale auto-delete callbacks of the dying topic to meet the topic SUB
// re-creates under the same name.
func VerifC08_SubVsEphemeralTopicDeleteDeep() {
	verifrt.SleepYields()
	verifSubVsTopicDelete(1, true)
}

func verifSubVsTopicDelete(preemptions int, ephemeral bool) {
	o := verifOpts()
	o.MemQueueSize = 1
	n := verifShellNSQD(o)
	disk := verifNewDisk()
	verifrt.StubNative("(*github.com/nsqio/nsq/nsqd.NSQD).Notify", verifNotifyNop)
	verifrt.Preemptions(preemptions)
	tag, topicName, chanName := "durable", "t", "b"
	if ephemeral {
		tag, topicName, chanName = "ephemeral", "e#ephemeral", "b#ephemeral"
	}
	var cl *clientV2
	var conn *verifConn
	var other *verifConsumer
	verifrt.Atomic(func() {
		t := n.GetTopic(topicName)
		a := t.GetChannel("a#ephemeral")
		other = &verifConsumer{}
		a.AddClient(7, other)
		cl, conn = verifClient(n, 1, nil)
	})
	p := &protocolV2{nsqd: n}
	var err error
	verifrt.Go("delete", func() { n.DeleteExistingTopic(topicName) })
	verifrt.Go("sub", func() {
		_, err = p.SUB(cl, [][]byte{[]byte("SUB"), []byte(topicName), []byte(chanName)})
	})
	verifrt.Join()
	verifrt.Assert(other.closed >= 1, tag+":delete-disconnects-the-existing-consumer")
	if err == nil {
		ch := cl.Channel
		attached := false
		if ch != nil && !ch.Exiting() {
			if lt, ok := n.topicMap[topicName]; ok && !lt.Exiting() && lt.channelMap[chanName] == ch {
				_, attached = ch.clients[cl.ID]
			}
		}
		verifrt.Assert(attached || conn.closed >= 1, tag+":acknowledged-subscriber-is-on-a-live-channel-or-disconnected")
	} else {
		verifrt.Assert(cl.Channel == nil, tag+":refused-subscriber-is-not-attached")
	}
	disk.assertNoLeak(n, tag)
	verifrt.Reach(tag+":sub-ok", err == nil)
	verifrt.Reach(tag+":sub-refused", err != nil)
}

// A late answer racing Empty followed by a NEW delivery: FIN / REQ / TOUCH for message A has taken
// A out of the in-flight map when the channel is emptied; a new message B is then delivered (takes
// A's slot in the deadline heap) before the answer's heap removal runs. Whatever happens to A, the
// new delivery B must stay in flight AND in the deadline heap (else it never times out and is never
// redelivered) and keeps being answerable by its holder.
func VerifC08_StaleAnswerVsNewDelivery() {
	o := verifOpts()
	o.MemQueueSize = 3
	var st *verifChan
	var cl *clientV2
	var a, b *Message
	op := verifrt.Choice("op", 3)
	tag := []string{"FIN", "REQ0", "TOUCH"}[op]
	verifrt.Atomic(func() {
		verifConcreteIDs, verifIDSeq = true, 0
		st = verifNewChan(o, "ch")
		cl = st.addClient(1)
		st.populate(1, 0, 0, 0, 1)
		a = st.inFlight[0]
		b = verifMsg("b", 1)
	})
	p := &protocolV2{nsqd: st.n}
	id := a.ID
	verifrt.Go("answer", func() {
		switch op {
		case 0:
			p.FIN(cl, [][]byte{[]byte("FIN"), id[:]})
		case 1:
			p.REQ(cl, [][]byte{[]byte("REQ"), id[:], []byte("0")})
		case 2:
			p.TOUCH(cl, [][]byte{[]byte("TOUCH"), id[:]})
		}
	})
	verifrt.Go("empty-then-deliver", func() {
		st.c.Empty()
		st.c.StartInFlightTimeout(b, cl.ID, time.Minute)
	})
	verifrt.Join()
	got, inMap := st.c.inFlightMessages[b.ID]
	verifrt.Assert(inMap && got == b, tag+":new-delivery-stays-in-flight")
	inHeap := 0
	for i, m := range st.c.inFlightPQ {
		if m == b {
			inHeap++
			verifrt.Assert(b.index == i, tag+":new-delivery-heap-index-is-right")
		}
	}
	verifrt.Assert(inHeap == 1, tag+":new-delivery-stays-in-the-deadline-heap")
	// scans at the end of time time B out: it is re-queued for redelivery (a pass stops at a stale
	// heap entry left by the answer racing Empty - known finding - so the scanner's "dirty" loop is
	// followed for a few passes)
	for pass := 0; pass < 3 && st.c.processInFlightQueue(int64(3500000000000000000)); pass++ {
	}
	w := st.locate(b.ID)
	verifrt.Assert(w.inFlight == 0 && w.memory+w.backend == 1, tag+":new-delivery-times-out-and-is-requeued")
	verifrt.Reach("raced-new-delivery:"+tag, true)
}

// Channel delete overlapping the delete of its topic (explicit /channel/delete or the ephemeral
// auto-delete callback, against /topic/delete): both return - no deadlock, no panic - and nothing
// of the topic stays open or registered.
func VerifC08_ChannelDeleteVsTopicDelete() {
	o := verifOpts()
	o.MemQueueSize = 1
	n := verifShellNSQD(o)
	disk := verifNewDisk()
	verifrt.StubNative("(*github.com/nsqio/nsq/nsqd.NSQD).Notify", verifNotifyNop)
	verifrt.Preemptions(verifrt.Bound("delete-vs-delete-preemptions", 1, 2))
	ephemeral := verifrt.Choice("ephemeral", 2) == 1
	tag, topicName, chanName := "durable", "t", "ch"
	if ephemeral {
		tag, topicName, chanName = "ephemeral", "e#ephemeral", "ch#ephemeral"
	}
	var t *Topic
	verifrt.Atomic(func() {
		t = n.GetTopic(topicName)
		c := t.GetChannel(chanName)
		c.PutMessage(verifMsg("m", 1))
	})
	doneC, doneT := false, false
	verifrt.Go("delete-channel", func() { t.DeleteExistingChannel(chanName); doneC = true })
	verifrt.Go("delete-topic", func() { n.DeleteExistingTopic(topicName); doneT = true })
	verifrt.Join()
	verifrt.Assert(doneC && doneT, tag+":both-deletes-return")
	_, still := n.topicMap[topicName]
	verifrt.Assert(!still, tag+":topic-is-gone")
	disk.assertNoLeak(n, tag)
	verifrt.Reach("deleted-both:"+tag, doneC && doneT)
}

// Deleting a topic removes its disk files and those of its channels - also when the disk backlog
// had already been drained (files exist, depth 0) or was never used; a re-created topic then
// starts with no files and no messages.
func VerifC08_TopicDeleteRemovesDiskFiles() { verifrt.Atomic(verifC08TopicDeleteFiles) }

func verifC08TopicDeleteFiles() {
	o := verifOpts()
	o.MemQueueSize = 1
	n := verifShellNSQD(o)
	disk := verifNewDisk()
	verifrt.StubNative("(*github.com/nsqio/nsq/nsqd.NSQD).Notify", verifNotifyNop)
	verifConcreteIDs, verifIDSeq = true, 0
	t := n.GetTopic("t")
	c := t.GetChannel("ch")
	// backlog: 0..2 messages each on the topic and on the channel (the first stays in memory)
	kt, kc := verifrt.Choice("topic-backlog", 3), verifrt.Choice("channel-backlog", 3)
	verifrt.Join()
	tb, cb := t.backend.(*verifNamedBackend), c.backend.(*verifNamedBackend)
	for i := 0; i < kt; i++ {
		writeMessageToBackend(verifMsg("tm", 1), t.backend)
	}
	for i := 0; i < kc; i++ {
		c.PutMessage(verifMsg("cm", 1))
	}
	// drained: the records were read back (delivered), the files stay behind with depth 0
	if verifrt.Choice("drained", 2) == 1 {
		tb.items, cb.items = nil, nil
	}
	hadTopicFiles, hadChanFiles := disk.files["t"], disk.files["t:ch"]
	verifrt.Assert(n.DeleteExistingTopic("t") == nil, "topic-delete-succeeds")
	verifrt.Join()
	verifrt.Assert(!disk.files["t"], "deleted-topic-leaves-no-disk-files")
	verifrt.Assert(!disk.files["t:ch"], "deleted-topic-leaves-no-channel-disk-files")
	disk.assertNoLeak(n, "topic-delete")
	t2 := n.GetTopic("t")
	verifrt.Join()
	verifrt.Assert(t2 != t && t2.Depth() == 0 && len(t2.channelMap) == 0, "re-created-topic-starts-empty")
	verifrt.Reach("deleted-a-drained-topic-with-files", hadTopicFiles && hadChanFiles && tb.Depth() == 0)
}

// The last two consumers of an ephemeral channel leave at the same moment (two connections
// closing: Channel.RemoveClient from two goroutines), every interleaving within the preemption
// bound: afterwards the channel has no consumers and its auto-delete ran exactly once - an
// ephemeral channel never lives on without consumers.
func VerifC08_LastTwoConsumersLeaveTogether() {
	o := verifOpts()
	o.MemQueueSize = 1
	n := verifShellNSQD(o)
	verifrt.StubNative("(*github.com/nsqio/nsq/nsqd.NSQD).Notify", verifNotifyNop)
	deleted := 0
	var c *Channel
	verifrt.Atomic(func() {
		c = NewChannel("t", "ch#ephemeral", n, func(*Channel) { deleted++ })
		c.AddClient(1, &verifConsumer{})
		c.AddClient(2, &verifConsumer{})
	})
	verifrt.Go("leave-1", func() { c.RemoveClient(1) })
	verifrt.Go("leave-2", func() { c.RemoveClient(2) })
	verifrt.Join()
	verifrt.Assert(len(c.clients) == 0, "both-consumers-removed")
	verifrt.Assert(deleted == 1, "ephemeral-channel-auto-deleted-exactly-once-when-the-last-consumers-leave-together")
	verifrt.Reach("both-left", len(c.clients) == 0)
}

// SUB racing the deletion of its CHANNEL (/channel/delete, or the auto-delete of an ephemeral
// channel whose last consumer leaves: both run Topic.DeleteExistingChannel), every interleaving
// within the preemption bound. "Deleting a channel disconnects its consumers": a SUB answered OK
// is either attached to a channel that exists (in the topic's map, not exiting, listing this
// consumer - the old one before the delete, or a fresh one after it) or its connection has been
// closed by the delete; a refused SUB is attached to nothing. The check-and-attach in
// Channel.AddClient must be atomic with respect to Channel.exit for that.
func VerifC08_SubVsChannelDelete() {
	o := verifOpts()
	o.MemQueueSize = 1
	n := verifShellNSQD(o)
	disk := verifNewDisk()
	verifrt.StubNative("(*github.com/nsqio/nsq/nsqd.NSQD).Notify", verifNotifyNop)
	verifrt.Preemptions(verifrt.Bound("sub-vs-channel-delete-preemptions", 1, 2))
	var cl *clientV2
	var conn *verifConn
	var other *verifConsumer
	var t *Topic
	verifrt.Atomic(func() {
		// (topic and channel are put in place directly: the main thread then has no rendezvous with
		// the topic pump before the race starts, which keeps the native schedule replay simple)
		t = NewTopic("t", n, func(x *Topic) { n.DeleteExistingTopic(x.name) })
		n.topicMap["t"] = t
		b := NewChannel("t", "b", n, func(c *Channel) { t.DeleteExistingChannel(c.name) })
		t.channelMap["b"] = b
		other = &verifConsumer{}
		b.AddClient(7, other)
		cl, conn = verifClient(n, 1, nil)
	})
	p := &protocolV2{nsqd: n}
	var err, derr error
	verifrt.Go("delete", func() { derr = t.DeleteExistingChannel("b") })
	verifrt.Go("sub", func() {
		_, err = p.SUB(cl, [][]byte{[]byte("SUB"), []byte("t"), []byte("b")})
	})
	verifrt.Join()
	verifrt.Assert(derr == nil, "channel-delete-succeeds")
	verifrt.Assert(other.closed >= 1, "channel-delete-disconnects-the-existing-consumer")
	if err == nil {
		ch := cl.Channel
		attached := false
		if ch != nil && !ch.Exiting() && t.channelMap["b"] == ch {
			_, attached = ch.clients[cl.ID]
		}
		verifrt.Assert(attached || conn.closed >= 1, "acknowledged-subscriber-is-on-a-live-channel-or-disconnected-by-the-channel-delete")
		verifrt.Reach("sub-ok-on-the-recreated-channel", attached)
	} else {
		verifrt.Assert(cl.Channel == nil, "refused-subscriber-is-not-attached")
	}
	disk.assertNoLeak(n, "channel-delete")
	verifrt.Reach("channel-delete:sub-refused-or-disconnected", err != nil || conn.closed >= 1)
}
