//go:build verif

package nsqd

import (
	"bytes"
	"errors"
	"io"
	"net"
	"sync"
	"time"

	"github.com/nsqio/go-nsq"
	"github.com/nsqio/nsq/internal/verifrt"
)

// =============================================================================================
// C16 environment: a scripted nsqlookupd.
//
// The same responder code (feed/respond below) runs in both worlds:
//   - under gosmt  net.DialTimeout is redirected to verifDialStub, which hands nsqd a stub
//     net.Conn (verifLConn) wired directly to a session of the scripted lookupd;
//   - in a native replay the lookupd is a real loopback TCP listener whose per-connection
//     goroutine feeds the bytes it reads into the same responder.
//
// What a lookupd does (reference model written from the wire protocol, nsqlookupd/
// lookup_protocol_v1.go is NOT executed here): after the 4-byte magic "  V1" it answers one
// framed reply per command; IDENTIFY -> its peer-info JSON, PING/REGISTER/UNREGISTER -> "OK".
// REGISTER t [c] lists the connection's producer under topic t (and channel c); UNREGISTER t c
// removes the channel listing, UNREGISTER t removes the topic and all its channels. Listings
// belong to the connection: they disappear when the connection ends (either side) or the
// lookupd restarts.
//
// Faults (the statement's list): the run has a budget of B faults; at every place a fault can
// strike the run splits (verifrt.Choice) into "strikes here" / "does not", so B faults cover every
// placement of up to B faults among:
//   io       this Read/Write call on a lookupd connection fails (stall / timeout / reset)
//   reply    the lookupd answers this command badly and hangs up:
//            kind 1 hangs up without a reply (accept-then-close), 2 junk body, 3 "E_INVALID",
//            4 a frame with an invalid length prefix (short body / oversize / empty)
//   down     the lookupd refuses connections during this step
//   restart  the lookupd restarts with empty state before this step
//   rst      the established connection is aborted before this step (RST: a lookupd host reboot,
//            a firewall / NAT / proxy in between dropping the flow): the lookupd's listings for
//            it are gone at once and from now on EVERY write and read nsqd attempts on that
//            connection fails - until nsqd closes it and dials again, nothing reaches the lookupd
//   stall    (not a budgeted fault: a state of the lookupd, verifLookupd.stall) the lookupd keeps
//            accepting connections and swallowing what nsqd writes but answers nothing - a hung or
//            SIGSTOPped process, a black-holed route, a half-open connection. Like a real socket, a
//            Read on such a connection blocks FOREVER unless a read deadline has been set on it
//            (SetReadDeadline / SetDeadline with a non-zero time), in which case it fails with a
//            timeout error (the symbolic run has no duration: the deadline expires at once; natively
//            it is nsqd's real one-second deadline on a loopback socket that nobody answers).
// A native replay realises an io fault by handing the real socket an already expired deadline
// (the replay build reads lookupPeer's time.Now() from verifrt's clock) and "down" by closing
// the listener; "rst" by closing the lookupd's end with SO_LINGER 0.
// =============================================================================================

type verifLCmd struct {
	name, topic, channel string
}

type verifLSession struct {
	ld     *verifLookupd
	idx    int
	recv   []byte // every byte nsqd wrote on this connection
	done   int    // commands already answered
	off    int    // recv[off:] = the bytes not yet parsed into a command
	avail  []byte // reply bytes not yet read (symbolic run)
	srvEOF bool   // the lookupd hung up its side
	rst    bool   // the connection was aborted (RST): all further I/O of nsqd on it fails
	closed bool   // nsqd closed the connection
	magic  bool   // magic received and correct
	ident  bool   // IDENTIFY answered honestly
	cmds   []verifLCmd
	topics map[string]bool
	chans  map[string]bool
	conn   net.Conn // native only
}

type verifLookupd struct {
	w         *verifWorld
	i         int
	addr      string
	down      bool
	sessions  []*verifLSession
	cmdSeq    int
	identOK   []byte       // honest IDENTIFY answer
	pingReply []byte       // if set: raw bytes sent in answer to a PING, then the lookupd hangs up
	stall     bool         // the lookupd swallows every command and answers nothing (see "stall" above)
	l         net.Listener // native only
}

type verifWorld struct {
	lds      []*verifLookupd
	budget   int    // faults still available
	hits     int    // faults that have struck
	rsts     int    // ... of which connection aborts (RST)
	opN      int    // I/O calls so far (symbolic run)
	ioPlan   []bool // native: which I/O calls fail
	opBase   int    // native: I/O calls before the current clock plan
	step     int
	dials    []string
	mu       sync.Mutex // native only
	activity int        // native only: bumps on every accept / read / close at a lookupd
	// noClockPlan: native replay without planned I/O faults - nsqd's deadlines are its real ones
	// (one second from the real clock) instead of nativeClockPlan's generous 25 s
	noClockPlan bool
	never       chan struct{} // symbolic: nobody ever sends here (a read without deadline on a stalled lookupd)
}

var verifW *verifWorld

var verifMagic = []byte("  V1")
var verifIdentReply = []byte(`{"tcp_port":4160,"http_port":4161,"version":"1.3.0","broadcast_address":"lookupd.example"}`)
var verifIdentReplyNoAddr = []byte(`{"tcp_port":4160,"http_port":4161,"version":"1.3.0","broadcast_address":""}`)

func verifFrame(body []byte) []byte {
	return append(verifBE32(uint32(len(body))), body...)
}

// verifNewWorld: nLookupd scripted lookupds and `budget` fault slots.
func verifNewWorld(nLookupd, budget int) *verifWorld {
	w := &verifWorld{never: make(chan struct{})}
	verifW = w
	// Native replay: nsqd talks to real loopback listeners and the harness waits for nsqd's real
	// goroutines itself (rest / nativeSettle / tick are all bounded waits), so no schedule is
	// imposed. The symbolic schedule is the canonical one of verifrt.Rest and names threads of
	// symbolic-only stubs; forcing it on the native thread structure parks goroutines for good
	// (a replay then only ends with go test's timeout).
	verifrt.FreeRun()
	if verifrt.Symbolic() {
		verifrt.InitPackage("github.com/nsqio/go-nsq")
		verifrt.Stub("net.DialTimeout", verifDialStub)
	}
	for i := 0; i < nLookupd; i++ {
		ld := &verifLookupd{w: w, i: i, identOK: verifIdentReply}
		if verifrt.Symbolic() {
			ld.addr = "lookupd" + string(rune('0'+i)) + ":4160"
		} else {
			ld.addr = "127.0.0.1:0"
			ld.listen()
		}
		w.lds = append(w.lds, ld)
	}
	w.budget = budget
	if !verifrt.Symbolic() {
		// the k-th "io" decision of the symbolic run belongs to the k-th I/O call
		w.ioPlan = make([]bool, 256)
		for k := range w.ioPlan {
			w.ioPlan[k] = verifrt.Choice("io", 2) == 1
		}
	}
	return w
}

// strikes: does a fault strike at this point? (case split while the budget lasts)
func (w *verifWorld) strikes(what string) bool {
	if w.budget == 0 {
		return false
	}
	if verifrt.Choice(what, 2) == 1 {
		w.budget--
		w.hits++
		return true
	}
	return false
}

// ioFault: does this I/O call fail? (symbolic run)
func (w *verifWorld) ioFault() bool {
	w.opN++
	return w.strikes("io")
}

// beginStep applies the environment events scheduled for the next step.
func (w *verifWorld) beginStep() {
	for _, ld := range w.lds {
		if w.strikes("restart") {
			ld.restart()
		}
		if ld.established() && w.strikes("rst") {
			w.rsts++
			ld.abort()
		}
		ld.setDown(w.strikes("down"))
	}
	if !verifrt.Symbolic() {
		if w.noClockPlan {
			verifrt.NativeClock(nil) // (also drops the model's clock readings: the real clock from here on)
		} else {
			w.nativeClockPlan()
		}
	}
}

// endStep lets the environment settle (native) and accounts for the I/O faults that hit.
func (w *verifWorld) endStep() {
	if !verifrt.Symbolic() {
		w.nativeSettle()
		used := verifrt.NativeClockUsed()
		w.mu.Lock()
		for k := w.opBase; k < w.opBase+used && k < len(w.ioPlan); k++ {
			if w.ioPlan[k] && w.budget > 0 {
				w.budget--
				w.hits++
			}
		}
		w.opBase += used
		w.mu.Unlock()
		verifrt.NativeClock(nil)
	}
	w.step++
}

// nativeClockPlan: the k-th clock reading of the nsqd package from now on belongs to I/O call
// opBase+k (lookupPeer.Read/Write read the clock exactly once, nothing else in these harnesses
// does): a planned fault gets a reading in 1970 (deadline expired, the call fails at once),
// every other call a deadline 25 s ahead.
func (w *verifWorld) nativeClockPlan() {
	ok := verifWallNow().Add(25 * time.Second).UnixNano()
	plan := make([]int64, 256)
	for k := range plan {
		plan[k] = ok
		if w.opBase+k < len(w.ioPlan) && w.ioPlan[w.opBase+k] {
			plan[k] = int64(time.Second)
		}
	}
	verifrt.NativeClock(plan)
}

// verifWallNow: the real wall clock (native only). NOT spelled as a call of time.Now: a replay
// that carries a schedule is built from instrumented copies of every file of the package - the
// harness files included - in which each such call is rewritten to verifrt.Now(), i.e. it would
// consume one of the readings nativeClockPlan has lined up for lookupPeer's I/O calls and shift
// every planned I/O fault by one call.
func verifWallNow() time.Time {
	epoch := time.Unix(0, 0)
	return epoch.Add(-time.Until(epoch))
}

// nativeSettle: give the loopback lookupd's goroutines time to see what nsqd sent (native only).
func (w *verifWorld) nativeSettle() {
	if verifrt.Symbolic() {
		return
	}
	// wait until the lookupds have seen no traffic for 150 ms (at least 150 ms, at most 5 s)
	quiet, last := 0, -1
	for i := 0; i < 170 && quiet < 5; i++ {
		time.Sleep(30 * time.Millisecond)
		w.mu.Lock()
		a := w.activity
		w.mu.Unlock()
		if a == last {
			quiet++
		} else {
			quiet, last = 0, a
		}
	}
}

func (w *verifWorld) lock() {
	if !verifrt.Symbolic() {
		w.mu.Lock()
	}
}

func (w *verifWorld) unlock() {
	if !verifrt.Symbolic() {
		w.mu.Unlock()
	}
}

func (w *verifWorld) byAddr(addr string) *verifLookupd {
	for _, ld := range w.lds {
		if ld.addr == addr {
			return ld
		}
	}
	return nil
}

// ---------------------------------------------------------------------------------- lookupd

func (ld *verifLookupd) newSession() *verifLSession {
	s := &verifLSession{ld: ld, idx: len(ld.sessions), topics: map[string]bool{}, chans: map[string]bool{}}
	ld.sessions = append(ld.sessions, s)
	return s
}

func (ld *verifLookupd) current() *verifLSession {
	if len(ld.sessions) == 0 {
		return nil
	}
	return ld.sessions[len(ld.sessions)-1]
}

// restart: every connection is dropped and all listings are forgotten.
func (ld *verifLookupd) restart() {
	ld.w.lock()
	defer ld.w.unlock()
	for _, s := range ld.sessions {
		if !s.srvEOF && !s.closed {
			s.hangUp()
		}
	}
}

// established: the lookupd holds a connection of nsqd (there is something to abort).
func (ld *verifLookupd) established() bool {
	ld.w.lock()
	defer ld.w.unlock()
	s := ld.current()
	return s != nil && !s.srvEOF && !s.closed
}

// abort: the current connection is reset. The lookupd forgets it (and its listings) at once;
// it can no longer tell what nsqd does with its end, so from the lookupd's point of view the
// connection is closed from here on.
func (ld *verifLookupd) abort() {
	ld.w.lock()
	s := ld.current()
	s.hangUpState()
	s.rst = true
	s.closed = true
	if s.conn != nil {
		if tc, ok := s.conn.(*net.TCPConn); ok {
			tc.SetLinger(0) // close() sends RST instead of FIN
		}
		s.conn.Close()
	}
	ld.w.unlock()
	if !verifrt.Symbolic() {
		time.Sleep(50 * time.Millisecond) // the RST reaches nsqd's socket
	}
}

func (ld *verifLookupd) setDown(down bool) {
	if verifrt.Symbolic() {
		ld.down = down
		return
	}
	if down && !ld.down {
		ld.l.Close()
		time.Sleep(20 * time.Millisecond)
	} else if !down && ld.down {
		ld.listen()
	}
	ld.down = down
}

func (ld *verifLookupd) listen() {
	l, err := net.Listen("tcp", ld.addr)
	if err != nil {
		panic("verif: native lookupd cannot listen on " + ld.addr + ": " + err.Error())
	}
	ld.l = l
	ld.addr = l.Addr().String()
	go func() {
		for {
			c, err := l.Accept()
			if err != nil {
				return
			}
			ld.w.mu.Lock()
			s := ld.newSession()
			s.conn = c
			ld.w.activity++
			ld.w.mu.Unlock()
			go s.serve()
		}
	}()
}

func (s *verifLSession) serve() {
	buf := make([]byte, 4096)
	for {
		n, err := s.conn.Read(buf)
		if n > 0 {
			s.ld.w.mu.Lock()
			s.feed(buf[:n])
			s.ld.w.activity++
			s.ld.w.mu.Unlock()
		}
		if err != nil {
			s.ld.w.mu.Lock()
			s.closed = true
			s.ld.w.activity++
			s.ld.w.mu.Unlock()
			s.conn.Close()
			return
		}
	}
}

// hangUp: the lookupd ends its side of the connection; its listings for it are gone.
func (s *verifLSession) hangUp() {
	s.hangUpState()
	if s.conn != nil {
		if tc, ok := s.conn.(*net.TCPConn); ok {
			tc.CloseWrite() // FIN, keep draining: nsqd sees EOF, its writes are swallowed
		}
	}
}

func (s *verifLSession) hangUpState() {
	s.srvEOF = true
	s.ident = false
	s.topics = map[string]bool{}
	s.chans = map[string]bool{}
}

func (s *verifLSession) send(b []byte) {
	if s.conn != nil {
		s.conn.Write(b)
		return
	}
	s.avail = append(s.avail, b...)
}

// feed: bytes from nsqd arrive; answer every command that is now complete.
func (s *verifLSession) feed(p []byte) {
	s.recv = append(s.recv, p...)
	if s.srvEOF {
		return
	}
	for {
		cmd, ok := s.nextCmd()
		if !ok {
			return
		}
		s.respond(cmd)
		if s.srvEOF {
			return
		}
	}
}

// nextCmd parses the next unanswered command out of recv (false while it is incomplete).
// Incremental: off is where the first unanswered command starts.
func (s *verifLSession) nextCmd() (verifLCmd, bool) {
	b := s.recv
	if !s.magic {
		if len(b) < 4 {
			return verifLCmd{}, false
		}
		if !bytes.Equal(b[:4], verifMagic) {
			s.hangUp() // bad protocol magic
			return verifLCmd{}, false
		}
		s.magic = true
		s.off = 4
	}
	nl := bytes.IndexByte(b[s.off:], '\n')
	if nl < 0 {
		return verifLCmd{}, false
	}
	nl += s.off
	// NAME [topic [channel]]
	var f [3]string
	line := b[s.off:nl]
	for nf := 0; nf < 3; nf++ {
		sp := bytes.IndexByte(line, ' ')
		if sp < 0 || nf == 2 {
			f[nf] = string(line)
			break
		}
		f[nf] = string(line[:sp])
		line = line[sp+1:]
	}
	next := nl + 1
	cmd := verifLCmd{name: f[0], topic: f[1], channel: f[2]}
	if cmd.name == "IDENTIFY" {
		if len(b) < next+4 {
			return verifLCmd{}, false
		}
		n := int(uint32(b[next])<<24 | uint32(b[next+1])<<16 | uint32(b[next+2])<<8 | uint32(b[next+3]))
		if len(b) < next+4+n {
			return verifLCmd{}, false
		}
		next += 4 + n
	}
	s.off = next
	s.done++
	return cmd, true
}

func (s *verifLSession) respond(cmd verifLCmd) {
	ld := s.ld
	seq := ld.cmdSeq
	ld.cmdSeq++
	s.cmds = append(s.cmds, cmd)
	_ = seq
	if ld.stall {
		return // swallowed: no answer, and the connection stays open
	}
	if ld.w.strikes("reply") {
		switch verifrt.Choice("reply.kind", 4) {
		case 0:
		case 1:
			s.send(verifFrame([]byte("xx")))
		case 2:
			s.send(verifFrame([]byte("E_INVALID")))
		default:
			// a frame with an invalid length prefix. The per-value behaviour of the prefix (every
			// int32, negative ones included) is decided by VerifC16_ReadResponseBounded and end to
			// end by VerifC16_CommandSizePrefix; here one representative per class is enough:
			switch verifrt.Choice("reply.prefix", 3) {
			case 0: // announces more than follows before the lookupd hangs up
				s.send(append(verifBE32(3), 'x'))
			case 1: // announces more than max-body-size
				s.send(verifBE32(0x7fffffff))
			default: // an empty frame (valid framing, no content)
				s.send(verifBE32(0))
			}
		}
		s.hangUp()
		return
	}
	switch cmd.name {
	case "IDENTIFY":
		s.ident = true
		s.send(verifFrame(ld.identOK))
	case "PING":
		if ld.pingReply != nil {
			s.send(ld.pingReply)
			s.hangUp()
			return
		}
		s.send(verifFrame([]byte("OK")))
	case "REGISTER":
		if !s.ident || cmd.topic == "" {
			s.send(verifFrame([]byte("E_INVALID")))
			s.hangUp()
			return
		}
		s.topics[cmd.topic] = true
		if cmd.channel != "" {
			s.chans[cmd.topic+" "+cmd.channel] = true
		}
		s.send(verifFrame([]byte("OK")))
	case "UNREGISTER":
		if !s.ident || cmd.topic == "" {
			s.send(verifFrame([]byte("E_INVALID")))
			s.hangUp()
			return
		}
		if cmd.channel != "" {
			delete(s.chans, cmd.topic+" "+cmd.channel)
		} else {
			delete(s.topics, cmd.topic)
			for k := range s.chans {
				if len(k) > len(cmd.topic) && k[:len(cmd.topic)+1] == cmd.topic+" " {
					delete(s.chans, k)
				}
			}
		}
		s.send(verifFrame([]byte("OK")))
	default:
		s.send(verifFrame([]byte("E_INVALID")))
		s.hangUp()
	}
}

// alive: the lookupd still holds this connection's listings.
func (s *verifLSession) alive() bool {
	return s != nil && s.magic && s.ident && !s.srvEOF && !s.closed
}

// ------------------------------------------------------------------ stub connection (symbolic)

type verifLConn struct {
	s      *verifLSession
	closed bool
	rdl    bool // a read deadline is set
}

var errVerifTimeout = errors.New("verif: i/o timeout")
var errVerifClosed = errors.New("verif: use of closed network connection")
var errVerifRefused = errors.New("verif: connection refused")
var errVerifReset = errors.New("verif: connection reset by peer")

func verifDialStub(network, address string, timeout time.Duration) (net.Conn, error) {
	w := verifW
	w.dials = append(w.dials, address)
	ld := w.byAddr(address)
	if ld == nil || ld.down || network != "tcp" {
		return nil, errVerifRefused
	}
	return &verifLConn{s: ld.newSession()}, nil
}

func (c *verifLConn) Read(p []byte) (int, error) {
	if c.closed {
		return 0, errVerifClosed
	}
	if c.s.ld.w.ioFault() {
		return 0, errVerifTimeout
	}
	if c.s.rst {
		return 0, errVerifReset
	}
	if len(c.s.avail) > 0 {
		n := copy(p, c.s.avail)
		c.s.avail = c.s.avail[n:]
		return n, nil
	}
	if c.s.srvEOF {
		return 0, io.EOF
	}
	// nothing to read and the lookupd is silent: the read ends when its deadline expires -
	// without a deadline it never ends
	if !c.rdl {
		<-c.s.ld.w.never
	}
	return 0, errVerifTimeout
}

func (c *verifLConn) Write(p []byte) (int, error) {
	if c.closed {
		return 0, errVerifClosed
	}
	if c.s.ld.w.ioFault() {
		return 0, errVerifTimeout
	}
	if c.s.rst {
		return 0, errVerifReset
	}
	c.s.feed(p)
	return len(p), nil
}

func (c *verifLConn) Close() error {
	c.closed = true
	c.s.closed = true
	return nil
}
func (c *verifLConn) LocalAddr() net.Addr                { return verifAddr{} }
func (c *verifLConn) RemoteAddr() net.Addr               { return verifAddr{} }
func (c *verifLConn) SetDeadline(t time.Time) error      { c.rdl = !t.IsZero(); return nil }
func (c *verifLConn) SetReadDeadline(t time.Time) error  { c.rdl = !t.IsZero(); return nil }
func (c *verifLConn) SetWriteDeadline(t time.Time) error { return nil }

// ------------------------------------------------------------------ stubs for nsqd's helpers

// verifIdentifySeen: the identity map nsqd handed to nsq.Identify (symbolic run).
var verifIdentifySeen map[string]interface{}

// nsq.Identify marshals a map with encoding/json (reflection): replaced by a command with a
// fixed body; natively the real one runs (the lookupd model skips the body either way).
func verifIdentifyStub(js map[string]interface{}) (*nsq.Command, error) {
	verifIdentifySeen = js
	return &nsq.Command{Name: []byte("IDENTIFY"), Body: []byte(`{"verif":1}`)}, nil
}

// json.Unmarshal of the IDENTIFY answer into peerInfo: the two honest answers decode to their
// fields, everything else the environment sends (junk starting with 'x', empty) is not JSON.
func verifUnmarshalStub(data []byte, v interface{}) error {
	pi, ok := v.(*peerInfo)
	if !ok {
		return errors.New("verif: unexpected json.Unmarshal target")
	}
	if bytes.Equal(data, verifIdentReply) {
		*pi = peerInfo{TCPPort: 4160, HTTPPort: 4161, Version: "1.3.0", BroadcastAddress: "lookupd.example"}
		return nil
	}
	if bytes.Equal(data, verifIdentReplyNoAddr) {
		*pi = peerInfo{TCPPort: 4160, HTTPPort: 4161, Version: "1.3.0"}
		return nil
	}
	return errors.New("verif: invalid character")
}

func verifPersistNop(n *NSQD) error { return nil }

func verifC16Stubs() {
	verifrt.Stub("github.com/nsqio/go-nsq.Identify", verifIdentifyStub)
	verifrt.Stub("encoding/json.Unmarshal", verifUnmarshalStub)
	verifrt.Stub("(*github.com/nsqio/nsq/nsqd.NSQD).PersistMetadata", verifPersistNop)
}

// ------------------------------------------------------------------ oracle helpers

// verifInSync: does this lookupd list nsqd as producer of exactly its current topics/channels?
func verifInSync(n *NSQD, ld *verifLookupd) bool {
	ld.w.lock()
	defer ld.w.unlock()
	s := ld.current()
	if !s.alive() {
		return false
	}
	nT, nC := 0, 0
	ok := true
	n.RLock()
	for name, t := range n.topicMap {
		nT++
		if !s.topics[name] {
			ok = false
		}
		t.RLock()
		for cname := range t.channelMap {
			nC++
			if !s.chans[name+" "+cname] {
				ok = false
			}
		}
		t.RUnlock()
	}
	n.RUnlock()
	return ok && nT == len(s.topics) && nC == len(s.chans)
}
