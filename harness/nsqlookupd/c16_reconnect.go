//go:build verif

package nsqlookupd

// C16 (nsqlookupd's half of "nsqd keeps nsqlookupd in sync ... after dropped connections").
//
// When nsqd loses its connection to an nsqlookupd it dials again and repeats IDENTIFY and the
// REGISTER of every topic and channel it has; nothing else is ever re-sent (the heartbeat is a
// bare PING). The nsqlookupd can only converge to "lists that nsqd for exactly its current topics
// and channels" if what a LIVE connection registered stays listed - whatever happens to an older
// connection of the same nsqd, which nsqlookupd may see ending long after the new one is in use
// (half-open connections: nsqd gives up after its read timeout, nsqlookupd still holds its end).
//
// The harness drives the REAL nsqlookupd (tcpServer.Handle, IOLoop and its exit path, IDENTIFY,
// REGISTER, PING, RegistrationDB, the HTTP handlers - the verifC14World machinery) with two
// connections of ONE nsqd identity: the same broadcast address, hostname, tcp and http port, but
// different remote addresses (ephemeral source ports). Slot 0 is the old connection, slot 1 the
// new one. The old connection ends (EOF, or a fatal protocol error) at any point relative to the
// new connection's IDENTIFY and REGISTERs; optionally the new connection sends a heartbeat PING.
//
// Oracle, from the statement only; the nsqd is recognised in the answers the way a consumer
// recognises it: broadcast address + tcp port. With L(x) = the open connections that registered x:
//   /topics      lists topic t                                   if L(t) is not empty
//   /channels    of t lists channel c                            if L(t,c) is not empty
//   /lookup t    succeeds and its channels contain c             likewise
//   /lookup t    lists the nsqd at least once if some connection of L(t) has been heard from
//                (IDENTIFY or PING) within the inactivity timeout, at most |L(t)| times, and not
//                at all when every connection of L(t) has been silent for longer
//   /nodes       the same for the node itself (L = the open connections), and the entries of the
//                nsqd together list topic t if an active connection registered it, and do not
//                list it if no open connection did
// How many times the nsqd appears while two of its connections are open is left open (once or
// once per connection). All instants and the inactivity timeout are symbolic (see c14.go).

import (
	"github.com/nsqio/nsq/internal/verifrt"
)

const (
	verifC16Host  = "h0"
	verifC16AddrA = "10.0.0.1:5000" // old connection
	verifC16AddrB = "10.0.0.1:5001" // new connection: same nsqd, other source port
)

// the open connections (slots) that registered topic t / channel c of topic t
func (w *verifC14World) c16Live(t, c int) (n int, slots [verifC14NP]bool) {
	for s := 0; s < verifC14NP; s++ {
		has := w.m.conn[s] && w.m.rt[t][s]
		if c >= 0 {
			has = w.m.conn[s] && w.m.rc[t][c][s]
		}
		if has {
			slots[s] = true
			n++
		}
	}
	return
}

func (w *verifC14World) c16CheckTopics() {
	data, err := w.s.doTopics(nil, verifC14Req(""), nil)
	verifrt.Assert(err == nil, "topics-ok")
	mp, _ := data.(map[string]interface{})
	keys, ok := mp["topics"].([]string)
	verifrt.Assert(ok, "topics-shape")
	for t := 0; t < verifC14NT; t++ {
		if n, _ := w.c16Live(t, -1); n > 0 {
			cnt := 0
			for _, k := range keys {
				if k == verifC14Topic(t) {
					cnt++
				}
			}
			verifrt.Assert(cnt == 1, "topics-lists-every-topic-a-live-connection-registered")
		}
	}
}

func (w *verifC14World) c16AssertChannels(t int, chans []string, label string) {
	for c := 0; c < verifC14NC; c++ {
		if n, _ := w.c16Live(t, c); n > 0 {
			cnt := 0
			for _, k := range chans {
				if k == verifC14Chan(c) {
					cnt++
				}
			}
			verifrt.Assert(cnt == 1, label+"-lists-every-channel-a-live-connection-registered")
		}
	}
}

func (w *verifC14World) c16CheckChannels(t int) {
	data, err := w.s.doChannels(nil, verifC14Req("topic="+verifC14Esc(verifC14Topic(t))), nil)
	verifrt.Assert(err == nil, "channels-ok")
	mp, _ := data.(map[string]interface{})
	chans, ok := mp["channels"].([]string)
	verifrt.Assert(ok, "channels-shape")
	w.c16AssertChannels(t, chans, "channels")
}

// some connection of the set is surely active / all of them are surely inactive at the query
func (w *verifC14World) c16Activity(slots [verifC14NP]bool, q0, q1 int64) (someActive, allInactive bool) {
	allInactive = true
	for s := 0; s < verifC14NP; s++ {
		if !slots[s] {
			continue
		}
		act, inact := w.activeSurely(s, q1), w.inactiveSurely(s, q0)
		someActive = someActive || act
		allInactive = allInactive && inact
	}
	return
}

func (w *verifC14World) c16CheckLookup(t int) {
	q0 := verifC14Clock()
	data, err := w.s.doLookup(nil, verifC14Req("topic="+verifC14Esc(verifC14Topic(t))), nil)
	q1 := verifC14Clock()
	live, slots := w.c16Live(t, -1)
	if live == 0 {
		// nobody (alive) produces the topic: the nsqd must not be advertised for it
		if err == nil {
			mp, _ := data.(map[string]interface{})
			prods, _ := mp["producers"].([]*PeerInfo)
			for _, pi := range prods {
				verifrt.Assert(!(pi.BroadcastAddress == verifC16Host && pi.TCPPort == 4150),
					"lookup-does-not-list-the-nsqd-for-a-topic-no-live-connection-registered")
			}
		}
		return
	}
	verifrt.Assert(err == nil, "lookup-finds-every-topic-a-live-connection-registered")
	if err != nil {
		return
	}
	mp, _ := data.(map[string]interface{})
	chans, ok1 := mp["channels"].([]string)
	prods, ok2 := mp["producers"].([]*PeerInfo)
	verifrt.Assert(ok1 && ok2, "lookup-shape")
	w.c16AssertChannels(t, chans, "lookup-channels")
	listed := 0
	for _, pi := range prods {
		if pi.BroadcastAddress == verifC16Host && pi.TCPPort == 4150 {
			listed++
			verifrt.Assert(pi.Hostname == verifC16Host && pi.HTTPPort == 4151 && pi.Version == "1.3.0",
				"lookup-reports-the-identified-fields")
		} else {
			verifrt.Assert(false, "lookup-lists-only-the-nsqd-that-registered")
		}
	}
	someActive, allInactive := w.c16Activity(slots, q0, q1)
	verifrt.Assert(listed <= live, "lookup-lists-the-nsqd-at-most-once-per-live-connection")
	if listed == 0 {
		verifrt.Assert(!someActive, "lookup-lists-the-nsqd-for-what-its-live-connection-registered")
	} else {
		verifrt.Assert(!allInactive, "lookup-hides-the-nsqd-when-all-its-connections-are-silent")
	}
	verifrt.Reach("c16-lookup-nsqd-listed", listed > 0)
	verifrt.Reach("c16-lookup-nsqd-hidden-by-inactivity", listed == 0)
}

func (w *verifC14World) c16CheckNodes() {
	q0 := verifC14Clock()
	data, err := w.s.doNodes(nil, verifC14Req(""), nil)
	q1 := verifC14Clock()
	verifrt.Assert(err == nil, "nodes-ok")
	mp, _ := data.(map[string]interface{})
	nodes, ok := mp["producers"].([]*node)
	verifrt.Assert(ok, "nodes-shape")
	open := 0
	for s := 0; s < verifC14NP; s++ {
		if w.m.conn[s] {
			open++
		}
	}
	listed := 0
	var topicListed [verifC14NT]int
	for _, n := range nodes {
		if n.BroadcastAddress == verifC16Host && n.TCPPort == 4150 {
			listed++
			verifrt.Assert(n.Hostname == verifC16Host && n.HTTPPort == 4151 && n.Version == "1.3.0",
				"nodes-reports-the-identified-fields")
			for _, name := range n.Topics {
				if t := verifC14TopicIdx(name); t >= 0 {
					topicListed[t]++
				} else {
					verifrt.Assert(false, "nodes-topics-only-known-names")
				}
			}
		} else {
			verifrt.Assert(false, "nodes-lists-only-the-nsqd-that-identified")
		}
	}
	someActive, allInactive := w.c16Activity(w.m.conn, q0, q1)
	verifrt.Assert(listed <= open, "nodes-lists-the-nsqd-at-most-once-per-live-connection")
	if listed == 0 {
		verifrt.Assert(!someActive || open == 0, "nodes-lists-the-nsqd-while-it-has-a-live-connection")
	} else {
		verifrt.Assert(!allInactive, "nodes-hides-the-nsqd-when-all-its-connections-are-silent")
	}
	for t := 0; t < verifC14NT; t++ {
		live, slots := w.c16Live(t, -1)
		if live == 0 {
			verifrt.Assert(topicListed[t] == 0, "nodes-lists-no-topic-that-no-live-connection-registered")
			continue
		}
		verifrt.Assert(topicListed[t] <= live, "nodes-lists-a-topic-at-most-once-per-live-connection")
		act, _ := w.c16Activity(slots, q0, q1)
		if topicListed[t] == 0 {
			verifrt.Assert(!act, "nodes-lists-the-topics-its-live-connection-registered")
		}
	}
	verifrt.Reach("c16-nodes-nsqd-listed", listed > 0)
}

// the old connection ends: the nsqd side hangs up (nsqlookupd reads EOF), or nsqlookupd ends it
// itself after a fatal protocol error (a garbled line of a dying connection)
func (w *verifC14World) c16EndOld(how int) {
	if how == 0 {
		w.disconnect(0)
	} else {
		w.violate(0, 1)
	}
}

func verifC16Reconnect() {
	w := verifC14NewWorld()
	w.wit = 0
	// what this nsqd has: one topic (durable or ephemeral) with no channel, its durable or its
	// ephemeral channel; optionally a second topic created while the old connection was dying,
	// which only the new connection ever registers
	t := verifrt.Choice("topic", verifC14NT)
	c := verifrt.Choice("chan", verifC14NC+1) - 1
	extra := verifrt.Choice("extraTopic", 2) == 1
	// when the old connection's end reaches nsqlookupd:
	//   0: before the new connection exists (an orderly reconnect)
	//   1: after the new connection's IDENTIFY, before its REGISTERs
	//   2: between the new connection's REGISTERs
	//   3: after the new connection has registered everything
	when := verifrt.Choice("oldEnds", 4)
	how := verifrt.Choice("how", 2)
	verifrt.Assume(extra || when != 2) // without a second REGISTER, 2 is 3

	w.connectAs(0, verifC16Host, verifC16AddrA)
	w.register(0, t, c)
	if when == 0 {
		w.c16EndOld(how)
	}
	w.connectAs(1, verifC16Host, verifC16AddrB)
	if when == 1 {
		w.c16EndOld(how)
	}
	w.register(1, t, c)
	if when == 2 {
		w.c16EndOld(how)
	}
	if extra {
		w.register(1, 1-t, 0)
	}
	if when == 3 {
		w.c16EndOld(how)
	}
	// the heartbeat of the new connection (nsqd pings every 15 s; nothing is ever re-registered)
	if verifrt.Choice("ping", 2) == 1 {
		w.ping(1)
	}
	verifrt.Assert(w.m.conn[1] && !w.m.conn[0], "c16-scenario-new-connection-open-old-one-ended")
	w.c16CheckTopics()
	for tt := 0; tt < verifC14NT; tt++ {
		w.c16CheckChannels(tt)
	}
	// one time-dependent query per path (they do not change the registry; see checkTimed)
	q := verifrt.Choice("query", verifC14NT+1)
	if q < verifC14NT {
		w.c16CheckLookup(q)
	} else {
		w.c16CheckNodes()
	}
	verifrt.Reach("c16-old-connection-ended-after-the-new-one-registered", when == 3)
	verifrt.Reach("c16-old-connection-ended-by-fatal-error", w.sawFatal)
}

// VerifC16_LookupdKeepsReconnectedProducer: registrations made through a live connection survive
// the (possibly late) end of an older connection of the same nsqd.
func VerifC16_LookupdKeepsReconnectedProducer() { verifrt.Atomic(verifC16Reconnect) }

// The same while BOTH connections are still open (nsqlookupd has not noticed anything yet): the
// new connection's REGISTERs and PINGs count. The old connection has been silent since its
// IDENTIFY; the new one keeps pinging - the nsqd must stay listed as long as the NEW connection
// is heard from in time.
func verifC16Overlap() {
	w := verifC14NewWorld()
	w.wit = 0
	t := verifrt.Choice("topic", verifC14NT)
	c := verifrt.Choice("chan", verifC14NC+1) - 1
	w.connectAs(0, verifC16Host, verifC16AddrA)
	w.register(0, t, c)
	w.connectAs(1, verifC16Host, verifC16AddrB)
	w.register(1, t, c)
	if verifrt.Choice("extraTopic", 2) == 1 {
		w.register(1, 1-t, 0)
	}
	w.ping(1)
	w.c16CheckTopics()
	for tt := 0; tt < verifC14NT; tt++ {
		w.c16CheckChannels(tt)
	}
	q := verifrt.Choice("query", verifC14NT+1)
	if q < verifC14NT {
		w.c16CheckLookup(q)
	} else {
		w.c16CheckNodes()
	}
}

func VerifC16_LookupdCountsTheNewConnectionsHeartbeat() { verifrt.Atomic(verifC16Overlap) }
