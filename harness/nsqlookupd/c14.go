//go:build verif

package nsqlookupd

// C14 - nsqlookupd answers reflect exactly the live registrations.
//
// verifC14World drives the REAL daemon code end to end - tcpServer.Handle (protocol magic, client
// creation, connection close), LookupProtocolV1.IOLoop (line parsing, dispatch, response
// framing, fatal-error handling, the exit path that drops a peer's registrations), the
// IDENTIFY / REGISTER / UNREGISTER / PING handlers, the RegistrationDB and the undecorated HTTP
// handlers of httpServer - and keeps next to it a plain registry model (verifC14Model) written
// from the property statement. Every connection is a stub net.Conn whose byte stream the harness
// feeds command by command; the daemon side runs in its own goroutine exactly as in production.
// Structure (who is registered where) is concrete on every path; every instant (clock readings)
// and both thresholds (inactive-producer timeout, tombstone lifetime) are symbolic, so the solver
// decides the time-dependent part of every answer for all clocks and all settings at once.
//
// Time in the oracle: the code reads the clock somewhere inside an operation. The harness reads
// the same monotone model clock immediately before and after each time-relevant operation, so
// the model knows every instant the operation used only up to an interval [lo,hi]. A producer
// MUST be listed when it qualifies for every instant in the intervals, MUST NOT be listed when
// it is disqualified for every instant, and is unconstrained in between (the intervals collapse
// when the solver picks equal readings, so exact threshold behaviour - <= versus < - is still
// pinned).
//
// Identities: ordinarily the two peers are two nsqds (h0, h1). VerifC14_StepSharedNodeName lets
// both connections announce ONE node name (verifC14Announce): registrations, pings and
// disconnects stay per connection, a tombstone - which names the node - hides them all.
// VerifC14_StepSameAnnouncedAddress (c14_sameaddr.go) lets them announce one and the same nsqd
// address in every field (only the remote addresses differ) and pins that each connection's
// registrations are its own.
//
// Where the statement is silent the model follows the implementation's choice instead of
// demanding one: the presence of an EMPTY ephemeral key after a disconnect or after a topic-level
// UNREGISTER emptied one of its channels as a side effect. Pinned ("ephemeral names disappear
// once unused"): after an UNREGISTER - from ANY identified peer, registered for it or not - that
// names an ephemeral channel or an ephemeral topic whose producer set is empty afterwards, that
// key is no longer advertised by /channels, /topics or /lookup.

import (
	"encoding/json"
	"io"
	"net"
	"net/http"
	"net/url"
	"time"

	"github.com/nsqio/nsq/internal/http_api"
	"github.com/nsqio/nsq/internal/lg"
	"github.com/nsqio/nsq/internal/verifrt"
)

const (
	verifC14NP = 2 // peers (nsqd connections)
	verifC14NT = 2 // topics: one durable, one ephemeral
	verifC14NC = 2 // channels per topic: one durable, one ephemeral
)

func verifC14Topic(t int) string {
	if t == 0 {
		return "t"
	}
	return "e#ephemeral"
}

func verifC14Chan(c int) string {
	if c == 0 {
		return "c"
	}
	return "d#ephemeral"
}

// query-string form (the '#' must be escaped)
func verifC14Esc(s string) string {
	switch s {
	case "e#ephemeral":
		return "e%23ephemeral"
	case "d#ephemeral":
		return "d%23ephemeral"
	}
	return s
}

func verifC14TopicIdx(s string) int {
	for t := 0; t < verifC14NT; t++ {
		if verifC14Topic(t) == s {
			return t
		}
	}
	return -1
}

func verifC14ChanIdx(s string) int {
	for c := 0; c < verifC14NC; c++ {
		if verifC14Chan(c) == s {
			return c
		}
	}
	return -1
}

func verifC14Host(p int) string {
	if p == 0 {
		return "h0"
	}
	return "h1"
}

// What a peer announces in IDENTIFY. Ordinarily every peer is an nsqd of its own (h0, h1). With
// alias > 0 the two connections announce the SAME node name (broadcast address and http port,
// which is how /topic/tombstone addresses a producer): two nsqds configured with one broadcast
// address (alias 1: hostname and tcp port differ), or an nsqd that reconnected while its old
// connection is still open (alias 2: only the remote address differs). The registry model keeps
// them apart as two producers - each connection registers, pings and disconnects for itself -
// but a tombstone names the node, so it hides every registration that carries the name.
type verifC14Announce struct {
	bcast, hostname string
	tcp             int
}

func (w *verifC14World) announce(p int) verifC14Announce {
	if p == 1 && w.alias == 1 {
		return verifC14Announce{"h0", "h1", 4152}
	}
	if p == 1 && w.alias == 2 {
		return verifC14Announce{"h0", "h0", 4150}
	}
	return verifC14Announce{verifC14Host(p), verifC14Host(p), 4150}
}

// the name /topic/tombstone knows peer p by: broadcast_address:http_port (every peer's http port is 4151)
func (w *verifC14World) nodeName(p int) string { return w.announce(p).bcast + ":4151" }

func verifC14PeerAddr(p int) string {
	if p == 1 {
		return "10.0.0.2:5000"
	}
	return "10.0.0.1:5000"
}

// node names usable in /topic/tombstone: the two peers and one that matches nobody
func verifC14Node(n int) string {
	switch n {
	case 0:
		return "h0:4151"
	case 1:
		return "h1:4151"
	}
	return "zz:1"
}

// ---- environment stubs ----

type verifC14Addr struct{ s string }

func (a verifC14Addr) Network() string { return "tcp" }
func (a verifC14Addr) String() string  { return a.s }

// verifC14Conn: the nsqd side of one TCP connection. The real IOLoop of the connection runs in
// its own goroutine; whenever it asks for more input it first reports "idle" (everything sent
// so far has been processed and answered), then waits for the next chunk of the stream; closing
// `in` is the peer hanging up. (Both channels have room for one element: neither side ever blocks
// in a send, which is what the native schedule replay of the engine needs.)
type verifC14Conn struct {
	addr    string
	in      chan []byte
	ev      chan int // 1 = waiting for input, 2 = IOLoop has returned
	pending []byte
	out     []byte
	closed  int
}

const (
	verifC14Idle = 1
	verifC14Gone = 2
)

func (c *verifC14Conn) Read(p []byte) (int, error) {
	if len(c.pending) == 0 {
		c.ev <- verifC14Idle
		b, ok := <-c.in
		if !ok {
			return 0, io.EOF
		}
		c.pending = b
	}
	n := copy(p, c.pending)
	c.pending = c.pending[n:]
	return n, nil
}
func (c *verifC14Conn) Write(p []byte) (int, error)        { c.out = append(c.out, p...); return len(p), nil }
func (c *verifC14Conn) Close() error                       { c.closed++; return nil }
func (c *verifC14Conn) LocalAddr() net.Addr                { return verifC14Addr{"127.0.0.1:4160"} }
func (c *verifC14Conn) RemoteAddr() net.Addr               { return verifC14Addr{c.addr} }
func (c *verifC14Conn) SetDeadline(t time.Time) error      { return nil }
func (c *verifC14Conn) SetReadDeadline(t time.Time) error  { return nil }
func (c *verifC14Conn) SetWriteDeadline(t time.Time) error { return nil }

// takeFrame removes and returns the next response frame (4-byte big-endian size + data) that
// the server has written to the connection; ok=false if there is no complete frame.
func (c *verifC14Conn) takeFrame() (data []byte, ok bool) {
	if len(c.out) < 4 {
		return nil, false
	}
	n := int(c.out[0])<<24 | int(c.out[1])<<16 | int(c.out[2])<<8 | int(c.out[3])
	if n < 0 || len(c.out) < 4+n {
		return nil, false
	}
	data = c.out[4 : 4+n]
	c.out = c.out[4+n:]
	return data, true
}

// listener stub: IDENTIFY's answer reports the daemon's own ports
type verifC14Listener struct{ port int }

func (l verifC14Listener) Accept() (net.Conn, error) { return nil, io.EOF }
func (l verifC14Listener) Close() error              { return nil }
func (l verifC14Listener) Addr() net.Addr            { return &net.TCPAddr{Port: l.port} }

// the IDENTIFY body an nsqd sends
type verifC14Identify struct {
	BroadcastAddress string `json:"broadcast_address"`
	Hostname         string `json:"hostname"`
	TCPPort          int    `json:"tcp_port"`
	HTTPPort         int    `json:"http_port"`
	Version          string `json:"version"`
}

type verifC14Body struct{}

func (verifC14Body) Read(p []byte) (int, error) { return 0, io.EOF }
func (verifC14Body) Close() error               { return nil }

func verifC14Req(rawQuery string) *http.Request {
	return &http.Request{Method: "GET", URL: &url.URL{Path: "/", RawQuery: rawQuery}, Body: verifC14Body{}}
}

// ---- the model (plain registry, written from the statement) ----

// an instant known to lie in [lo, hi]
type verifC14Iv struct{ lo, hi int64 }

type verifC14Model struct {
	conn   [verifC14NP]bool       // connected (and identified) peers
	lu     [verifC14NP]verifC14Iv // last IDENTIFY/PING
	tkey   [verifC14NT]bool       // topic keys
	ckey   [verifC14NT][verifC14NC]bool
	rt     [verifC14NT][verifC14NP]bool // topic registrations
	tomb   [verifC14NT][verifC14NP]bool
	tombAt [verifC14NT][verifC14NP]verifC14Iv
	rc     [verifC14NT][verifC14NC][verifC14NP]bool // channel registrations
}

func (m *verifC14Model) topicProducers(t int) int {
	n := 0
	for p := 0; p < verifC14NP; p++ {
		if m.rt[t][p] {
			n++
		}
	}
	return n
}

func (m *verifC14Model) chanProducers(t, c int) int {
	n := 0
	for p := 0; p < verifC14NP; p++ {
		if m.rc[t][c][p] {
			n++
		}
	}
	return n
}

// ---- the world: real code + model ----

type verifC14Peer struct {
	conn *verifC14Conn
	info *PeerInfo
}

type verifC14World struct {
	l     *NSQLookupd
	s     *httpServer
	tcp   *tcpServer // connections are served by the real tcpServer.Handle
	inact time.Duration
	life  time.Duration
	peers [verifC14NP]verifC14Peer
	m     verifC14Model
	// vacuity witnesses: wit = the number of operations a history of this harness can contain
	// (a witness that needs more operations than that is not demanded)
	wit int
	// >= 0: operations take only this topic as operand (quick-tier slice of the step harnesses)
	onlyTopic int
	// > 0: both peers announce the same node name (see verifC14Announce)
	alias int
	// >= 0: the only operation kinds step() may take (nil: all)
	kinds []int
	// REGISTER / UNREGISTER operations of step() name a topic only, no channel
	topicLevel bool
	// what happened (for the vacuity witnesses)
	sawEphemeralRemoved bool
	sawEphemeralDropped bool // an existing empty ephemeral key went with the UNREGISTER of a non-producer
	sawDisconnect       bool
	sawFatal            bool
	sawTombstoneHitTwo  bool // one /topic/tombstone call hid two producers carrying the node name
	sawDeleteOfKeyless  bool // /topic/delete of a topic without a topic key whose channel keys were still there
	sawBothInLookup     bool // one /lookup answer listed both peers
	sawBothInNodes      bool // one /nodes answer listed both peers
}

func verifC14NewWorld() *verifC14World {
	// Clock and thresholds: every clock reading is the previous one plus a fresh step of k bits
	// (0 .. 2^k-1 ns) and both thresholds range over all values of k+3 bits. Every answer depends
	// only on comparisons between sums of consecutive steps and a threshold; small magnitudes
	// realise every ordering of the instants, every exact-threshold coincidence and "several
	// steps add up to more / less than the threshold" (the solver's cost grows exponentially
	// with k: it bit-blasts these sums). Wrap-around of huge durations is outside the claim.
	// Thresholds are masked unsigned values, so no Assume - and no solver call - ranges them.
	k := verifrt.Bound("clockStepBits", 2, 3)
	verifrt.ClockSteps(k)
	mask := byte(1)<<uint(k+3) - 1
	inact := time.Duration(verifrt.Byte("inactiveProducerTimeout") & mask)
	life := time.Duration(verifrt.Byte("tombstoneLifetime") & mask)
	verifrt.ClockRange(1<<60, 1<<61)
	opts := &Options{
		LogLevel:                lg.FATAL,
		BroadcastAddress:        "lookupd",
		InactiveProducerTimeout: inact,
		TombstoneLifetime:       life,
	}
	l := &NSQLookupd{opts: opts, DB: NewRegistrationDB(),
		tcpListener: verifC14Listener{4160}, httpListener: verifC14Listener{4161}}
	return &verifC14World{
		tcp:   &tcpServer{nsqlookupd: l},
		l:     l,
		s:     &httpServer{nsqlookupd: l},
		inact: inact,
		life:  life,

		onlyTopic: -1,
	}
}

func (w *verifC14World) reach(needOps int, label string, cond bool) {
	if w.wit >= needOps {
		verifrt.Reach(label, cond)
	}
}

func verifC14Clock() int64 { return verifrt.Now().UnixNano() }

// send hands one chunk of the peer's byte stream to the connection's IOLoop and waits until the
// loop has digested it: it either waits for more input (true) or has returned (false).
func (w *verifC14World) send(p int, chunk []byte) (alive bool) {
	c := w.peers[p].conn
	c.in <- chunk
	return <-c.ev == verifC14Idle
}

// connect: a new nsqd connection is accepted (real tcpServer.Handle -> IOLoop, running in its own
// goroutine); the peer sends the V1 magic and then, as its first command, a well-formed IDENTIFY (real handler; the JSON body goes through the engine's encoding/json
// contract model symbolically and through the real decoder natively).
func (w *verifC14World) connect(p int) {
	addr := verifC14PeerAddr(p)
	a := w.announce(p)
	w.connectWith(p, a, addr)
	// the client object lives inside Handle: find the peer by its connection (remote address)
	var info *PeerInfo
	for _, pr := range w.l.DB.FindProducers("client", "", "") {
		if pr.peerInfo.RemoteAddress == addr {
			info = pr.peerInfo
		}
	}
	verifrt.Assert(info != nil, "identify-records-the-peer")
	if info != nil {
		verifrt.Assert(info.BroadcastAddress == a.bcast && info.Hostname == a.hostname &&
			info.TCPPort == a.tcp && info.HTTPPort == 4151 && info.Version == "1.3.0" &&
			info.RemoteAddress == addr, "identify-records-the-announced-fields")
	}
	w.peers[p].info = info
}

// connectAs: connection slot p is a new connection from remote address addr whose IDENTIFY
// announces the nsqd `host` (broadcast address and hostname; tcp port 4150, http port 4151)
func (w *verifC14World) connectAs(p int, host, addr string) {
	w.connectWith(p, verifC14Announce{host, host, 4150}, addr)
}

func (w *verifC14World) connectWith(p int, a verifC14Announce, addr string) {
	conn := &verifC14Conn{addr: addr, in: make(chan []byte, 1), ev: make(chan int, 1)}
	// the whole accept path: tcpServer.Handle reads the protocol magic, creates the client, runs
	// IOLoop and closes the connection afterwards
	w.peers[p] = verifC14Peer{conn: conn}
	verifrt.Go("handle", func() {
		w.tcp.Handle(conn)
		conn.ev <- verifC14Gone
	})
	first := <-conn.ev
	verifrt.Assert(first == verifC14Idle, "handle-waits-for-the-protocol-magic")
	verifrt.Assert(w.send(p, []byte("  V1")), "handle-accepts-the-v1-magic")
	body, _ := json.Marshal(verifC14Identify{
		BroadcastAddress: a.bcast,
		Hostname:         a.hostname,
		TCPPort:          a.tcp,
		HTTPPort:         4151,
		Version:          "1.3.0",
	})
	n := len(body)
	wire := append([]byte("IDENTIFY\n"), byte(n>>24), byte(n>>16), byte(n>>8), byte(n))
	wire = append(wire, body...)
	t0 := verifC14Clock()
	alive := w.send(p, wire)
	t1 := verifC14Clock()
	_, answered := conn.takeFrame()
	verifrt.Assert(alive && answered, "identify-accepted-and-answered")
	w.m.conn[p] = true
	w.m.lu[p] = verifC14Iv{t0, t1}
}

// exec sends one protocol command line of peer p through the real IOLoop and returns the
// response frame. If the loop ended the connection (fatal error), alive is false and the model
// forgets the peer - without any further call into the code under test.
func (w *verifC14World) exec(p int, line string) (resp []byte, alive bool) {
	alive = w.send(p, []byte(line+"\n"))
	resp, _ = w.peers[p].conn.takeFrame()
	if !alive {
		verifrt.Assert(w.peers[p].conn.closed == 1, "handle-closes-the-connection-once")
		w.sawFatal = true
		w.forget(p)
	}
	return resp, alive
}

// disconnect: the peer hangs up; the real IOLoop sees EOF and runs its exit path.
func (w *verifC14World) disconnect(p int) {
	c := w.peers[p].conn
	close(c.in)
	last := <-c.ev
	verifrt.Assert(last == verifC14Gone, "ioloop-returns-on-eof")
	verifrt.Assert(c.closed == 1, "handle-closes-the-connection-once")
	w.forget(p)
}

// forget: the model's view of "the connection of peer p has ended"
func (w *verifC14World) forget(p int) {
	w.sawDisconnect = true
	m := &w.m
	m.conn[p] = false
	for t := 0; t < verifC14NT; t++ {
		was := m.rt[t][p]
		m.rt[t][p] = false
		m.tomb[t][p] = false
		if was && t == 1 && m.topicProducers(t) == 0 {
			// statement silent: ephemeral key after a mere disconnect
			m.tkey[t] = w.implTopicKey(t)
		}
		for c := 0; c < verifC14NC; c++ {
			wasC := m.rc[t][c][p]
			m.rc[t][c][p] = false
			if wasC && c == 1 && m.chanProducers(t, c) == 0 {
				m.ckey[t][c] = w.implChanKey(t, c)
			}
		}
	}
}

// where the statement leaves the presence of an empty ephemeral key open, the model
// continues from whichever outcome the implementation chose
func (w *verifC14World) implTopicKey(t int) bool {
	return len(w.l.DB.FindRegistrations("topic", verifC14Topic(t), "")) > 0
}

func (w *verifC14World) implChanKey(t, c int) bool {
	return len(w.l.DB.FindRegistrations("channel", verifC14Topic(t), verifC14Chan(c))) > 0
}

// c < 0: no channel
func (w *verifC14World) register(p, t, c int) {
	line := "REGISTER " + verifC14Topic(t)
	if c >= 0 {
		line += " " + verifC14Chan(c)
	}
	resp, alive := w.exec(p, line)
	verifrt.Assert(alive && string(resp) == "OK", "register-valid-names-accepted")
	m := &w.m
	if !m.rt[t][p] {
		m.rt[t][p] = true
		m.tomb[t][p] = false
	}
	m.tkey[t] = true
	if c >= 0 {
		m.ckey[t][c] = true
		m.rc[t][c][p] = true
	}
}

func (w *verifC14World) unregister(p, t, c int) {
	line := "UNREGISTER " + verifC14Topic(t)
	if c >= 0 {
		line += " " + verifC14Chan(c)
	}
	resp, alive := w.exec(p, line)
	verifrt.Assert(alive && string(resp) == "OK", "unregister-valid-names-accepted")
	m := &w.m
	if c >= 0 {
		was := m.rc[t][c][p]
		m.rc[t][c][p] = false
		if c == 1 && m.chanProducers(t, c) == 0 {
			// an explicit UNREGISTER for an ephemeral channel that nobody produces (any more):
			// the key goes, whether or not the caller was its last producer
			if m.ckey[t][c] {
				if was {
					w.sawEphemeralRemoved = true
				} else {
					w.sawEphemeralDropped = true
				}
			}
			m.ckey[t][c] = false
		}
		return
	}
	was := m.rt[t][p]
	m.rt[t][p] = false
	m.tomb[t][p] = false
	for cc := 0; cc < verifC14NC; cc++ {
		wasC := m.rc[t][cc][p]
		m.rc[t][cc][p] = false
		if wasC && cc == 1 && m.chanProducers(t, cc) == 0 {
			// emptied as a side effect of the topic-level UNREGISTER: statement silent
			m.ckey[t][cc] = w.implChanKey(t, cc)
		}
	}
	if t == 1 && m.topicProducers(t) == 0 {
		// an explicit UNREGISTER for an ephemeral topic that nobody produces (any more)
		if m.tkey[t] {
			if was {
				w.sawEphemeralRemoved = true
			} else {
				w.sawEphemeralDropped = true
			}
		}
		m.tkey[t] = false
	}
}

func (w *verifC14World) ping(p int) {
	t0 := verifC14Clock()
	resp, alive := w.exec(p, "PING")
	t1 := verifC14Clock()
	verifrt.Assert(alive && string(resp) == "OK", "ping-answers-ok")
	w.m.lu[p] = verifC14Iv{t0, t1}
}

// a protocol violation by an identified peer: the server answers E_... and ends the connection
// (variant 0: IDENTIFY again, 1: unknown command, 2: REGISTER with an invalid channel name)
func (w *verifC14World) violate(p int, variant int) {
	line, want := "IDENTIFY", "E_INVALID"
	switch variant {
	case 1:
		line = "BOGUS x"
	case 2:
		line, want = "REGISTER t bad$name", "E_BAD_CHANNEL"
	}
	resp, alive := w.exec(p, line)
	verifrt.Assert(!alive, "protocol-violation-ends-the-connection")
	verifrt.Assert(len(resp) >= len(want) && string(resp[:len(want)]) == want, "protocol-violation-error-code")
}

func verifC14ErrCode(err error) int {
	if err == nil {
		return 200
	}
	if e, ok := err.(http_api.Err); ok {
		return e.Code
	}
	return -1
}

func (w *verifC14World) createTopic(t int) {
	data, err := w.s.doCreateTopic(nil, verifC14Req("topic="+verifC14Esc(verifC14Topic(t))), nil)
	verifrt.Assert(data == nil && err == nil, "create-topic-ok")
	w.m.tkey[t] = true
}

func (w *verifC14World) deleteTopic(t int) {
	data, err := w.s.doDeleteTopic(nil, verifC14Req("topic="+verifC14Esc(verifC14Topic(t))), nil)
	verifrt.Assert(data == nil && err == nil, "delete-topic-ok")
	m := &w.m
	// the topic and every channel of it go - whether or not the topic itself still has a key (the
	// channels of an ephemeral topic outlive its key when the last producer unregisters the topic)
	for c := 0; c < verifC14NC; c++ {
		if !m.tkey[t] && m.ckey[t][c] {
			w.sawDeleteOfKeyless = true
		}
	}
	m.tkey[t] = false
	for p := 0; p < verifC14NP; p++ {
		m.rt[t][p] = false
		m.tomb[t][p] = false
	}
	for c := 0; c < verifC14NC; c++ {
		m.ckey[t][c] = false
		for p := 0; p < verifC14NP; p++ {
			m.rc[t][c][p] = false
		}
	}
}

func verifC14TCQuery(t, c int) string {
	return "topic=" + verifC14Esc(verifC14Topic(t)) + "&channel=" + verifC14Esc(verifC14Chan(c))
}

func (w *verifC14World) createChannel(t, c int) {
	data, err := w.s.doCreateChannel(nil, verifC14Req(verifC14TCQuery(t, c)), nil)
	verifrt.Assert(data == nil && err == nil, "create-channel-ok")
	w.m.tkey[t] = true
	w.m.ckey[t][c] = true
}

func (w *verifC14World) deleteChannel(t, c int) {
	data, err := w.s.doDeleteChannel(nil, verifC14Req(verifC14TCQuery(t, c)), nil)
	m := &w.m
	if !m.ckey[t][c] {
		verifrt.Assert(data == nil && verifC14ErrCode(err) == 404, "delete-unknown-channel-is-404")
		return
	}
	verifrt.Assert(data == nil && err == nil, "delete-channel-ok")
	m.ckey[t][c] = false
	for p := 0; p < verifC14NP; p++ {
		m.rc[t][c][p] = false
	}
}

func (w *verifC14World) tombstone(t, node int) {
	t0 := verifC14Clock()
	data, err := w.s.doTombstoneTopicProducer(nil,
		verifC14Req("topic="+verifC14Esc(verifC14Topic(t))+"&node="+verifC14Node(node)), nil)
	t1 := verifC14Clock()
	verifrt.Assert(data == nil && err == nil, "tombstone-ok")
	// the call names a node: it hides every producer of the topic that announced this name
	m := &w.m
	hits := 0
	for p := 0; p < verifC14NP; p++ {
		if w.nodeName(p) == verifC14Node(node) && m.conn[p] && m.rt[t][p] {
			m.tomb[t][p] = true
			m.tombAt[t][p] = verifC14Iv{t0, t1}
			hits++
		}
	}
	if hits >= 2 {
		w.sawTombstoneHitTwo = true
	}
}

// ---- the oracle: every query endpoint against the model ----

// activity / tombstone predicates over the uncertainty intervals (q0,q1 = clock before/after the query)
func (w *verifC14World) activeSurely(p int, q1 int64) bool {
	return q1-w.m.lu[p].lo <= int64(w.inact)
}
func (w *verifC14World) inactiveSurely(p int, q0 int64) bool {
	return q0-w.m.lu[p].hi > int64(w.inact)
}
func (w *verifC14World) tombstonedSurely(t, p int, q1 int64) bool {
	return w.m.tomb[t][p] && q1-w.m.tombAt[t][p].lo < int64(w.life)
}
func (w *verifC14World) notTombstonedSurely(t, p int, q0 int64) bool {
	return !w.m.tomb[t][p] || q0-w.m.tombAt[t][p].hi >= int64(w.life)
}

func (w *verifC14World) checkTopics() {
	data, err := w.s.doTopics(nil, verifC14Req(""), nil)
	verifrt.Assert(err == nil, "topics-ok")
	mp, _ := data.(map[string]interface{})
	keys, ok := mp["topics"].([]string)
	verifrt.Assert(ok, "topics-shape")
	var cnt [verifC14NT]int
	for _, k := range keys {
		i := verifC14TopicIdx(k)
		verifrt.Assert(i >= 0, "topics-lists-only-known-names")
		if i >= 0 {
			cnt[i]++
		}
	}
	for t := 0; t < verifC14NT; t++ {
		if w.m.tkey[t] {
			verifrt.Assert(cnt[t] == 1, "topics-lists-every-topic-once")
		} else {
			verifrt.Assert(cnt[t] == 0, "topics-lists-no-absent-topic")
		}
	}
}

func (w *verifC14World) assertChannelSet(t int, chans []string, label string) {
	var cnt [verifC14NC]int
	for _, k := range chans {
		i := verifC14ChanIdx(k)
		verifrt.Assert(i >= 0, label+"-only-known-names")
		if i >= 0 {
			cnt[i]++
		}
	}
	for c := 0; c < verifC14NC; c++ {
		if w.m.ckey[t][c] {
			verifrt.Assert(cnt[c] == 1, label+"-every-channel-once")
		} else {
			verifrt.Assert(cnt[c] == 0, label+"-no-absent-channel")
		}
	}
}

func (w *verifC14World) checkChannels(t int) {
	data, err := w.s.doChannels(nil, verifC14Req("topic="+verifC14Esc(verifC14Topic(t))), nil)
	verifrt.Assert(err == nil, "channels-ok")
	mp, _ := data.(map[string]interface{})
	chans, ok := mp["channels"].([]string)
	verifrt.Assert(ok, "channels-shape")
	w.assertChannelSet(t, chans, "channels")
}

func (w *verifC14World) checkLookup(t int) {
	q0 := verifC14Clock()
	data, err := w.s.doLookup(nil, verifC14Req("topic="+verifC14Esc(verifC14Topic(t))), nil)
	q1 := verifC14Clock()
	m := &w.m
	if !m.tkey[t] {
		verifrt.Assert(data == nil && verifC14ErrCode(err) == 404, "lookup-unknown-topic-is-404")
		w.reach(1, "lookup-404", true)
		return
	}
	verifrt.Assert(err == nil, "lookup-known-topic-found")
	mp, _ := data.(map[string]interface{})
	chans, ok1 := mp["channels"].([]string)
	prods, ok2 := mp["producers"].([]*PeerInfo)
	verifrt.Assert(ok1 && ok2, "lookup-shape")
	w.assertChannelSet(t, chans, "lookup-channels")
	var cnt [verifC14NP]int
	foreign := 0
	for _, pi := range prods {
		hit := false
		for p := 0; p < verifC14NP; p++ {
			if w.peers[p].info != nil && pi == w.peers[p].info {
				cnt[p]++
				hit = true
			}
		}
		if !hit {
			foreign++
		}
	}
	verifrt.Assert(foreign == 0, "lookup-lists-only-live-connections")
	for p := 0; p < verifC14NP; p++ {
		listed := cnt[p] > 0
		verifrt.Assert(cnt[p] <= 1, "lookup-lists-a-producer-at-most-once")
		if !m.conn[p] || !m.rt[t][p] {
			verifrt.Assert(!listed, "lookup-hides-unregistered-or-disconnected")
			continue
		}
		// (each predicate is evaluated first: a call on the right of && / || would fork the path)
		act, inactive := w.activeSurely(p, q1), w.inactiveSurely(p, q0)
		tombed, notTombed := w.tombstonedSurely(t, p, q1), w.notTombstonedSurely(t, p, q0)
		must := act && notTombed
		mustNot := inactive || tombed
		if listed {
			verifrt.Assert(!mustNot, "lookup-hides-inactive-or-tombstoned-producer")
		} else {
			verifrt.Assert(!must, "lookup-lists-live-registered-producer")
		}
		hasTomb := m.tomb[t][p]
		w.reach(2, "lookup-producer-listed", listed)
		if !listed {
			hiddenByTomb := tombed && act
			hiddenByInactivity := inactive && !hasTomb
			w.reach(3, "lookup-producer-hidden-by-tombstone", hiddenByTomb)
			w.reach(2, "lookup-producer-hidden-by-inactivity", hiddenByInactivity)
		}
		w.reach(3, "lookup-tombstone-lapsed", listed && hasTomb)
	}
	if cnt[0] > 0 && cnt[1] > 0 {
		w.sawBothInLookup = true
	}
}

func (w *verifC14World) checkNodes() {
	q0 := verifC14Clock()
	data, err := w.s.doNodes(nil, verifC14Req(""), nil)
	q1 := verifC14Clock()
	verifrt.Assert(err == nil, "nodes-ok")
	mp, _ := data.(map[string]interface{})
	nodes, ok := mp["producers"].([]*node)
	verifrt.Assert(ok, "nodes-shape")
	m := &w.m
	var cnt [verifC14NP]int
	foreign := 0
	for _, n := range nodes {
		p := -1
		// (an entry belongs to a connection: remote addresses are unique, announced names need not be)
		for i := 0; i < verifC14NP; i++ {
			if n.RemoteAddress == verifC14PeerAddr(i) {
				p = i
			}
		}
		if p < 0 || w.peers[p].info == nil {
			foreign++
			continue
		}
		cnt[p]++
		info := w.peers[p].info
		verifrt.Assert(n.BroadcastAddress == info.BroadcastAddress && n.Hostname == info.Hostname &&
			n.TCPPort == info.TCPPort && n.HTTPPort == info.HTTPPort && n.Version == info.Version,
			"nodes-reports-the-identified-fields")
		// topics: exactly the topics this peer registered
		var tc [verifC14NT]int
		verifrt.Assert(len(n.Tombstones) == len(n.Topics), "nodes-one-tombstone-flag-per-topic")
		for j, name := range n.Topics {
			t := verifC14TopicIdx(name)
			verifrt.Assert(t >= 0, "nodes-topics-only-known-names")
			if t < 0 || j >= len(n.Tombstones) {
				continue
			}
			tc[t]++
			flag := n.Tombstones[j] // a symbolic value: no branching on it
			notTombed, tombed := w.notTombstonedSurely(t, p, q0), w.tombstonedSurely(t, p, q1)
			wrongSet := flag && notTombed
			wrongClear := !flag && tombed
			wrong := wrongSet || wrongClear
			verifrt.Assert(!wrong, "nodes-tombstone-flag-iff-topic-tombstoned")
			w.reach(3, "nodes-tombstone-flag-set", flag)
		}
		for t := 0; t < verifC14NT; t++ {
			if m.conn[p] && m.rt[t][p] {
				verifrt.Assert(tc[t] == 1, "nodes-lists-every-registered-topic-once")
			} else {
				verifrt.Assert(tc[t] == 0, "nodes-lists-no-unregistered-topic")
			}
		}
	}
	verifrt.Assert(foreign == 0, "nodes-lists-only-live-connections")
	for p := 0; p < verifC14NP; p++ {
		listed := cnt[p] > 0
		verifrt.Assert(cnt[p] <= 1, "nodes-lists-a-node-at-most-once")
		if !m.conn[p] {
			verifrt.Assert(!listed, "nodes-hides-disconnected")
			continue
		}
		if listed {
			verifrt.Assert(!w.inactiveSurely(p, q0), "nodes-hides-inactive-node")
		} else {
			verifrt.Assert(!w.activeSurely(p, q1), "nodes-lists-active-node")
		}
		w.reach(1, "nodes-node-listed", listed)
		w.reach(1, "nodes-node-hidden-by-inactivity", !listed)
	}
	if cnt[0] > 0 && cnt[1] > 0 {
		w.sawBothInNodes = true
	}
}

// the time-independent endpoints (no path forks), and the state correspondence
func (w *verifC14World) checkKeys() {
	w.checkTopics()
	for t := 0; t < verifC14NT; t++ {
		w.checkChannels(t)
	}
	w.checkState()
}

// State correspondence (the inductive strengthening that lets one-step checks speak for long
// histories): the producers the registry holds under every key are exactly the model's
// registrations. Channel registrations are not shown by any of the four endpoints directly, but
// a stale one changes later answers (an ephemeral channel that never empties, a /nodes entry).
func (w *verifC14World) assertProducerSet(pp Producers, want [verifC14NP]bool, label string) {
	var cnt [verifC14NP]int
	foreign := 0
	for _, pr := range pp {
		hit := false
		for p := 0; p < verifC14NP; p++ {
			if w.peers[p].info != nil && pr.peerInfo == w.peers[p].info {
				cnt[p]++
				hit = true
			}
		}
		if !hit {
			foreign++
		}
	}
	verifrt.Assert(foreign == 0, label+"-only-live-connections")
	for p := 0; p < verifC14NP; p++ {
		if want[p] {
			verifrt.Assert(cnt[p] == 1, label+"-holds-every-registration-once")
		} else {
			verifrt.Assert(cnt[p] == 0, label+"-holds-no-stale-registration")
		}
	}
}

func (w *verifC14World) checkState() {
	m := &w.m
	db := w.l.DB
	w.assertProducerSet(db.FindProducers("client", "", ""), m.conn, "state-clients")
	for t := 0; t < verifC14NT; t++ {
		var want [verifC14NP]bool
		for p := 0; p < verifC14NP; p++ {
			want[p] = m.conn[p] && m.rt[t][p]
		}
		w.assertProducerSet(db.FindProducers("topic", verifC14Topic(t), ""), want, "state-topic")
		for c := 0; c < verifC14NC; c++ {
			var wantC [verifC14NP]bool
			for p := 0; p < verifC14NP; p++ {
				wantC[p] = m.conn[p] && m.rc[t][c][p]
			}
			w.assertProducerSet(db.FindProducers("channel", verifC14Topic(t), verifC14Chan(c)), wantC, "state-channel")
		}
	}
}

// The time-dependent endpoints: /lookup of each topic and /nodes. The queries do not change the
// registry, so checking ONE of them per explored path (all of them over the case split) decides
// the same obligations as checking all of them on one path, without multiplying the path forks
// that every activity/tombstone comparison causes. With at most one registration in the whole
// registry there is hardly anything to fork on and all of them are checked on the same path.
func (w *verifC14World) checkTimed() {
	regs := 0
	for p := 0; p < verifC14NP; p++ {
		if w.m.conn[p] {
			regs++
		}
		for t := 0; t < verifC14NT; t++ {
			if w.m.rt[t][p] {
				regs++
			}
		}
	}
	if regs <= 2 {
		for t := 0; t < verifC14NT; t++ {
			w.checkLookup(t)
		}
		w.checkNodes()
		return
	}
	q := verifrt.Choice("query", verifC14NT+1)
	if q < verifC14NT {
		w.checkLookup(q)
	} else {
		w.checkNodes()
	}
}
