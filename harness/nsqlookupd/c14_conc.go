//go:build verif

package nsqlookupd

import (
	"github.com/nsqio/nsq/internal/verifrt"
)

// Concurrency (bounded: 2-3 threads, the engine's preemption bound at every lock operation).
//
// The set-up runs without preemption; then the connections' IOLoops (each in its own goroutine)
// and HTTP calls made by the harness thread run concurrently; when all have finished, the
// registry is compared with the model.

// has p a registration under this key?
func (w *verifC14World) implHas(category string, t, c int, p int) bool {
	sub := ""
	if c >= 0 {
		sub = verifC14Chan(c)
	}
	for _, pr := range w.l.DB.FindProducers(category, verifC14Topic(t), sub) {
		if w.peers[p].info != nil && pr.peerInfo == w.peers[p].info {
			return true
		}
	}
	return false
}

// does the registry hold exactly the model's keys and registrations? (plain booleans, so that a
// harness can put ONE assertion with a scenario-specific label on it)
func (w *verifC14World) registryEqualsModel() bool {
	m := &w.m
	ok := true
	for p := 0; p < verifC14NP; p++ {
		has := false
		for _, pr := range w.l.DB.FindProducers("client", "", "") {
			if w.peers[p].info != nil && pr.peerInfo == w.peers[p].info {
				has = true
			}
		}
		if has != m.conn[p] {
			ok = false
		}
	}
	for t := 0; t < verifC14NT; t++ {
		if w.implTopicKey(t) != m.tkey[t] {
			ok = false
		}
		for p := 0; p < verifC14NP; p++ {
			if w.implHas("topic", t, -1, p) != (m.conn[p] && m.rt[t][p]) {
				ok = false
			}
		}
		for c := 0; c < verifC14NC; c++ {
			if w.implChanKey(t, c) != m.ckey[t][c] {
				ok = false
			}
			for p := 0; p < verifC14NP; p++ {
				if w.implHas("channel", t, c, p) != (m.conn[p] && m.rc[t][c][p]) {
					ok = false
				}
			}
		}
	}
	return ok
}

func verifC14Kind(ephemeral bool) string {
	if ephemeral {
		return "ephemeral"
	}
	return "durable"
}

// Operations of DIFFERENT connections commute in the model, so whatever the interleaving, the
// outcome must be the one sequential outcome: peer 0 sends REGISTER t c or UNREGISTER t while
// peer 1 hangs up, sends PING, UNREGISTER t c or UNREGISTER t. The assertion label names the
// racing pair and the kind of key peer 1 gives up, e.g.
//   concurrent-REGISTER-vs-UNREGISTER-of-ephemeral-channel-equals-the-sequential-outcome
func VerifC14_ConcurrentPeers() {
	var w *verifC14World
	var t, c int
	pre := false // peer 0 starts registered for the topic and the channel
	verifrt.Atomic(func() {
		w = verifC14NewWorld()
		w.wit = 0
		w.connect(0)
		w.connect(1)
		t = verifrt.Choice("topic", verifC14NT)
		// quick tier: the ephemeral channel (whose key comes and goes) and peer 0 not yet registered
		c = 1
		full := verifrt.Bound("concurrentFullProduct", 0, 1) == 1
		if full {
			c = verifrt.Choice("chan", verifC14NC)
		}
		w.register(1, t, c)
		if full && verifrt.Choice("pre", 2) == 1 {
			pre = true
			w.register(0, t, c)
		}
	})
	op0 := 0
	if verifrt.Bound("concurrentFullProduct", 0, 1) == 1 {
		op0 = verifrt.Choice("op0", 2)
	}
	op1 := verifrt.Choice("op1", 4)
	c0, c1 := w.peers[0].conn, w.peers[1].conn
	line0, name0 := "REGISTER "+verifC14Topic(t)+" "+verifC14Chan(c), "REGISTER"
	if op0 == 1 {
		line0, name0 = "UNREGISTER "+verifC14Topic(t), "UNREGISTER-of-topic"
	}
	name1 := ""
	// --- concurrent phase ---
	c0.in <- []byte(line0 + "\n")
	switch op1 {
	case 0:
		name1 = "hangup"
		close(c1.in)
	case 1:
		name1 = "PING"
		c1.in <- []byte("PING\n")
	case 2:
		name1 = "UNREGISTER-of-" + verifC14Kind(c == 1) + "-channel"
		c1.in <- []byte("UNREGISTER " + verifC14Topic(t) + " " + verifC14Chan(c) + "\n")
	case 3:
		name1 = "UNREGISTER-of-" + verifC14Kind(t == 1) + "-topic"
		c1.in <- []byte("UNREGISTER " + verifC14Topic(t) + "\n")
	}
	e0 := <-c0.ev
	e1 := <-c1.ev
	// --- quiescent again ---
	verifrt.Atomic(func() {
		verifrt.Assert(e0 == verifC14Idle, "concurrent-command-of-peer-0-answered")
		resp, ok := c0.takeFrame()
		verifrt.Assert(ok && string(resp) == "OK", "concurrent-command-of-peer-0-ok")
		m := &w.m
		// the model, sequentially (the two commute)
		if op0 == 0 {
			m.rt[t][0], m.rc[t][c][0] = true, true
			m.tkey[t], m.ckey[t][c] = true, true
		} else {
			m.rt[t][0] = false
			for cc := 0; cc < verifC14NC; cc++ {
				m.rc[t][cc][0] = false
			}
		}
		switch op1 {
		case 0:
			verifrt.Assert(e1 == verifC14Gone, "concurrent-hangup-ends-the-loop")
			m.conn[1] = false
			m.rt[t][1], m.rc[t][c][1] = false, false
		case 1:
			verifrt.Assert(e1 == verifC14Idle, "concurrent-ping-answered")
			c1.takeFrame()
		case 2:
			verifrt.Assert(e1 == verifC14Idle, "concurrent-unregister-answered")
			c1.takeFrame()
			m.rc[t][c][1] = false
		case 3:
			verifrt.Assert(e1 == verifC14Idle, "concurrent-unregister-answered")
			c1.takeFrame()
			m.rt[t][1] = false
			for cc := 0; cc < verifC14NC; cc++ {
				m.rc[t][cc][1] = false
			}
		}
		// ephemeral keys that ended up empty: presence is left open unless pinned (see c14.go);
		// continue from what the implementation chose. Pinned: the key named by an UNREGISTER
		// after which it has no producer is gone - here whenever that holds in BOTH sequential
		// orders: peer 1's UNREGISTER of the ephemeral topic (peer 0, if it was a producer at
		// all, unregisters the topic too, so whichever UNREGISTER comes last finds it empty), and
		// peer 1's UNREGISTER of the ephemeral channel unless peer 0 was a producer of it as well
		// (then only the order "peer 0 first" has an UNREGISTER naming the empty channel).
		if t == 1 && m.topicProducers(t) == 0 {
			if op1 == 3 {
				m.tkey[t] = false
			} else {
				m.tkey[t] = w.implTopicKey(t)
			}
		}
		for cc := 0; cc < verifC14NC; cc++ {
			if cc == 1 && m.chanProducers(t, cc) == 0 {
				if op1 == 2 && cc == c && !pre {
					m.ckey[t][cc] = false
				} else {
					m.ckey[t][cc] = w.implChanKey(t, cc)
				}
			}
		}
		verifrt.Assert(w.registryEqualsModel(), "concurrent-"+name0+"-vs-"+name1+"-equals-the-sequential-outcome")
		verifrt.Reach("concurrent-peers-done", true)
	})
}

// An admin deletion racing a registration (named in the property's quantification): REGISTER t c
// by peer 0 runs concurrently with POST /topic/delete?topic=t. A plain registry model performs
// each operation atomically, so the outcome must be one of the two sequential outcomes:
//   register, then delete:  topic t and its channels are gone;
//   delete, then register:  topic t and channel c exist, both registered by peer 0 (only).
func VerifC14_DeleteRacesRegister() {
	var w *verifC14World
	const t, c = 0, 0
	verifrt.Atomic(func() {
		w = verifC14NewWorld()
		w.wit = 0
		w.connect(0)
		if verifrt.Choice("pre", 2) == 1 {
			w.connect(1)
			w.register(1, t, c)
		}
	})
	c0 := w.peers[0].conn
	// --- concurrent phase ---
	c0.in <- []byte("REGISTER " + verifC14Topic(t) + " " + verifC14Chan(c) + "\n")
	_, err := w.s.doDeleteTopic(nil, verifC14Req("topic="+verifC14Esc(verifC14Topic(t))), nil)
	e0 := <-c0.ev
	// --- quiescent again ---
	verifrt.Atomic(func() {
		verifrt.Assert(err == nil && e0 == verifC14Idle, "race-both-operations-complete")
		tkey, ckey := w.implTopicKey(t), w.implChanKey(t, c)
		t0, c0has := w.implHas("topic", t, -1, 0), w.implHas("channel", t, c, 0)
		t1, c1has := false, false
		if w.m.conn[1] {
			t1, c1has = w.implHas("topic", t, -1, 1), w.implHas("channel", t, c, 1)
		}
		registerFirst := !tkey && !ckey
		deleteFirst := tkey && ckey && t0 && c0has && !t1 && !c1has
		verifrt.Assert(registerFirst || deleteFirst, "delete-racing-register-is-one-of-the-two-orders")
		verifrt.Reach("race-register-first", registerFirst)
		verifrt.Reach("race-delete-first", deleteFirst)
	})
}
