//go:build verif

package nsqlookupd

import (
	"github.com/nsqio/nsq/internal/verifrt"
)

// Names are literal: a query or an admin call that names a topic NOBODY registered (any
// one-character name, chosen by the solver) answers "not found" / empty and changes nothing:
// every registration that existed before is still reported afterwards. The plain registry model
// treats names as plain strings; the statement gives no name a special meaning.
// A name that is not a valid topic name (documented rule: [.a-zA-Z0-9_-]+ with an optional
// #ephemeral suffix, 1..64 characters) may instead be refused with 400; for valid names the
// oracle is exact. In every case nothing about OTHER topics is returned or changed.
func VerifC14_NamesAreLiteral() { verifrt.Atomic(verifC14NamesAreLiteral) }

func verifC14NamesAreLiteral() {
	w := verifC14NewWorld()
	w.wit = 0
	w.connect(0)
	w.register(0, 0, 0) // topic "t" with channel "c"
	w.register(0, 1, 1) // topic "e#ephemeral" with channel "d#ephemeral"
	name := verifrt.StringN("name", 1)
	b := name[0]
	// printable, needs no escaping inside a query string, and is not the registered topic "t"
	verifrt.Assume(b > ' ' && b < 0x7f && b != '%' && b != '&' && b != '=' && b != '+' && b != ';' && b != '#' && b != 't')
	valid := b == '.' || b == '_' || b == '-' || (b >= 'a' && b <= 'z') || (b >= 'A' && b <= 'Z') || (b >= '0' && b <= '9')
	switch verifrt.Choice("call", 4) {
	case 0:
		data, err := w.s.doLookup(nil, verifC14Req("topic="+name), nil)
		code := verifC14ErrCode(err)
		verifrt.Assert(data == nil && (code == 404 || (code == 400 && !valid)), "lookup-of-a-name-nobody-registered-is-404")
		verifrt.Reach("names-lookup-valid-name", valid)
		verifrt.Reach("names-lookup-invalid-name", !valid)
	case 1:
		data, err := w.s.doChannels(nil, verifC14Req("topic="+name), nil)
		code := verifC14ErrCode(err)
		if code == 200 {
			mp, _ := data.(map[string]interface{})
			chans, ok := mp["channels"].([]string)
			verifrt.Assert(ok && len(chans) == 0, "channels-of-a-name-nobody-registered-is-empty")
		} else {
			verifrt.Assert(data == nil && code == 400 && !valid, "channels-refuses-only-invalid-names")
		}
		verifrt.Reach("names-channels-valid-name", valid)
	case 2:
		_, err := w.s.doDeleteTopic(nil, verifC14Req("topic="+name), nil)
		code := verifC14ErrCode(err)
		verifrt.Assert(code == 200 || (code == 400 && !valid), "delete-of-a-name-nobody-registered-is-ok-or-refused")
		// nothing else may disappear
		w.checkKeys()
		verifrt.Reach("names-delete-valid-name", valid)
	case 3:
		_, err := w.s.doTombstoneTopicProducer(nil, verifC14Req("topic="+name+"&node="+verifC14Node(0)), nil)
		code := verifC14ErrCode(err)
		verifrt.Assert(code == 200 || (code == 400 && !valid), "tombstone-for-a-name-nobody-registered-is-ok-or-refused")
		// the producer stays visible for the topics it did register
		w.checkLookup(0)
		w.checkLookup(1)
		verifrt.Reach("names-tombstone-valid-name", valid)
	}
}
