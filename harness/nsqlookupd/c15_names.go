//go:build verif

package nsqlookupd

import (
	"bufio"
	"github.com/nsqio/nsq/internal/protocol"
	"github.com/nsqio/nsq/internal/verifrt"
)

// The name rule nsqlookupd applies on the TCP port and over HTTP (protocol.IsValidTopicName /
// IsValidChannelName) equals the documented rule for EVERY string up to the bound: 1..64 bytes of
// [.a-zA-Z0-9_-], optionally followed by "#ephemeral" (the suffix counts towards the 64 and a bare
// "#ephemeral" is not a name). Invalid names are refused, so none of them can reach the registry.
func verifC15ValidNameRef(name []byte) bool {
	n := len(name)
	if n < 1 || n > 64 {
		return false
	}
	end := n
	suf := "#ephemeral"
	if n >= len(suf) && string(name[n-len(suf):]) == suf {
		end = n - len(suf)
	}
	if end == 0 {
		return false
	}
	ok := true
	for i := 0; i < end; i++ {
		c := name[i]
		good := c == '.' || c == '_' || c == '-' || (c >= 'a' && c <= 'z') || (c >= 'A' && c <= 'Z') || (c >= '0' && c <= '9')
		if !good {
			ok = false
		}
	}
	return ok
}

func VerifC15_NameRule() {
	name := verifrt.Bytes("name", verifrt.Bound("name", 12, 16))
	got := protocol.IsValidTopicName(string(name))
	verifrt.Assert(got == verifC15ValidNameRef(name), "topic-name-rule")
	verifrt.Assert(protocol.IsValidChannelName(string(name)) == got, "channel-rule-equals-topic-rule")
	verifrt.Assert(!protocol.IsValidTopicName("#ephemeral") && !protocol.IsValidChannelName("#ephemeral"), "bare-ephemeral-suffix-is-not-a-name")
	verifrt.Reach("valid-ephemeral", got && len(name) > 10)
	verifrt.Reach("invalid", !got && len(name) > 0)
}

// Short names exhaustively: every string of up to 3 arbitrary bytes, alone or followed by the
// "#ephemeral" suffix (kept separate from the longer-name harness so that a hand-written,
// branching validator cannot make this one explode).
func VerifC15_ShortNameRule() {
	base := verifrt.Bytes("base", 3)
	name := base
	if verifrt.Choice("ephemeral-suffix", 2) == 1 {
		name = append(append([]byte{}, base...), []byte("#ephemeral")...)
	}
	got := protocol.IsValidTopicName(string(name))
	verifrt.Assert(got == verifC15ValidNameRef(name), "short-name-rule")
	verifrt.Assert(protocol.IsValidChannelName(string(name)) == got, "short-channel-rule-equals-topic-rule")
	verifrt.Reach("bare-suffix-refused", len(base) == 0 && len(name) > 0 && !got)
	verifrt.Reach("short-ephemeral-accepted", len(base) > 0 && len(name) > 10 && got)
}

// A NEGATIVE IDENTIFY size (first size byte >= 0x80) is refused before anything is allocated for
// it: E_BAD_BODY, nothing registered, and no allocation sized by the 4 wire bytes (read as an
// unsigned number they would ask for 2-4 GiB).
func VerifC15_NegativeIdentifySizeAllocatesNothing() {
	verifrt.Atomic(func() {
		l := vLookupd()
		conn := &vConn{remote: "1.2.3.4:5"}
		verifrt.AllocLimit(1 << 20)
		size := verifrt.Int32("size")
		verifrt.Assume(size < 0)
		wire := []byte{byte(uint32(size) >> 24), byte(uint32(size) >> 16), byte(uint32(size) >> 8), byte(uint32(size)), '{', '}'}
		c := NewClientV1(conn)
		r := bufio.NewReaderSize(&vConn{in: wire}, 16)
		p := &LookupProtocolV1{nsqlookupd: l}
		_, err := p.Exec(c, r, []string{"IDENTIFY"})
		code, fatal, _ := vErrCode(err)
		verifrt.Assert(fatal && code == "E_BAD_BODY", "negative-identify-size-is-E_BAD_BODY")
		verifrt.Assert(c.peerInfo == nil && len(l.DB.registrationMap) == 0, "negative-identify-size-registers-nothing")
		verifrt.Reach("negative-size-refused", err != nil)
	})
}
