//go:build verif

package nsqlookupd

import (
	"github.com/nsqio/nsq/internal/verifrt"
)

// One step of every RegistrationDB primitive from an arbitrary small map whose keys are SYMBOLIC
// strings (one solver-chosen character each for category, key and subkey; keys may coincide), then every finder against a reference written as plain set comprehension:
//
//   FindRegistrations(cat,k,s) = { r in keys : r.cat = cat, (k = "*" or r.key = k), (s = "*" or r.sub = s) }
//   FindProducers(cat,k,s)     = the producers of those keys, each peer once
//   LookupRegistrations(id)    = { r in keys : id registered under r }
//
// ("*" is how the HTTP handlers ask for "all channels of a topic" / "all topics".)

type verifC14DBRef struct {
	keys []Registration
	has  [][2]bool // has[i][p]: peer p registered under keys[i]
}

// index of k among the reference keys (keys are kept pairwise distinct), or -1
func (r *verifC14DBRef) find(k Registration) int {
	for i := range r.keys {
		if r.keys[i] == k {
			return i
		}
	}
	return -1
}

func (r *verifC14DBRef) ensure(k Registration) int {
	i := r.find(k)
	if i < 0 {
		r.keys = append(r.keys, k)
		r.has = append(r.has, [2]bool{})
		i = len(r.keys) - 1
	}
	return i
}

func (r *verifC14DBRef) remove(i int) {
	r.keys = append(r.keys[:i:i], r.keys[i+1:]...)
	r.has = append(r.has[:i:i], r.has[i+1:]...)
}

// category, key and subkey are one solver-chosen character each: equal or different from each
// other and from the pattern's characters (including "*") in every combination
func verifC14SymKey(tag string) Registration {
	return Registration{verifrt.StringN(tag+".cat", 1), verifrt.StringN(tag+".key", 1), verifrt.StringN(tag+".sub", 1)}
}

func verifC14Match(r Registration, cat, key, sub string) bool {
	okKey := key == "*" || r.Key == key
	okSub := sub == "*" || r.SubKey == sub
	return r.Category == cat && okKey && okSub
}

func VerifC14_DBPrimitives() {
	db := NewRegistrationDB()
	ref := &verifC14DBRef{}
	peers := [2]*PeerInfo{{id: "a", BroadcastAddress: "ha"}, {id: "b", BroadcastAddress: "hb"}}
	// --- an arbitrary map, built through the real insertion code ---
	n := verifrt.Bound("dbKeys", 1, 2)
	for i := 0; i < n; i++ {
		k := verifC14SymKey("k")
		sel := verifrt.Choice("fill", 3) // bare key, peer 0, both peers
		if sel == 0 {
			db.AddRegistration(k)
			ref.ensure(k)
		} else {
			j := ref.ensure(k)
			for p := 0; p < 2; p++ {
				if p == 0 || sel == 2 {
					added := db.AddProducer(k, &Producer{peerInfo: peers[p]})
					verifrt.Assert(added == !ref.has[j][p], "add-producer-reports-whether-new")
					ref.has[j][p] = true
				}
			}
		}
	}
	// --- one operation with a symbolic key ---
	k := verifC14SymKey("op")
	const p = 0
	switch verifrt.Choice("op", 5) {
	case 0:
		j := ref.find(k)
		was := j >= 0 && ref.has[j][p]
		added := db.AddProducer(k, &Producer{peerInfo: peers[p]})
		verifrt.Assert(added == !was, "add-producer-reports-whether-new")
		j = ref.ensure(k) // (own statement: ensure may grow ref.has)
		ref.has[j][p] = true
	case 1:
		j := ref.find(k)
		removed, left := db.RemoveProducer(k, peers[p].id)
		if j < 0 {
			verifrt.Assert(!removed && left == 0, "remove-producer-of-unknown-key")
		} else {
			verifrt.Assert(removed == ref.has[j][p], "remove-producer-reports-whether-present")
			ref.has[j][p] = false
			cnt := 0
			for q := 0; q < 2; q++ {
				if ref.has[j][q] {
					cnt++
				}
			}
			verifrt.Assert(left == cnt, "remove-producer-reports-how-many-are-left")
			verifrt.Reach("db-remove-leaves-one", left == 1)
		}
	case 2:
		db.RemoveRegistration(k)
		if j := ref.find(k); j >= 0 {
			ref.remove(j)
			verifrt.Reach("db-removed-existing-key", true)
		}
	case 3:
		db.AddRegistration(k)
		ref.ensure(k)
	case 4:
		// no operation: the finders on the generated map itself
	}
	// --- the finders, with a symbolic pattern ---
	cat, key, sub := verifrt.StringN("q.cat", 1), verifrt.StringN("q.key", 1), verifrt.StringN("q.sub", 1)
	switch verifrt.Choice("finder", 3) {
	case 0:
		got := db.FindRegistrations(cat, key, sub)
		for i, g := range got {
			verifrt.Assert(ref.find(g) >= 0 && verifC14Match(g, cat, key, sub), "find-registrations-returns-only-matching-keys")
			for _, g2 := range got[:i] {
				verifrt.Assert(g2 != g, "find-registrations-returns-each-key-once")
			}
		}
		want := 0
		for _, r := range ref.keys {
			if verifC14Match(r, cat, key, sub) {
				want++
			}
		}
		verifrt.Assert(len(got) == want, "find-registrations-returns-every-matching-key")
		verifrt.Reach("db-wildcard-matched-two", want >= 2 && key == "*")
		// the projections used by the handlers
		ks, ss := got.Keys(), got.SubKeys()
		verifrt.Assert(len(ks) == len(got) && len(ss) == len(got), "keys-subkeys-project-every-entry")
		for i, g := range got {
			verifrt.Assert(ks[i] == g.Key && ss[i] == g.SubKey, "keys-subkeys-project-in-order")
		}
		flt := got.Filter(cat, key, "*")
		verifrt.Assert(len(flt) == len(got), "filter-with-a-wider-pattern-keeps-everything")
	case 1:
		got := db.FindProducers(cat, key, sub)
		var want, cnt [2]bool
		for i, r := range ref.keys {
			if verifC14Match(r, cat, key, sub) {
				for q := 0; q < 2; q++ {
					want[q] = want[q] || ref.has[i][q]
				}
			}
		}
		for _, pr := range got {
			q := 0
			if pr.peerInfo == peers[1] {
				q = 1
			}
			verifrt.Assert(pr.peerInfo == peers[q], "find-producers-returns-known-peers")
			verifrt.Assert(!cnt[q], "find-producers-returns-each-peer-once")
			cnt[q] = true
		}
		verifrt.Assert(cnt == want, "find-producers-returns-exactly-the-producers-of-matching-keys")
		verifrt.Reach("db-producers-found", len(got) == 2)
	case 2:
		id := peers[p].id
		got := db.LookupRegistrations(id)
		want := 0
		for i := range ref.keys {
			if ref.has[i][p] {
				want++
			}
		}
		for i, g := range got {
			j := ref.find(g)
			verifrt.Assert(j >= 0 && ref.has[j][p], "lookup-registrations-returns-only-keys-of-the-peer")
			for _, g2 := range got[:i] {
				verifrt.Assert(g2 != g, "lookup-registrations-returns-each-key-once")
			}
		}
		verifrt.Assert(len(got) == want, "lookup-registrations-returns-every-key-of-the-peer")
		verifrt.Reach("db-lookup-two-keys", want == 2)
	}
}
