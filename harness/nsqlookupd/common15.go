//go:build verif

package nsqlookupd

import (
	"errors"
	"io"
	"net"
	"time"
)

type vAddr struct{ s string }

func (a vAddr) Network() string { return "tcp" }
func (a vAddr) String() string  { return a.s }

// vConn: stub connection: reads come from a byte slice (then EOF or an I/O error), writes are recorded.
type vConn struct {
	in      []byte
	pos     int
	inErr   error
	out     []byte
	outFail bool
	closed  int
	remote  string
}

func (c *vConn) Read(p []byte) (int, error) {
	if c.pos >= len(c.in) {
		if c.inErr != nil {
			return 0, c.inErr
		}
		return 0, io.EOF
	}
	n := copy(p, c.in[c.pos:])
	c.pos += n
	return n, nil
}
func (c *vConn) Write(p []byte) (int, error) {
	if c.outFail {
		return 0, errors.New("verif: write failed")
	}
	c.out = append(c.out, p...)
	return len(p), nil
}
func (c *vConn) Close() error                       { c.closed++; return nil }
func (c *vConn) LocalAddr() net.Addr                { return vAddr{"127.0.0.1:4160"} }
func (c *vConn) RemoteAddr() net.Addr               { return vAddr{c.remote} }
func (c *vConn) SetDeadline(t time.Time) error      { return nil }
func (c *vConn) SetReadDeadline(t time.Time) error  { return nil }
func (c *vConn) SetWriteDeadline(t time.Time) error { return nil }

type vListener struct{ port int }

func (l vListener) Accept() (net.Conn, error) { return nil, errors.New("verif: no accept") }
func (l vListener) Close() error              { return nil }
func (l vListener) Addr() net.Addr            { return &net.TCPAddr{Port: l.port} }

func vLookupd() *NSQLookupd {
	o := &Options{
		LogLevel:                LOG_FATAL,
		BroadcastAddress:        "lookupd",
		InactiveProducerTimeout: 300 * time.Second,
		TombstoneLifetime:       45 * time.Second,
	}
	l := &NSQLookupd{opts: o, DB: NewRegistrationDB(), tcpListener: vListener{4160}, httpListener: vListener{4161}}
	l.tcpServer = &tcpServer{nsqlookupd: l}
	return l
}

func vPeer(id string) *PeerInfo {
	return &PeerInfo{id: id, RemoteAddress: id, Hostname: "h", BroadcastAddress: "b" + id, TCPPort: 4150, HTTPPort: 4151, Version: "1.0"}
}
