//go:build verif

package nsqlookupd

import "github.com/nsqio/nsq/internal/verifrt"

func VerifC14_TmpRich() {
	verifrt.Atomic(func() {
		w := verifC14NewWorld()
		w.connect(0)
		w.connect(1)
		w.register(0, 0, 0)
		w.register(1, 0, 1)
		w.tombstone(0, 0)
		w.tombstone(0, 1)
		w.checkKeys()
		w.checkLookup(0)
	})
}
