//go:build verif

package nsqlookupd

import (
	"github.com/nsqio/nsq/internal/verifrt"
)

// No request can stop nsqlookupd answering others: every query endpoint (/nodes, /lookup,
// /topics, /channels, /debug) racing a registration change of a peer (REGISTER / UNREGISTER / the removal
// on disconnect all go through the RegistrationDB's write lock) returns, under every interleaving
// within the preemption bound. The lock model has Go's RWMutex semantics: a writer that has
// started waiting blocks new readers, so a read lock taken recursively deadlocks when a writer
// arrives in between. The happens-before race monitor is on (maps count as one location each): an
// endpoint that walks the registration map without the DB's lock races the writer - in the real
// runtime "concurrent map iteration and map write" is fatal to the whole process.
func VerifC15_QueriesVsRegistrationChanges() {
	verifrt.RaceCheck()
	l := vLookupd()
	s := &httpServer{nsqlookupd: l}
	pi := &PeerInfo{id: "1.2.3.4:5", RemoteAddress: "1.2.3.4:5", Hostname: "h", BroadcastAddress: "h", TCPPort: 4150, HTTPPort: 4151, Version: "1"}
	verifrt.Atomic(func() {
		l.DB.AddProducer(Registration{"client", "", ""}, &Producer{peerInfo: pi})
		l.DB.AddProducer(Registration{"topic", "t", ""}, &Producer{peerInfo: pi})
		l.DB.AddProducer(Registration{"channel", "t", "c"}, &Producer{peerInfo: pi})
	})
	q := verifrt.Choice("query", 5)
	change := verifrt.Choice("change", 2)
	answered, changed := false, false
	verifrt.Go("query", func() {
		switch q {
		case 0:
			s.doNodes(nil, verifC14Req(""), nil)
		case 1:
			s.doLookup(nil, verifC14Req("topic=t"), nil)
		case 2:
			s.doTopics(nil, verifC14Req(""), nil)
		case 3:
			s.doChannels(nil, verifC14Req("topic=t"), nil)
		case 4:
			s.doDebug(nil, verifC14Req(""), nil)
		}
		answered = true
	})
	verifrt.Go("change", func() {
		if change == 0 {
			l.DB.AddProducer(Registration{"topic", "u", ""}, &Producer{peerInfo: pi})
		} else {
			l.DB.RemoveProducer(Registration{"channel", "t", "c"}, pi.id)
		}
		changed = true
	})
	verifrt.Join()
	verifrt.Assert(answered, "query-is-answered-while-registrations-change")
	verifrt.Assert(changed, "registration-change-completes-while-queries-run")
	verifrt.Reach("nodes-raced-a-register", q == 0 && change == 0 && answered && changed)
}
