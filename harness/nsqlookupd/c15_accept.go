//go:build verif

package nsqlookupd

import (
	"errors"
	"net"

	"github.com/nsqio/nsq/internal/lg"
	"github.com/nsqio/nsq/internal/protocol"
	"github.com/nsqio/nsq/internal/verifrt"
)

// The accept loop (real protocol.TCPServer, used by nsqlookupd and nsqd): a TEMPORARY accept
// failure - e.g. EMFILE while a flood of connections holds every descriptor: Temporary() is true,
// Timeout() is false - does not end the server; the connection that arrives afterwards is served.
// Only the listener being closed ends the loop (without error); any other permanent error is
// reported.
type vAcceptErr struct{ temporary, timeout bool }

func (e vAcceptErr) Error() string   { return "verif: accept failure" }
func (e vAcceptErr) Temporary() bool { return e.temporary }
func (e vAcceptErr) Timeout() bool   { return e.timeout }

type vScriptListener struct {
	script []interface{} // net.Conn or error, in order; then net.ErrClosed
	pos    int
}

func (l *vScriptListener) Accept() (net.Conn, error) {
	if l.pos >= len(l.script) {
		return nil, net.ErrClosed
	}
	x := l.script[l.pos]
	l.pos++
	if c, ok := x.(net.Conn); ok {
		return c, nil
	}
	return nil, x.(error)
}
func (l *vScriptListener) Close() error   { return nil }
func (l *vScriptListener) Addr() net.Addr { return &net.TCPAddr{Port: 4160} }

type vCountingHandler struct{ handled int }

func (h *vCountingHandler) Handle(c net.Conn) { h.handled++ }

func VerifC15_AcceptLoopSurvivesTemporaryErrors() {
	if verifrt.Symbolic() && net.ErrClosed == nil {
		// package net's initialisers are not run by the executor
		net.ErrClosed = errors.New("use of closed network connection")
	}
	kind := verifrt.Choice("accept-error", 4)
	var first error
	switch kind {
	case 0:
		first = vAcceptErr{temporary: true, timeout: false} // EMFILE / ENFILE / ECONNABORTED
	case 1:
		first = vAcceptErr{temporary: true, timeout: true}
	case 2:
		first = errors.New("verif: permanent accept error")
	}
	l := &vScriptListener{}
	if first != nil {
		l.script = append(l.script, first)
	}
	l.script = append(l.script, &vConn{remote: "9.9.9.9:9"})
	h := &vCountingHandler{}
	err := protocol.TCPServer(l, h, func(lvl lg.LogLevel, f string, args ...interface{}) {})
	verifrt.Join()
	switch kind {
	case 0, 1, 3:
		verifrt.Assert(h.handled == 1, "connection-after-a-temporary-accept-failure-is-served")
		verifrt.Assert(err == nil, "server-ends-only-when-the-listener-is-closed")
	case 2:
		verifrt.Assert(err != nil, "permanent-accept-error-is-reported")
	}
	verifrt.Reach("survived-emfile", kind == 0 && h.handled == 1)
}
