//go:build verif

package nsqlookupd

import (
	"github.com/nsqio/nsq/internal/verifrt"
)

// One step from ANY registry state (the inductive step that carries the short exhaustive
// histories to histories of any length). The pre-state is built through the real code by a
// canonical construction sequence (so it is a state the daemon can be in), at symbolic instants:
//
//   connections: none / peer 0 / both (peers are interchangeable)
//   focus topic (durable or ephemeral, case split), in every registration state:
//     producers view: each connected peer is unregistered / registered / registered and
//                     tombstoned (at any earlier instant); an empty topic may exist as a bare key
//     channels view:  each connected peer is unregistered / registered; each channel is absent /
//                     a bare key / registered by any subset of the topic's producers
//   the other topic: absent, or registered by peer 0 with the durable channel (frame witness)
//
// Then ONE operation of any kind with any operands runs (also on the other topic), and every
// query endpoint is compared with the model.

// full = the whole product (thorough tier). The quick tier takes a slice of it: both peers
// connected (one-peer histories are covered exhaustively by VerifC14_Histories), the frame
// witness on the other topic always present, operations aimed at the focus topic only, one
// channel in a general state, and the channels view checks the key endpoints and the state
// correspondence only.
func (w *verifC14World) genConnections(full bool) {
	n := verifC14NP
	if full {
		n = verifrt.Choice("connected", verifC14NP+1)
	}
	for p := 0; p < n; p++ {
		w.connect(p)
	}
}

func (w *verifC14World) genOther(o int, full bool) {
	if !w.m.conn[0] {
		return
	}
	if !full || verifrt.Choice("other", 2) == 1 {
		w.register(0, o, 0)
	}
}

// producers view of topic f
func (w *verifC14World) genProducers(f int) {
	var sel [verifC14NP]int
	any := false
	for p := 0; p < verifC14NP; p++ {
		if w.m.conn[p] {
			sel[p] = verifrt.Choice("reg", 3)
			if sel[p] > 0 {
				any = true
				w.register(p, f, -1)
			}
		}
	}
	if !any && verifrt.Choice("bareTopic", 2) == 1 {
		w.createTopic(f)
	}
	// (no PING here: both thresholds are independent unknowns, so the order of the last refresh
	// and the tombstone instant cannot matter to any answer)
	for p := 0; p < verifC14NP; p++ {
		if sel[p] == 2 {
			w.tombstone(f, p)
		}
	}
}

// channels view of topic f; nch = number of channels in a general state (the rest absent)
func (w *verifC14World) genChannels(f int, nch int) {
	var reg [verifC14NP]bool
	any := false
	for p := 0; p < verifC14NP; p++ {
		if w.m.conn[p] && verifrt.Choice("reg", 2) == 1 {
			reg[p] = true
			any = true
			w.register(p, f, -1)
		}
	}
	first := 0
	if nch < verifC14NC {
		first = verifrt.Choice("genChan", verifC14NC)
	}
	for i := 0; i < nch; i++ {
		c := (first + i) % verifC14NC
		anyC := false
		for p := 0; p < verifC14NP; p++ {
			if reg[p] && verifrt.Choice("creg", 2) == 1 {
				anyC = true
				w.register(p, f, c)
			}
		}
		if !anyC && verifrt.Choice("bareChannel", 2) == 1 {
			w.createChannel(f, c)
			any = true
		}
	}
	if !any && verifrt.Choice("bareTopic", 2) == 1 {
		w.createTopic(f)
	}
}

func verifC14StepProducers(full bool) {
	w := verifC14NewWorld()
	w.wit = 9
	kind := verifrt.Choice("op", verifC14Kinds)
	f := verifrt.Choice("focus", verifC14NT)
	if !full {
		w.onlyTopic = f
	}
	w.genConnections(full)
	w.genOther(1-f, full)
	w.genProducers(f)
	w.step(kind)
	w.witnessDropped()
	w.checkKeys()
	w.checkTimed()
	w.witnesses()
}

func verifC14StepChannels(full bool) {
	w := verifC14NewWorld()
	w.wit = 9
	kind := verifrt.Choice("op", verifC14Kinds)
	f := verifrt.Choice("focus", verifC14NT)
	nch := verifC14NC
	if !full {
		w.onlyTopic = f
		nch = 1
	}
	w.genConnections(full)
	w.genOther(1-f, full)
	w.genChannels(f, nch)
	w.step(kind)
	w.witnessDropped()
	w.checkKeys()
	if full {
		// also the channel list inside /lookup (forks on the producers' activity)
		w.checkLookup(f)
	}
	w.reach(1, "step-ephemeral-key-removed-by-last-unregister", w.sawEphemeralRemoved)
	w.reach(1, "step-disconnect-ran-exit-path", w.sawDisconnect)
}

func VerifC14_StepFromAnyProducerState() {
	verifrt.Atomic(func() { verifC14StepProducers(verifrt.Bound("fullProduct", 0, 1) == 1) })
}

func VerifC14_StepFromAnyChannelState() {
	verifrt.Atomic(func() { verifC14StepChannels(verifrt.Bound("fullProduct", 0, 1) == 1) })
}
