//go:build verif

package nsqlookupd

import (
	"github.com/nsqio/nsq/internal/verifrt"
)

// One step from ANY registry state (the inductive step that carries the short exhaustive
// histories to histories of any length). The pre-state is built through the real code by a
// canonical construction sequence (so it is a state the daemon can be in), at symbolic instants:
//
//   connections: none / peer 0 / both (peers are interchangeable)
//   focus topic (durable or ephemeral, case split), in every registration state:
//     producers view: each connected peer is unregistered / registered / registered and
//                     tombstoned (at any earlier instant); an empty topic may exist as a bare key
//     channels view:  each connected peer is unregistered / registered; each channel is absent /
//                     a bare key / registered by any subset of the topic's producers
//   the other topic: absent, or registered by peer 0 with the durable channel (frame witness)
//
// Then ONE operation of any kind with any operands runs (also on the other topic), and every
// query endpoint is compared with the model.

// full = the whole product (thorough tier). The quick tier takes a slice of it: both peers
// connected (one-peer histories are covered exhaustively by VerifC14_Histories), the frame
// witness on the other topic always present, operations aimed at the focus topic only, one
// channel in a general state, and the channels view checks the key endpoints and the state
// correspondence only.
func (w *verifC14World) genConnections(full bool) {
	n := verifC14NP
	if full {
		n = verifrt.Choice("connected", verifC14NP+1)
	}
	for p := 0; p < n; p++ {
		w.connect(p)
	}
}

func (w *verifC14World) genOther(o int, full bool) {
	if !w.m.conn[0] {
		return
	}
	if !full || verifrt.Choice("other", 2) == 1 {
		w.register(0, o, 0)
	}
}

// producers view of topic f
func (w *verifC14World) genProducers(f int) {
	var sel [verifC14NP]int
	any := false
	for p := 0; p < verifC14NP; p++ {
		if w.m.conn[p] {
			sel[p] = verifrt.Choice("reg", 3)
			if sel[p] > 0 {
				any = true
				w.register(p, f, -1)
			}
		}
	}
	if !any && verifrt.Choice("bareTopic", 2) == 1 {
		w.createTopic(f)
	}
	// (no PING here: both thresholds are independent unknowns, so the order of the last refresh
	// and the tombstone instant cannot matter to any answer)
	for p := 0; p < verifC14NP; p++ {
		if sel[p] == 2 {
			w.tombstone(f, p)
		}
	}
}

// producers view of topic f when both peers announce ONE node name (node 0's): a tombstone names
// the node and hits every registration that exists at that moment, so the peers that are to be
// tombstoned register first, one tombstone call follows, and the peers that are to be plainly
// registered come afterwards (this is how "one of two same-named producers is tombstoned" arises)
func (w *verifC14World) genProducersShared(f int, full bool) {
	var sel [verifC14NP]int
	any, anyTomb := false, false
	for p := 0; p < verifC14NP; p++ {
		if w.m.conn[p] {
			sel[p] = verifrt.Choice("reg", 3)
			any = any || sel[p] > 0
			anyTomb = anyTomb || sel[p] == 2
		}
	}
	if !full {
		// quick tier: the two same-named connections are interchangeable (no operation looks at
		// hostname, tcp port or remote address), so one of each mirrored pair of states is taken;
		// the operation that follows is still tried for either peer
		verifrt.Assume(sel[1] <= sel[0])
	}
	for p := 0; p < verifC14NP; p++ {
		if sel[p] == 2 {
			w.register(p, f, -1)
		}
	}
	if anyTomb {
		w.tombstone(f, 0)
	}
	for p := 0; p < verifC14NP; p++ {
		if sel[p] == 1 {
			w.register(p, f, -1)
		}
	}
	if full && !any && verifrt.Choice("bareTopic", 2) == 1 {
		w.createTopic(f)
	}
}

// The ephemeral topic f has lost its key while channel keys of it are still there: a producer
// registered the topic with the chosen channel(s) and then unregistered the topic (what nsqd sends
// when the topic is deleted there). The statement pins that the unused ephemeral TOPIC name
// disappears; its channels stay listed by /channels until something removes them.
func (w *verifC14World) genVanishedTopic(f int, nch int) {
	first := 0
	if nch < verifC14NC {
		first = verifrt.Choice("genChan", verifC14NC)
	}
	for i := 0; i < nch; i++ {
		c := (first + i) % verifC14NC
		if nch == 1 || verifrt.Choice("vreg", 2) == 1 {
			w.register(0, f, c)
		}
	}
	w.unregister(0, f, -1)
}

// channels view of topic f; nch = number of channels in a general state (the rest absent)
func (w *verifC14World) genChannels(f int, nch int) {
	if f == 1 && w.m.conn[0] && verifrt.Choice("vanished", 2) == 1 {
		w.genVanishedTopic(f, nch)
		return
	}
	var reg [verifC14NP]bool
	any := false
	for p := 0; p < verifC14NP; p++ {
		if w.m.conn[p] && verifrt.Choice("reg", 2) == 1 {
			reg[p] = true
			any = true
			w.register(p, f, -1)
		}
	}
	first := 0
	if nch < verifC14NC {
		first = verifrt.Choice("genChan", verifC14NC)
	}
	for i := 0; i < nch; i++ {
		c := (first + i) % verifC14NC
		anyC := false
		for p := 0; p < verifC14NP; p++ {
			if reg[p] && verifrt.Choice("creg", 2) == 1 {
				anyC = true
				w.register(p, f, c)
			}
		}
		if !anyC && verifrt.Choice("bareChannel", 2) == 1 {
			w.createChannel(f, c)
			any = true
		}
	}
	if !any && verifrt.Choice("bareTopic", 2) == 1 {
		w.createTopic(f)
	}
}

func verifC14StepProducers(full bool) {
	w := verifC14NewWorld()
	w.wit = 9
	kind := verifrt.Choice("op", verifC14Kinds)
	f := verifrt.Choice("focus", verifC14NT)
	if !full {
		w.onlyTopic = f
	}
	w.genConnections(full)
	w.genOther(1-f, full)
	w.genProducers(f)
	w.step(kind)
	w.witnessDropped()
	w.checkKeys()
	w.checkTimed()
	w.witnesses()
}

func verifC14StepChannels(full bool) {
	w := verifC14NewWorld()
	w.wit = 9
	kind := verifrt.Choice("op", verifC14Kinds)
	f := verifrt.Choice("focus", verifC14NT)
	nch := verifC14NC
	if !full {
		w.onlyTopic = f
		nch = 1
	}
	w.genConnections(full)
	w.genOther(1-f, full)
	w.genChannels(f, nch)
	w.step(kind)
	w.witnessDropped()
	w.reach(1, "step-delete-of-a-topic-without-key-that-still-has-channels", w.sawDeleteOfKeyless)
	w.checkKeys()
	if full {
		// also the channel list inside /lookup (forks on the producers' activity)
		w.checkLookup(f)
	}
	w.reach(1, "step-ephemeral-key-removed-by-last-unregister", w.sawEphemeralRemoved)
	w.reach(1, "step-disconnect-ran-exit-path", w.sawDisconnect)
}

// Two connections that announce the SAME node name (see verifC14Announce), both connected, the
// focus topic in every producers-view state - each of the two same-named peers unregistered /
// registered / registered and tombstoned. Then one operation, and every endpoint against the
// model. What the statement says about names: the tombstone call names a node, so afterwards
// /lookup of the topic lists NO registration carrying that name and /nodes flags the topic as
// tombstoned for EVERY peer carrying it; everything else - REGISTER, UNREGISTER (lapses the
// tombstone of "that producer" only), PING, disconnect - is per connection.
// Quick tier: the two operations whose meaning involves the name or the tombstone (tombstone of
// any node name, topic-level UNREGISTER by either peer) aimed at the focus topic, alias 1.
// Thorough: every operation with every operand, both aliases, and both peers also produce the
// other topic (the frame: a tombstone hides the named producer "for the named topic" only; the
// quick tier has that frame with distinct names in VerifC14_StepFromAnyProducerState).
func verifC14StepSharedName(full bool) {
	w := verifC14NewWorld()
	w.wit = 9
	w.alias = 1
	if full {
		w.alias = 1 + verifrt.Choice("alias", 2)
	} else {
		w.kinds = []int{9, 2}
		w.topicLevel = true
	}
	kind := w.pickKind()
	f := verifrt.Choice("focus", verifC14NT)
	if !full {
		w.onlyTopic = f
	}
	w.connect(0)
	w.connect(1)
	if full {
		w.register(0, 1-f, -1)
		w.register(1, 1-f, -1)
	}
	w.genProducersShared(f, full)
	w.sawTombstoneHitTwo = false // (the witness below is about the operation, not the construction)
	w.step(kind)
	// (witnesses about the history are stated before the queries)
	w.reach(1, "shared-name-one-tombstone-hid-two-producers", w.sawTombstoneHitTwo)
	one := w.m.tomb[f][0] != w.m.tomb[f][1]
	w.reach(1, "shared-name-only-one-of-the-two-is-tombstoned", one)
	w.checkKeys()
	w.checkTimed()
}

func VerifC14_StepSharedNodeName() {
	verifrt.Atomic(func() { verifC14StepSharedName(verifrt.Bound("fullProduct", 0, 1) == 1) })
}

func VerifC14_StepFromAnyProducerState() {
	verifrt.Atomic(func() { verifC14StepProducers(verifrt.Bound("fullProduct", 0, 1) == 1) })
}

func VerifC14_StepFromAnyChannelState() {
	verifrt.Atomic(func() { verifC14StepChannels(verifrt.Bound("fullProduct", 0, 1) == 1) })
}
