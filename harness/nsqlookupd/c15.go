//go:build verif

package nsqlookupd

import (
	"bufio"
	"encoding/json"
	"strings"

	"github.com/nsqio/nsq/internal/protocol"
	"github.com/nsqio/nsq/internal/verifrt"
)

// Any byte sequence on the TCP port (after the magic): IOLoop never panics, whatever the bytes.
func VerifC15_IOLoopAnyBytes() {
	verifrt.Atomic(func() {
		l := vLookupd()
		conn := &vConn{remote: "1.2.3.4:5"}
		conn.in = verifrt.Bytes("wire", verifrt.Bound("wire", 6, 8))
		// the command line only passes through strings.TrimSpace/Split before dispatch; bytes
		// >= 0x80 there exercise the standard library's UTF-8 decoder, not nsq: outside the claim
		for _, b := range conn.in {
			verifrt.Assume(b < 0x80)
		}
		c := NewClientV1(conn)
		p := &LookupProtocolV1{nsqlookupd: l}
		p.IOLoop(c)
		// anything that formed a complete line that is not a known command was answered with an error frame
		verifrt.Reach("answered", len(conn.out) > 0)
		verifrt.Reach("silent-eof", len(conn.out) == 0)
	})
}

func vErrCode(err error) (code string, fatal bool, isChild bool) {
	switch e := err.(type) {
	case *protocol.FatalClientErr:
		return e.Code, true, true
	case *protocol.ClientErr:
		return e.Code, false, true
	}
	return "", false, false
}

// IDENTIFY with ANY 4-byte length prefix (zero, negative, huge) and any following bytes:
// never panics; a nonsensical size or a truncated/undecodable body is E_BAD_BODY (fatal) and
// registers nothing. Every error IOLoop gets from Exec carries the ChildErr interface
// (IOLoop type-asserts it without a check, in a goroutine without recover).
func VerifC15_IdentifyAnySize() {
	verifrt.Atomic(func() {
		l := vLookupd()
		conn := &vConn{remote: "1.2.3.4:5"}
		// sizes the stream could never satisfy are refused only after the allocation; lengths above
		// the bound are cut (an oversized allocation is noted in DESIGN.md, the statement only
		// demands refusal)
		verifrt.AllocBound(6)
		size := verifrt.Int32("size")
		follow := verifrt.Bytes("follow", verifrt.Bound("follow", 2, 5))
		wire := []byte{byte(uint32(size) >> 24), byte(uint32(size) >> 16), byte(uint32(size) >> 8), byte(uint32(size))}
		wire = append(wire, follow...)
		c := NewClientV1(conn)
		r := bufio.NewReaderSize(&vConn{in: wire}, 16)
		p := &LookupProtocolV1{nsqlookupd: l}
		var err error
		panicked := verifrt.Panics(func() { _, err = p.Exec(c, r, []string{"IDENTIFY"}) })
		verifrt.Assert(!panicked, "identify-never-panics")
		if panicked {
			return
		}
		if int64(size) <= 0 || int64(size) > int64(len(follow)) {
			code, fatal, child := vErrCode(err)
			verifrt.Assert(err != nil && child, "identify-error-is-protocol-error")
			verifrt.Assert(fatal && code == "E_BAD_BODY", "identify-nonsense-size-is-E_BAD_BODY")
			verifrt.Assert(c.peerInfo == nil && len(l.DB.registrationMap) == 0, "identify-refused-registers-nothing")
			verifrt.Reach("negative-size", size < 0)
			verifrt.Reach("oversize", int64(size) > int64(len(follow)))
		} else if err != nil {
			_, _, child := vErrCode(err)
			verifrt.Assert(child, "identify-error-is-protocol-error")
		}
	})
}

// IDENTIFY bodies with missing / empty required fields are refused with E_BAD_BODY; a complete
// body is accepted and registers exactly this connection as a client.
func VerifC15_IdentifyFields() {
	verifrt.Atomic(func() {
		l := vLookupd()
		conn := &vConn{remote: "1.2.3.4:5"}
		pi := PeerInfo{
			Hostname:         verifrt.String("hostname", 1),
			BroadcastAddress: verifrt.String("broadcast", 1),
			TCPPort:          verifrt.Int("tcp"),
			HTTPPort:         verifrt.Int("http"),
			Version:          verifrt.String("version", 1),
		}
		body, _ := json.Marshal(pi)
		n := uint32(len(body))
		wire := append([]byte{byte(n >> 24), byte(n >> 16), byte(n >> 8), byte(n)}, body...)
		c := NewClientV1(conn)
		r := bufio.NewReaderSize(&vConn{in: wire}, 16)
		p := &LookupProtocolV1{nsqlookupd: l}
		_, err := p.Exec(c, r, []string{"IDENTIFY"})
		missing := pi.BroadcastAddress == "" || pi.TCPPort == 0 || pi.HTTPPort == 0 || pi.Version == ""
		if missing {
			code, fatal, _ := vErrCode(err)
			verifrt.Assert(fatal && code == "E_BAD_BODY", "identify-missing-field-is-E_BAD_BODY")
			verifrt.Assert(c.peerInfo == nil && len(l.DB.registrationMap) == 0, "identify-missing-field-registers-nothing")
			verifrt.Reach("missing-field", true)
		} else {
			verifrt.Assert(err == nil, "identify-complete-body-accepted")
			verifrt.Assert(c.peerInfo != nil && c.peerInfo.id == "1.2.3.4:5", "identify-records-peer")
			ps := l.DB.FindProducers("client", "", "")
			verifrt.Assert(len(ps) == 1 && ps[0].peerInfo == c.peerInfo, "identify-registers-this-client-once")
			// a second IDENTIFY is E_INVALID
			_, err2 := p.Exec(c, r, []string{"IDENTIFY"})
			code, fatal, _ := vErrCode(err2)
			verifrt.Assert(fatal && code == "E_INVALID", "second-identify-is-E_INVALID")
			verifrt.Reach("accepted", true)
		}
	})
}

func vName(tag string) string {
	switch verifrt.Choice(tag, 5) {
	case 0:
		return "t"
	case 1:
		return "t#ephemeral"
	case 2:
		return "u"
	case 3:
		return ""
	}
	return verifrt.String(tag+".sym", 2) // arbitrary bytes: mostly invalid names
}

// Any command of connection B (any keyword, any params, before or after IDENTIFY) leaves every
// registration that belongs to connection A intact, answers with a protocol error class, and
// invalid names are refused with E_BAD_TOPIC / E_BAD_CHANNEL, unknown commands with E_INVALID.
func VerifC15_BystanderIntact() {
	verifrt.Atomic(func() {
		l := vLookupd()
		p := &LookupProtocolV1{nsqlookupd: l}
		a := NewClientV1(&vConn{remote: "10.0.0.1:1"})
		a.peerInfo = vPeer("10.0.0.1:1")
		l.DB.AddProducer(Registration{"client", "", ""}, &Producer{peerInfo: a.peerInfo})
		// A registers a topic and a channel (durable or ephemeral)
		at, ac := "t", "c"
		if verifrt.Choice("a-topic-ephemeral", 2) == 1 {
			at = "t#ephemeral"
		}
		if verifrt.Choice("a-chan-ephemeral", 2) == 1 {
			ac = "c#ephemeral"
		}
		_, err := p.REGISTER(a, nil, []string{at, ac})
		verifrt.Assert(err == nil, "setup-register")

		b := NewClientV1(&vConn{remote: "10.0.0.2:2"})
		if verifrt.Choice("b-identified", 2) == 1 {
			b.peerInfo = vPeer("10.0.0.2:2")
			l.DB.AddProducer(Registration{"client", "", ""}, &Producer{peerInfo: b.peerInfo})
		}
		kw := []string{"PING", "REGISTER", "UNREGISTER", "BOGUS"}[verifrt.Choice("kw", 4)]
		var params []string
		topic := vName("b-topic")
		chanName := ""
		np := verifrt.Choice("nparams", 3)
		if np >= 1 {
			params = append(params, topic)
		}
		if np == 2 {
			chanName = ac
			if verifrt.Choice("b-chan-same", 2) == 1 {
				chanName = vName("b-chan")
			}
			params = append(params, chanName)
		}
		var resp []byte
		panicked := verifrt.Panics(func() {
			resp, err = p.Exec(b, bufio.NewReaderSize(&vConn{}, 16), append([]string{kw}, params...))
		})
		verifrt.Assert(!panicked, "command-never-panics")
		if panicked {
			return
		}
		// A's registrations are all still there
		for _, k := range []Registration{{"client", "", ""}, {"topic", at, ""}, {"channel", at, ac}} {
			found := false
			for _, pr := range l.DB.FindProducers(k.Category, k.Key, k.SubKey) {
				if pr.peerInfo == a.peerInfo {
					found = true
				}
			}
			verifrt.Assert(found, "other-connection-registration-intact:"+k.Category)
		}
		code, fatal, child := vErrCode(err)
		if err != nil {
			verifrt.Assert(child, "error-is-protocol-error")
		}
		validTopic := protocolValidRef(topic)
		validChan := chanName == "" || protocolValidRef(chanName)
		switch kw {
		case "BOGUS":
			verifrt.Assert(fatal && code == "E_INVALID", "unknown-command-is-E_INVALID")
		case "PING":
			verifrt.Assert(err == nil && string(resp) == "OK", "ping-ok")
		default:
			if b.peerInfo == nil || np == 0 {
				verifrt.Assert(fatal && code == "E_INVALID", "register-before-identify-or-without-topic-is-E_INVALID")
				verifrt.Reach("before-identify", b.peerInfo == nil)
			} else if !validTopic || !validChan {
				verifrt.Assert(fatal && (code == "E_BAD_TOPIC" && !validTopic || code == "E_BAD_CHANNEL" && !validChan), "invalid-name-refused")
				verifrt.Reach("bad-topic", !validTopic)
				verifrt.Reach("bad-channel", validTopic && !validChan)
			} else {
				verifrt.Assert(err == nil && string(resp) == "OK", "valid-command-ok")
				verifrt.Reach("valid-unregister-of-others-channel", kw == "UNREGISTER" && np == 2 && topic == at && chanName == ac)
			}
		}
	})
}

// reference name rule, written from the documentation: 1..64 chars of [.a-zA-Z0-9_-], optionally
// followed by "#ephemeral".
func protocolValidRef(name string) bool {
	if len(name) < 1 || len(name) > 64 {
		return false
	}
	base := name
	if strings.HasSuffix(name, "#ephemeral") {
		base = name[:len(name)-len("#ephemeral")]
	}
	if len(base) == 0 {
		return false
	}
	ok := true
	for i := 0; i < len(base); i++ {
		c := base[i]
		good := c == '.' || c == '_' || c == '-' || (c >= 'a' && c <= 'z') || (c >= 'A' && c <= 'Z') || (c >= '0' && c <= '9')
		if !good {
			ok = false
		}
	}
	return ok
}
