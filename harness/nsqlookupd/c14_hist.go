//go:build verif

package nsqlookupd

import (
	"github.com/nsqio/nsq/internal/verifrt"
)

// One step of a history: the kind and every operand are case-split; clock readings are symbolic.
// Commands of a peer that has no connection cannot happen and are pruned. Peers are
// interchangeable, so the first connection ever made is peer 0's (symmetry reduction).
const verifC14Kinds = 10

func (w *verifC14World) pickPeer() int {
	p := verifrt.Choice("peer", verifC14NP)
	verifrt.Assume(w.m.conn[p])
	return p
}

// channel operand of REGISTER/UNREGISTER: none, durable, ephemeral
func (w *verifC14World) pickOptChan() int {
	if w.topicLevel {
		return -1
	}
	return verifrt.Choice("chan", verifC14NC+1) - 1
}

// topic operand of an operation (onlyTopic >= 0: the harness aims every operation at one topic)
func (w *verifC14World) pickTopic() int {
	if w.onlyTopic >= 0 {
		return w.onlyTopic
	}
	return verifrt.Choice("topic", verifC14NT)
}

// the kind of the next operation (w.kinds restricts a harness to a subset)
func (w *verifC14World) pickKind() int {
	if w.kinds != nil {
		return w.kinds[verifrt.Choice("op", len(w.kinds))]
	}
	return verifrt.Choice("op", verifC14Kinds)
}

func (w *verifC14World) step(kind int) {
	switch kind {
	case 0: // a new connection identifies; or an identified one sends IDENTIFY again
		p := verifrt.Choice("peer", verifC14NP)
		if !w.m.conn[p] {
			verifrt.Assume(p == 0 || w.peers[0].info != nil)
			w.connect(p)
		} else {
			w.violate(p, verifrt.Choice("violation", verifrt.Bound("violations", 1, 3)))
		}
	case 1:
		p := w.pickPeer()
		w.register(p, w.pickTopic(), w.pickOptChan())
	case 2:
		p := w.pickPeer()
		w.unregister(p, w.pickTopic(), w.pickOptChan())
	case 3:
		w.ping(w.pickPeer())
	case 4:
		w.disconnect(w.pickPeer())
	case 5:
		w.createTopic(w.pickTopic())
	case 6:
		w.deleteTopic(w.pickTopic())
	case 7:
		w.createChannel(w.pickTopic(), verifrt.Choice("chan", verifC14NC))
	case 8:
		w.deleteChannel(w.pickTopic(), verifrt.Choice("chan", verifC14NC))
	case 9:
		w.tombstone(w.pickTopic(), verifrt.Choice("node", 3))
	}
}

// (stated before the queries: it is about the history, not about the answers)
func (w *verifC14World) witnessDropped() {
	w.reach(3, "history-empty-ephemeral-key-removed-by-unregister-of-a-non-producer", w.sawEphemeralDropped)
}

func (w *verifC14World) witnesses() {
	w.reach(3, "history-ephemeral-key-removed-by-last-unregister", w.sawEphemeralRemoved)
	w.reach(2, "history-disconnect-ran-exit-path", w.sawDisconnect)
	w.reach(2, "history-fatal-error-ended-connection", w.sawFatal)
	both := true
	for p := 0; p < verifC14NP; p++ {
		both = both && w.m.conn[p] && w.m.rt[0][p]
	}
	w.reach(4, "history-two-producers-on-one-topic", both)
}

// Sequentially exhaustive short histories: every sequence of 1..h operations over 2 peers x
// 2 topics x 2 channels (one of each ephemeral), for every clock, every inactive-producer
// timeout and every tombstone lifetime; then every query endpoint is compared with the model.
// Start: the empty registry, or peer 0 already connected (every history that does anything
// with a producer begins with a connection; starting there buys one more free step).
func verifC14Histories(h int) {
	w := verifC14NewWorld()
	start := verifrt.Choice("start", 2)
	w.wit = h + start
	if start == 1 {
		w.connect(0)
	}
	n := 1 + verifrt.Choice("len", h)
	for i := 0; i < n; i++ {
		w.step(verifrt.Choice("op", verifC14Kinds))
	}
	w.witnessDropped()
	w.checkKeys()
	w.checkTimed()
	w.witnesses()
}

func VerifC14_Histories() {
	verifrt.Atomic(func() { verifC14Histories(verifrt.Bound("steps", 2, 3)) })
}
