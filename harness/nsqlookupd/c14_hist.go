//go:build verif

package nsqlookupd

import (
	"github.com/nsqio/nsq/internal/verifrt"
)

// One step of a history: the kind and every operand are case-split; clock readings are symbolic.
// Commands of a peer that has no connection cannot happen and are pruned. Peers are
// interchangeable, so the first connection ever made is peer 0's (symmetry reduction).
const verifC14Kinds = 10

func (w *verifC14World) pickPeer() int {
	p := verifrt.Choice("peer", verifC14NP)
	verifrt.Assume(w.m.conn[p])
	return p
}

// channel operand of REGISTER/UNREGISTER: none, durable, ephemeral
func verifC14PickOptChan() int { return verifrt.Choice("chan", verifC14NC+1) - 1 }

func (w *verifC14World) step(kind int) {
	switch kind {
	case 0: // a new connection identifies; or an identified one sends IDENTIFY again
		p := verifrt.Choice("peer", verifC14NP)
		if !w.m.conn[p] {
			verifrt.Assume(p == 0 || w.peers[0].info != nil)
			w.connect(p)
		} else {
			w.identifyAgain(p)
		}
	case 1:
		p := w.pickPeer()
		w.register(p, verifrt.Choice("topic", verifC14NT), verifC14PickOptChan())
	case 2:
		p := w.pickPeer()
		w.unregister(p, verifrt.Choice("topic", verifC14NT), verifC14PickOptChan())
	case 3:
		w.ping(w.pickPeer())
	case 4:
		w.disconnect(w.pickPeer())
	case 5:
		w.createTopic(verifrt.Choice("topic", verifC14NT))
	case 6:
		w.deleteTopic(verifrt.Choice("topic", verifC14NT))
	case 7:
		w.createChannel(verifrt.Choice("topic", verifC14NT), verifrt.Choice("chan", verifC14NC))
	case 8:
		w.deleteChannel(verifrt.Choice("topic", verifC14NT), verifrt.Choice("chan", verifC14NC))
	case 9:
		w.tombstone(verifrt.Choice("topic", verifC14NT), verifrt.Choice("node", 3))
	}
}

func (w *verifC14World) witnesses() {
	verifrt.Reach("history-ephemeral-key-removed-by-last-unregister", w.sawEphemeralRemoved)
	verifrt.Reach("history-disconnect-ran-exit-path", w.sawDisconnect)
	verifrt.Reach("history-fatal-error-ended-connection", w.sawFatal)
	both := true
	for p := 0; p < verifC14NP; p++ {
		both = both && w.m.conn[p] && w.m.rt[0][p]
	}
	verifrt.Reach("history-two-producers-on-one-topic", both)
}

// Sequentially exhaustive short histories from the empty registry: every sequence of 1..h
// operations over 2 peers x 2 topics x 2 channels (one of each ephemeral), for every clock,
// every inactive-producer timeout and every tombstone lifetime; then every query endpoint is
// compared with the model.
func verifC14Histories(h int) {
	w := verifC14NewWorld()
	n := 1 + verifrt.Choice("len", h)
	for i := 0; i < n; i++ {
		w.step(verifrt.Choice("op", verifC14Kinds))
	}
	w.checkKeys()
	w.checkTimed()
	w.witnesses()
}

func VerifC14_Histories() {
	verifrt.Atomic(func() { verifC14Histories(verifrt.Bound("steps", 2, 3)) })
}
