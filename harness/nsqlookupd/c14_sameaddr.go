//go:build verif

package nsqlookupd

import (
	"github.com/nsqio/nsq/internal/verifrt"
)

// Two live connections whose IDENTIFY announces the SAME nsqd address - broadcast address,
// hostname, tcp port and http port all equal (verifC14Announce, alias 2); only the remote
// addresses of the two TCP connections differ. This is an nsqd that reconnected while lookupd
// still holds its old, half-open connection, or two nsqds behind one announced address.
//
// The statement counts CONNECTIONS ("histories of nsqd connections"; a topic's producers are
// "the connected, recently-pinged nsqds that registered it"; "an nsqd that disconnects is at
// once gone"): what a connection announces about itself gives it no share in another
// connection's registrations. So
//   - while both connections are there and recently pinged, /lookup of a topic both registered
//     and /nodes list two entries, one per connection;
//   - UNREGISTER (of a topic or a channel, registered by the caller or not), PING and a
//     disconnect (EOF, or a fatal protocol error) act on the caller's registrations only: every
//     registration of the OTHER connection is still there afterwards and still answered.
//
// Pre-state (through the real code, at symbolic instants): both connected; both produce the other
// topic (the frame: a disconnect takes the caller out of EVERY producer list and the other
// connection out of none); on the focus topic (durable / ephemeral) each connection is
// unregistered or registered together with a channel. Then ONE per-connection operation by either
// connection, the ownership assertion, and every endpoint against the model.
// Quick tier: registered = topic + durable channel, mirrored pre-states taken once (the two
// connections are interchangeable; the operation is still tried for either one), operations
// UNREGISTER topic / UNREGISTER channel / disconnect / PING on the focus topic.
// Thorough: registered = topic alone / with the durable / with the ephemeral channel, no symmetry
// cut, plus REGISTER, UNREGISTER aimed at the other topic or the other channel, fatal errors.

const verifC14NKeys = 1 + verifC14NT*(1+verifC14NC)

// what the registry holds for connection p: [0] the client entry, then per topic the topic
// registration and the channel registrations
func (w *verifC14World) implOwned(p int) (own [verifC14NKeys]bool) {
	info := w.peers[p].info
	if info == nil {
		return own
	}
	for _, pr := range w.l.DB.FindProducers("client", "", "") {
		if pr.peerInfo == info {
			own[0] = true
		}
	}
	i := 1
	for t := 0; t < verifC14NT; t++ {
		own[i] = w.implHas("topic", t, -1, p)
		i++
		for c := 0; c < verifC14NC; c++ {
			own[i] = w.implHas("channel", t, c, p)
			i++
		}
	}
	return own
}

// the same, as the model has it
func (w *verifC14World) modelOwned(p int) (own [verifC14NKeys]bool) {
	m := &w.m
	own[0] = m.conn[p]
	i := 1
	for t := 0; t < verifC14NT; t++ {
		own[i] = m.conn[p] && m.rt[t][p]
		i++
		for c := 0; c < verifC14NC; c++ {
			own[i] = m.conn[p] && m.rc[t][c][p]
			i++
		}
	}
	return own
}

func verifC14SameOwned(a, b [verifC14NKeys]bool) bool {
	same := true
	for i := 0; i < verifC14NKeys; i++ {
		if a[i] != b[i] {
			same = false
		}
	}
	return same
}

func verifC14StepSameAddress(full bool) {
	w := verifC14NewWorld()
	w.wit = 2 // (no tombstone in these histories: the tombstone witnesses are not demanded)
	w.alias = 2
	nops := 4
	if full {
		nops = 9
	}
	op := verifrt.Choice("op", nops)
	f := verifrt.Choice("focus", verifC14NT)
	o := 1 - f
	p := verifrt.Choice("peer", verifC14NP) // the connection that acts
	q := 1 - p                              // the one that must not notice

	w.connect(0)
	w.connect(1)
	a0, a1 := w.announce(0), w.announce(1)
	verifrt.Assert(a0 == a1 && w.nodeName(0) == w.nodeName(1) && verifC14PeerAddr(0) != verifC14PeerAddr(1),
		"same-address-harness-announces-one-address-over-two-connections")
	w.register(0, o, -1)
	w.register(1, o, -1)
	var sel [verifC14NP]int
	for i := 0; i < verifC14NP; i++ {
		if full {
			sel[i] = verifrt.Choice("reg", 4)
		} else {
			sel[i] = 2 * verifrt.Choice("reg", 2)
		}
	}
	if !full {
		verifrt.Assume(sel[1] <= sel[0])
	}
	for i := 0; i < verifC14NP; i++ {
		if sel[i] > 0 {
			w.register(i, f, sel[i]-2) // 1: the topic alone, 2: with the durable, 3: with the ephemeral channel
		}
	}
	// both connections are identified and registered: the registry keeps them apart
	verifrt.Assert(verifC14SameOwned(w.implOwned(0), w.modelOwned(0)) && verifC14SameOwned(w.implOwned(1), w.modelOwned(1)),
		"same-address-each-connection-holds-its-own-registrations")

	before := w.modelOwned(q)
	name := ""
	switch op {
	case 0:
		name = "unregister-topic"
		w.unregister(p, f, -1)
	case 1:
		name = "unregister-channel"
		w.unregister(p, f, 0)
	case 2:
		name = "disconnect"
		w.disconnect(p)
	case 3:
		name = "ping"
		w.ping(p)
	case 4:
		name = "unregister-channel"
		w.unregister(p, f, 1)
	case 5:
		name = "unregister-topic"
		w.unregister(p, o, -1)
	case 6:
		name = "register"
		w.register(p, f, verifrt.Choice("chan", verifC14NC+1)-1)
	case 7:
		name = "fatal-error"
		w.violate(p, verifrt.Choice("violation", 3))
	case 8:
		name = "unregister-channel"
		w.unregister(p, o, verifrt.Choice("chan", verifC14NC))
	}
	// the other connection: still connected, every registration of it still in place
	verifrt.Assert(verifC14SameOwned(w.implOwned(q), before),
		"same-address-"+name+"-of-one-connection-leaves-the-registrations-of-the-other")
	unregNever := (op == 0 || op == 1) && sel[p] == 0 && sel[q] > 0
	w.reach(1, "same-address-unregister-by-the-connection-that-never-registered", unregNever)
	w.reach(1, "same-address-disconnect-while-the-other-stays", op == 2 && sel[q] > 0)

	w.checkKeys()
	w.checkTimed()
	w.reach(1, "same-address-lookup-lists-both-connections", w.sawBothInLookup)
	w.reach(1, "same-address-nodes-lists-both-connections", w.sawBothInNodes)
}

func VerifC14_StepSameAnnouncedAddress() {
	verifrt.Atomic(func() { verifC14StepSameAddress(verifrt.Bound("fullProduct", 0, 1) == 1) })
}
