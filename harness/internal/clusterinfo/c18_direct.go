//go:build verif

package clusterinfo

import (
	"github.com/nsqio/nsq/internal/verifrt"
)

// ---- direct-nsqd mode (no nsqlookupd configured) ----

type verifTopicNameJSON struct {
	Name string `json:"topic_name"`
}

type verifStatsNamesReply struct {
	Version string               `json:"version"`
	Health  string               `json:"health"`
	Topics  []verifTopicNameJSON `json:"topics"`
}

type verifInfoReply struct {
	Version          string `json:"version"`
	BroadcastAddress string `json:"broadcast_address"`
	Hostname         string `json:"hostname"`
	HTTPPort         int    `json:"http_port"`
	TCPPort          int    `json:"tcp_port"`
}

func verifStatsNames(names []string) verifStatsNamesReply {
	r := verifStatsNamesReply{Version: "1.3.0", Health: "OK", Topics: []verifTopicNameJSON{}}
	for _, n := range names {
		r.Topics = append(r.Topics, verifTopicNameJSON{n})
	}
	return r
}

// GetNSQDTopics: the topic list in direct mode is the union of the topics of the answering nsqd.
func VerifC18_NSQDTopicsUnion() {
	verifrt.Atomic(func() {
		u := verifNewEnv()
		ci := verifClusterInfo(u)
		n := 1 + verifrt.Choice("nsqds", verifrt.Bound("nsqds", 2, 3))
		srcs := verifNameSources(n, verifrt.Bound("names-per-upstream", 2, 2))
		var addrs []string
		for _, s := range srcs {
			addrs = append(addrs, s.addr)
			u.script("http://"+s.addr+"/stats?format=json", s.fail, 0, verifStatsNames(s.names))
		}
		got, err := ci.GetNSQDTopics(addrs)
		verifCheckUnion("nsqd-topics", srcs, got, err)
		verifrt.Assert(u.unknown == 0, "nsqd-topics:no-other-endpoint-asked")
	})
}

// GetLookupdTopicChannels: channels of a topic = union over the answering nsqlookupd.
func VerifC18_LookupdTopicChannelsUnion() {
	verifrt.Atomic(func() {
		u := verifNewEnv()
		ci := verifClusterInfo(u)
		n := 1 + verifrt.Choice("lookupds", verifrt.Bound("lookupds", 2, 3))
		srcs := verifNameSources(n, verifrt.Bound("names-per-upstream", 2, 2))
		var addrs []string
		for _, s := range srcs {
			addrs = append(addrs, s.addr)
			u.script("http://"+s.addr+"/channels?topic=t", s.fail, 0, verifNamesReply{Channels: s.names})
		}
		got, err := ci.GetLookupdTopicChannels("t", addrs)
		verifCheckUnion("lookupd-channels", srcs, got, err)
		verifrt.Assert(u.unknown == 0, "lookupd-channels:no-other-endpoint-asked")
	})
}

type verifDirectNode struct {
	addr      string
	infoFail  bool
	statsFail bool
	info      verifInfoReply
	topics    []string
}

// GetNSQDProducers: the node list in direct mode. A node is listed iff it answered BOTH
// requests (/info and /stats); each node that did not contributes exactly one error.
func VerifC18_NSQDProducers() {
	verifrt.Atomic(func() {
		u := verifNewEnv()
		ci := verifClusterInfo(u)
		n := verifrt.Bound("nsqds", 2, 3)
		addrs := []string{"n0:4151", "n1:4151", "n2:4151"}[:n]
		var nodes []*verifDirectNode
		failed := 0
		for i, a := range addrs {
			d := &verifDirectNode{addr: a}
			d.infoFail, _ = verifFail(a + "/info")
			d.statsFail, _ = verifFail(a + "/stats")
			d.info = verifInfoReply{Version: []string{"1.2.0", "1.3.0", "1.3.0"}[i], BroadcastAddress: []string{"b0", "b1", "b2"}[i],
				Hostname: verifName("host", 1), HTTPPort: 4151, TCPPort: 4150}
			k := verifrt.Choice(a+".topics", 3)
			for j := 0; j < k; j++ {
				d.topics = append(d.topics, verifName(a+".topic", 1))
			}
			u.script("http://"+a+"/info", d.infoFail, 0, d.info)
			u.script("http://"+a+"/stats?format=json&include_clients=false", d.statsFail, 0, verifStatsNames(d.topics))
			if d.infoFail || d.statsFail {
				failed++
			}
			nodes = append(nodes, d)
		}
		got, err := ci.GetNSQDProducers(addrs)
		pe, partial := verifIsPartial(err)
		if failed == n {
			verifrt.Assert(err != nil && !partial, "nsqd-nodes:all-failed-is-plain-error")
			verifrt.Assert(len(got) == 0, "nsqd-nodes:all-failed-no-result")
			verifrt.Reach("nsqd-nodes:all-failed", true)
			return
		}
		if failed > 0 {
			verifrt.Assert(err != nil && partial, "nsqd-nodes:some-failed-is-partial-error")
			if partial {
				verifrt.Assert(len(pe.Errors()) == failed, "nsqd-nodes:one-error-per-failed-node")
			}
			verifrt.Reach("nsqd-nodes:some-failed", true)
			verifrt.Reach("nsqd-nodes:info-ok-stats-failed", nodes[0].statsFail && !nodes[0].infoFail)
			verifrt.Reach("nsqd-nodes:info-failed-stats-ok", nodes[0].infoFail && !nodes[0].statsFail)
		} else {
			verifrt.Assert(err == nil, "nsqd-nodes:none-failed-no-error")
		}
		for _, d := range nodes {
			count := 0
			for _, p := range got {
				if p.BroadcastAddress == d.info.BroadcastAddress {
					count++
					verifrt.Assert(p.Hostname == d.info.Hostname && p.Version == d.info.Version && p.HTTPPort == 4151 && p.TCPPort == 4150,
						"nsqd-nodes:listed-fields-are-the-reported-ones")
					verifrt.Assert(len(p.Topics) == len(d.topics), "nsqd-nodes:topic-count")
					for _, t := range d.topics {
						found := false
						for _, pt := range p.Topics {
							found = found || pt.Topic == t
						}
						verifrt.Assert(found, "nsqd-nodes:every-reported-topic-listed")
					}
				}
			}
			if d.infoFail || d.statsFail {
				verifrt.Assert(count == 0, "nsqd-nodes:failed-node-not-listed")
			} else {
				verifrt.Assert(count == 1, "nsqd-nodes:answering-node-listed-exactly-once")
			}
		}
		verifrt.Assert(len(got) == n-failed, "nsqd-nodes:nothing-but-the-answering-nodes")
		verifrt.Reach("nsqd-nodes:two-listed", len(got) >= 2)
		verifrt.Assert(u.unknown == 0, "nsqd-nodes:no-other-endpoint-asked")
	})
}

// GetNSQDTopicProducers: in direct mode the nodes of a topic are the answering nsqd whose
// stats mention the topic. A node whose stats cannot be read, or that has the topic but does
// not answer /info, counts as failed (one error); a node without the topic is neither.
func VerifC18_NSQDTopicProducers() {
	verifrt.Atomic(func() {
		u := verifNewEnv()
		ci := verifClusterInfo(u)
		n := verifrt.Bound("nsqds", 2, 3)
		addrs := []string{"n0:4151", "n1:4151", "n2:4151"}[:n]
		lists := [][]string{{}, {"t"}, {"u"}, {"u", "t"}}
		var nodes []*verifDirectNode
		failed, want := 0, 0
		has := make([]bool, n)
		noAddr := make([]bool, n)
		for i, a := range addrs {
			d := &verifDirectNode{addr: a}
			d.statsFail, _ = verifFail(a + "/stats")
			d.topics = lists[verifrt.Choice(a+".topics", len(lists))]
			has[i] = verifHas(d.topics, "t")
			d.info = verifInfoReply{Version: "1.3.0", BroadcastAddress: []string{"b0", "b1", "b2"}[i],
				Hostname: verifName("host", 1), HTTPPort: 4151, TCPPort: 4150}
			if has[i] && !d.statsFail {
				d.infoFail, _ = verifFail(a + "/info")
				// an old nsqd that does not report its address: it is listed under the address it was asked at
				if !d.infoFail && verifrt.Choice(a+".info-without-address", 2) == 1 {
					noAddr[i] = true
					d.info.BroadcastAddress, d.info.HTTPPort, d.info.Hostname = "", 0, ""
				}
			}
			u.script("http://"+a+"/info", d.infoFail, 0, d.info)
			u.script("http://"+a+"/stats?format=json&topic=t&include_clients=false", d.statsFail, 0, verifStatsNames(d.topics))
			if d.statsFail || (has[i] && d.infoFail) {
				failed++
			} else if has[i] {
				want++
			}
			nodes = append(nodes, d)
		}
		got, err := ci.GetNSQDTopicProducers("t", addrs)
		pe, partial := verifIsPartial(err)
		if failed == n {
			verifrt.Assert(err != nil && !partial, "nsqd-topic-nodes:all-failed-is-plain-error")
			verifrt.Assert(len(got) == 0, "nsqd-topic-nodes:all-failed-no-result")
			verifrt.Reach("nsqd-topic-nodes:all-failed", true)
			return
		}
		if failed > 0 {
			verifrt.Assert(err != nil && partial, "nsqd-topic-nodes:some-failed-is-partial-error")
			if partial {
				verifrt.Assert(len(pe.Errors()) == failed, "nsqd-topic-nodes:one-error-per-failed-node")
			}
			verifrt.Reach("nsqd-topic-nodes:some-failed", true)
		} else {
			verifrt.Assert(err == nil, "nsqd-topic-nodes:none-failed-no-error")
		}
		for i, d := range nodes {
			count := 0
			for _, p := range got {
				if p.HTTPAddress() == d.addr && noAddr[i] || p.BroadcastAddress == d.info.BroadcastAddress && !noAddr[i] {
					count++
					if !noAddr[i] {
						verifrt.Assert(p.Hostname == d.info.Hostname, "nsqd-topic-nodes:listed-fields-are-the-reported-ones")
					}
					verifrt.Assert(p.TCPPort == 4150 && p.Version == "1.3.0", "nsqd-topic-nodes:listed-fields-are-the-reported-ones")
				}
			}
			if !d.statsFail && has[i] && !d.infoFail {
				verifrt.Assert(count == 1, "nsqd-topic-nodes:node-with-topic-listed-exactly-once")
			} else {
				verifrt.Assert(count == 0, "nsqd-topic-nodes:node-without-topic-or-failed-not-listed")
			}
		}
		verifrt.Assert(len(got) == want, "nsqd-topic-nodes:nothing-but-the-nodes-with-the-topic")
		verifrt.Reach("nsqd-topic-nodes:two-listed", want >= 2)
		verifrt.Reach("nsqd-topic-nodes:listed-under-asked-address", want >= 1 && noAddr[0])
		verifrt.Reach("nsqd-topic-nodes:node-without-topic", !nodes[0].statsFail && !has[0] && failed == 0)
		verifrt.Assert(u.unknown == 0, "nsqd-topic-nodes:no-other-endpoint-asked")
	})
}
