//go:build verif

package clusterinfo

import (
	"github.com/nsqio/nsq/internal/verifrt"
)

// ---- upstreams that answer well-formed JSON with inconsistent / incomplete content ----
//
// "If some upstreams answer garbage the view is built from the rest, and nsqadmin itself
// never crashes." The fetch functions decode and merge the replies inside goroutines they
// spawn themselves; nothing recovers there, so a panic while decoding or merging one
// upstream's reply kills the whole nsqadmin process. In these harnesses a panic that escapes
// such a goroutine is reported by the executor as a `panic` violation (natively: the test
// binary dies with "panic: ..."). The acceptable outcomes are: the reply is refused (that
// upstream counts as failed) or it is used as far as it makes sense.
//
// Witnesses named "sym:input:..." mark the input class BEFORE the call that may crash; they
// are not replayed natively (the native run cannot get past a crashing goroutine).

// /nodes: the producer's "topics" and "tombstones" lists are two independent JSON arrays.
func VerifC18_GarbageNodesTopicsWithoutTombstones() {
	verifrt.Atomic(func() {
		u := verifNewEnv()
		ci := verifClusterInfo(u)
		nTopics := verifrt.Choice("topics", verifrt.Bound("list-length", 3, 4))
		nTombs := verifrt.Choice("tombstones", verifrt.Bound("list-length", 3, 4))
		p := &verifNodeJSON{RemoteAddress: "10.0.0.1:1", Hostname: "h", BroadcastAddress: "b0", TCPPort: 4150, HTTPPort: 4151, Version: "1.3.0",
			Topics: []string{}, Tombstones: []bool{}}
		for i := 0; i < nTopics; i++ {
			p.Topics = append(p.Topics, []string{"t", "u", "v"}[i])
		}
		for i := 0; i < nTombs; i++ {
			p.Tombstones = append(p.Tombstones, verifrt.Bool("tombstone"))
		}
		good := &verifNodeJSON{RemoteAddress: "10.0.0.2:1", Hostname: "g", BroadcastAddress: "b1", TCPPort: 4150, HTTPPort: 4151, Version: "1.3.0"}
		u.script("http://l0:4161/nodes", false, 0, verifNodesReply{Producers: []*verifNodeJSON{p}})
		u.script("http://l1:4161/nodes", false, 0, verifNodesReply{Producers: []*verifNodeJSON{good}})
		verifrt.Reach("sym:input:more-topics-than-tombstones", nTopics > nTombs)
		verifrt.Reach("sym:input:more-tombstones-than-topics", nTopics < nTombs)
		got, err := ci.GetLookupdProducers([]string{"l0:4161", "l1:4161"})
		// the consistent lookupd's node is in the view whatever the other one said
		found := false
		for _, g := range got {
			found = found || (g != nil && g.BroadcastAddress == "b1")
		}
		verifrt.Assert(found, "garbage-nodes:view-built-from-the-rest")
		if err != nil {
			_, partial := verifIsPartial(err)
			verifrt.Assert(partial, "garbage-nodes:refused-reply-is-a-partial-error")
		}
		verifrt.Reach("garbage-nodes:consistent", nTopics == nTombs && nTopics > 0 && len(got) == 2)
	})
}

// {"producers":[null]} from an nsqlookupd.
func VerifC18_GarbageNullProducer() {
	verifrt.Atomic(func() {
		u := verifNewEnv()
		ci := verifClusterInfo(u)
		good := &verifNodeJSON{RemoteAddress: "10.0.0.2:1", Hostname: "g", BroadcastAddress: "b1", TCPPort: 4150, HTTPPort: 4151, Version: "1.3.0"}
		list := []*verifNodeJSON{good}
		if verifrt.Choice("null-entry", 2) == 1 {
			list = []*verifNodeJSON{nil, good}
			verifrt.Reach("sym:input:null-producer", true)
		}
		u.script("http://l0:4161/nodes", false, 0, verifNodesReply{Producers: list})
		got, err := ci.GetLookupdProducers([]string{"l0:4161"})
		for _, g := range got {
			verifrt.Assert(g != nil, "garbage-null-producer:no-nil-node-in-view")
		}
		if err == nil {
			verifrt.Assert(len(got) == 1 && got[0] != nil && got[0].BroadcastAddress == "b1", "garbage-null-producer:real-node-listed")
		}
		verifrt.Reach("garbage-null-producer:clean-reply", len(list) == 1 && err == nil)
	})
}

// null where an object is expected in a /stats reply: "topics":[null], "channels":[null],
// "clients":[null].
func VerifC18_GarbageNullStatsEntries() {
	verifrt.Atomic(func() {
		u := verifNewEnv()
		ci := verifClusterInfo(u)
		which := verifrt.Choice("null-entry", 4)
		ch := verifChannel("c", "c", 1, false)
		tp := verifTopic("t", "t", []*verifChannelJSON{ch}, false)
		r := verifStatsReply{Version: "1.3.0", Health: "OK", Topics: []*verifTopicJSON{tp}}
		switch which {
		case 1:
			r.Topics = append(r.Topics, nil)
		case 2:
			tp.Channels = append(tp.Channels, nil)
		case 3:
			ch.Clients = append(ch.Clients, nil)
		}
		u.script("http://b0:4151/stats?format=json", false, 0, r)
		p := &Producer{BroadcastAddress: "b0", HTTPPort: 4151, TCPPort: 4150, Hostname: "h"}
		verifrt.Reach("sym:input:null-topic", which == 1)
		verifrt.Reach("sym:input:null-channel", which == 2)
		verifrt.Reach("sym:input:null-client", which == 3)
		topics, chans, err := ci.GetNSQDStats(Producers{p}, "", "", true)
		if err == nil {
			for _, t := range topics {
				verifrt.Assert(t != nil, "garbage-null-stats:no-nil-topic-in-view")
			}
			for _, c := range chans {
				verifrt.Assert(c != nil, "garbage-null-stats:no-nil-channel-in-view")
				if c != nil {
					for _, cl := range c.Clients {
						verifrt.Assert(cl != nil, "garbage-null-stats:no-nil-client-in-view")
					}
				}
			}
		}
		verifrt.Reach("garbage-null-stats:clean-reply", which == 0 && err == nil && len(topics) == 1 && len(chans) == 1)
	})
}

func verifLatencyRun(what string, ch *verifChannelJSON, tp *verifTopicJSON) (map[string]*ChannelStats, error) {
	u := verifNewEnv()
	ci := verifClusterInfo(u)
	r := verifStatsReply{Version: "1.3.0", Health: "OK", Topics: []*verifTopicJSON{tp}}
	// a second, well-formed node reports the same channel
	ch2 := verifChannel("c2", "c", 0, false)
	ch2.E2e = &verifE2eJSON{Count: 5, Percentiles: []map[string]float64{{"quantile": 0.99, "value": 500}, {"quantile": 0.5, "value": 100}}}
	r2 := verifStatsReply{Version: "1.3.0", Health: "OK", Topics: []*verifTopicJSON{verifTopic("t2", "t", []*verifChannelJSON{ch2}, false)}}
	u.script("http://b0:4151/stats?format=json&topic=t&include_clients=false", false, 0, r)
	u.script("http://b1:4151/stats?format=json&topic=t&include_clients=false", false, 0, r2)
	ps := Producers{{BroadcastAddress: "b0", HTTPPort: 4151, TCPPort: 4150, Hostname: "h0"}, {BroadcastAddress: "b1", HTTPPort: 4151, TCPPort: 4150, Hostname: "h1"}}
	topics, chans, err := ci.GetNSQDStats(ps, "t", "", false)
	verifrt.Assert(u.unknown == 0, what+":endpoints")
	// the well-formed node is in the view
	okNode := false
	for _, t := range topics {
		okNode = okNode || (t != nil && t.Node == "b1:4151")
	}
	verifrt.Assert(okNode, what+":view-built-from-the-rest")
	if err != nil {
		_, partial := verifIsPartial(err)
		verifrt.Assert(partial, what+":refused-reply-is-a-partial-error")
	}
	return chans, err
}

// A channel object without "e2e_processing_latency" (an nsqd that predates the field, or one
// that sends null for it).
func VerifC18_GarbageChannelWithoutLatency() {
	verifrt.Atomic(func() {
		ch := verifChannel("c", "c", 0, false)
		tp := verifTopic("t", "t", []*verifChannelJSON{ch}, false)
		which := verifrt.Choice("latency", 3)
		switch which {
		case 1:
			ch.E2e = nil
			verifrt.Reach("sym:input:channel-without-latency", true)
		case 2:
			tp.E2e = nil // GetNSQDStats does not merge topic entries
		}
		chans, err := verifLatencyRun("garbage-no-latency", ch, tp)
		verifrt.Reach("garbage-no-latency:complete-reply", which == 0 && err == nil && chans["c"] != nil && len(chans["c"].NodeStats) == 2)
		verifrt.Reach("garbage-no-latency:topic-without-latency", which == 2 && err == nil)
	})
}

// "percentiles":[null] inside a latency object.
func VerifC18_GarbageNullPercentile() {
	verifrt.Atomic(func() {
		ch := verifChannel("c", "c", 0, false)
		ch.E2e = &verifE2eJSON{Count: 7}
		tp := verifTopic("t", "t", []*verifChannelJSON{ch}, false)
		which := verifrt.Choice("percentiles", 2)
		if which == 1 {
			ch.E2e.Percentiles = []map[string]float64{nil}
			verifrt.Reach("sym:input:null-percentile", true)
		}
		_, err := verifLatencyRun("garbage-null-percentile", ch, tp)
		verifrt.Reach("garbage-null-percentile:no-percentiles", which == 0 && err == nil)
	})
}

// Well-formed latency objects (and percentile objects without the expected keys): decoded,
// counts summed, percentiles merged by quantile. The float arithmetic of the merge itself is
// outside the claim.
func VerifC18_LatencyAggregate() {
	verifrt.Atomic(func() {
		ch := verifChannel("c", "c", 0, false)
		ch.E2e = &verifE2eJSON{Count: 7}
		tp := verifTopic("t", "t", []*verifChannelJSON{ch}, false)
		which := verifrt.Choice("percentiles", 2)
		if which == 0 {
			ch.E2e.Percentiles = []map[string]float64{{"quantile": 0.99, "value": 2500}, {"quantile": 0.5, "value": 1000}}
		} else {
			ch.E2e.Percentiles = []map[string]float64{{}}
		}
		chans, err := verifLatencyRun("latency", ch, tp)
		c := chans["c"]
		verifrt.Assert(err == nil && c != nil && c.E2eProcessingLatency != nil, "latency:well-formed-accepted")
		if c != nil && c.E2eProcessingLatency != nil {
			verifrt.Assert(c.E2eProcessingLatency.Count == 12, "latency:count-is-sum")
			if which == 0 {
				verifrt.Assert(len(c.E2eProcessingLatency.Percentiles) == 2, "latency:percentiles-merged-by-quantile")
			}
			verifrt.Reach("latency:merged", which == 0)
			verifrt.Reach("latency:percentile-without-keys", which == 1)
		}
	})
}
