//go:build verif

package clusterinfo

import (
	"github.com/nsqio/nsq/internal/verifrt"
)

// ---- what nsqd sends in /stats?format=json ----
// (counters are int64 here: nsqd's uint64 counters above 2^63-1 do not fit nsqadmin's types,
// the real decoder then refuses the whole reply - that node simply counts as failed)

type verifE2eJSON struct {
	Count       int                  `json:"count"`
	Percentiles []map[string]float64 `json:"percentiles"`
}

type verifClientJSON struct {
	ClientID      string `json:"client_id"`
	Hostname      string `json:"hostname"`
	Version       string `json:"version"`
	RemoteAddress string `json:"remote_address"`
	State         int32  `json:"state"`
	ReadyCount    int    `json:"ready_count"`
	InFlightCount int    `json:"in_flight_count"`
	MessageCount  int64  `json:"message_count"`
	FinishCount   int64  `json:"finish_count"`
	RequeueCount  int64  `json:"requeue_count"`
	ConnectTs     int64  `json:"connect_ts"`
	SampleRate    int32  `json:"sample_rate"`
	Deflate       bool   `json:"deflate"`
	TLS           bool   `json:"tls"`
	// optional fields (present only for some clients)
	UserAgent      string `json:"user_agent,omitempty"`
	AuthIdentity   string `json:"auth_identity,omitempty"`
	TopologyRegion string `json:"topology_region,omitempty"`
}

type verifChannelJSON struct {
	ChannelName         string             `json:"channel_name"`
	Depth               int64              `json:"depth"`
	BackendDepth        int64              `json:"backend_depth"`
	InFlightCount       int64              `json:"in_flight_count"`
	DeferredCount       int64              `json:"deferred_count"`
	MessageCount        int64              `json:"message_count"`
	ZoneLocalMsgCount   int64              `json:"zone_local_msg_count,omitempty"`
	RegionLocalMsgCount int64              `json:"region_local_msg_count,omitempty"`
	GlobalMsgCount      int64              `json:"global_msg_count,omitempty"`
	RequeueCount        int64              `json:"requeue_count"`
	TimeoutCount        int64              `json:"timeout_count"`
	ClientCount         int                `json:"client_count"`
	Clients             []*verifClientJSON `json:"clients"`
	Paused              bool               `json:"paused"`
	E2e                 *verifE2eJSON      `json:"e2e_processing_latency"`
}

type verifTopicJSON struct {
	TopicName    string              `json:"topic_name"`
	Channels     []*verifChannelJSON `json:"channels"`
	Depth        int64               `json:"depth"`
	BackendDepth int64               `json:"backend_depth"`
	MessageCount int64               `json:"message_count"`
	MessageBytes int64               `json:"message_bytes"`
	Paused       bool                `json:"paused"`
	E2e          *verifE2eJSON       `json:"e2e_processing_latency"`
}

type verifStatsReply struct {
	Version   string            `json:"version"`
	Health    string            `json:"health"`
	StartTime int64             `json:"start_time"`
	Topics    []*verifTopicJSON `json:"topics"`
}

func verifClient(tag string, host string, optional bool) *verifClientJSON {
	c := &verifClientJSON{ClientID: tag + "@" + host, Hostname: host, Version: "V2", RemoteAddress: "10.1.1.1:5",
		ReadyCount: verifrt.Int(tag + ".rdy"), InFlightCount: verifrt.Int(tag + ".inflight"), MessageCount: verifrt.Int64(tag + ".msgs"),
		FinishCount: verifrt.Int64(tag + ".fin"), RequeueCount: verifrt.Int64(tag + ".req"), ConnectTs: 1600000000,
		SampleRate: verifrt.Int32(tag + ".sample")}
	if optional {
		c.UserAgent, c.AuthIdentity, c.TopologyRegion = "go-nsq/1.1", "me", "r1"
	}
	return c
}

// paused is concrete here (every symbolic flag would double the paths inside Add; the
// flag's OR-semantics over arbitrary values is decided by VerifC18_ChannelStatsAdd)
func verifChannel(tag, name string, clients int, paused bool) *verifChannelJSON {
	c := &verifChannelJSON{ChannelName: name,
		Depth: verifrt.Int64(tag + ".depth"), BackendDepth: verifrt.Int64(tag + ".backend"),
		InFlightCount: verifrt.Int64(tag + ".inflight"), DeferredCount: verifrt.Int64(tag + ".deferred"),
		MessageCount: verifrt.Int64(tag + ".msgs"), ZoneLocalMsgCount: verifrt.Int64(tag + ".zone"),
		RegionLocalMsgCount: verifrt.Int64(tag + ".region"), GlobalMsgCount: verifrt.Int64(tag + ".global"),
		RequeueCount: verifrt.Int64(tag + ".requeue"), TimeoutCount: verifrt.Int64(tag + ".timeout"),
		ClientCount: verifrt.Int(tag + ".clients"), Paused: paused,
		Clients: []*verifClientJSON{},
		E2e:     &verifE2eJSON{Count: verifrt.Int(tag + ".e2e")},
	}
	for i := 0; i < clients; i++ {
		c.Clients = append(c.Clients, verifClient(tag+".client", []string{"cb", "ca"}[i%2], i%2 == 1))
	}
	return c
}

func verifTopic(tag, name string, chans []*verifChannelJSON, paused bool) *verifTopicJSON {
	return &verifTopicJSON{TopicName: name, Channels: chans,
		Depth: verifrt.Int64(tag + ".depth"), BackendDepth: verifrt.Int64(tag + ".backend"),
		MessageCount: verifrt.Int64(tag + ".msgs"), MessageBytes: verifrt.Int64(tag + ".bytes"),
		Paused: paused, E2e: &verifE2eJSON{Count: verifrt.Int(tag + ".e2e")}}
}

// verifNodeStats: one of a menu of cluster shapes for a node (topics present on some nodes
// only, the same channel on many nodes, the same channel name under two topics, ...), every
// number nondeterministic.
func verifNodeStats(tag string, shape int, paused bool) verifStatsReply {
	r := verifStatsReply{Version: "1.3.0", Health: "OK", Topics: []*verifTopicJSON{}}
	ch := func(t, c string, clients int) *verifChannelJSON {
		return verifChannel(tag+"."+t+"."+c, c, clients, paused)
	}
	tp := func(t string, chans ...*verifChannelJSON) {
		if chans == nil {
			chans = []*verifChannelJSON{}
		}
		r.Topics = append(r.Topics, verifTopic(tag+"."+t, t, chans, paused))
	}
	switch shape {
	case 0: // no topics at all
	case 1:
		tp("t", ch("t", "c", 1))
	case 2:
		tp("t", ch("t", "c", 2), ch("t", "d", 0))
	case 3:
		tp("t")
		tp("u", ch("u", "c", 1))
	case 4:
		tp("t", ch("t", "c", 0))
		tp("u", ch("u", "c", 1))
	case 5:
		tp("u", ch("u", "d", 1))
	case 6:
		tp("t", ch("t", "d", 1), ch("t", "c", 1))
	}
	return r
}

type verifChanAgg struct {
	key                                                                              string
	topic, channel                                                                   string
	depth, backend, inflight, deferred, msgs, zone, region, global, requeue, timeout int64
	clientCount, e2e                                                                 int
	paused                                                                           bool
	nodes                                                                            []string
	nodeMsgs                                                                         []int64
	clientOf                                                                         []*verifClientJSON
	clientNode                                                                       []string
	clients                                                                          int
}

// GetNSQDStats over 1..N nsqd, any subset failing, any of the shapes per node, with and
// without a selected topic/channel: the per-node topic entries are exactly what the answering
// nodes reported, and every channel aggregate is the field-wise sum over the nodes that
// report the channel, with one node entry and the clients of each of them.
func VerifC18_NSQDStatsSums() {
	verifrt.Atomic(func() {
		u := verifNewEnv()
		ci := verifClusterInfo(u)
		n := verifrt.Bound("nsqds", 2, 3)
		shapes := verifrt.Bound("shapes", 5, 7)
		selTopic, selChan := "", ""
		query := "/stats?format=json"
		includeClients := false
		switch verifrt.Choice("selection", 4) { // the four ways nsqadmin's views call it
		case 0: // counter view
		case 1: // topic view
			selTopic = "t"
			query += "&topic=t"
		case 2: // channel view
			selTopic, selChan, includeClients = "t", "c", true
			query += "&topic=t&channel=c"
		case 3: // node view
			includeClients = true
		}
		if !includeClients {
			query += "&include_clients=false"
		}
		hosts := []string{"hb", "ha", "hc"}
		var producers Producers
		var replies []verifStatsReply
		var fails []bool
		failed := 0
		for i := 0; i < n; i++ {
			p := &Producer{BroadcastAddress: []string{"b0", "b1", "b2"}[i], HTTPPort: 4151, TCPPort: 4150, Hostname: hosts[i],
				TopologyRegion: "r1", TopologyZone: "z1"}
			producers = append(producers, p)
			tag := p.HTTPAddress()
			f, _ := verifFail(tag)
			var r verifStatsReply
			if f {
				failed++
			} else {
				r = verifNodeStats(tag, verifrt.Choice(tag+".shape", shapes), i == 1)
			}
			fails = append(fails, f)
			replies = append(replies, r)
			u.script("http://"+tag+query, f, 0, r)
		}
		topics, chans, err := ci.GetNSQDStats(producers, selTopic, selChan, includeClients)
		verifrt.Assert(u.unknown == 0, "stats:asked-the-stats-endpoint-of-each-node")

		pe, partial := verifIsPartial(err)
		if failed == n {
			verifrt.Assert(err != nil && !partial, "stats:all-failed-is-plain-error")
			verifrt.Assert(len(topics) == 0 && len(chans) == 0, "stats:all-failed-no-result")
			verifrt.Reach("stats:all-failed", true)
			return
		}
		if failed > 0 {
			verifrt.Assert(err != nil && partial, "stats:some-failed-is-partial-error")
			if partial {
				verifrt.Assert(len(pe.Errors()) == failed, "stats:one-error-per-failed-node")
			}
			verifrt.Reach("stats:some-failed", true)
		} else {
			verifrt.Assert(err == nil, "stats:none-failed-no-error")
		}

		// reference model
		var aggs []*verifChanAgg
		wantTopics := 0
		for i, r := range replies {
			if fails[i] {
				continue
			}
			node := producers[i].HTTPAddress()
			for _, t := range r.Topics {
				if selTopic != "" && t.TopicName != selTopic {
					continue
				}
				wantTopics++
				// the node's topic entry, untouched
				cnt := 0
				for _, g := range topics {
					if g.Node == node && g.TopicName == t.TopicName {
						cnt++
						verifrt.Assert(g.Hostname == hosts[i], "stats:topic-entry-carries-its-node")
						verifrt.Assert(g.Depth == t.Depth && g.BackendDepth == t.BackendDepth && g.MessageCount == t.MessageCount && g.Paused == t.Paused,
							"stats:topic-entry-numbers-are-the-reported-ones")
						verifrt.Assert(g.MemoryDepth == t.Depth-t.BackendDepth, "stats:topic-memory-depth-is-depth-minus-backend")
						verifrt.Assert(len(g.Channels) == len(t.Channels), "stats:topic-entry-lists-its-channels")
					}
				}
				verifrt.Assert(cnt == 1, "stats:one-topic-entry-per-node-and-topic")
				for _, c := range t.Channels {
					key := c.ChannelName
					if selTopic == "" {
						key = t.TopicName + ":" + c.ChannelName
					}
					var a *verifChanAgg
					for _, x := range aggs {
						if x.key == key {
							a = x
						}
					}
					if a == nil {
						a = &verifChanAgg{key: key, topic: t.TopicName, channel: c.ChannelName}
						aggs = append(aggs, a)
					}
					a.depth += c.Depth
					a.backend += c.BackendDepth
					a.inflight += c.InFlightCount
					a.deferred += c.DeferredCount
					a.msgs += c.MessageCount
					a.zone += c.ZoneLocalMsgCount
					a.region += c.RegionLocalMsgCount
					a.global += c.GlobalMsgCount
					a.requeue += c.RequeueCount
					a.timeout += c.TimeoutCount
					a.clientCount += c.ClientCount
					a.e2e += c.E2e.Count
					a.paused = a.paused || c.Paused
					a.nodes = append(a.nodes, node)
					a.nodeMsgs = append(a.nodeMsgs, c.MessageCount)
					a.clients += len(c.Clients)
					for _, cl := range c.Clients {
						a.clientOf = append(a.clientOf, cl)
						a.clientNode = append(a.clientNode, node)
					}
				}
			}
		}
		verifrt.Assert(len(topics) == wantTopics, "stats:nothing-but-the-reported-topic-entries")
		for i := 1; i < len(topics); i++ {
			verifrt.Assert(topics[i-1].Hostname <= topics[i].Hostname, "stats:topic-entries-sorted-by-host")
		}
		verifrt.Assert(len(chans) == len(aggs), "stats:exactly-the-reported-channels")
		for _, a := range aggs {
			g := chans[a.key]
			verifrt.Assert(g != nil, "stats:every-reported-channel-aggregated")
			if g == nil {
				continue
			}
			verifrt.Assert(g.TopicName == a.topic && g.ChannelName == a.channel, "stats:aggregate-names")
			verifrt.Assert(g.Depth == a.depth, "stats:sum:depth")
			verifrt.Assert(g.BackendDepth == a.backend, "stats:sum:backend-depth")
			verifrt.Assert(g.MemoryDepth == a.depth-a.backend, "stats:sum:memory-depth")
			verifrt.Assert(g.InFlightCount == a.inflight, "stats:sum:in-flight")
			verifrt.Assert(g.DeferredCount == a.deferred, "stats:sum:deferred")
			verifrt.Assert(g.MessageCount == a.msgs, "stats:sum:message-count")
			verifrt.Assert(g.RequeueCount == a.requeue, "stats:sum:requeue-count")
			verifrt.Assert(g.TimeoutCount == a.timeout, "stats:sum:timeout-count")
			verifrt.Assert(g.ZoneLocalMsgCount == a.zone && g.RegionLocalMsgCount == a.region && g.GlobalMsgCount == a.global, "stats:sum:delivery-breakdown")
			verifrt.Assert(g.DeliveryMsgCount == a.zone+a.region+a.global, "stats:sum:delivery-count")
			verifrt.Assert(g.ClientCount == a.clientCount, "stats:sum:client-count")
			verifrt.Assert(g.Paused == a.paused, "stats:paused-if-paused-anywhere")
			verifrt.Assert(g.E2eProcessingLatency != nil && g.E2eProcessingLatency.Count == a.e2e, "stats:sum:e2e-count")
			// node list: one entry per reporting node, with that node's own numbers
			verifrt.Assert(len(g.NodeStats) == len(a.nodes), "stats:one-node-entry-per-reporting-node")
			for j, node := range a.nodes {
				cnt := 0
				for _, ns := range g.NodeStats {
					if ns.Node == node {
						cnt++
						verifrt.Assert(ns.MessageCount == a.nodeMsgs[j], "stats:node-entry-keeps-the-node's-message-count")
						verifrt.Assert(ns.TopicName == a.topic && ns.ChannelName == a.channel, "stats:node-entry-names")
					}
				}
				verifrt.Assert(cnt == 1, "stats:one-node-entry-per-reporting-node")
			}
			// clients: all of them, each tagged with the node it is connected to
			verifrt.Assert(len(g.Clients) == a.clients, "stats:all-clients-listed")
			for _, cl := range g.Clients {
				verifrt.Assert(cl != nil && verifHas(a.nodes, cl.Node), "stats:client-tagged-with-its-node")
				verifrt.Assert(cl.NodeTopologyRegion == "r1" && cl.NodeTopologyZone == "z1", "stats:client-tagged-with-node-topology")
			}
			for j, rc := range a.clientOf {
				cnt := 0
				for _, cl := range g.Clients {
					if cl != nil && cl.ClientID == rc.ClientID {
						cnt++
						verifrt.Assert(cl.Node == a.clientNode[j] && cl.Hostname == rc.Hostname && cl.MessageCount == rc.MessageCount && cl.ReadyCount == rc.ReadyCount &&
							cl.InFlightCount == rc.InFlightCount && cl.FinishCount == rc.FinishCount && cl.RequeueCount == rc.RequeueCount && cl.SampleRate == rc.SampleRate &&
							cl.UserAgent == rc.UserAgent && cl.AuthIdentity == rc.AuthIdentity && cl.ConnectTs == rc.ConnectTs,
							"stats:client-entry-is-what-its-node-reported")
					}
				}
				verifrt.Assert(cnt == 1, "stats:every-reported-client-listed-once")
			}
			verifrt.Reach("stats:channel-on-two-nodes", len(a.nodes) >= 2)
			verifrt.Reach("stats:clients-from-two-nodes", len(a.nodes) >= 2 && a.clients >= 3)
			verifrt.Reach("stats:client-without-optional-fields", len(g.Clients) >= 1 && !g.Clients[0].HasUserAgent())
			verifrt.Reach("stats:client-with-optional-fields", len(g.Clients) >= 1 && g.Clients[0].HasUserAgent() && g.Clients[0].AuthIdentity == "me")
			verifrt.Reach("stats:huge-counter", len(a.nodes) >= 2 && g.MessageCount > 1<<62)
		}
		verifrt.Reach("stats:same-channel-name-under-two-topics", selTopic == "" && len(aggs) >= 2 && aggs[0].channel == aggs[1].channel)
		verifrt.Reach("stats:topic-on-one-node-only", wantTopics == 1 && failed == 0 && n >= 2)
		verifrt.Observe("stats.topics", len(topics))
		verifrt.Observe("stats.channels", len(chans))
	})
}
