//go:build verif

package clusterinfo

import (
	"net/url"

	"github.com/nsqio/nsq/internal/verifrt"
)

// (the request-aware upstream environment - request-line parser, servers, transport - is in
// c18_reqenv.go; keep this file free of channel operations / go statements / sync calls)

// ---- an nsqd that holds topics and channels ----
//
// GET /stats as nsqd serves it (nsqd/http.go doStats, nsqd/stats.go GetStats): `topic` selects
// the one topic with exactly that name (none if the nsqd does not have it), `channel` keeps
// only the topics that have exactly that channel, reduced to it; include_clients=false|0
// leaves the client lists out (client_count stays); anything but format=json is the text page.

type verifHoldingNSQD struct {
	fail   bool
	kind   byte
	topics []*verifTopicJSON
}

func (d *verifHoldingNSQD) serve(r *verifRequest) (bool, byte, interface{}) {
	if d.fail {
		return true, d.kind, nil
	}
	if r.path != "/stats" {
		return true, 1, nil // 404
	}
	if f, _ := r.get("format"); f != "json" {
		return true, 2, nil // a 200 with the human readable page: not JSON
	}
	topic, _ := r.get("topic")
	channel, _ := r.get("channel")
	ic, _ := r.get("include_clients")
	includeClients := !(ic == "false" || ic == "0")
	return false, 0, verifStatsReply{Version: "1.3.0", Health: "OK", StartTime: 1600000000,
		Topics: verifSelectStats(d.topics, topic, channel, includeClients)}
}

// what an nsqd holding `topics` reports for a (topic, channel, include_clients) selection
func verifSelectStats(topics []*verifTopicJSON, topic, channel string, includeClients bool) []*verifTopicJSON {
	out := []*verifTopicJSON{}
	for _, t := range topics {
		if topic != "" && t.TopicName != topic {
			continue
		}
		chans := []*verifChannelJSON{}
		for _, c := range t.Channels {
			if channel != "" && c.ChannelName != channel {
				continue
			}
			cc := *c
			if !includeClients {
				cc.Clients = nil
			}
			chans = append(chans, &cc)
		}
		if channel != "" && len(chans) == 0 {
			continue
		}
		tt := *t
		tt.Channels = chans
		out = append(out, &tt)
	}
	return out
}

func verifSibling(name string) string {
	const eph = "#ephemeral"
	if len(name) > len(eph) && name[len(name)-len(eph):] == eph {
		return name[:len(name)-len(eph)]
	}
	return name + eph
}

// GetNSQDStats for a selected topic (and channel) whose NAME needs care on its way into the
// request: "#ephemeral" topics and channels. Every nsqd holds the selected topic and/or its
// sibling (the same name without / with "#ephemeral", with its own numbers), with the selected
// channel and/or its sibling; any subset of the nsqd fails. The result must be what the
// answering nsqd hold for EXACTLY the selected names: one topic entry per node that has it,
// every channel aggregate the field-wise sum over those nodes, all their clients - and nothing
// of the sibling.
func VerifC18_NSQDStatsSelectedNames() {
	verifrt.Atomic(func() {
		u := verifNewServers()
		ci := verifServedClusterInfo(u)
		n := verifrt.Bound("nsqds", 2, 3)
		shapes := verifrt.Bound("holdings", 3, 5)
		selTopic, selChan, includeClients := "", "", false
		switch verifrt.Choice("selection", verifrt.Bound("selections", 4, 5)) {
		case 0: // topic view of an ephemeral topic
			selTopic = "t#ephemeral"
		case 1: // channel view, both ephemeral
			selTopic, selChan, includeClients = "t#ephemeral", "c#ephemeral", true
		case 2: // channel view, ephemeral channel of a durable topic
			selTopic, selChan, includeClients = "t", "c#ephemeral", true
		case 3: // the durable sibling of an ephemeral topic
			selTopic = "t"
		case 4: // plain names, longest legal characters
			selTopic, selChan, includeClients = "a.b-c_d", "c", true
		}
		sibTopic := verifSibling(selTopic)
		chanName := selChan
		if chanName == "" {
			chanName = "c#ephemeral"
		}
		sibChan := verifSibling(chanName)

		hosts := []string{"hb", "ha", "hc"}
		var producers Producers
		var nodes []*verifHoldingNSQD
		failed := 0
		for i := 0; i < n; i++ {
			p := &Producer{BroadcastAddress: []string{"b0", "b1", "b2"}[i], HTTPPort: 4151, TCPPort: 4150, Hostname: hosts[i],
				TopologyRegion: "r1", TopologyZone: "z1"}
			producers = append(producers, p)
			tag := p.HTTPAddress()
			d := &verifHoldingNSQD{}
			d.fail, d.kind = verifFail(tag)
			if d.fail {
				failed++
			} else {
				paused := i == 1
				ch := func(t, c string, clients int) *verifChannelJSON {
					return verifChannel(tag+"."+t+"."+c, c, clients, paused)
				}
				tp := func(t string, chans ...*verifChannelJSON) {
					if chans == nil {
						chans = []*verifChannelJSON{}
					}
					d.topics = append(d.topics, verifTopic(tag+"."+t, t, chans, paused))
				}
				switch verifrt.Choice(tag+".holding", shapes) {
				case 0: // the selected topic and its sibling, each with both channels
					tp(sibTopic, ch(sibTopic, chanName, 1), ch(sibTopic, sibChan, 0))
					tp(selTopic, ch(selTopic, sibChan, 1), ch(selTopic, chanName, 1))
				case 1: // only the selected topic, with the selected channel
					tp(selTopic, ch(selTopic, chanName, 2))
				case 2: // only the sibling topic (a node that does not have the selected one)
					tp(sibTopic, ch(sibTopic, chanName, 1))
				case 3: // the selected topic with the sibling channel only
					tp(selTopic, ch(selTopic, sibChan, 1))
				case 4: // the selected topic without channels
					tp(selTopic)
				}
			}
			nodes = append(nodes, d)
			u.servers[tag] = d
		}

		topics, chans, err := ci.GetNSQDStats(producers, selTopic, selChan, includeClients)
		verifrt.Assert(u.unknown == 0, "selected:asked-only-the-given-nodes")

		pe, partial := verifIsPartial(err)
		if failed == n {
			verifrt.Assert(err != nil && !partial, "selected:all-failed-is-plain-error")
			verifrt.Assert(len(topics) == 0 && len(chans) == 0, "selected:all-failed-no-result")
			return
		}
		if failed > 0 {
			verifrt.Assert(err != nil && partial, "selected:some-failed-is-partial-error")
			if partial {
				verifrt.Assert(len(pe.Errors()) == failed, "selected:one-error-per-failed-node")
			}
		} else {
			verifrt.Assert(err == nil, "selected:none-failed-no-error")
		}

		// reference: what the answering nodes hold for exactly (selTopic, selChan)
		var aggs []*verifChanAgg
		wantTopics := 0
		for i, d := range nodes {
			if d.fail {
				continue
			}
			node := producers[i].HTTPAddress()
			for _, t := range verifSelectStats(d.topics, selTopic, selChan, includeClients) {
				wantTopics++
				cnt := 0
				for _, g := range topics {
					if g.Node == node {
						cnt++
						verifrt.Assert(g.TopicName == selTopic && g.Hostname == hosts[i], "selected:topic-entry-is-the-selected-topic-of-its-node")
						verifrt.Assert(g.Depth == t.Depth && g.BackendDepth == t.BackendDepth && g.MessageCount == t.MessageCount && g.Paused == t.Paused,
							"selected:topic-entry-numbers-are-the-reported-ones")
						verifrt.Assert(len(g.Channels) == len(t.Channels), "selected:topic-entry-lists-its-channels")
					}
				}
				verifrt.Assert(cnt == 1, "selected:one-topic-entry-per-node-holding-the-topic")
				for _, c := range t.Channels {
					var a *verifChanAgg
					for _, x := range aggs {
						if x.key == c.ChannelName {
							a = x
						}
					}
					if a == nil {
						a = &verifChanAgg{key: c.ChannelName, topic: t.TopicName, channel: c.ChannelName}
						aggs = append(aggs, a)
					}
					a.depth += c.Depth
					a.backend += c.BackendDepth
					a.inflight += c.InFlightCount
					a.deferred += c.DeferredCount
					a.msgs += c.MessageCount
					a.requeue += c.RequeueCount
					a.timeout += c.TimeoutCount
					a.clientCount += c.ClientCount
					a.paused = a.paused || c.Paused
					a.nodes = append(a.nodes, node)
					a.nodeMsgs = append(a.nodeMsgs, c.MessageCount)
					a.clients += len(c.Clients)
					for _, cl := range c.Clients {
						a.clientOf = append(a.clientOf, cl)
						a.clientNode = append(a.clientNode, node)
					}
				}
			}
		}
		verifrt.Assert(len(topics) == wantTopics, "selected:exactly-the-topic-entries-of-the-nodes-holding-it")
		verifrt.Assert(len(chans) == len(aggs), "selected:exactly-the-channels-held-for-the-selection")
		for _, a := range aggs {
			g := chans[a.key]
			verifrt.Assert(g != nil, "selected:every-held-channel-aggregated")
			if g == nil {
				continue
			}
			verifrt.Assert(g.TopicName == selTopic && g.ChannelName == a.channel, "selected:aggregate-names")
			verifrt.Assert(g.Depth == a.depth, "selected:sum:depth")
			verifrt.Assert(g.BackendDepth == a.backend, "selected:sum:backend-depth")
			verifrt.Assert(g.InFlightCount == a.inflight, "selected:sum:in-flight")
			verifrt.Assert(g.DeferredCount == a.deferred, "selected:sum:deferred")
			verifrt.Assert(g.MessageCount == a.msgs, "selected:sum:message-count")
			verifrt.Assert(g.RequeueCount == a.requeue, "selected:sum:requeue-count")
			verifrt.Assert(g.TimeoutCount == a.timeout, "selected:sum:timeout-count")
			verifrt.Assert(g.ClientCount == a.clientCount, "selected:sum:client-count")
			verifrt.Assert(g.Paused == a.paused, "selected:paused-if-paused-anywhere")
			verifrt.Assert(len(g.NodeStats) == len(a.nodes), "selected:one-node-entry-per-holding-node")
			for j, node := range a.nodes {
				cnt := 0
				for _, ns := range g.NodeStats {
					if ns.Node == node {
						cnt++
						verifrt.Assert(ns.MessageCount == a.nodeMsgs[j] && ns.TopicName == selTopic && ns.ChannelName == a.channel,
							"selected:node-entry-is-the-node's-own")
					}
				}
				verifrt.Assert(cnt == 1, "selected:one-node-entry-per-holding-node")
			}
			verifrt.Assert(len(g.Clients) == a.clients, "selected:all-clients-listed")
			for j, rc := range a.clientOf {
				cnt := 0
				for _, cl := range g.Clients {
					if cl != nil && cl.ClientID == rc.ClientID {
						cnt++
						verifrt.Assert(cl.Node == a.clientNode[j] && cl.MessageCount == rc.MessageCount && cl.Hostname == rc.Hostname,
							"selected:client-entry-is-what-its-node-reported")
					}
				}
				verifrt.Assert(cnt == 1, "selected:every-reported-client-listed-once")
			}
			verifrt.Reach("selected:ephemeral-channel-summed-over-two-nodes", len(a.nodes) >= 2 && a.channel == "c#ephemeral" && g.MessageCount == a.msgs)
			verifrt.Reach("selected:clients-of-an-ephemeral-channel", selChan == "c#ephemeral" && len(g.Clients) >= 3)
		}
		verifrt.Reach("selected:ephemeral-topic-on-two-nodes", selTopic == "t#ephemeral" && selChan == "" && len(topics) == 2 && failed == 0)
		verifrt.Reach("selected:ephemeral-topic-and-channel", selTopic == "t#ephemeral" && selChan == "c#ephemeral" && len(chans) == 1 && len(topics) >= 1)
		verifrt.Reach("selected:ephemeral-channel-of-durable-topic", selTopic == "t" && selChan == "c#ephemeral" && len(chans) == 1)
		verifrt.Reach("selected:durable-sibling-not-mixed-with-the-ephemeral-topic", selTopic == "t" && selChan == "" && len(topics) == 1 && failed == 0 && n >= 2)
		verifrt.Reach("selected:node-without-the-topic", wantTopics < n-failed)
		verifrt.Reach("selected:some-failed", failed > 0 && len(topics) >= 1)
		verifrt.Observe("selected.topics", len(topics))
		verifrt.Observe("selected.channels", len(chans))
	})
}

// the request-line parser against the cases that matter (decided concretely; natively the
// same strings go through net/url, so a disagreement shows up as a replay mismatch)
func VerifC18_RequestLineParser() {
	verifrt.Atomic(func() {
		check := func(endpoint, host, path, topic, channel string, nargs int) {
			r, ok := verifParseEndpoint(endpoint)
			verifrt.Assert(ok, "request-line:parses")
			if !ok {
				return
			}
			t, _ := r.get("topic")
			c, _ := r.get("channel")
			verifrt.Assert(r.host == host && r.path == path, "request-line:host-and-path")
			verifrt.Assert(t == topic && c == channel, "request-line:arguments-decoded")
			verifrt.Assert(len(r.args) == nargs && !r.bad, "request-line:argument-count")
			// and the real thing agrees
			pu, err := url.Parse(endpoint)
			verifrt.Assert(err == nil, "request-line:net/url-parses")
			if err != nil {
				return
			}
			vals, err := url.ParseQuery(pu.RawQuery)
			verifrt.Assert(err == nil && len(vals) == nargs, "request-line:net/url-argument-count")
			verifrt.Assert(pu.Host == host && pu.Path == path && vals.Get("topic") == topic && vals.Get("channel") == channel, "request-line:net/url-agrees")
		}
		check("http://b0:4151/stats?format=json&topic=t%23ephemeral&channel=c%23ephemeral", "b0:4151", "/stats", "t#ephemeral", "c#ephemeral", 3)
		check("http://b0:4151/stats?format=json&topic=t#ephemeral&channel=c&include_clients=false", "b0:4151", "/stats", "t", "", 2)
		check("http://b0:4151/stats?format=json&topic="+url.QueryEscape("t#ephemeral"), "b0:4151", "/stats", "t#ephemeral", "", 2)
		check("http://l0:4161/lookup?topic=a.b-c_d", "l0:4161", "/lookup", "a.b-c_d", "", 1)
		check("http://l0:4161/nodes", "l0:4161", "/nodes", "", "", 0)
		check("http://l0:4161/lookup?topic=a+b%2Bc", "l0:4161", "/lookup", "a b+c", "", 1)
	})
}
