//go:build verif

package clusterinfo

import (
	"github.com/nsqio/nsq/internal/verifrt"
)

// ---- name lists: union over the answering upstreams ----

type verifNamesReply struct {
	Topics   []string `json:"topics"`
	Channels []string `json:"channels"`
}

type verifNameSource struct {
	addr  string
	fail  bool
	names []string
}

func verifNameSources(n, maxNames int) []verifNameSource {
	addrs := []string{"l0:4161", "l1:4161", "l2:4161", "l3:4161"}
	var srcs []verifNameSource
	for i := 0; i < n; i++ {
		s := verifNameSource{addr: addrs[i]}
		s.fail, _ = verifFail(addrs[i])
		if !s.fail {
			m := maxNames
			if i > 1 && m > 1 {
				m-- // a third upstream reports one name less (every name comparison forks)
			}
			k := verifrt.Choice(addrs[i]+".count", m+1)
			for j := 0; j < k; j++ {
				s.names = append(s.names, verifName(addrs[i]+".name", 1))
			}
		}
		srcs = append(srcs, s)
	}
	return srcs
}

// verifCheckUnion: the oracle of "the view lists exactly the union of what the answering
// upstreams report, once each, sorted; all fail => plain error; some fail => partial result
// with a PartialErr that carries one error per failing upstream; none => nil".
func verifCheckUnion(what string, srcs []verifNameSource, got []string, err error) {
	failed := 0
	for _, s := range srcs {
		if s.fail {
			failed++
		}
	}
	pe, partial := verifIsPartial(err)
	if failed == len(srcs) {
		verifrt.Assert(err != nil && !partial, what+":all-failed-is-plain-error")
		verifrt.Assert(len(got) == 0, what+":all-failed-no-result")
		verifrt.Reach(what+":all-failed", true)
		return
	}
	if failed > 0 {
		verifrt.Assert(err != nil && partial, what+":some-failed-is-partial-error")
		if partial {
			verifrt.Assert(len(pe.Errors()) == failed, what+":one-error-per-failed-upstream")
			verifrt.Assert(pe.Error() != "", what+":partial-error-has-text")
		}
		verifrt.Reach(what+":some-failed", true)
	} else {
		verifrt.Assert(err == nil, what+":none-failed-no-error")
		verifrt.Reach(what+":none-failed", true)
	}
	// exactly the union
	for _, s := range srcs {
		if s.fail {
			continue
		}
		for _, nm := range s.names {
			verifrt.Assert(verifHas(got, nm), what+":every-reported-name-listed")
		}
	}
	for _, g := range got {
		found := false
		for _, s := range srcs {
			found = found || (!s.fail && verifHas(s.names, g))
		}
		verifrt.Assert(found, what+":every-listed-name-was-reported")
	}
	for i := 1; i < len(got); i++ {
		verifrt.Assert(got[i-1] < got[i], what+":sorted-without-duplicates")
	}
	verifrt.Reach(what+":two-names-listed", len(got) >= 2)
	verifrt.Observe(what+".n", len(got))
}

// GetLookupdTopics over 1..N nsqlookupd, any subset failing, any topic lists (overlapping or
// not): the union oracle above.
func VerifC18_LookupdTopicsUnion() {
	verifrt.Atomic(func() {
		u := verifNewEnv()
		ci := verifClusterInfo(u)
		n := 1 + verifrt.Choice("lookupds", verifrt.Bound("lookupds", 2, 3))
		srcs := verifNameSources(n, verifrt.Bound("names-per-upstream", 2, 2))
		var addrs []string
		for _, s := range srcs {
			addrs = append(addrs, s.addr)
			u.script("http://"+s.addr+"/topics", s.fail, 0, verifNamesReply{Topics: s.names})
		}
		got, err := ci.GetLookupdTopics(addrs)
		verifCheckUnion("lookupd-topics", srcs, got, err)
		for _, s := range srcs {
			verifrt.Assert(u.called("http://"+s.addr+"/topics") == 1, "lookupd-topics:every-upstream-asked-once")
		}
		verifrt.Assert(u.unknown == 0, "lookupd-topics:no-other-endpoint-asked")
	})
}

// The same fan-out with the executor choosing the interleaving of the fetch goroutines and
// the caller (bounded preemptions): whatever the schedule, no reply and no error is lost and
// the call returns (the shared slices, the error list and the aggregate map are only touched
// under the fetch lock).
func VerifC18_FetchInterleavings() {
	var ci *ClusterInfo
	var srcs []verifNameSource
	var addrs []string
	which := 0
	var producers Producers
	var depth [2]int64
	var fails [2]bool
	verifrt.Atomic(func() {
		u := verifNewEnv()
		ci = verifClusterInfo(u)
		which = verifrt.Choice("function", 2)
		if which == 0 {
			srcs = verifNameSources(2, 1)
			for _, s := range srcs {
				addrs = append(addrs, s.addr)
				u.script("http://"+s.addr+"/topics", s.fail, 0, verifNamesReply{Topics: s.names})
			}
			return
		}
		for i := 0; i < 2; i++ {
			p := &Producer{BroadcastAddress: []string{"b0", "b1"}[i], HTTPPort: 4151, TCPPort: 4150, Hostname: []string{"hb", "ha"}[i]}
			producers = append(producers, p)
			fails[i], _ = verifFail(p.HTTPAddress())
			r := verifNodeStats(p.HTTPAddress(), 1, false)
			depth[i] = r.Topics[0].Channels[0].Depth
			u.script("http://"+p.HTTPAddress()+"/stats?format=json&include_clients=false", fails[i], 0, r)
		}
	})
	if which == 0 {
		got, err := ci.GetLookupdTopics(addrs)
		verifCheckUnion("interleaved-topics", srcs, got, err)
		return
	}
	topics, chans, err := ci.GetNSQDStats(producers, "", "", false)
	failed := 0
	var sum int64
	for i := range fails {
		if fails[i] {
			failed++
		} else {
			sum += depth[i]
		}
	}
	pe, partial := verifIsPartial(err)
	if failed == 2 {
		verifrt.Assert(err != nil && !partial && topics == nil && chans == nil, "interleaved-stats:all-failed")
		return
	}
	verifrt.Assert((err == nil) == (failed == 0), "interleaved-stats:error-iff-some-failed")
	if failed > 0 {
		verifrt.Assert(partial && len(pe.Errors()) == failed, "interleaved-stats:one-error-per-failed-node")
	}
	verifrt.Assert(len(topics) == 2-failed, "interleaved-stats:no-reply-lost")
	c := chans["t:c"]
	verifrt.Assert(c != nil && len(c.NodeStats) == 2-failed && c.Depth == sum, "interleaved-stats:sum-over-the-answering-nodes")
	verifrt.Reach("interleaved-stats:both-answer", failed == 0)
}
