//go:build verif

package clusterinfo

import (
	"github.com/nsqio/nsq/internal/verifrt"
)

// ---- name lists: union over the answering upstreams ----

type verifNamesReply struct {
	Topics   []string `json:"topics"`
	Channels []string `json:"channels"`
}

type verifNameSource struct {
	addr  string
	fail  bool
	names []string
}

func verifNameSources(n, maxNames int) []verifNameSource {
	addrs := []string{"l0:4161", "l1:4161", "l2:4161", "l3:4161"}
	var srcs []verifNameSource
	for i := 0; i < n; i++ {
		s := verifNameSource{addr: addrs[i]}
		s.fail, _ = verifFail(addrs[i])
		if !s.fail {
			k := verifrt.Choice(addrs[i]+".count", maxNames+1)
			for j := 0; j < k; j++ {
				s.names = append(s.names, verifName(addrs[i]+".name", 1))
			}
		}
		srcs = append(srcs, s)
	}
	return srcs
}

// verifCheckUnion: the oracle of "the view lists exactly the union of what the answering
// upstreams report, once each, sorted; all fail => plain error; some fail => partial result
// with a PartialErr that carries one error per failing upstream; none => nil".
func verifCheckUnion(what string, srcs []verifNameSource, got []string, err error) {
	failed := 0
	for _, s := range srcs {
		if s.fail {
			failed++
		}
	}
	pe, partial := verifIsPartial(err)
	if failed == len(srcs) {
		verifrt.Assert(err != nil && !partial, what+":all-failed-is-plain-error")
		verifrt.Assert(len(got) == 0, what+":all-failed-no-result")
		verifrt.Reach(what+":all-failed", true)
		return
	}
	if failed > 0 {
		verifrt.Assert(err != nil && partial, what+":some-failed-is-partial-error")
		if partial {
			verifrt.Assert(len(pe.Errors()) == failed, what+":one-error-per-failed-upstream")
			verifrt.Assert(pe.Error() != "", what+":partial-error-has-text")
		}
		verifrt.Reach(what+":some-failed", true)
	} else {
		verifrt.Assert(err == nil, what+":none-failed-no-error")
		verifrt.Reach(what+":none-failed", true)
	}
	// exactly the union
	for _, s := range srcs {
		if s.fail {
			continue
		}
		for _, nm := range s.names {
			verifrt.Assert(verifHas(got, nm), what+":every-reported-name-listed")
		}
	}
	for _, g := range got {
		found := false
		for _, s := range srcs {
			found = found || (!s.fail && verifHas(s.names, g))
		}
		verifrt.Assert(found, what+":every-listed-name-was-reported")
	}
	for i := 1; i < len(got); i++ {
		verifrt.Assert(got[i-1] < got[i], what+":sorted-without-duplicates")
	}
	verifrt.Reach(what+":two-names-listed", len(got) >= 2)
	verifrt.Observe(what+".n", len(got))
}

// GetLookupdTopics over 1..N nsqlookupd, any subset failing, any topic lists (overlapping or
// not): the union oracle above.
func VerifC18_LookupdTopicsUnion() {
	verifrt.Atomic(func() {
		u := verifNewEnv()
		ci := verifClusterInfo(u)
		n := 1 + verifrt.Choice("lookupds", verifrt.Bound("lookupds", 2, 3))
		srcs := verifNameSources(n, verifrt.Bound("names-per-upstream", 2, 2))
		var addrs []string
		for _, s := range srcs {
			addrs = append(addrs, s.addr)
			u.script("http://"+s.addr+"/topics", s.fail, 0, verifNamesReply{Topics: s.names})
		}
		got, err := ci.GetLookupdTopics(addrs)
		verifCheckUnion("lookupd-topics", srcs, got, err)
		for _, s := range srcs {
			verifrt.Assert(u.called("http://"+s.addr+"/topics") == 1, "lookupd-topics:every-upstream-asked-once")
		}
		verifrt.Assert(u.unknown == 0, "lookupd-topics:no-other-endpoint-asked")
	})
}
