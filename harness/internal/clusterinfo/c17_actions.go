//go:build verif

package clusterinfo

import (
	"bytes"
	"encoding/json"
	"errors"
	"io"
	"net/http"
	"reflect"
	"strconv"
	"unsafe"

	"github.com/nsqio/nsq/internal/http_api"
	"github.com/nsqio/nsq/internal/verifrt"
)

// =============================================================================================
// C17, last clause: "with an admin identity, or with no admin list, the action is carried out on
// every relevant nsqd and nsqlookupd" - the part below the nsqadmin handlers. The handlers hand
// the action to one exported ClusterInfo method; that method discovers the nsqd producing the
// topic (GetTopicProducers -> /lookup on every nsqlookupd) and POSTs to each of them.
//
// Here the REAL method runs, discovery included, against scripted nsqlookupds whose /lookup
// answers name producers with SYMBOLIC broadcast addresses (one byte each: the solver decides
// "same host" / "different host") and one of two HTTP ports. An nsqd is identified by broadcast
// address AND port: two nsqd on one host are two nsqd, the same nsqd reported by two nsqlookupds
// is one.
//
// Own environment (prefix verif17, nothing shared with the C18 files): under gosmt
// (*http_api.Client).GETV1 / POSTV1 are redirected to the script; natively the real client runs
// on a RoundTripper that serves the same script from memory.
// =============================================================================================

type verif17Env struct {
	lookups map[string][]byte // GET endpoint -> JSON body
	posts   []string          // POST endpoints in order
	gets    []string
}

var verif17 *verif17Env

func verif17NewEnv() *verif17Env {
	verif17 = &verif17Env{lookups: map[string][]byte{}}
	verifrt.Stub("(*github.com/nsqio/nsq/internal/http_api.Client).GETV1", func(c *http_api.Client, endpoint string, v interface{}) error {
		u := verif17
		u.gets = append(u.gets, endpoint)
		body, ok := u.lookups[endpoint]
		if !ok {
			return errors.New("got response 404 Not Found")
		}
		return json.Unmarshal(body, v)
	})
	verifrt.Stub("(*github.com/nsqio/nsq/internal/http_api.Client).POSTV1", func(c *http_api.Client, endpoint string, data map[string][]string, v interface{}) error {
		verif17.posts = append(verif17.posts, endpoint)
		return nil
	})
	return verif17
}

type verif17Transport struct{ u *verif17Env }

var verif17Lock = make(chan struct{}, 1)

func (t verif17Transport) RoundTrip(req *http.Request) (*http.Response, error) {
	verif17Lock <- struct{}{}
	defer func() { <-verif17Lock }()
	endpoint := req.URL.Scheme + "://" + req.URL.Host + req.URL.RequestURI()
	mk := func(code int, body []byte) *http.Response {
		return &http.Response{StatusCode: code, Status: http.StatusText(code), Proto: "HTTP/1.1", ProtoMajor: 1, ProtoMinor: 1,
			Header: http.Header{}, Body: io.NopCloser(bytes.NewReader(body)), Request: req}
	}
	if req.Method != "GET" {
		t.u.posts = append(t.u.posts, endpoint)
		return mk(200, []byte("{}")), nil
	}
	t.u.gets = append(t.u.gets, endpoint)
	body, ok := t.u.lookups[endpoint]
	if !ok {
		return mk(404, []byte(`{"message":"NOT_FOUND"}`)), nil
	}
	return mk(200, body), nil
}

func verif17ClusterInfo(u *verif17Env) *ClusterInfo {
	cl := &http_api.Client{}
	if !verifrt.Symbolic() {
		f := reflect.ValueOf(cl).Elem().Field(0)
		*(**http.Client)(unsafe.Pointer(f.UnsafeAddr())) = &http.Client{Transport: verif17Transport{u}}
	}
	return New(nil, cl)
}

// what nsqlookupd sends for one producer in /lookup
type verif17Node struct {
	RemoteAddress    string   `json:"remote_address"`
	Hostname         string   `json:"hostname"`
	BroadcastAddress string   `json:"broadcast_address"`
	TCPPort          int      `json:"tcp_port"`
	HTTPPort         int      `json:"http_port"`
	Version          string   `json:"version"`
	Tombstones       []bool   `json:"tombstones"`
	Topics           []string `json:"topics"`
}

type verif17Lookup struct {
	Channels  []string       `json:"channels"`
	Producers []*verif17Node `json:"producers"`
}

// a one-byte host name (a letter or a digit: valid in a URL authority as it stands)
func verif17Host(tag string) string {
	s := verifrt.StringN(tag, 1)
	c := s[0]
	verifrt.Assume((c >= 'a' && c <= 'z') || (c >= '0' && c <= '9'))
	return s
}

// fork-free "some element equals s"
func verif17Has(l []string, s string) bool {
	r := false
	for _, e := range l {
		r = r || e == s
	}
	return r
}

type verif17Action struct {
	name    string
	uri     string
	channel bool // the action is about a channel
	lookupd bool // the action is also carried out on every nsqlookupd
}

var verif17Actions = []verif17Action{
	{"CreateTopicChannel", "channel/create", true, true},
	{"DeleteTopic", "topic/delete", false, true},
	{"DeleteChannel", "channel/delete", true, true},
	{"PauseTopic", "topic/pause", false, false},
	{"UnPauseTopic", "topic/unpause", false, false},
	{"EmptyTopic", "topic/empty", false, false},
	{"PauseChannel", "channel/pause", true, false},
	{"UnPauseChannel", "channel/unpause", true, false},
	{"EmptyChannel", "channel/empty", true, false},
}

// Every state-changing ClusterInfo method nsqadmin's handlers call for a topic or channel, over
// 1..L nsqlookupds and K nsqd with any broadcast addresses (equal or not) and any of two ports
// (equal or not), every nsqd registered with any non-empty subset of the nsqlookupds:
//   - every DISTINCT nsqd (broadcast address + HTTP port) some nsqlookupd names as a producer
//     of the topic receives the action's POST with exactly this topic / channel;
//   - every nsqlookupd receives it when the action concerns the registry (create, delete);
//   - nothing else receives anything, and the call reports success.
func VerifC17_ActionReachesEveryDistinctProducer() {
	verifrt.Atomic(verif17ActionReachesEveryDistinctProducer)
}

func verif17ActionReachesEveryDistinctProducer() {
	u := verif17NewEnv()
	ci := verif17ClusterInfo(u)
	a := verif17Actions[verifrt.Choice("action", len(verif17Actions))]
	nL := 1 + verifrt.Choice("lookupds", verifrt.Bound("lookupds", 2, 2))
	nK := 1 + verifrt.Choice("nsqds", verifrt.Bound("nsqds", 2, 3))
	lookupds := []string{"l0:4161", "l1:4161", "l2:4161"}[:nL]

	// the nsqd producing the topic
	hosts := make([]string, nK)
	ports := make([]int, nK)
	addrs := make([]string, nK)
	for j := 0; j < nK; j++ {
		hosts[j] = verif17Host("host")
		ports[j] = 4151 + verifrt.Choice("port", 2)
		addrs[j] = hosts[j] + ":" + strconv.Itoa(ports[j])
	}
	// registration: nsqd j is known to a non-empty set of nsqlookupds (bit i of reg = nsqlookupd i)
	replies := make([]verif17Lookup, nL)
	for i := range replies {
		replies[i] = verif17Lookup{Channels: []string{"c"}, Producers: []*verif17Node{}}
	}
	for j := 0; j < nK; j++ {
		reg := 1 + verifrt.Choice("registeredWith", 1<<uint(nL)-1)
		for i := 0; i < nL; i++ {
			if reg&(1<<uint(i)) != 0 {
				replies[i].Producers = append(replies[i].Producers, &verif17Node{RemoteAddress: "10.0.0.1:1", Hostname: "h",
					BroadcastAddress: hosts[j], TCPPort: 4150, HTTPPort: ports[j], Version: "1.3.0", Tombstones: []bool{false}, Topics: []string{"t"}})
			}
		}
	}
	for i, l := range lookupds {
		body, _ := json.Marshal(replies[i])
		u.lookups["http://"+l+"/lookup?topic=t"] = body
	}

	err := verif17Do(ci, a, lookupds)
	verifrt.Observe("ok", err == nil)
	verifrt.Observe("posts", len(u.posts))

	qs := "topic=t"
	if a.channel {
		qs += "&channel=c"
	}
	verifrt.Assert(err == nil, "action-on-a-healthy-cluster-succeeds")
	// every distinct producing nsqd
	var want []string
	for j := 0; j < nK; j++ {
		e := "http://" + addrs[j] + "/" + a.uri + "?" + qs
		want = append(want, e)
		verifrt.Assert(verif17Has(u.posts, e), "action-reaches-every-distinct-producing-nsqd")
	}
	// every nsqlookupd, for the actions that change the registry
	if a.lookupd {
		for _, l := range lookupds {
			e := "http://" + l + "/" + a.uri + "?" + qs
			want = append(want, e)
			verifrt.Assert(verif17Has(u.posts, e), "action-reaches-every-nsqlookupd")
		}
		if a.name == "CreateTopicChannel" {
			for _, l := range lookupds {
				e := "http://" + l + "/topic/create?topic=t"
				want = append(want, e)
				verifrt.Assert(verif17Has(u.posts, e), "action-reaches-every-nsqlookupd")
			}
		}
	}
	// and nothing else
	for _, e := range u.posts {
		verifrt.Assert(verif17Has(want, e), "action-reaches-nothing-else")
	}
	if nK >= 2 {
		verifrt.Reach("two-nsqd-one-host-two-ports", hosts[0] == hosts[1] && ports[0] != ports[1])
		verifrt.Reach("two-nsqd-two-hosts-one-port", hosts[0] != hosts[1] && ports[0] == ports[1])
		verifrt.Reach("one-nsqd-named-twice", hosts[0] == hosts[1] && ports[0] == ports[1])
		verifrt.Reach("two-nsqd-nothing-in-common", hosts[0] != hosts[1] && ports[0] != ports[1])
	}
	if nL >= 2 && nK >= 2 {
		verifrt.Reach("one-host-two-ports-registered-with-different-nsqlookupds",
			hosts[0] == hosts[1] && ports[0] != ports[1] && len(replies[0].Producers) == 1 && len(replies[1].Producers) == 1)
	}
}

// verif17Do: action a on topic "t" / channel "c" the way nsqadmin's handlers call it
func verif17Do(ci *ClusterInfo, a verif17Action, lookupds []string) error {
	switch a.name {
	case "CreateTopicChannel":
		return ci.CreateTopicChannel("t", "c", lookupds)
	case "DeleteTopic":
		return ci.DeleteTopic("t", lookupds, nil)
	case "DeleteChannel":
		return ci.DeleteChannel("t", "c", lookupds, nil)
	case "PauseTopic":
		return ci.PauseTopic("t", lookupds, nil)
	case "UnPauseTopic":
		return ci.UnPauseTopic("t", lookupds, nil)
	case "EmptyTopic":
		return ci.EmptyTopic("t", lookupds, nil)
	case "PauseChannel":
		return ci.PauseChannel("t", "c", lookupds, nil)
	case "UnPauseChannel":
		return ci.UnPauseChannel("t", "c", lookupds, nil)
	}
	return ci.EmptyChannel("t", "c", lookupds, nil)
}

// The same methods when a non-empty STRICT subset of the nsqlookupds does not answer /lookup
// (404 / 500 / down: the read fails), the others do. Broadcast addresses symbolic as above, every
// nsqd registered with any non-empty subset of the nsqlookupds:
//   - every distinct nsqd that at least one ANSWERING nsqlookupd names as a producer of the topic
//     receives the action's POST with exactly this topic / channel (an nsqd only the silent
//     nsqlookupds know of cannot be known: nothing is required about it);
//   - every answering nsqlookupd receives it when the action concerns the registry;
//   - nothing is sent anywhere else (a silent nsqlookupd that still takes POSTs may get the
//     registry change too).
func VerifC17_ActionSurvivesPartialLookupFailure() {
	verifrt.Atomic(verif17ActionSurvivesPartialLookupFailure)
}

func verif17ActionSurvivesPartialLookupFailure() {
	u := verif17NewEnv()
	ci := verif17ClusterInfo(u)
	a := verif17Actions[verifrt.Choice("action", len(verif17Actions))]
	nL := 2 + verifrt.Choice("extraLookupds", verifrt.Bound("extraLookupds", 1, 2))
	nK := 1 + verifrt.Choice("nsqds", verifrt.Bound("nsqds", 2, 2))
	nPorts := verifrt.Bound("ports", 1, 1)
	lookupds := []string{"l0:4161", "l1:4161", "l2:4161"}[:nL]
	// which nsqlookupds do not answer: any non-empty strict subset (bit i = nsqlookupd i)
	silent := 1 + verifrt.Choice("silentLookupds", 1<<uint(nL)-2)

	hosts := make([]string, nK)
	ports := make([]int, nK)
	addrs := make([]string, nK)
	known := make([]bool, nK)
	replies := make([]verif17Lookup, nL)
	for i := range replies {
		replies[i] = verif17Lookup{Channels: []string{"c"}, Producers: []*verif17Node{}}
	}
	for j := 0; j < nK; j++ {
		hosts[j] = verif17Host("host")
		ports[j] = 4151 + verifrt.Choice("port", nPorts)
		addrs[j] = hosts[j] + ":" + strconv.Itoa(ports[j])
		reg := 1 + verifrt.Choice("registeredWith", 1<<uint(nL)-1)
		known[j] = reg&^silent != 0
		for i := 0; i < nL; i++ {
			if reg&(1<<uint(i)) != 0 {
				replies[i].Producers = append(replies[i].Producers, &verif17Node{RemoteAddress: "10.0.0.1:1", Hostname: "h",
					BroadcastAddress: hosts[j], TCPPort: 4150, HTTPPort: ports[j], Version: "1.3.0", Tombstones: []bool{false}, Topics: []string{"t"}})
			}
		}
	}
	for i, l := range lookupds {
		if silent&(1<<uint(i)) == 0 {
			body, _ := json.Marshal(replies[i])
			u.lookups["http://"+l+"/lookup?topic=t"] = body
		}
	}

	err := verif17Do(ci, a, lookupds)
	verifrt.Observe("ok", err == nil)
	verifrt.Observe("posts", len(u.posts))

	qs := "topic=t"
	if a.channel {
		qs += "&channel=c"
	}
	var want []string
	nKnown := 0
	for j := 0; j < nK; j++ {
		if !known[j] {
			continue
		}
		nKnown++
		e := "http://" + addrs[j] + "/" + a.uri + "?" + qs
		want = append(want, e)
		verifrt.Assert(verif17Has(u.posts, e), "action-reaches-every-nsqd-an-answering-nsqlookupd-names")
	}
	if a.lookupd {
		for i, l := range lookupds {
			es := []string{"http://" + l + "/" + a.uri + "?" + qs}
			if a.name == "CreateTopicChannel" {
				es = append(es, "http://"+l+"/topic/create?topic=t")
			}
			for _, e := range es {
				want = append(want, e)
				if silent&(1<<uint(i)) == 0 {
					verifrt.Assert(verif17Has(u.posts, e), "action-reaches-every-answering-nsqlookupd")
				}
			}
		}
	}
	for _, e := range u.posts {
		verifrt.Assert(verif17Has(want, e), "action-reaches-nothing-else")
	}
	verifrt.Reach("first-nsqlookupd-silent", silent == 1)
	verifrt.Reach("last-nsqlookupd-silent", silent == 1<<uint(nL-1))
	verifrt.Reach("every-nsqd-known-through-the-answering-nsqlookupds", nKnown == nK)
	if nK >= 2 {
		verifrt.Reach("one-nsqd-known-only-to-a-silent-nsqlookupd", nKnown == nK-1)
		verifrt.Reach("known-and-unknown-nsqd-on-one-host", known[0] != known[1] && hosts[0] == hosts[1])
	}
}
