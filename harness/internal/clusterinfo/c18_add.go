//go:build verif

package clusterinfo

import (
	"github.com/nsqio/nsq/internal/quantile"
	"github.com/nsqio/nsq/internal/verifrt"
)

// ---- per-field summation and node lists: TopicStats.Add / ChannelStats.Add ----
// (sums are Go int64 sums: a wrapped total is the wrapped sum; totals beyond int64 are outside)

func verifChanStats(tag, name, host string, clients int, symPaused bool) *ChannelStats {
	c := &ChannelStats{Node: "n-" + host, Hostname: host, TopicName: "t", ChannelName: name,
		Depth: verifrt.Int64(tag + ".depth"), MemoryDepth: verifrt.Int64(tag + ".mem"), BackendDepth: verifrt.Int64(tag + ".backend"),
		InFlightCount: verifrt.Int64(tag + ".inflight"), DeferredCount: verifrt.Int64(tag + ".deferred"),
		RequeueCount: verifrt.Int64(tag + ".requeue"), TimeoutCount: verifrt.Int64(tag + ".timeout"),
		MessageCount: verifrt.Int64(tag + ".msgs"), DeliveryMsgCount: verifrt.Int64(tag + ".delivery"),
		ZoneLocalMsgCount: verifrt.Int64(tag + ".zone"), RegionLocalMsgCount: verifrt.Int64(tag + ".region"),
		GlobalMsgCount: verifrt.Int64(tag + ".global"), ClientCount: verifrt.Int(tag + ".clients"),
		E2eProcessingLatency: &quantile.E2eProcessingLatencyAggregate{Count: verifrt.Int(tag + ".e2e")},
	}
	if symPaused {
		c.Paused = verifrt.Bool(tag + ".paused")
	}
	for i := 0; i < clients; i++ {
		c.Clients = append(c.Clients, &ClientStats{Node: c.Node, Hostname: host, ClientID: tag})
	}
	return c
}

type verifChanSnap struct {
	depth, mem, backend, inflight, deferred, requeue, timeout, msgs, delivery, zone, region, global int64
	clientCount, e2e, nodes, clients                                                                int
	paused                                                                                          bool
}

func verifSnap(c *ChannelStats) verifChanSnap {
	s := verifChanSnap{depth: c.Depth, mem: c.MemoryDepth, backend: c.BackendDepth, inflight: c.InFlightCount, deferred: c.DeferredCount,
		requeue: c.RequeueCount, timeout: c.TimeoutCount, msgs: c.MessageCount, delivery: c.DeliveryMsgCount, zone: c.ZoneLocalMsgCount,
		region: c.RegionLocalMsgCount, global: c.GlobalMsgCount, clientCount: c.ClientCount, nodes: len(c.NodeStats), clients: len(c.Clients), paused: c.Paused}
	if c.E2eProcessingLatency != nil {
		s.e2e = c.E2eProcessingLatency.Count
	}
	return s
}

func verifCheckChanSum(what string, c *ChannelStats, b, a verifChanSnap) {
	verifrt.Assert(c.Depth == b.depth+a.depth, what+":depth")
	verifrt.Assert(c.MemoryDepth == b.mem+a.mem, what+":memory-depth")
	verifrt.Assert(c.BackendDepth == b.backend+a.backend, what+":backend-depth")
	verifrt.Assert(c.InFlightCount == b.inflight+a.inflight, what+":in-flight")
	verifrt.Assert(c.DeferredCount == b.deferred+a.deferred, what+":deferred")
	verifrt.Assert(c.RequeueCount == b.requeue+a.requeue, what+":requeue-count")
	verifrt.Assert(c.TimeoutCount == b.timeout+a.timeout, what+":timeout-count")
	verifrt.Assert(c.MessageCount == b.msgs+a.msgs, what+":message-count")
	verifrt.Assert(c.DeliveryMsgCount == b.delivery+a.delivery, what+":delivery-count")
	verifrt.Assert(c.ZoneLocalMsgCount == b.zone+a.zone, what+":zone-local-count")
	verifrt.Assert(c.RegionLocalMsgCount == b.region+a.region, what+":region-local-count")
	verifrt.Assert(c.GlobalMsgCount == b.global+a.global, what+":global-count")
	verifrt.Assert(c.ClientCount == b.clientCount+a.clientCount, what+":client-count")
	verifrt.Assert(c.Paused == (b.paused || a.paused), what+":paused-if-either")
	verifrt.Assert(c.E2eProcessingLatency != nil && c.E2eProcessingLatency.Count == b.e2e+a.e2e, what+":e2e-count")
}

// ChannelStats.Add from ANY aggregate state and any addend: every number after = before +
// addend, the node list grows by exactly the addend, the client list by the addend's clients.
func VerifC18_ChannelStatsAdd() {
	verifrt.Atomic(func() {
		c := verifChanStats("agg", "c", "hm", verifrt.Choice("agg.clients", 2), true)
		c.Node = "*"
		if verifrt.Choice("agg.fresh", 2) == 1 {
			c.E2eProcessingLatency = nil // a freshly created aggregate
		}
		var old *ChannelStats
		if verifrt.Choice("agg.nodes", 2) == 1 {
			old = verifChanStats("old", "c", "hx", 0, false)
			c.NodeStats = []*ChannelStats{old}
		}
		a := verifChanStats("a", "c", verifName("a.host", 1), verifrt.Choice("a.clients", 3), true)
		before, addend := verifSnap(c), verifSnap(a)
		oldClients := append([]*ClientStats{}, c.Clients...)
		c.Add(a)
		verifCheckChanSum("channel-add", c, before, addend)
		verifrt.Assert(a.Depth == addend.depth && a.MessageCount == addend.msgs && a.ClientCount == addend.clientCount, "channel-add:addend-unchanged")
		verifrt.Assert(len(c.NodeStats) == before.nodes+1, "channel-add:node-list-grows-by-one")
		hasA, hasOld := false, old == nil
		for _, ns := range c.NodeStats {
			hasA = hasA || ns == a
			hasOld = hasOld || ns == old
		}
		verifrt.Assert(hasA && hasOld, "channel-add:node-list-is-old-nodes-plus-addend")
		verifrt.Assert(len(c.Clients) == before.clients+addend.clients, "channel-add:client-list-grows-by-addend's-clients")
		for _, cl := range append(oldClients, a.Clients...) {
			found := false
			for _, x := range c.Clients {
				found = found || x == cl
			}
			verifrt.Assert(found, "channel-add:every-client-kept")
		}
		verifrt.Reach("channel-add:three-clients", len(c.Clients) == 3)
		verifrt.Reach("channel-add:paused-by-addend", !before.paused && c.Paused)
		verifrt.Reach("channel-add:fresh-aggregate", before.e2e == 0 && before.nodes == 0 && c.E2eProcessingLatency.Count != 0)
	})
}

// TopicStats.Add from any aggregate and any addend: numbers add up, the node list grows by
// the addend, channels are merged BY NAME: a channel present on both sides is summed, a
// channel only the addend has is added to the list, nothing is lost or duplicated.
func VerifC18_TopicStatsAdd() {
	verifrt.Atomic(func() {
		mk := func(tag, host string) *TopicStats {
			return &TopicStats{Node: "n-" + host, Hostname: host, TopicName: "t",
				Depth: verifrt.Int64(tag + ".depth"), MemoryDepth: verifrt.Int64(tag + ".mem"), BackendDepth: verifrt.Int64(tag + ".backend"),
				MessageCount: verifrt.Int64(tag + ".msgs"), DeliveryMsgCount: verifrt.Int64(tag + ".delivery"),
				ZoneLocalMsgCount: verifrt.Int64(tag + ".zone"), RegionLocalMsgCount: verifrt.Int64(tag + ".region"),
				GlobalMsgCount: verifrt.Int64(tag + ".global"), Paused: verifrt.Bool(tag + ".paused"),
				E2eProcessingLatency: &quantile.E2eProcessingLatencyAggregate{Count: verifrt.Int(tag + ".e2e")}}
		}
		t := mk("agg", "hm")
		t.Node = "*"
		var old *TopicStats
		if verifrt.Choice("agg.fresh", 2) == 1 {
			t.E2eProcessingLatency = nil // a freshly created aggregate: no nodes yet
		} else {
			old = mk("old", "hx")
			t.NodeStats = []*TopicStats{old}
		}
		a := mk("a", "ha")
		maxCh := verifrt.Bound("channels-per-side", 2, 3)
		nt, na := verifrt.Choice("agg.channels", maxCh+1), verifrt.Choice("a.channels", maxCh+1)
		var tNames, aNames []string
		var tSnaps, aSnaps []verifChanSnap
		for i := 0; i < nt; i++ {
			nm := verifName("agg.chan", 1)
			for _, o := range tNames {
				verifrt.Assume(o != nm) // an aggregate never lists a channel twice
			}
			tNames = append(tNames, nm)
			c := verifChanStats("agg.ch", nm, "hm", 0, false)
			tSnaps = append(tSnaps, verifSnap(c))
			t.Channels = append(t.Channels, c)
		}
		for i := 0; i < na; i++ {
			nm := verifName("a.chan", 1)
			for _, o := range aNames {
				verifrt.Assume(o != nm) // a node reports each of its channels once
			}
			aNames = append(aNames, nm)
			c := verifChanStats("a.ch", nm, a.Hostname, 0, false)
			aSnaps = append(aSnaps, verifSnap(c))
			a.Channels = append(a.Channels, c)
		}
		bT, bA := *t, *a
		bE2e := 0
		if t.E2eProcessingLatency != nil {
			bE2e = t.E2eProcessingLatency.Count
		}
		aE2e := a.E2eProcessingLatency.Count

		t.Add(a)

		verifrt.Assert(t.Depth == bT.Depth+bA.Depth, "topic-add:depth")
		verifrt.Assert(t.MemoryDepth == bT.MemoryDepth+bA.MemoryDepth, "topic-add:memory-depth")
		verifrt.Assert(t.BackendDepth == bT.BackendDepth+bA.BackendDepth, "topic-add:backend-depth")
		verifrt.Assert(t.MessageCount == bT.MessageCount+bA.MessageCount, "topic-add:message-count")
		verifrt.Assert(t.DeliveryMsgCount == bT.DeliveryMsgCount+bA.DeliveryMsgCount, "topic-add:delivery-count")
		verifrt.Assert(t.ZoneLocalMsgCount == bT.ZoneLocalMsgCount+bA.ZoneLocalMsgCount, "topic-add:zone-local-count")
		verifrt.Assert(t.RegionLocalMsgCount == bT.RegionLocalMsgCount+bA.RegionLocalMsgCount, "topic-add:region-local-count")
		verifrt.Assert(t.GlobalMsgCount == bT.GlobalMsgCount+bA.GlobalMsgCount, "topic-add:global-count")
		verifrt.Assert(t.Paused == (bT.Paused || bA.Paused), "topic-add:paused-if-either")
		verifrt.Assert(t.E2eProcessingLatency != nil && t.E2eProcessingLatency.Count == bE2e+aE2e, "topic-add:e2e-count")
		verifrt.Assert(t.TopicName == "t", "topic-add:name-kept")
		verifrt.Assert(a.Depth == bA.Depth && a.MessageCount == bA.MessageCount && a.Node == bA.Node, "topic-add:addend's-own-numbers-unchanged")
		// node list
		verifrt.Assert(len(t.NodeStats) == len(bT.NodeStats)+1, "topic-add:node-list-grows-by-one")
		hasA, hasOld := false, old == nil
		for _, ns := range t.NodeStats {
			hasA = hasA || ns == a
			hasOld = hasOld || ns == old
		}
		verifrt.Assert(hasA && hasOld, "topic-add:node-list-is-old-nodes-plus-addend")
		// channels merged by name
		zero := verifChanSnap{}
		union := len(tNames)
		for i, nm := range tNames {
			add, matched := zero, false
			for j, an := range aNames {
				if an == nm {
					add, matched = aSnaps[j], true
				}
			}
			cnt := 0
			for _, c := range t.Channels {
				if c.ChannelName == nm {
					cnt++
					if matched {
						verifCheckChanSum("topic-add:channel-on-both-sides", c, tSnaps[i], add)
					} else {
						verifrt.Assert(c.Depth == tSnaps[i].depth && c.MessageCount == tSnaps[i].msgs, "topic-add:channel-only-in-aggregate-unchanged")
					}
				}
			}
			verifrt.Assert(cnt == 1, "topic-add:aggregate-channel-listed-once")
		}
		for j, an := range aNames {
			if verifHas(tNames, an) {
				continue
			}
			union++
			cnt := 0
			for _, c := range t.Channels {
				if c.ChannelName == an {
					cnt++
					verifrt.Assert(c.Depth == aSnaps[j].depth && c.MessageCount == aSnaps[j].msgs && c.ClientCount == aSnaps[j].clientCount,
						"topic-add:new-channel-carries-the-addend's-numbers")
				}
			}
			verifrt.Assert(cnt == 1, "topic-add:channel-only-on-the-new-node-is-listed")
		}
		verifrt.Assert(len(t.Channels) == union, "topic-add:channels-are-the-union-by-name")
		verifrt.Reach("topic-add:one-merged-one-new", len(aNames) == 2 && len(tNames) >= 1 && aNames[0] == tNames[0] && !verifHas(tNames, aNames[1]))
		verifrt.Reach("topic-add:all-new", len(aNames) == 2 && union == len(tNames)+2)
		verifrt.Reach("topic-add:fresh-aggregate", bE2e == 0 && len(bT.NodeStats) == 0 && len(tNames) == 0 && union == 2)
	})
}
