//go:build verif

package clusterinfo

import (
	"encoding/json"
	"errors"
	"io"
	"net/http"
	"reflect"
	"unsafe"

	"github.com/nsqio/nsq/internal/http_api"
	"github.com/nsqio/nsq/internal/verifrt"
)

// ---- the transport contract the fan-out relies on: http_api.Client.GETV1 / POSTV1 ----
//
// Everything above (union, sums, warning vs 502) treats "GETV1 returned an error" as "this
// upstream failed". Here the REAL GETV1/POSTV1 are executed; only net/http is replaced:
// http.NewRequest and (*http.Client).Do are redirected to a scripted exchange (natively: a
// RoundTripper with the same script). Decided: an error is returned for a connection error,
// for every status other than 200 (whatever the body), and for a 200 whose body does not
// decode into the destination; nil only for a 200 that decodes, and then the destination holds
// the reply; a 403 from a plain-http endpoint is retried once on the advertised https port.

type verifExchange struct {
	connErr bool
	status  int
	body    []byte
}

type verifHTTPScript struct {
	steps map[string]*verifExchange
	asked []string
}

var verifHTTP *verifHTTPScript

type verifBodyReader struct {
	data []byte
	pos  int
}

func (b *verifBodyReader) Read(p []byte) (int, error) {
	if b.pos >= len(b.data) {
		return 0, io.EOF
	}
	n := copy(p, b.data[b.pos:])
	b.pos += n
	return n, nil
}
func (b *verifBodyReader) Close() error { return nil }

func (s *verifHTTPScript) exchange(endpoint string, req *http.Request) (*http.Response, error) {
	s.asked = append(s.asked, endpoint)
	x := s.steps[endpoint]
	if x == nil || x.connErr {
		return nil, errors.New("verif: connection refused")
	}
	return &http.Response{StatusCode: x.status, Status: "status", Proto: "HTTP/1.1", ProtoMajor: 1, ProtoMinor: 1,
		Header: http.Header{}, Body: &verifBodyReader{data: x.body}, Request: req}, nil
}

// symbolic side: the request only has to carry the endpoint to the Do stub
func verifNewRequest(method, urlStr string, body io.Reader) (*http.Request, error) {
	return &http.Request{Method: method, Host: urlStr, Header: http.Header{}}, nil
}

func verifDo(c *http.Client, req *http.Request) (*http.Response, error) {
	return verifHTTP.exchange(req.Host, req)
}

// `json.Unmarshal(body, &v)` with v an interface{} that holds the caller's pointer: the real
// decoder decodes into that pointer.
func verifUnmarshal(data []byte, v interface{}) error {
	if p, ok := v.(*interface{}); ok && *p != nil {
		v = *p
	}
	return verifrt.JSONUnmarshal(data, v)
}

type verifScriptTransport struct{ s *verifHTTPScript }

func (t verifScriptTransport) RoundTrip(req *http.Request) (*http.Response, error) {
	return t.s.exchange(req.URL.Scheme+"://"+req.URL.Host+req.URL.RequestURI(), req)
}

func verifHTTPClient(s *verifHTTPScript) *http_api.Client {
	verifHTTP = s
	verifrt.Stub("net/http.NewRequest", verifNewRequest)
	verifrt.Stub("(*net/http.Client).Do", verifDo)
	verifrt.Stub("encoding/json.Unmarshal", verifUnmarshal)
	cl := &http_api.Client{}
	if !verifrt.Symbolic() {
		f := reflect.ValueOf(cl).Elem().Field(0)
		*(**http.Client)(unsafe.Pointer(f.UnsafeAddr())) = &http.Client{Transport: verifScriptTransport{s}}
	}
	return cl
}

type verifForbidden struct {
	Message   string `json:"message"`
	HTTPSPort int    `json:"https_port"`
}

type verifWrongShape struct {
	Version []int  `json:"version"`
	TCPPort string `json:"tcp_port"`
}

func VerifC18_GETV1Contract() {
	verifrt.Atomic(func() {
		s := &verifHTTPScript{steps: map[string]*verifExchange{}}
		cl := verifHTTPClient(s)
		const plain, secure = "http://n0:4151/info", "https://n0:4152/info"
		reply := verifInfoReply{Version: verifName("version", 1), BroadcastAddress: "b0", Hostname: "h", HTTPPort: 4151, TCPPort: verifrt.Int("tcp")}
		good, _ := json.Marshal(reply)
		wrong, _ := json.Marshal(verifWrongShape{Version: []int{1}, TCPPort: "x"})
		notObject, _ := json.Marshal("just a string")
		forbidden, _ := json.Marshal(verifForbidden{Message: "TLS_REQUIRED", HTTPSPort: 4152})
		post := verifrt.Choice("method", 2) == 1
		kind := verifrt.Choice("exchange", 7)
		wantOK, wantAsked := false, 1
		switch kind {
		case 0: // connection error
			s.steps[plain] = &verifExchange{connErr: true}
		case 1: // any status but 200/403, with a perfectly decodable body
			st := verifrt.Int("status")
			verifrt.Assume(st >= 100 && st <= 599 && st != 200 && st != 403)
			s.steps[plain] = &verifExchange{status: st, body: good}
		case 2: // 200, body of the wrong shape
			s.steps[plain] = &verifExchange{status: 200, body: wrong}
			wantOK = post // POSTV1 without a destination does not look at the body
		case 3: // 200, body is not an object
			s.steps[plain] = &verifExchange{status: 200, body: notObject}
			wantOK = post
		case 4: // 200, decodable
			s.steps[plain] = &verifExchange{status: 200, body: good}
			wantOK = true
		case 5: // 403 + https_port: retried on https, which answers
			s.steps[plain] = &verifExchange{status: 403, body: forbidden}
			s.steps[secure] = &verifExchange{status: 200, body: good}
			wantOK, wantAsked = true, 2
		case 6: // 403 + https_port, and the https endpoint says 403 again: no second retry
			s.steps[plain] = &verifExchange{status: 403, body: forbidden}
			s.steps[secure] = &verifExchange{status: 403, body: forbidden}
			wantAsked = 2
		}
		dst := verifInfoReply{Version: "sentinel", TCPPort: -7}
		var err error
		if post {
			err = cl.POSTV1(plain, nil, nil)
		} else {
			err = cl.GETV1(plain, &dst)
		}
		verifrt.Assert((err == nil) == wantOK, "getv1:error-iff-the-upstream-did-not-answer-200-with-a-decodable-body")
		verifrt.Assert(len(s.asked) == wantAsked && s.asked[0] == plain, "getv1:requests-sent")
		if wantAsked == 2 && len(s.asked) == 2 {
			verifrt.Assert(s.asked[1] == secure, "getv1:403-retried-on-the-advertised-https-port")
		}
		if !post {
			if wantOK {
				verifrt.Assert(dst.Version == reply.Version && dst.TCPPort == reply.TCPPort && dst.BroadcastAddress == "b0", "getv1:destination-holds-the-reply")
			}
			if kind <= 1 || kind == 6 {
				verifrt.Assert(dst.Version == "sentinel" && dst.TCPPort == -7, "getv1:failed-exchange-leaves-the-destination-alone")
			}
		}
		verifrt.Reach("getv1:non-200-refused", kind == 1 && err != nil)
		verifrt.Reach("getv1:undecodable-200-refused", kind == 2 && !post && err != nil)
		verifrt.Reach("getv1:https-retry", kind == 5 && err == nil && !post)
		verifrt.Reach("getv1:post-ok", kind == 4 && post && err == nil)
		verifrt.Observe("getv1.asked", len(s.asked))
	})
}
