//go:build verif

package clusterinfo

import (
	"bytes"
	"encoding/json"
	"errors"
	"io"
	"net/http"
	"net/url"
	"reflect"
	"unsafe"

	"github.com/nsqio/nsq/internal/http_api"
	"github.com/nsqio/nsq/internal/verifrt"
)

// ---- upstream daemons that answer according to the REQUEST they receive ----
//
// The scripted upstreams of c18_env.go are keyed by the complete endpoint string, which only
// works while every name in the request is a plain word. Here an upstream is a server: the
// endpoint clusterinfo hands to GETV1 is taken apart the way the HTTP client and the server
// would do it (scheme://host/path?query#fragment: the fragment - everything after the first
// '#' - never leaves the client; the query is split at '&' and '=' and percent-decoded by the
// server), and the server answers from what it HOLDS for the names it was asked about.
//
// Under the symbolic executor GETV1 is redirected to verifServedGETV1, which uses the small
// request-line parser below; natively the real GETV1 runs (http.NewRequest = net/url parsing)
// on an http.Client whose RoundTripper hands req.URL.Host / Path / RawQuery (url.ParseQuery,
// exactly what nsqd's http_api.NewReqParams does) to the same servers.

type verifRequest struct {
	host string
	path string
	args [][2]string // decoded query arguments in order
	bad  bool        // the query does not decode (real daemons answer 400 INVALID_REQUEST)
}

// first value of the argument, like http_api.ReqParams.Get
func (r *verifRequest) get(key string) (string, bool) {
	for _, kv := range r.args {
		if kv[0] == key {
			return kv[1], true
		}
	}
	return "", false
}

func verifUnhex(c byte) (byte, bool) {
	switch {
	case c >= '0' && c <= '9':
		return c - '0', true
	case c >= 'a' && c <= 'f':
		return c - 'a' + 10, true
	case c >= 'A' && c <= 'F':
		return c - 'A' + 10, true
	}
	return 0, false
}

// percent-decoding of one query component (url.QueryUnescape: %XX, '+' is a space)
func verifQueryUnescape(s string) (string, bool) {
	var out []byte
	for i := 0; i < len(s); i++ {
		switch s[i] {
		case '%':
			if i+2 >= len(s) {
				return "", false
			}
			hi, ok1 := verifUnhex(s[i+1])
			lo, ok2 := verifUnhex(s[i+2])
			if !ok1 || !ok2 {
				return "", false
			}
			out = append(out, hi<<4|lo)
			i += 2
		case '+':
			out = append(out, ' ')
		default:
			out = append(out, s[i])
		}
	}
	return string(out), true
}

func verifCut(s string, sep byte) (before, after string, found bool) {
	for i := 0; i < len(s); i++ {
		if s[i] == sep {
			return s[:i], s[i+1:], true
		}
	}
	return s, "", false
}

// verifParseEndpoint: what the server behind `endpoint` gets to see.
func verifParseEndpoint(endpoint string) (*verifRequest, bool) {
	const scheme = "http://"
	if len(endpoint) < len(scheme) || endpoint[:len(scheme)] != scheme {
		return nil, false
	}
	rest := endpoint[len(scheme):]
	rest, _, _ = verifCut(rest, '#') // the fragment stays in the client
	rest, query, _ := verifCut(rest, '?')
	r := &verifRequest{}
	host, path, hasPath := verifCut(rest, '/')
	r.host = host
	r.path = "/"
	if hasPath {
		r.path = "/" + path
	}
	for query != "" {
		var arg string
		arg, query, _ = verifCut(query, '&')
		if arg == "" {
			continue
		}
		for i := 0; i < len(arg); i++ {
			if arg[i] == ';' { // url.ParseQuery refuses semicolons
				r.bad = true
			}
		}
		k, v, _ := verifCut(arg, '=')
		dk, ok1 := verifQueryUnescape(k)
		dv, ok2 := verifQueryUnescape(v)
		if !ok1 || !ok2 {
			r.bad = true
			continue
		}
		r.args = append(r.args, [2]string{dk, dv})
	}
	return r, true
}

// a server: fail (and how) or a reply value to be sent as 200 + JSON
type verifServer interface {
	serve(r *verifRequest) (fail bool, kind byte, reply interface{})
}

type verifServers struct {
	servers  map[string]verifServer
	requests []*verifRequest
	unknown  int
}

var verifServed *verifServers

func verifNewServers() *verifServers {
	verifServed = &verifServers{servers: map[string]verifServer{}}
	verifrt.Stub("(*github.com/nsqio/nsq/internal/http_api.Client).GETV1", verifServedGETV1)
	return verifServed
}

func (u *verifServers) dispatch(r *verifRequest) (bool, byte, interface{}) {
	u.requests = append(u.requests, r)
	s := u.servers[r.host]
	if s == nil {
		u.unknown++
		return true, 0, nil
	}
	if r.bad {
		return true, 1, nil
	}
	return s.serve(r)
}

func verifServedGETV1(c *http_api.Client, endpoint string, v interface{}) error {
	r, ok := verifParseEndpoint(endpoint)
	if !ok {
		return errors.New("verif: unsupported protocol scheme")
	}
	fail, _, reply := verifServed.dispatch(r)
	if fail {
		return errors.New("verif: upstream failed")
	}
	body, _ := json.Marshal(reply)
	return json.Unmarshal(body, v)
}

// (this file depends on no other harness file: in a native replay of an nsqadmin harness the
// engine mounts only those clusterinfo harness files that contain scheduling points)
var verifServedLock = make(chan struct{}, 1)

type verifServedTransport struct{ u *verifServers }

func (t verifServedTransport) RoundTrip(req *http.Request) (*http.Response, error) {
	verifServedLock <- struct{}{}
	defer func() { <-verifServedLock }()
	r := &verifRequest{host: req.URL.Host, path: req.URL.Path}
	if r.path == "" {
		r.path = "/"
	}
	vals, err := url.ParseQuery(req.URL.RawQuery)
	if err != nil {
		r.bad = true
	}
	// same order-insensitive view as the server's url.Values: first value per key
	for k, v := range vals {
		if len(v) > 0 {
			r.args = append(r.args, [2]string{k, v[0]})
		}
	}
	mk := func(code int, body []byte) *http.Response {
		return &http.Response{StatusCode: code, Status: http.StatusText(code), Proto: "HTTP/1.1", ProtoMajor: 1, ProtoMinor: 1,
			Header: http.Header{}, Body: io.NopCloser(bytes.NewReader(body)), Request: req}
	}
	fail, kind, reply := t.u.dispatch(r)
	if fail {
		switch kind % 3 {
		case 0:
			return nil, errors.New("verif: connection refused")
		case 1:
			return mk(400, []byte(`{"message":"INVALID_REQUEST"}`)), nil
		}
		return mk(200, []byte(`nsqd v1.3.0 (built w/go1.23)`)), nil
	}
	body, _ := json.Marshal(reply)
	return mk(200, body), nil
}

func verifServedClusterInfo(u *verifServers) *ClusterInfo {
	cl := &http_api.Client{}
	if !verifrt.Symbolic() {
		f := reflect.ValueOf(cl).Elem().Field(0)
		*(**http.Client)(unsafe.Pointer(f.UnsafeAddr())) = &http.Client{Transport: verifServedTransport{u}}
	}
	return New(nil, cl)
}
