//go:build verif

package clusterinfo

import (
	"bytes"
	"encoding/json"
	"errors"
	"io"
	"net/http"
	"reflect"
	"unsafe"

	"github.com/nsqio/nsq/internal/http_api"
	"github.com/nsqio/nsq/internal/verifrt"
)

// ---- upstream daemons (the environment of clusterinfo) ----
//
// Every upstream endpoint has one scripted answer: a failure (connection error, non-200
// status, or a 200 whose body is not JSON - the three are indistinguishable to the caller
// of GETV1, which only sees "an error"), or a 200 with the JSON encoding of a reply value
// the harness built from nondeterministic fields.
//
// Under the symbolic executor (*http_api.Client).GETV1/POSTV1 are redirected to
// verifGETV1/verifPOSTV1 (net/http cannot be interpreted): failure => an error, success =>
// json.Unmarshal(body, v), i.e. the tag-directed decode including the UnmarshalJSON methods
// of clusterinfo. Natively the REAL GETV1/POSTV1 run on an http.Client whose RoundTripper
// serves the same scripted answers from memory (no sockets).

type verifAnswer struct {
	fail bool
	kind byte   // which kind of failure (native only; never branched on symbolically)
	body []byte // json.Marshal of the reply value
}

type verifUpstreams struct {
	answers map[string]*verifAnswer
	calls   []string // endpoints in call order (GET and POST)
	unknown int      // calls to endpoints nobody scripted
}

var verifEnv *verifUpstreams

func verifNewEnv() *verifUpstreams {
	verifEnv = &verifUpstreams{answers: map[string]*verifAnswer{}}
	verifrt.Stub("(*github.com/nsqio/nsq/internal/http_api.Client).GETV1", verifGETV1)
	verifrt.Stub("(*github.com/nsqio/nsq/internal/http_api.Client).POSTV1", verifPOSTV1)
	return verifEnv
}

// script: endpoint answers with the JSON of reply, or fails.
func (u *verifUpstreams) script(endpoint string, fail bool, kind byte, reply interface{}) {
	a := &verifAnswer{fail: fail, kind: kind}
	if !fail {
		a.body, _ = json.Marshal(reply)
	}
	u.answers[endpoint] = a
}

func (u *verifUpstreams) called(endpoint string) int {
	n := 0
	for _, c := range u.calls {
		if c == endpoint {
			n++
		}
	}
	return n
}

func verifGETV1(c *http_api.Client, endpoint string, v interface{}) error {
	u := verifEnv
	u.calls = append(u.calls, endpoint)
	a := u.answers[endpoint]
	if a == nil {
		u.unknown++
		return errors.New("verif: no such upstream")
	}
	if a.fail {
		return errors.New("verif: upstream failed")
	}
	return json.Unmarshal(a.body, v)
}

func verifPOSTV1(c *http_api.Client, endpoint string, data map[string][]string, v interface{}) error {
	u := verifEnv
	u.calls = append(u.calls, endpoint)
	a := u.answers[endpoint]
	if a == nil {
		u.unknown++
		return errors.New("verif: no such upstream")
	}
	if a.fail {
		return errors.New("verif: upstream failed")
	}
	return nil
}

// native side: the same script behind the real http_api.Client
type verifTransport struct{ u *verifUpstreams }

var verifNativeLock = make(chan struct{}, 1)

func (t verifTransport) RoundTrip(req *http.Request) (*http.Response, error) {
	verifNativeLock <- struct{}{}
	defer func() { <-verifNativeLock }()
	endpoint := req.URL.Scheme + "://" + req.URL.Host + req.URL.RequestURI()
	t.u.calls = append(t.u.calls, endpoint)
	a := t.u.answers[endpoint]
	mk := func(code int, body []byte) *http.Response {
		return &http.Response{StatusCode: code, Status: http.StatusText(code), Proto: "HTTP/1.1", ProtoMajor: 1, ProtoMinor: 1,
			Header: http.Header{}, Body: io.NopCloser(bytes.NewReader(body)), Request: req}
	}
	if a == nil {
		t.u.unknown++
		return mk(404, []byte(`{"message":"NOT_FOUND"}`)), nil
	}
	if a.fail {
		switch a.kind % 3 {
		case 0:
			return nil, errors.New("verif: connection refused")
		case 1:
			return mk(500, []byte(`{"message":"INTERNAL_ERROR"}`)), nil
		}
		return mk(200, []byte(`<html>not json`)), nil
	}
	return mk(200, a.body), nil
}

// verifClusterInfo: a ClusterInfo over the scripted upstreams.
func verifClusterInfo(u *verifUpstreams) *ClusterInfo {
	cl := &http_api.Client{}
	if !verifrt.Symbolic() {
		f := reflect.ValueOf(cl).Elem().Field(0)
		*(**http.Client)(unsafe.Pointer(f.UnsafeAddr())) = &http.Client{Transport: verifTransport{u}}
	}
	return New(nil, cl)
}

// ---- nondeterministic values ----

// verifName: a name of exactly n printable ASCII bytes (JSON round-trips those unchanged;
// bytes >= 0x80 are rewritten by encoding/json and are outside the claim).
func verifName(tag string, n int) string {
	s := verifrt.StringN(tag, n)
	for i := 0; i < len(s); i++ {
		verifrt.Assume(s[i] >= 0x21 && s[i] <= 0x7e)
	}
	return s
}

func verifFail(tag string) (bool, byte) {
	return verifrt.Choice(tag+".fail", 2) == 1, verifrt.Byte(tag + ".failkind")
}

// fork-free membership test (the executor if-converts side-effect free && / ||)
func verifHas(l []string, s string) bool {
	r := false
	for _, e := range l {
		r = r || e == s
	}
	return r
}

func verifIsPartial(err error) (PartialErr, bool) {
	pe, ok := err.(PartialErr)
	return pe, ok
}
