//go:build verif

package clusterinfo

import (
	"bytes"
	"encoding/json"
	"errors"
	"io"
	"net/http"
	"net/url"
	"reflect"
	"unsafe"

	"github.com/nsqio/nsq/internal/http_api"
	"github.com/nsqio/nsq/internal/verifrt"
)

// =============================================================================================
// C17, last clause once more: "the action is carried out on every relevant nsqd and nsqlookupd" -
// THE REQUESTED ACTION ON THE NAMED OBJECT. The harnesses of c17_actions.go use the plain names
// "t" / "c", for which the text clusterinfo puts into the URL and the name an upstream reads out of
// it are the same string. nsq names are [.a-zA-Z0-9_-]+ with an optional "#ephemeral" suffix, and
// '#' starts the URL fragment: a name that is not query-escaped reaches the upstream cut short, and
// the action is carried out on ANOTHER topic / channel (the durable one of the same base name).
//
// Here the upstreams are servers (own environment, prefix verif17n): the endpoint clusterinfo hands
// to GETV1 / POSTV1 is taken apart the way the HTTP client and the server do it
// (scheme://host/path?query#fragment - the fragment never leaves the client; the query is split at
// '&' and '=' and percent-decoded, '+' is a space), and every upstream answers - and is judged - by
// the names it gets to SEE. An nsqlookupd names producers only for the topic the nsqds produce, an
// nsqd lists only the topic it has, and both answer 404 to a change of something they do not hold.
// Natively the real http_api client runs (http.NewRequest = net/url parsing) on a RoundTripper that
// hands req.URL.Host / Path / RawQuery (url.ParseQuery, what nsqd's and nsqlookupd's
// http_api.NewReqParams do) to the same servers.
// =============================================================================================

type verif17nReq struct {
	post bool
	host string
	path string
	args [][2]string // decoded query arguments
	bad  bool        // the query does not decode (the daemons answer 400)
}

func (r *verif17nReq) get(key string) (string, bool) {
	for _, kv := range r.args {
		if kv[0] == key {
			return kv[1], true
		}
	}
	return "", false
}

func verif17nUnhex(c byte) (byte, bool) {
	switch {
	case c >= '0' && c <= '9':
		return c - '0', true
	case c >= 'a' && c <= 'f':
		return c - 'a' + 10, true
	case c >= 'A' && c <= 'F':
		return c - 'A' + 10, true
	}
	return 0, false
}

// percent-decoding of one query component (url.QueryUnescape)
func verif17nUnescape(s string) (string, bool) {
	var out []byte
	for i := 0; i < len(s); i++ {
		switch s[i] {
		case '%':
			if i+2 >= len(s) {
				return "", false
			}
			hi, ok1 := verif17nUnhex(s[i+1])
			lo, ok2 := verif17nUnhex(s[i+2])
			if !ok1 || !ok2 {
				return "", false
			}
			out = append(out, hi<<4|lo)
			i += 2
		case '+':
			out = append(out, ' ')
		default:
			out = append(out, s[i])
		}
	}
	return string(out), true
}

func verif17nCut(s string, sep byte) (before, after string, found bool) {
	for i := 0; i < len(s); i++ {
		if s[i] == sep {
			return s[:i], s[i+1:], true
		}
	}
	return s, "", false
}

// verif17nParse: what the server behind `endpoint` gets to see
func verif17nParse(endpoint string, post bool) (*verif17nReq, bool) {
	const scheme = "http://"
	if len(endpoint) < len(scheme) || endpoint[:len(scheme)] != scheme {
		return nil, false
	}
	rest := endpoint[len(scheme):]
	rest, _, _ = verif17nCut(rest, '#') // the fragment stays in the client
	rest, query, _ := verif17nCut(rest, '?')
	r := &verif17nReq{post: post}
	host, path, hasPath := verif17nCut(rest, '/')
	r.host = host
	r.path = "/"
	if hasPath {
		r.path = "/" + path
	}
	for query != "" {
		var arg string
		arg, query, _ = verif17nCut(query, '&')
		if arg == "" {
			continue
		}
		for i := 0; i < len(arg); i++ {
			if arg[i] == ';' { // url.ParseQuery refuses semicolons
				r.bad = true
			}
		}
		k, v, _ := verif17nCut(arg, '=')
		dk, ok1 := verif17nUnescape(k)
		dv, ok2 := verif17nUnescape(v)
		if !ok1 || !ok2 {
			r.bad = true
			continue
		}
		r.args = append(r.args, [2]string{dk, dv})
	}
	return r, true
}

// the cluster: nsqlookupds and nsqds holding ONE topic with ONE channel
type verif17nCluster struct {
	lookupds []string
	nsqds    []string
	ports    []int // HTTP port of nsqd j (its host is "n<j>")
	topic    string
	channel  string
	split    bool // nsqd j is registered with nsqlookupd j mod L only (else with all)
	reqs     []*verif17nReq
}

var verif17n *verif17nCluster

func verif17nIndex(l []string, s string) int {
	for i, e := range l {
		if e == s {
			return i
		}
	}
	return -1
}

// serve: status (200, 400, 404) and the reply value of a 200 to a GET
func (u *verif17nCluster) serve(r *verif17nReq) (int, interface{}) {
	u.reqs = append(u.reqs, r)
	li, ni := verif17nIndex(u.lookupds, r.host), verif17nIndex(u.nsqds, r.host)
	if li < 0 && ni < 0 {
		return 404, nil
	}
	if r.bad {
		return 400, nil
	}
	topic, hasTopic := r.get("topic")
	channel, hasChannel := r.get("channel")
	if r.post {
		switch r.path {
		case "/topic/create":
			if !hasTopic {
				return 400, nil
			}
			return 200, nil
		case "/channel/create":
			if !hasTopic || !hasChannel {
				return 400, nil
			}
			return 200, nil
		case "/topic/delete", "/topic/pause", "/topic/unpause", "/topic/empty":
			if !hasTopic {
				return 400, nil
			}
			if topic != u.topic {
				return 404, nil // TOPIC_NOT_FOUND
			}
			return 200, nil
		case "/channel/delete", "/channel/pause", "/channel/unpause", "/channel/empty":
			if !hasTopic || !hasChannel {
				return 400, nil
			}
			if topic != u.topic || channel != u.channel {
				return 404, nil // TOPIC_NOT_FOUND / CHANNEL_NOT_FOUND
			}
			return 200, nil
		}
		return 404, nil
	}
	switch {
	case r.path == "/lookup" && li >= 0:
		if !hasTopic {
			return 400, nil
		}
		if topic != u.topic {
			return 404, nil // TOPIC_NOT_FOUND
		}
		reply := verif17Lookup{Channels: []string{u.channel}, Producers: []*verif17Node{}}
		for j := range u.nsqds {
			if !u.split || j%len(u.lookupds) == li {
				reply.Producers = append(reply.Producers, &verif17Node{RemoteAddress: "10.0.0.1:1", Hostname: "h",
					BroadcastAddress: "n" + string(rune('0'+j)), TCPPort: 4150, HTTPPort: u.ports[j], Version: "1.3.0",
					Tombstones: []bool{false}, Topics: []string{u.topic}})
			}
		}
		return 200, reply
	case r.path == "/stats" && ni >= 0:
		// nsqd's /stats?topic=X lists X alone, or nothing
		type topicStats struct {
			Name string `json:"topic_name"`
		}
		reply := struct {
			Topics []topicStats `json:"topics"`
		}{Topics: []topicStats{}}
		if !hasTopic || topic == u.topic {
			reply.Topics = append(reply.Topics, topicStats{u.topic})
		}
		return 200, reply
	case r.path == "/info" && ni >= 0:
		return 200, struct {
			Version          string `json:"version"`
			BroadcastAddress string `json:"broadcast_address"`
			Hostname         string `json:"hostname"`
			HTTPPort         int    `json:"http_port"`
			TCPPort          int    `json:"tcp_port"`
		}{"1.3.0", "n" + string(rune('0'+ni)), "h", u.ports[ni], 4150}
	}
	return 404, nil
}

func verif17nStatusErr(code int) error {
	switch code {
	case 400:
		return errors.New("got response 400 Bad Request")
	case 404:
		return errors.New("got response 404 Not Found")
	}
	return nil
}

func verif17nNewCluster() *verif17nCluster {
	verif17n = &verif17nCluster{}
	verifrt.Stub("(*github.com/nsqio/nsq/internal/http_api.Client).GETV1", func(c *http_api.Client, endpoint string, v interface{}) error {
		r, ok := verif17nParse(endpoint, false)
		if !ok {
			return errors.New("verif: unsupported protocol scheme")
		}
		code, reply := verif17n.serve(r)
		if code != 200 {
			return verif17nStatusErr(code)
		}
		body, _ := json.Marshal(reply)
		return json.Unmarshal(body, v)
	})
	verifrt.Stub("(*github.com/nsqio/nsq/internal/http_api.Client).POSTV1", func(c *http_api.Client, endpoint string, data map[string][]string, v interface{}) error {
		r, ok := verif17nParse(endpoint, true)
		if !ok {
			return errors.New("verif: unsupported protocol scheme")
		}
		code, _ := verif17n.serve(r)
		return verif17nStatusErr(code)
	})
	return verif17n
}

type verif17nTransport struct{ u *verif17nCluster }

var verif17nLock = make(chan struct{}, 1)

func (t verif17nTransport) RoundTrip(req *http.Request) (*http.Response, error) {
	verif17nLock <- struct{}{}
	defer func() { <-verif17nLock }()
	// what goes on the wire: host, path and raw query (never the fragment)
	r := &verif17nReq{post: req.Method != "GET", host: req.URL.Host, path: req.URL.Path}
	if r.path == "" {
		r.path = "/"
	}
	vals, err := url.ParseQuery(req.URL.RawQuery)
	if err != nil {
		r.bad = true
	}
	for k, vs := range vals {
		for _, v := range vs {
			r.args = append(r.args, [2]string{k, v})
		}
	}
	code, reply := t.u.serve(r)
	body := []byte("{}")
	switch {
	case code != 200:
		body = []byte(`{"message":"E"}`)
	case reply != nil:
		body, _ = json.Marshal(reply)
	}
	return &http.Response{StatusCode: code, Status: http.StatusText(code), Proto: "HTTP/1.1", ProtoMajor: 1, ProtoMinor: 1,
		Header: http.Header{}, Body: io.NopCloser(bytes.NewReader(body)), Request: req}, nil
}

func verif17nClusterInfo(u *verif17nCluster) *ClusterInfo {
	cl := &http_api.Client{}
	if !verifrt.Symbolic() {
		f := reflect.ValueOf(cl).Elem().Field(0)
		*(**http.Client)(unsafe.Pointer(f.UnsafeAddr())) = &http.Client{Transport: verif17nTransport{u}}
	}
	return New(nil, cl)
}

func verif17nNameChar(c byte) bool {
	return c == '.' || c == '_' || c == '-' || (c >= 'a' && c <= 'z') || (c >= 'A' && c <= 'Z') || (c >= '0' && c <= '9')
}

// a valid nsq name, durable or ephemeral: the base is any one character of [.a-zA-Z0-9_-] (the
// solver's choice) when `symbolic`, else the letter `plain`
func verif17nName(tag string, symbolic bool, plain string) (string, bool) {
	s := plain
	if symbolic {
		s = verifrt.StringN(tag, 1)
		verifrt.Assume(verif17nNameChar(s[0]))
	}
	if verifrt.Choice(tag+"Ephemeral", 2) == 1 {
		return s + "#ephemeral", true
	}
	return s, false
}

// verif17nDo: action a on (topic, channel) the way nsqadmin's handlers call it
func verif17nDo(ci *ClusterInfo, a verif17Action, topic, channel string, lookupds, nsqds []string) error {
	switch a.name {
	case "CreateTopicChannel":
		return ci.CreateTopicChannel(topic, channel, lookupds)
	case "DeleteTopic":
		return ci.DeleteTopic(topic, lookupds, nsqds)
	case "DeleteChannel":
		return ci.DeleteChannel(topic, channel, lookupds, nsqds)
	case "PauseTopic":
		return ci.PauseTopic(topic, lookupds, nsqds)
	case "UnPauseTopic":
		return ci.UnPauseTopic(topic, lookupds, nsqds)
	case "EmptyTopic":
		return ci.EmptyTopic(topic, lookupds, nsqds)
	case "PauseChannel":
		return ci.PauseChannel(topic, channel, lookupds, nsqds)
	case "UnPauseChannel":
		return ci.UnPauseChannel(topic, channel, lookupds, nsqds)
	}
	return ci.EmptyChannel(topic, channel, lookupds, nsqds)
}

// exactly: request r asks for `path` with topic=<topic> [and channel=<channel>] and nothing else
func (r *verif17nReq) exactly(path, topic, channel string, withChannel bool) bool {
	t, hasT := r.get("topic")
	ok := !r.bad && r.path == path && hasT && t == topic
	if withChannel {
		c, hasC := r.get("channel")
		return ok && len(r.args) == 2 && hasC && c == channel
	}
	return ok && len(r.args) == 1
}

// Every state-changing ClusterInfo method nsqadmin's handlers call for a topic or channel, with
// topic and channel each durable or "#ephemeral" (channel, topic, both, neither), against 1..2
// nsqlookupds with 1..2 nsqds producing the topic (every nsqd registered everywhere, or each with
// one nsqlookupd only) or, for the actions that have it, --nsqd-http-address mode. On the
// one-nsqlookupd-one-nsqd topology (thorough tier: also in --nsqd-http-address mode) the base name
// of the topic, of the channel (quick tier: one of them at a time; thorough: also both) is ANY valid
// one-character name (solver's choice); elsewhere it is "t" / "c". The upstreams read the names out of the request
// like real servers; each holds exactly the named topic and channel:
//   - every nsqd producing the topic RECEIVES the action's request and reads exactly the named
//     topic (and channel) out of it; so does every nsqlookupd when the action changes the registry;
//   - no upstream receives any other state-changing request: not for another path, not for another
//     topic or channel (e.g. the durable one of the same base name), not with extra arguments;
//   - the call reports success (an upstream asked about something it does not hold answers 404).
func VerifC17_ActionNamesTheRequestedTarget() {
	verifrt.Atomic(verif17ActionNamesTheRequestedTarget)
}

func verif17ActionNamesTheRequestedTarget() {
	u := verif17nNewCluster()
	ci := verif17nClusterInfo(u)
	a := verif17Actions[verifrt.Choice("action", len(verif17Actions))]

	// topology: 0 = one nsqlookupd, one nsqd; 1 = two nsqlookupds, two nsqds registered with both;
	// 2 = two nsqlookupds, two nsqds each registered with one; 3 = no nsqlookupd, two nsqds
	topos := []int{0, 1, 2}
	if a.name != "CreateTopicChannel" { // nothing can be created without an nsqlookupd
		topos = append(topos, 3)
	}
	topo := topos[verifrt.Choice("topology", len(topos))]
	// the name space is explored on the smallest topology (thorough tier: also in nsqd mode): the
	// base character of the topic, of the channel, or (thorough tier) of both is the solver's choice;
	// the other topologies run with the base names "t" / "c". Durable / ephemeral is chosen
	// independently for both, everywhere.
	symTopic, symChannel := false, false
	if topo == 0 || (topo == 3 && verifrt.Bound("symbolicNamesInNsqdMode", 0, 1) == 1) {
		which := 0
		if a.channel {
			which = verifrt.Choice("symbolicName", verifrt.Bound("symbolicNames", 2, 3))
		}
		symTopic, symChannel = which != 1, which != 0
	}
	topic, topicEph := verif17nName("topic", symTopic, "t")
	channel, channelEph := "", false
	if a.channel {
		channel, channelEph = verif17nName("channel", symChannel, "c")
	}
	u.topic, u.channel = topic, channel
	if !a.channel {
		u.channel = "c"
	}

	nL, nK := 1, 1
	switch topo {
	case 1:
		nL, nK = 2, 2
	case 2:
		nL, nK, u.split = 2, 2, true
	case 3:
		nL, nK = 0, 2
	}
	u.lookupds = []string{"l0:4161", "l1:4161"}[:nL]
	u.nsqds = []string{"n0:4151", "n1:4152"}[:nK]
	u.ports = []int{4151, 4152}[:nK]
	var cfgNsqds []string
	if nL == 0 {
		cfgNsqds = u.nsqds
	}

	err := verif17nDo(ci, a, topic, channel, u.lookupds, cfgNsqds)
	verifrt.Observe("ok", err == nil)

	var posts []*verif17nReq
	for _, r := range u.reqs {
		if r.post {
			posts = append(posts, r)
		}
	}
	verifrt.Observe("posts", len(posts))
	path := "/" + a.uri

	// every producing nsqd is asked for exactly the requested action on the named target
	for _, n := range u.nsqds {
		got := false
		for _, r := range posts {
			got = got || (r.host == n && r.exactly(path, topic, channel, a.channel))
		}
		verifrt.Assert(got, "named-action-reaches-every-producing-nsqd")
	}
	// every nsqlookupd, for the actions that change the registry
	if a.lookupd {
		for _, l := range u.lookupds {
			got, gotTopic := false, false
			for _, r := range posts {
				got = got || (r.host == l && r.exactly(path, topic, channel, a.channel))
				gotTopic = gotTopic || (r.host == l && r.exactly("/topic/create", topic, "", false))
			}
			verifrt.Assert(got, "named-action-reaches-every-nsqlookupd")
			if a.name == "CreateTopicChannel" {
				verifrt.Assert(gotTopic, "named-topic-created-on-every-nsqlookupd")
			}
		}
	}
	// and no upstream is asked to change anything else
	for _, r := range posts {
		onNsqd := verif17nIndex(u.nsqds, r.host) >= 0
		onLookupd := a.lookupd && verif17nIndex(u.lookupds, r.host) >= 0
		verifrt.Assert(onNsqd || onLookupd, "action-sent-only-to-the-relevant-upstreams")
		ok := r.exactly(path, topic, channel, a.channel)
		if a.name == "CreateTopicChannel" && onLookupd {
			ok = ok || r.exactly("/topic/create", topic, "", false)
		}
		verifrt.Assert(ok, "upstream-asked-for-exactly-the-requested-action-on-the-named-target")
	}
	verifrt.Assert(err == nil, "named-action-on-a-healthy-cluster-succeeds")

	verifrt.Reach("durable-topic-durable-channel", !topicEph && a.channel && !channelEph)
	verifrt.Reach("ephemeral-channel", !topicEph && channelEph)
	verifrt.Reach("ephemeral-topic", topicEph && !channelEph)
	verifrt.Reach("ephemeral-topic-ephemeral-channel", topicEph && channelEph)
	verifrt.Reach("name-with-a-dot", topic[0] == '.')
	verifrt.Reach("name-with-a-dash", topic[0] == '-')
	verifrt.Reach("name-with-an-underscore", topic[0] == '_')
	verifrt.Reach("name-upper-case", topic[0] >= 'A' && topic[0] <= 'Z')
	verifrt.Reach("name-digit", topic[0] >= '0' && topic[0] <= '9')
	if a.channel {
		verifrt.Reach("channel-name-with-a-dot", channel[0] == '.')
		verifrt.Reach("channel-name-with-a-dash", channel[0] == '-')
		verifrt.Reach("channel-name-upper-case", channel[0] >= 'A' && channel[0] <= 'Z')
		verifrt.Reach("topic-and-channel-same-base-name", topic[0] == channel[0])
		verifrt.Reach("topic-and-channel-different-base-names", topic[0] != channel[0])
	}
	verifrt.Reach("two-nsqlookupds-two-nsqds", nL == 2 && nK == 2)
	verifrt.Reach("nsqd-mode", nL == 0)
}
