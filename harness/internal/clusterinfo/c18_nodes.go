//go:build verif

package clusterinfo

import (
	"github.com/nsqio/nsq/internal/verifrt"
)

// ---- node views in nsqlookupd mode: de-duplicated union of the producers ----

// what nsqlookupd sends for one producer in /nodes and /lookup
type verifNodeJSON struct {
	RemoteAddress    string   `json:"remote_address"`
	Hostname         string   `json:"hostname"`
	BroadcastAddress string   `json:"broadcast_address"`
	TCPPort          int      `json:"tcp_port"`
	HTTPPort         int      `json:"http_port"`
	Version          string   `json:"version"`
	Tombstones       []bool   `json:"tombstones,omitempty"`
	Topics           []string `json:"topics,omitempty"`
}

type verifNodesReply struct {
	Channels  []string         `json:"channels,omitempty"`
	Producers []*verifNodeJSON `json:"producers"`
}

// a cluster node as the reference model sees it: identified by its broadcast address and
// ports; the hostname is NOT an identity (two nodes may share it)
type verifNode struct {
	host    string
	bcast   string
	tcp     int
	http    int
	version string
	topics  []string
	tombs   []bool
}

// verifNodeUniverse: k distinct nodes. Node 1 either lives on another broadcast address or
// on node 0's address with other ports. Hostnames are arbitrary (possibly equal).
func verifNodeUniverse(k int, withTopics bool) []*verifNode {
	nodes := []*verifNode{
		{bcast: "b0", tcp: 4150, http: 4151, version: "1.2.0"},
		{bcast: "b1", tcp: 4150, http: 4151, version: "1.3.0"},
		{bcast: "b2", tcp: 4150, http: 4151, version: "1.2.0"},
	}[:k]
	if verifrt.Choice("node1-shares-address-with-node0", 2) == 1 {
		nodes[1].bcast, nodes[1].tcp, nodes[1].http = "b0", 5150, 5151
	}
	if verifrt.Tier() == 1 && verifrt.Choice("node1-version-unparsable", 2) == 1 {
		nodes[1].version = "bogus"
	}
	for i, n := range nodes {
		n.host = verifName("host", 1)
		if withTopics && i == 0 {
			n.topics = []string{verifName("n0.topic", 1), verifName("n0.topic", 1)}
			n.tombs = []bool{verifrt.Bool("n0.tomb"), verifrt.Bool("n0.tomb")}
		}
	}
	return nodes
}

type verifNodeSource struct {
	addr   string
	remote string // what this lookupd reports as the node's remote address ("" => N/A)
	fail   bool
	list   []int // indices into the universe, in reply order
}

func verifNodeSources(n, k int) []verifNodeSource {
	addrs := []string{"l0:4161", "l1:4161", "l2:4161"}
	remotes := []string{"10.0.0.1:1", "", "10.0.0.3:3"}
	lists := [][]int{{}, {0}, {1}, {0, 1}, {1, 0}, {2, 0}, {1, 2}}
	nl := 4
	if verifrt.Tier() == 1 {
		nl = 5
		if k > 2 {
			nl = 7
		}
	}
	var srcs []verifNodeSource
	for i := 0; i < n; i++ {
		s := verifNodeSource{addr: addrs[i], remote: remotes[i]}
		s.fail, _ = verifFail(addrs[i])
		if !s.fail {
			s.list = lists[verifrt.Choice(addrs[i]+".list", nl)]
		}
		srcs = append(srcs, s)
	}
	return srcs
}

func (s verifNodeSource) reply(nodes []*verifNode) verifNodesReply {
	r := verifNodesReply{Producers: []*verifNodeJSON{}}
	for _, i := range s.list {
		n := nodes[i]
		r.Producers = append(r.Producers, &verifNodeJSON{RemoteAddress: s.remote, Hostname: n.host, BroadcastAddress: n.bcast,
			TCPPort: n.tcp, HTTPPort: n.http, Version: n.version, Topics: n.topics, Tombstones: n.tombs})
	}
	return r
}

func verifIntsHave(l []int, x int) bool {
	for _, e := range l {
		if e == x {
			return true
		}
	}
	return false
}

// verifCheckNodes: every node reported by an answering lookupd is listed exactly once (its
// identity being address+ports), nothing else is listed, and the error is classified by the
// number of failing lookupds. Returns the listed entry per universe node (nil if absent).
func verifCheckNodes(what string, nodes []*verifNode, srcs []verifNodeSource, got Producers, err error) []*Producer {
	failed := 0
	for _, s := range srcs {
		if s.fail {
			failed++
		}
	}
	pe, partial := verifIsPartial(err)
	if failed == len(srcs) {
		verifrt.Assert(err != nil && !partial, what+":all-failed-is-plain-error")
		verifrt.Assert(len(got) == 0, what+":all-failed-no-result")
		verifrt.Reach(what+":all-failed", true)
		return nil
	}
	if failed > 0 {
		verifrt.Assert(err != nil && partial, what+":some-failed-is-partial-error")
		if partial {
			verifrt.Assert(len(pe.Errors()) == failed, what+":one-error-per-failed-upstream")
		}
		verifrt.Reach(what+":some-failed", true)
	} else {
		verifrt.Assert(err == nil, what+":none-failed-no-error")
	}
	entries := make([]*Producer, len(nodes))
	expected := 0
	for i, n := range nodes {
		reported := false
		for _, s := range srcs {
			if !s.fail && verifIntsHave(s.list, i) {
				reported = true
			}
		}
		count := 0
		for _, p := range got {
			verifrt.Assert(p != nil, what+":no-nil-entry")
			if p.BroadcastAddress == n.bcast && p.TCPPort == n.tcp && p.HTTPPort == n.http {
				count++
				entries[i] = p
			}
		}
		if reported {
			expected++
			verifrt.Assert(count == 1, what+":reported-node-listed-exactly-once")
		} else {
			verifrt.Assert(count == 0, what+":unreported-node-not-listed")
		}
	}
	verifrt.Assert(len(got) == expected, what+":nothing-but-the-reported-nodes")
	verifrt.Reach(what+":two-nodes-listed", expected >= 2)
	verifrt.Reach(what+":node-known-to-two-lookupds", expected >= 1 && len(srcs) >= 2 && !srcs[0].fail && !srcs[1].fail &&
		verifIntsHave(srcs[0].list, 0) && verifIntsHave(srcs[1].list, 0))
	verifrt.Observe(what+".n", len(got))
	return entries
}

// GetLookupdProducers (the /nodes view and the source of every aggregate in lookupd mode).
func VerifC18_LookupdProducersDedup() {
	verifrt.Atomic(func() {
		u := verifNewEnv()
		ci := verifClusterInfo(u)
		k := verifrt.Bound("nodes", 2, 3)
		nodes := verifNodeUniverse(k, true)
		srcs := verifNodeSources(verifrt.Bound("lookupds", 2, 2), k)
		var addrs []string
		for _, s := range srcs {
			addrs = append(addrs, s.addr)
			u.script("http://"+s.addr+"/nodes", s.fail, 0, s.reply(nodes))
		}
		got, err := ci.GetLookupdProducers(addrs)
		entries := verifCheckNodes("lookupd-nodes", nodes, srcs, got, err)
		if entries == nil {
			return
		}
		// what is listed for a node is what the daemons said about it
		maxV := 0 // index of the highest listed version among 1.2.0 < 1.3.0 ("bogus" counts as 0.0.0)
		rank := func(v string) int {
			switch v {
			case "1.2.0":
				return 2
			case "1.3.0":
				return 3
			}
			return 0
		}
		for i, p := range entries {
			if p != nil && rank(nodes[i].version) > maxV {
				maxV = rank(nodes[i].version)
			}
		}
		for i, p := range entries {
			if p == nil {
				continue
			}
			n := nodes[i]
			verifrt.Assert(p.Hostname == n.host && p.Version == n.version, "lookupd-nodes:listed-fields-are-the-reported-ones")
			// one remote address per lookupd that knows the node
			want := 0
			for _, s := range srcs {
				if !s.fail && verifIntsHave(s.list, i) {
					want++
					r := s.remote
					if r == "" {
						r = "N/A"
					}
					verifrt.Assert(verifHas(p.RemoteAddresses, s.addr+"/"+r), "lookupd-nodes:remote-address-per-reporting-lookupd")
				}
			}
			verifrt.Assert(len(p.RemoteAddresses) == want, "lookupd-nodes:remote-address-count-is-number-of-reporting-lookupds")
			verifrt.Assert(p.IsInconsistent(len(srcs)) == (want != len(srcs)), "lookupd-nodes:inconsistent-iff-not-known-to-all-lookupds")
			// topics with their tombstone flags, pairs intact
			verifrt.Assert(len(p.Topics) == len(n.topics), "lookupd-nodes:topic-count")
			for j := range n.topics {
				found := false
				for _, pt := range p.Topics {
					found = found || (pt.Topic == n.topics[j] && pt.Tombstoned == n.tombs[j])
				}
				verifrt.Assert(found, "lookupd-nodes:topic-keeps-its-tombstone-flag")
			}
			for j := 1; j < len(p.Topics); j++ {
				verifrt.Assert(p.Topics[j-1].Topic <= p.Topics[j].Topic, "lookupd-nodes:topics-sorted")
			}
			verifrt.Assert(p.OutOfDate == (rank(n.version) < maxV), "lookupd-nodes:out-of-date-iff-below-newest-listed-version")
			verifrt.Reach("lookupd-nodes:out-of-date", p.OutOfDate)
			verifrt.Reach("lookupd-nodes:tombstoned-topic", len(p.Topics) == 2 && p.Topics[0].Tombstoned && !p.Topics[1].Tombstoned)
		}
		for j := 1; j < len(got); j++ {
			verifrt.Assert(got[j-1].Hostname <= got[j].Hostname, "lookupd-nodes:sorted-by-hostname")
		}
		verifrt.Reach("lookupd-nodes:same-hostname-two-nodes", len(got) == 2 && got[0].Hostname == got[1].Hostname)
	})
}

// GetLookupdTopicProducers (/lookup?topic=...): the nodes every per-topic view and action fans out to.
func VerifC18_LookupdTopicProducersDedup() {
	verifrt.Atomic(func() {
		u := verifNewEnv()
		ci := verifClusterInfo(u)
		k := verifrt.Bound("nodes", 2, 3)
		nodes := verifNodeUniverse(k, false)
		srcs := verifNodeSources(verifrt.Bound("lookupds", 2, 2), k)
		var addrs []string
		for _, s := range srcs {
			addrs = append(addrs, s.addr)
			r := s.reply(nodes)
			r.Channels = []string{"c"}
			u.script("http://"+s.addr+"/lookup?topic=t", s.fail, 0, r)
		}
		got, err := ci.GetLookupdTopicProducers("t", addrs)
		entries := verifCheckNodes("lookupd-topic-nodes", nodes, srcs, got, err)
		for i, p := range entries {
			if p != nil {
				verifrt.Assert(p.Hostname == nodes[i].host && p.Version == nodes[i].version, "lookupd-topic-nodes:listed-fields-are-the-reported-ones")
			}
		}
		verifrt.Assert(u.unknown == 0, "lookupd-topic-nodes:no-other-endpoint-asked")
	})
}
