//go:build verif

package dirlock

import (
	"errors"
	"os"

	"github.com/nsqio/nsq/internal/verifrt"
)

// flock contract (symbolic runs): an exclusive non-blocking lock on an open directory handle fails
// while another open handle holds it; closing the handle releases it. Natively the real kernel runs.
type vLocks struct {
	holder map[string]*os.File // dir -> handle holding LOCK_EX
	dirOf  map[*os.File]string
	fdOf   map[*os.File]int
	byFd   map[int]*os.File
	next   int
}

func vInstall() *vLocks {
	l := &vLocks{holder: map[string]*os.File{}, dirOf: map[*os.File]string{}, fdOf: map[*os.File]int{}, byFd: map[int]*os.File{}, next: 3}
	verifrt.Stub("os.Open", func(name string) (*os.File, error) {
		f := new(os.File)
		l.dirOf[f] = name
		l.fdOf[f] = l.next
		l.byFd[l.next] = f
		l.next++
		return f, nil
	})
	verifrt.Stub("(*os.File).Fd", func(f *os.File) uintptr { return uintptr(l.fdOf[f]) })
	verifrt.Stub("(*os.File).Close", func(f *os.File) error {
		d := l.dirOf[f]
		if l.holder[d] == f {
			delete(l.holder, d)
		}
		delete(l.byFd, l.fdOf[f])
		return nil
	})
	verifrt.Stub("syscall.Flock", func(fd int, how int) error {
		f := l.byFd[fd]
		if f == nil {
			return errors.New("bad file descriptor")
		}
		d := l.dirOf[f]
		if how&8 != 0 { // LOCK_UN
			if l.holder[d] == f {
				delete(l.holder, d)
			}
			return nil
		}
		if h, ok := l.holder[d]; ok && h != f {
			return errors.New("resource temporarily unavailable")
		}
		l.holder[d] = f
		return nil
	})
	return l
}

// A second nsqd pointed at a data path that is in use is refused for as long as the first one holds
// it, and can take it over after the first one released it.
func VerifC06_DataPathLockIsExclusive() {
	dir := "/data"
	if verifrt.Symbolic() {
		vInstall()
	} else {
		dir, _ = os.MkdirTemp("", "nsq-verif-lock-")
	}
	a, b := New(dir), New(dir)
	verifrt.Assert(a.Lock() == nil, "first-daemon-gets-the-lock")
	verifrt.Assert(b.Lock() != nil, "second-daemon-on-a-used-data-path-is-refused")
	verifrt.Assert(b.Lock() != nil, "second-daemon-still-refused-on-retry")
	verifrt.Assert(a.Unlock() == nil, "first-daemon-releases")
	c := New(dir)
	verifrt.Assert(c.Lock() == nil, "data-path-free-again-after-release")
	verifrt.Reach("lock-cycle", true)
}
