//go:build verif

package http_api

import (
	"net/http"
	"time"

	"github.com/nsqio/nsq/internal/verifrt"
)

// The HTTP client nsqd uses to ask nsqlookupd (channel pre-creation in GetTopic) bounds the WHOLE
// request - connecting, response headers AND reading the body - by the configured request
// timeout, for every timeout setting: a lookupd that sends headers and then stalls cannot block
// the first publish to a new topic for ever. Checked on the real constructor.
func VerifC16_LookupHTTPClientBoundsTheWholeRequest() {
	connect := verifrt.Duration("connect-timeout")
	request := verifrt.Duration("request-timeout")
	verifrt.Assume(connect > 0 && connect <= time.Hour && request > 0 && request <= time.Hour)
	c := NewClient(nil, connect, request)
	verifrt.Assert(c.c != nil && c.c.Timeout > 0 && c.c.Timeout <= request, "whole-request-is-bounded-by-the-request-timeout")
	tr, ok := c.c.Transport.(*http.Transport)
	verifrt.Assert(ok && tr.ResponseHeaderTimeout > 0 && tr.ResponseHeaderTimeout <= request, "response-headers-are-bounded-by-the-request-timeout")
	verifrt.Reach("client-built", c.c != nil)
}
