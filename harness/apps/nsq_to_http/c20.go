//go:build verif

package main

import (
	"errors"
	"io"
	"net/http"
	"strconv"
	"time"

	"github.com/bitly/go-hostpool"
	"github.com/bitly/timer_metrics"
	"github.com/nsqio/go-nsq"
	"github.com/nsqio/nsq/internal/app"
	"github.com/nsqio/nsq/internal/verifrt"
)

// ---- environment: HTTP destinations --------------------------------------------------------
//
// The tool's HTTP client is the package variable `httpclient`. Its Transport is this canned
// RoundTripper: it records each request as the destination receives it and answers with the
// prescribed outcome (transport error, or a response with ANY integer status). Natively the real
// http.Client.Do runs on top of it; under gosmt Client.Do is redirected straight to RoundTrip
// (Do's own work - cookies, deadlines, redirects that need a Location header - is outside).

type verifHTTPCall struct {
	method      string
	url         string
	rawQuery    string
	body        []byte
	contentType string
	bodyClosed  bool
	status      int
	failed      bool
}

type verifBody struct {
	call *verifHTTPCall
}

func (b *verifBody) Read(p []byte) (int, error) { return 0, io.EOF }
func (b *verifBody) Close() error               { b.call.bodyClosed = true; return nil }

type verifTransport struct {
	calls   []*verifHTTPCall
	always200 bool
}

func (t *verifTransport) RoundTrip(req *http.Request) (*http.Response, error) {
	c := &verifHTTPCall{method: req.Method, url: req.URL.Scheme + "://" + req.URL.Host + req.URL.Path, rawQuery: req.URL.RawQuery,
		contentType: req.Header.Get("Content-Type")}
	if req.Body != nil {
		buf := make([]byte, 64)
		for {
			n, err := req.Body.Read(buf)
			c.body = append(c.body, buf[:n]...)
			if err != nil {
				break
			}
		}
		req.Body.Close()
	}
	t.calls = append(t.calls, c)
	k := len(t.calls)
	if t.always200 {
		c.status = 200
		return &http.Response{StatusCode: 200, Header: http.Header{}, Body: &verifBody{call: c}, Request: req}, nil
	}
	if verifrt.Choice("transportFails", 2) == 1 {
		c.failed = true
		return nil, errors.New("verif: connection refused #" + strconv.Itoa(k))
	}
	c.status = verifrt.Int("status")
	return &http.Response{StatusCode: c.status, Header: http.Header{}, Body: &verifBody{call: c}, Request: req}, nil
}

func verifClientDoModel(c *http.Client, req *http.Request) (*http.Response, error) {
	return c.Transport.RoundTrip(req)
}

func (c *verifHTTPCall) accepted() bool { return !c.failed && c.status >= 200 && c.status <= 299 }

func verifSameBytes(a, b []byte) bool {
	if len(a) != len(b) {
		return false
	}
	same := true
	for i := range a {
		if a[i] != b[i] {
			same = false
		}
	}
	return same
}

// ---- environment: host pool (any selection policy) and the source side -----------------------

type verifHostPool struct {
	hostpool.HostPool // only Get is used by the tool
	hosts             []string
	got               []*verifHPResp
}

type verifHPResp struct {
	hostpool.HostPoolResponse
	host   string
	marks  int
	failed bool
}

func (r *verifHPResp) Host() string { return r.host }
func (r *verifHPResp) Mark(err error) {
	r.marks++
	r.failed = err != nil
}

func (hp *verifHostPool) Get() hostpool.HostPoolResponse {
	i := 0
	if len(hp.hosts) > 1 {
		i = verifrt.Choice("host", len(hp.hosts))
	}
	r := &verifHPResp{host: hp.hosts[i]}
	hp.got = append(hp.got, r)
	return r
}

type verifSourceSide struct {
	fin, req, touch int
}

func (s *verifSourceSide) OnFinish(m *nsq.Message)                                   { s.fin++ }
func (s *verifSourceSide) OnRequeue(m *nsq.Message, d time.Duration, backoff bool) { s.req++ }
func (s *verifSourceSide) OnTouch(m *nsq.Message)                                    { s.touch++ }

// ---- the relay under test -------------------------------------------------------------------

type verifRelay struct {
	tr    *verifTransport
	hp    *verifHostPool
	ph    *PublishHandler
	addrs app.StringArray
}

func verifNewRelay(post bool, mode int, nAddr int) *verifRelay {
	one := 1.0
	sample = &one
	ct := "application/x-verif"
	contentType = &ct
	validCustomHeaders = nil
	tr := &verifTransport{}
	httpclient = &http.Client{Transport: tr}
	if verifrt.Symbolic() {
		verifrt.Stub("(*net/http.Client).Do", verifClientDoModel)
		// net/http's token table is a package-level initialiser the executor does not run
		verifrt.Stub("net/http.validMethod", func(m string) bool { return m == "GET" || m == "POST" })
	}
	var addrs app.StringArray
	status := map[string]*timer_metrics.TimerMetrics{}
	for i := 0; i < nAddr; i++ {
		a := "http://dest" + strconv.Itoa(i) + ".verif/put"
		if !post {
			a = "http://dest" + strconv.Itoa(i) + ".verif/get?m=%s"
		}
		addrs = append(addrs, a)
		status[a] = &timer_metrics.TimerMetrics{}
	}
	hp := &verifHostPool{hosts: addrs}
	var pub Publisher = &PostPublisher{}
	if !post {
		pub = &GetPublisher{}
	}
	ph := &PublishHandler{
		Publisher:        pub,
		addresses:        addrs,
		mode:             mode,
		hostPool:         hp,
		perAddressStatus: status,
		timermetrics:     &timer_metrics.TimerMetrics{},
	}
	return &verifRelay{tr: tr, hp: hp, ph: ph, addrs: addrs}
}

func verifModeOf(c int) int {
	switch c {
	case 0:
		return ModeAll
	case 1:
		return ModeRoundRobin
	}
	return ModeHostPool
}

// handle: one delivery through the real handler, then what the client library does with the
// result (go-nsq's documented contract: error => requeue, nil => finish, both only while
// auto-response is enabled). Checks everything the statement says about one delivery.
func (r *verifRelay) handle(body []byte, post bool) {
	src := &verifSourceSide{}
	orig := make([]byte, len(body))
	copy(orig, body)
	m := &nsq.Message{Body: body, Attempts: 1, Delegate: src}
	first := len(r.tr.calls)
	err := r.ph.HandleMessage(m)
	verifrt.Assert(src.fin == 0 && src.req == 0, "handler-leaves-the-response-to-the-client-library")
	verifrt.Assert(!m.IsAutoResponseDisabled(), "auto-response-stays-enabled")
	if err != nil {
		if !m.IsAutoResponseDisabled() {
			m.Requeue(-1)
		}
	} else if !m.IsAutoResponseDisabled() {
		m.Finish()
	}
	calls := r.tr.calls[first:]

	// which destinations are required in this mode
	allAccepted := true
	for _, c := range calls {
		if !c.accepted() {
			allAccepted = false
		}
	}
	switch r.ph.mode {
	case ModeAll:
		if err == nil {
			verifrt.Assert(len(calls) == len(r.addrs), "mode-all-finish-needs-every-destination")
		}
		for i, c := range calls {
			if i < len(r.addrs) {
				verifrt.Assert(verifCallGoesTo(c, r.addrs[i]), "request-goes-to-a-configured-destination")
			}
		}
		verifrt.Assert(len(calls) <= len(r.addrs), "no-destination-contacted-twice")
	default:
		verifrt.Assert(len(calls) == 1, "exactly-one-destination-contacted")
		known := false
		for _, a := range r.addrs {
			if len(calls) == 1 && verifCallGoesTo(calls[0], a) {
				known = true
			}
		}
		verifrt.Assert(known, "request-goes-to-a-configured-destination")
		if r.ph.mode == ModeHostPool && len(calls) == 1 && len(r.hp.got) > 0 {
			verifrt.Assert(verifCallGoesTo(calls[0], r.hp.got[len(r.hp.got)-1].host), "request-goes-to-the-host-the-pool-chose")
		}
	}

	// FIN only after every required destination accepted (2xx); otherwise requeue
	if err == nil {
		verifrt.Assert(allAccepted, "finish-only-after-2xx")
		verifrt.Assert(src.fin == 1 && src.req == 0, "nil-result-finishes")
	} else {
		verifrt.Assert(src.req == 1 && src.fin == 0, "error-result-requeues")
	}
	if !allAccepted {
		verifrt.Assert(err != nil, "not-accepted-is-requeued")
	} else if post {
		verifrt.Assert(err == nil, "post-2xx-finishes")
	} else {
		all200 := true
		for _, c := range calls {
			if c.status != 200 {
				all200 = false
			}
		}
		if all200 {
			verifrt.Assert(err == nil, "get-200-finishes")
		}
	}

	// what the destinations received is the message, unmodified
	for _, c := range calls {
		if post {
			verifrt.Assert(c.method == "POST", "post-method")
			verifrt.Assert(verifSameBytes(c.body, orig), "post-body-is-the-message-unmodified")
			verifrt.Assert(c.contentType == "application/x-verif", "post-content-type-as-configured")
		} else {
			verifrt.Assert(c.method == "GET", "get-method")
			verifrt.Assert(len(c.rawQuery) >= 2 && c.rawQuery[:2] == "m=", "get-query-carries-the-parameter")
			if len(c.rawQuery) >= 2 {
				got, ok := verifQueryDecode(c.rawQuery[2:])
				verifrt.Assert(ok && verifSameBytes(got, orig), "get-query-decodes-to-the-message-unmodified")
			}
		}
		if !c.failed {
			verifrt.Assert(c.bodyClosed, "response-body-closed")
		}
	}
	verifrt.Assert(verifSameBytes(m.Body, orig), "message-not-modified-in-place")
}

func verifCallGoesTo(c *verifHTTPCall, addr string) bool {
	// compare up to the query (GET addresses carry the %s template there)
	n := len(c.url)
	return len(addr) >= n && addr[:n] == c.url && (len(addr) == n || addr[n] == '?')
}

// POST relay: any body, 1..2 destinations, every mode, every outcome pattern (transport error or
// any integer status per request), two deliveries in a row (so round-robin moves on).
func VerifC20_NsqToHttpPost() { verifrt.Atomic(verifNsqToHttpPost) }

func verifNsqToHttpPost() {
	mode := verifModeOf(verifrt.Choice("mode", 3))
	nAddr := 1 + verifrt.Choice("naddr", 2)
	r := verifNewRelay(true, mode, nAddr)
	n := verifrt.Bound("deliveries", 2, 3)
	r.handle(verifrt.Bytes("body", 2), true)
	for i := 1; i < n; i++ {
		r.handle(verifrt.BytesN("body", 1), true)
	}
	calls := r.tr.calls
	verifrt.Reach("mode-all-both-accepted", mode == ModeAll && nAddr == 2 && len(calls) >= 2 && calls[0].accepted() && calls[1].accepted())
	verifrt.Reach("mode-all-second-rejects", mode == ModeAll && nAddr == 2 && len(calls) >= 2 && calls[0].accepted() && !calls[1].accepted())
	verifrt.Reach("redirect-class-status-requeued", len(calls) >= 1 && !calls[0].failed && calls[0].status >= 300 && calls[0].status < 400)
	verifrt.Reach("round-robin-visits-both", mode == ModeRoundRobin && nAddr == 2 && len(calls) >= 2 && calls[0].url != calls[1].url)
	verifrt.Reach("transport-error", len(calls) >= 1 && calls[0].failed)
}

// verifQueryDecode: what an HTTP server makes of a query value (application/x-www-form-urlencoded:
// %XX is the byte XX, '+' is a space, '&' '=' '#' would end the value, the rest stands for itself).
func verifQueryDecode(q string) ([]byte, bool) {
	var out []byte
	hex := func(c byte) (byte, bool) {
		switch {
		case c >= '0' && c <= '9':
			return c - '0', true
		case c >= 'a' && c <= 'f':
			return c - 'a' + 10, true
		case c >= 'A' && c <= 'F':
			return c - 'A' + 10, true
		}
		return 0, false
	}
	for i := 0; i < len(q); i++ {
		c := q[i]
		switch {
		case c == '%':
			if i+2 >= len(q) {
				return nil, false
			}
			h, ok1 := hex(q[i+1])
			l, ok2 := hex(q[i+2])
			if !ok1 || !ok2 {
				return nil, false
			}
			out = append(out, h<<4|l)
			i += 2
		case c == '+':
			out = append(out, ' ')
		case c == '&' || c == '=' || c == '#' || c == ' ' || c < 0x20 || c >= 0x7f:
			return nil, false
		default:
			out = append(out, c)
		}
	}
	return out, true
}

// GET relay, outcome logic: a fixed body containing every escaping class, 1..2 destinations,
// every mode, every outcome (transport error or any integer status).
func VerifC20_NsqToHttpGet() { verifrt.Atomic(verifNsqToHttpGet) }

func verifNsqToHttpGet() {
	mode := verifModeOf(verifrt.Choice("mode", 3))
	nAddr := 1 + verifrt.Choice("naddr", 2)
	r := verifNewRelay(false, mode, nAddr)
	r.handle([]byte{'m', '&', ' ', '%', '+', '=', '/', '?', '#', 0, 0xff, '~', '\n'}, false)
	if verifrt.Tier() == 1 {
		r.handle([]byte{}, false)
	}
	calls := r.tr.calls
	verifrt.Reach("get-200-finished", len(calls) >= 1 && !calls[0].failed && calls[0].status == 200)
	verifrt.Reach("get-204-outcome-open", len(calls) >= 1 && !calls[0].failed && calls[0].status == 204)
	verifrt.Reach("get-500-requeued", len(calls) >= 1 && !calls[0].failed && calls[0].status == 500)
	verifrt.Reach("get-mode-all-both", mode == ModeAll && len(calls) >= 2 && calls[0].url != calls[1].url)
}

// GET relay, encoding: ANY body bytes (followed by a fixed tail of special characters) arrive
// unmodified after the server decodes the query. One destination answering 200.
func VerifC20_NsqToHttpGetEscaping() { verifrt.Atomic(verifNsqToHttpGetEscaping) }

func verifNsqToHttpGetEscaping() {
	r := verifNewRelay(false, ModeRoundRobin, 1)
	r.tr.always200 = true
	body := verifrt.Bytes("body", verifrt.Bound("getBody", 1, 2))
	full := append(append([]byte{}, body...), '&', ' ', '%', 'z')
	r.handle(full, false)
	verifrt.Reach("escaped-byte", len(body) >= 1 && body[0] == '&')
	verifrt.Reach("plain-byte", len(body) >= 1 && body[0] == 'q')
	verifrt.Reach("high-byte", len(body) >= 1 && body[0] >= 0x80)
}
