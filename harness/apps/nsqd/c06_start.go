//go:build verif

package main

import (
	"github.com/nsqio/nsq/internal/verifrt"
	"github.com/nsqio/nsq/nsqd"
)

// C06 at process start: the metadata document on disk "includes every creation, deletion, pause and
// unpause that had completed before the daemon was last idle" only if nothing can rewrite it from
// a HALF-LOADED daemon: every mutating request persists a snapshot of the topics present at that
// moment, so the listeners must not serve before LoadMetadata has restored all of them (and the
// start-up persist has run). The real program.Start of apps/nsqd with the three NSQD entry points
// it calls replaced by recorders (symbolically and natively, verifrt.StubNative), the goroutine it
// starts scheduled at every point within the preemption bound: NSQD.Main begins only after
// LoadMetadata and PersistMetadata have returned.
var verifStartLog []string

func verifStartIdx(s string) int {
	for i, x := range verifStartLog {
		if x == s {
			return i
		}
	}
	return -1
}

func VerifC06_ServingStartsAfterMetadataIsLoaded() {
	verifStartLog = nil
	verifrt.Preemptions(1)
	verifrt.StubNative("(*github.com/nsqio/nsq/nsqd.NSQD).LoadMetadata", func(n *nsqd.NSQD) error {
		verifStartLog = append(verifStartLog, "load-begins")
		verifrt.Yield()
		verifStartLog = append(verifStartLog, "load")
		return nil
	})
	verifrt.StubNative("(*github.com/nsqio/nsq/nsqd.NSQD).PersistMetadata", func(n *nsqd.NSQD) error {
		verifStartLog = append(verifStartLog, "persist")
		return nil
	})
	verifrt.StubNative("(*github.com/nsqio/nsq/nsqd.NSQD).Main", func(n *nsqd.NSQD) error {
		verifStartLog = append(verifStartLog, "main")
		return nil
	})
	p := &program{nsqd: &nsqd.NSQD{}}
	err := p.Start()
	verifrt.Join()
	verifrt.Assert(err == nil, "start-succeeds")
	load, persist, main := verifStartIdx("load"), verifStartIdx("persist"), verifStartIdx("main")
	verifrt.Assert(load >= 0 && persist > load, "metadata-is-loaded-then-persisted-at-start")
	verifrt.Assert(main > persist && main > load, "serving-starts-only-after-the-metadata-is-loaded-and-persisted")
	verifrt.Reach("daemon-started", main >= 0)
}
