//go:build verif

package main

import (
	"bufio"
	"errors"
	"io"
	"log"
	"strconv"

	"github.com/nsqio/go-nsq"
	"github.com/nsqio/nsq/internal/verifrt"
)

// ---- environment -------------------------------------------------------------------------

// verifChunkStream: stdin. Delivers the input in reads of at most `chunk` bytes, then io.EOF.
type verifChunkStream struct {
	data  []byte
	pos   int
	chunk int
}

func (s *verifChunkStream) Read(p []byte) (int, error) {
	if s.pos >= len(s.data) {
		return 0, io.EOF
	}
	n := len(s.data) - s.pos
	if n > s.chunk {
		n = s.chunk
	}
	if n > len(p) {
		n = len(p)
	}
	copy(p, s.data[s.pos:s.pos+n])
	s.pos += n
	return n, nil
}

// verifDest: one destination nsqd. Contract of (*nsq.Producer).Publish as the tool sees it:
// the body (as it is at the time of the call) is handed over, the answer is nil or an error.
// Under gosmt Publish is redirected to publish() below; natively a real Producer talks to a
// loopback verifFakeNsqd with the same behaviour, and the log is read back from it.
type verifDest struct {
	p      *nsq.Producer
	topics []string
	bodies [][]byte
	failAt int // ordinal of the publish that is answered with an error (-1: none)
	srv    *verifFakeNsqd
}

var verifDests []*verifDest

func verifPublishModel(p *nsq.Producer, topic string, body []byte) error {
	for _, d := range verifDests {
		if d.p == p {
			k := len(d.bodies)
			cp := make([]byte, len(body))
			copy(cp, body)
			d.topics = append(d.topics, topic)
			d.bodies = append(d.bodies, cp)
			if k == d.failAt {
				return errors.New("verif: publish failed")
			}
			return nil
		}
	}
	panic("verif: publish to an unknown producer")
}

func verifNewDests(n int, failAt []int) map[string]*nsq.Producer {
	verifDests = nil
	producers := map[string]*nsq.Producer{}
	if verifrt.Symbolic() {
		verifrt.Stub("(*github.com/nsqio/go-nsq.Producer).Publish", verifPublishModel)
	}
	for i := 0; i < n; i++ {
		d := &verifDest{failAt: failAt[i]}
		if verifrt.Symbolic() {
			d.p = &nsq.Producer{}
		} else {
			d.srv = verifStartFakeNsqd(failAt[i])
			cfg := nsq.NewConfig()
			p, err := nsq.NewProducer(d.srv.addr(), cfg)
			if err != nil {
				panic(err)
			}
			p.SetLogger(log.New(io.Discard, "", 0), nsq.LogLevelError)
			d.p = p
		}
		verifDests = append(verifDests, d)
		producers["dest"+strconv.Itoa(i)] = d.p
	}
	return producers
}

// verifCollect brings the native logs into the same shape as the model's.
func verifCollect() {
	if verifrt.Symbolic() {
		return
	}
	for _, d := range verifDests {
		d.topics, d.bodies = d.srv.log()
		d.p.Stop()
		d.srv.ln.Close()
	}
}

// ---- reference model (from the statement) --------------------------------------------------

// The records of a stream are the maximal delimiter-free runs; every run that is followed by a
// delimiter, and the run after the last delimiter (the final record, which has no trailing
// delimiter), is a record; the empty ones are not published.
type verifRef struct {
	recs         [][]byte // non-empty records, in order
	finalOpen    bool     // the last of recs is an unterminated final record
	sawEmpty     bool     // some record was empty (skipped)
	nDelims      int
}

func verifSplit(in []byte, delim byte) verifRef {
	var r verifRef
	start := 0
	for i := 0; i < len(in); i++ {
		if in[i] == delim {
			r.nDelims++
			if i > start {
				r.recs = append(r.recs, in[start:i])
			} else {
				r.sawEmpty = true
			}
			start = i + 1
		}
	}
	if start < len(in) {
		r.recs = append(r.recs, in[start:])
		r.finalOpen = true
	}
	return r
}

func verifSameBytes(a, b []byte) bool {
	if len(a) != len(b) {
		return false
	}
	same := true
	for i := range a {
		if a[i] != b[i] {
			same = false
		}
	}
	return same
}

// verifRunTool is the read loop of main(): call readAndPublish until it reports an error.
// Returns that error and the number of calls made.
func verifRunTool(in []byte, delim byte, chunk int, producers map[string]*nsq.Producer) (error, int) {
	t := "c20topic"
	topic = &t
	// the reference split has already case-split on every in[i]==delim: let IndexByte use that
	verifrt.UsePathFacts()
	r := bufio.NewReaderSize(&verifChunkStream{data: in, chunk: chunk}, 16)
	calls := 0
	for {
		calls++
		err := readAndPublish(r, delim, producers)
		if err != nil {
			return err, calls
		}
		if calls > 2*len(in)+4 {
			verifrt.Assert(false, "read-loop-terminates")
			return nil, calls
		}
	}
}

func verifChunk() int {
	switch verifrt.Choice("chunk", verifrt.Bound("chunkings", 2, 3)) {
	case 0:
		return 1 << 20
	case 1:
		return 1
	}
	return 3
}

// verifCheckDests: every destination got exactly the records recs[0:n], byte-exact, in order,
// on the configured topic. The final unterminated record (if any) is judged under its own label.
func verifCheckDests(ref verifRef) {
	for _, d := range verifDests {
		nTerm := len(ref.recs)
		if ref.finalOpen {
			nTerm--
		}
		verifrt.Assert(len(d.bodies) >= nTerm, "every-terminated-record-published-to-every-destination")
		for k := 0; k < nTerm && k < len(d.bodies); k++ {
			verifrt.Assert(verifSameBytes(d.bodies[k], ref.recs[k]), "terminated-record-byte-exact-in-order")
		}
		if !ref.finalOpen {
			verifrt.Assert(len(d.bodies) == nTerm, "nothing-but-the-records-published")
		} else {
			verifrt.Assert(len(d.bodies) == nTerm+1, "final-unterminated-record-published-once")
			if len(d.bodies) == nTerm+1 {
				verifrt.Assert(verifSameBytes(d.bodies[nTerm], ref.recs[nTerm]), "final-unterminated-record-published-whole")
			}
		}
		for _, tp := range d.topics {
			verifrt.Assert(tp == "c20topic", "published-on-the-configured-topic")
		}
	}
}

// ---- harnesses -----------------------------------------------------------------------------

// Every input stream up to the bound in which each record is terminated by the delimiter (any
// bytes, any delimiter byte, empty records anywhere, any read chunking), two destinations
// that accept: each destination receives exactly the non-empty records, byte-exact, in order,
// and the loop ends with io.EOF.
func VerifC20_ToNsqTerminatedRecords() {
	in := verifrt.Bytes("in", verifrt.Bound("input", 8, 12))
	delim := verifrt.Byte("delim")
	verifrt.Assume(len(in) == 0 || in[len(in)-1] == delim)
	ref := verifSplit(in, delim)
	nd := 2
	producers := verifNewDests(nd, []int{-1, -1})
	err, _ := verifRunTool(in, delim, verifChunk(), producers)
	verifCollect()
	verifrt.Assert(err == io.EOF, "clean-input-ends-with-EOF")
	verifCheckDests(ref)
	verifrt.Reach("two-records-two-destinations", len(ref.recs) >= 2 && len(verifDests[1].bodies) >= 2)
	verifrt.Reach("empty-record-skipped-between-records", ref.sawEmpty && len(ref.recs) >= 2)
	verifrt.Reach("only-empty-records", ref.nDelims >= 2 && len(ref.recs) == 0)
	if len(ref.recs) > 0 {
		verifrt.Observe("first", verifDests[0].bodies[0])
	}
}

// The same for a stream whose final record has no trailing delimiter: it must be published
// whole (and once), after all terminated records.
func VerifC20_ToNsqFinalRecord() {
	in := verifrt.Bytes("in", verifrt.Bound("input", 7, 11))
	delim := verifrt.Byte("delim")
	verifrt.Assume(len(in) > 0 && in[len(in)-1] != delim)
	ref := verifSplit(in, delim)
	nd := 2
	producers := verifNewDests(nd, []int{-1, -1})
	err, _ := verifRunTool(in, delim, verifChunk(), producers)
	verifCollect()
	verifrt.Assert(err == io.EOF, "clean-input-ends-with-EOF")
	verifCheckDests(ref)
	verifrt.Reach("final-record-after-terminated-ones", ref.finalOpen && len(ref.recs) >= 2)
	verifrt.Reach("single-byte-final-record", ref.finalOpen && len(ref.recs[len(ref.recs)-1]) == 1)
}

// Records longer than / straddling the reader's buffer (16 bytes): inputs of 17..N bytes with at
// most two delimiters, delivered in chunks, all records terminated.
func VerifC20_ToNsqBufferBoundary() {
	lo := 17
	n := lo + verifrt.Choice("extra", verifrt.Bound("extra", 3, 6))
	in := verifrt.BytesN("in", n)
	delim := verifrt.Byte("delim")
	nDel := 0
	for i := 0; i < n-1; i++ {
		if in[i] == delim {
			nDel++
		}
	}
	verifrt.Assume(nDel <= verifrt.Bound("innerDelimiters", 1, 2))
	verifrt.Assume(in[n-1] == delim)
	ref := verifSplit(in, delim)
	producers := verifNewDests(1, []int{-1})
	chunk := 1 << 20
	if verifrt.Choice("chunk", 2) == 1 {
		chunk = 5
	}
	err, _ := verifRunTool(in, delim, chunk, producers)
	verifCollect()
	verifrt.Assert(err == io.EOF, "clean-input-ends-with-EOF")
	verifCheckDests(ref)
	verifrt.Reach("record-longer-than-buffer", len(ref.recs) == 1 && len(ref.recs[0]) > 16)
	verifrt.Reach("record-straddles-buffer-end", len(ref.recs) == 2 && len(ref.recs[0]) < 16 && len(ref.recs[0]) > 8)
}

// A destination that rejects one publish: the error is not swallowed (readAndPublish returns a
// non-nil, non-EOF error, on which main() stops), and everything handed over before it was
// exact and in order.
func VerifC20_ToNsqPublishError() {
	in := verifrt.Bytes("in", verifrt.Bound("input", 6, 9))
	delim := verifrt.Byte("delim")
	verifrt.Assume(len(in) == 0 || in[len(in)-1] == delim)
	ref := verifSplit(in, delim)
	nd := 1 + verifrt.Choice("ndest", 2)
	bad := verifrt.Choice("badDest", nd)
	failAt := []int{-1, -1}
	failAt[bad] = verifrt.Choice("failAt", 2)
	producers := verifNewDests(nd, failAt)
	err, _ := verifRunTool(in, delim, 1<<20, producers)
	verifCollect()
	d := verifDests[bad]
	if failAt[bad] < len(ref.recs) {
		verifrt.Assert(err != nil && err != io.EOF, "publish-error-is-surfaced")
		verifrt.Assert(len(d.bodies) == failAt[bad]+1, "no-publish-after-a-failed-one")
		verifrt.Reach("second-publish-rejected", failAt[bad] == 1)
	} else {
		verifrt.Assert(err == io.EOF, "clean-input-ends-with-EOF")
		verifrt.Reach("failure-never-triggered", true)
	}
	for _, dd := range verifDests {
		verifrt.Assert(len(dd.bodies) <= len(ref.recs), "nothing-but-the-records-published")
		for k := 0; k < len(dd.bodies) && k < len(ref.recs); k++ {
			verifrt.Assert(verifSameBytes(dd.bodies[k], ref.recs[k]), "terminated-record-byte-exact-in-order")
		}
	}
}
