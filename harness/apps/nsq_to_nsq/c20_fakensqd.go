//go:build verif

package main

import (
	"bufio"
	"encoding/binary"
	"io"
	"net"
	"strings"
	"sync"
)

// verifFakeNsqd: NATIVE REPLAY ONLY. A loopback TCP endpoint speaking just enough of the nsqd
// protocol for a real go-nsq Producer (magic, IDENTIFY, PUB, NOP). Every PUB is recorded in
// arrival order; its answer (OK / E_PUB_FAILED) is written when the harness releases it through
// answer(k, ok) - the same "destination" contract the gosmt-side model of PublishAsync has.
type verifFakeNsqd struct {
	ln     net.Listener
	mu     sync.Mutex
	topics []string
	bodies [][]byte
	gates  []chan bool
}

func verifStartFakeNsqd() *verifFakeNsqd {
	ln, err := net.Listen("tcp", "127.0.0.1:0")
	if err != nil {
		panic(err)
	}
	s := &verifFakeNsqd{ln: ln}
	for i := 0; i < 32; i++ {
		s.gates = append(s.gates, make(chan bool, 1))
	}
	go func() {
		for {
			c, err := ln.Accept()
			if err != nil {
				return
			}
			go s.serve(c)
		}
	}()
	return s
}

func (s *verifFakeNsqd) addr() string { return s.ln.Addr().String() }

func (s *verifFakeNsqd) answer(k int, ok bool) { s.gates[k] <- ok }

func (s *verifFakeNsqd) frame(c net.Conn, typ int32, data string) {
	buf := make([]byte, 8+len(data))
	binary.BigEndian.PutUint32(buf, uint32(4+len(data)))
	binary.BigEndian.PutUint32(buf[4:], uint32(typ))
	copy(buf[8:], data)
	c.Write(buf)
}

func (s *verifFakeNsqd) serve(c net.Conn) {
	defer c.Close()
	r := bufio.NewReader(c)
	magic := make([]byte, 4)
	if _, err := io.ReadFull(r, magic); err != nil {
		return
	}
	readBody := func() ([]byte, bool) {
		var n int32
		if binary.Read(r, binary.BigEndian, &n) != nil || n < 0 {
			return nil, false
		}
		b := make([]byte, n)
		if _, err := io.ReadFull(r, b); err != nil {
			return nil, false
		}
		return b, true
	}
	// answers leave in PUB order, as on a real connection, each when the harness releases it;
	// reading (and recording) of further PUBs goes on meanwhile
	order := make(chan int, 64)
	defer close(order)
	go func() {
		for k := range order {
			if <-s.gates[k] {
				s.frame(c, 0, "OK")
			} else {
				s.frame(c, 1, "E_PUB_FAILED verif")
			}
		}
	}()
	for {
		line, err := r.ReadString('\n')
		if err != nil {
			return
		}
		f := strings.Fields(line)
		if len(f) == 0 {
			continue
		}
		switch f[0] {
		case "IDENTIFY":
			if _, ok := readBody(); !ok {
				return
			}
			s.frame(c, 0, "OK")
		case "PUB":
			b, ok := readBody()
			if !ok {
				return
			}
			s.mu.Lock()
			k := len(s.bodies)
			t := ""
			if len(f) > 1 {
				t = f[1]
			}
			s.topics = append(s.topics, t)
			s.bodies = append(s.bodies, b)
			s.mu.Unlock()
			if k >= len(s.gates) {
				return
			}
			order <- k
		case "NOP", "CLS":
		default:
			s.frame(c, 1, "E_INVALID")
			return
		}
	}
}

func (s *verifFakeNsqd) log() ([]string, [][]byte) {
	s.mu.Lock()
	defer s.mu.Unlock()
	return append([]string{}, s.topics...), append([][]byte{}, s.bodies...)
}
