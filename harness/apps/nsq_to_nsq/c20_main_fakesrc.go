//go:build verif

package main

import (
	"bufio"
	"encoding/binary"
	"io"
	"net"
	"strings"
	"sync"
	"time"
)

// verifFakeSource: NATIVE REPLAY ONLY. A loopback TCP endpoint speaking just enough of the nsqd
// protocol for a real go-nsq Consumer (magic, IDENTIFY, SUB, RDY, FIN, REQ, NOP, CLS). It holds
// messages per topic; the first connection that subscribes to a topic gets that topic's messages
// once it is ready. FIN / REQ are recorded with the body of the message they name.
type verifFakeSource struct {
	ln   net.Listener
	mu   sync.Mutex
	held []verifHeldMsg
	fins [][]byte
	reqs int
	subs []string
	seq  int
}

type verifHeldMsg struct {
	topic string
	body  []byte
	id    [16]byte
	taken bool
}

func verifStartFakeSource() *verifFakeSource {
	ln, err := net.Listen("tcp", "127.0.0.1:0")
	if err != nil {
		panic(err)
	}
	s := &verifFakeSource{ln: ln}
	go func() {
		for {
			c, err := ln.Accept()
			if err != nil {
				return
			}
			go s.serve(c)
		}
	}()
	return s
}

func (s *verifFakeSource) addr() string { return s.ln.Addr().String() }

func (s *verifFakeSource) hold(topic string, body []byte) {
	s.mu.Lock()
	defer s.mu.Unlock()
	m := verifHeldMsg{topic: topic, body: append([]byte{}, body...)}
	copy(m.id[:], "verifsourcemsg00")
	m.id[15] = byte('a' + s.seq)
	s.seq++
	s.held = append(s.held, m)
}

func (s *verifFakeSource) frame(c net.Conn, typ int32, data []byte) {
	buf := make([]byte, 8+len(data))
	binary.BigEndian.PutUint32(buf, uint32(4+len(data)))
	binary.BigEndian.PutUint32(buf[4:], uint32(typ))
	copy(buf[8:], data)
	c.Write(buf)
}

func (s *verifFakeSource) serve(c net.Conn) {
	defer c.Close()
	r := bufio.NewReader(c)
	magic := make([]byte, 4)
	if _, err := io.ReadFull(r, magic); err != nil {
		return
	}
	var mine []int // indexes into held
	sent := false
	for {
		line, err := r.ReadString('\n')
		if err != nil {
			return
		}
		f := strings.Fields(line)
		if len(f) == 0 {
			continue
		}
		switch f[0] {
		case "IDENTIFY":
			var n int32
			if binary.Read(r, binary.BigEndian, &n) != nil || n < 0 {
				return
			}
			if _, err := io.ReadFull(r, make([]byte, n)); err != nil {
				return
			}
			s.frame(c, 0, []byte("OK"))
		case "SUB":
			if len(f) < 3 {
				s.frame(c, 1, []byte("E_INVALID"))
				return
			}
			s.mu.Lock()
			s.subs = append(s.subs, f[1])
			for i := range s.held {
				if s.held[i].topic == f[1] && !s.held[i].taken {
					s.held[i].taken = true
					mine = append(mine, i)
				}
			}
			s.mu.Unlock()
			s.frame(c, 0, []byte("OK"))
		case "RDY":
			if len(f) > 1 && f[1] != "0" && !sent {
				sent = true
				for _, i := range mine {
					s.mu.Lock()
					m := s.held[i]
					s.mu.Unlock()
					data := make([]byte, 26+len(m.body))
					binary.BigEndian.PutUint64(data, uint64(time.Now().UnixNano()))
					binary.BigEndian.PutUint16(data[8:], 1)
					copy(data[10:26], m.id[:])
					copy(data[26:], m.body)
					s.frame(c, 2, data)
				}
			}
		case "FIN", "REQ":
			if len(f) < 2 {
				return
			}
			s.mu.Lock()
			for _, m := range s.held {
				if string(m.id[:]) == f[1] {
					if f[0] == "FIN" {
						s.fins = append(s.fins, m.body)
					} else {
						s.reqs++
					}
				}
			}
			s.mu.Unlock()
		case "CLS":
			s.frame(c, 0, []byte("CLOSE_WAIT"))
		case "NOP", "TOUCH":
		default:
			s.frame(c, 1, []byte("E_INVALID"))
			return
		}
	}
}

func (s *verifFakeSource) state() ([][]byte, int) {
	s.mu.Lock()
	defer s.mu.Unlock()
	return append([][]byte{}, s.fins...), s.reqs
}

// verifCollectNative: wait until the destinations hold n publishes and the source n FINs (or a
// deadline passes: something did not arrive), leave a little room for surplus traffic, then read
// the destinations' logs and the source's FIN / REQ record into the world.
func (w *verifMainWorld) verifCollectNative(n int) {
	deadline := verifWallClock().Add(4 * time.Second)
	for {
		got := 0
		for _, d := range w.dests {
			_, bodies := d.log()
			got += len(bodies)
		}
		fins, _ := w.src.state()
		if (got >= n && len(fins) >= n) || verifWallClock().After(deadline) {
			break
		}
		time.Sleep(2 * time.Millisecond)
	}
	time.Sleep(100 * time.Millisecond)
	for _, d := range w.dests {
		topics, bodies := d.log()
		for k := range bodies {
			w.arrivals = append(w.arrivals, verifArrival{addr: d.addr(), topic: topics[k], body: bodies[k]})
		}
	}
	w.fins, w.reqs = w.src.state()
}

func (w *verifMainWorld) verifShutdownNative() {
	// main() is left waiting for its signal; the endpoints go away with the process
}
