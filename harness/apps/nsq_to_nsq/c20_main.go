//go:build verif

package main

import (
	"flag"
	"os"
	"time"

	"github.com/bitly/go-hostpool"
	"github.com/bitly/timer_metrics"
	"github.com/nsqio/go-nsq"
	"github.com/nsqio/nsq/internal/app"
	"github.com/nsqio/nsq/internal/verifrt"
)

// ---- the real main() between a source nsqd and destination nsqds ------------------------------
//
// What the statement says about the tool as a whole: a message of source topic T arrives at a
// destination, unmodified, under topic T when no --destination-topic is given and under the
// destination topic otherwise, and only then is it finished at the source. Which handler (with
// which destination topic) serves which source topic is decided in main(), so main() itself runs.
//
// The environment is the network: one source nsqd that holds one message per configured topic
// and hands it to whoever subscribes to that topic, and 1..2 destination nsqds that accept every
// publish. Natively these are loopback endpoints (verifFakeSource, verifFakeNsqd) and main() runs
// with the real go-nsq on top of them. Under gosmt the client library's entry points that main()
// uses are redirected to models of their documented contract:
//   NewConsumer(topic, channel)      a consumer of that topic
//   AddConcurrentHandlers(h, n)      h gets the messages of the consumer's topic
//   ConnectToNSQDs(addrs)            the consumer subscribes at these nsqds (none: no messages)
//   NewProducer(addr) / PublishAsync a publish to addr is recorded at destination addr and
//                                    answered OK on the caller's channel
// and the source's message of topic T is delivered through the handler of the first subscribed
// consumer of T (nsqd gives a channel's message to one subscriber).

type verifWiredConsumer struct {
	c         *nsq.Consumer
	topic     string
	channel   string
	handler   nsq.Handler
	nHandlers int
	nsqds     []string
}

type verifWiredProducer struct {
	p    *nsq.Producer
	addr string
}

type verifArrival struct {
	addr  string
	topic string
	body  []byte
}

type verifMainWorld struct {
	consumers []*verifWiredConsumer
	producers []*verifWiredProducer
	arrivals  []verifArrival
	fins      [][]byte // bodies of the source messages finished at the source
	reqs      int
	fatal     bool
	byMsg     map[*nsq.Message][]byte

	src   *verifFakeSource // native
	dests []*verifFakeNsqd // native
}

var verifMW *verifMainWorld

func (w *verifMainWorld) consumer(c *nsq.Consumer) *verifWiredConsumer {
	for _, x := range w.consumers {
		if x.c == c {
			return x
		}
	}
	panic("verif: unknown consumer")
}

// MessageDelegate of the modelled source nsqd
func (w *verifMainWorld) OnFinish(m *nsq.Message) { w.fins = append(w.fins, w.byMsg[m]) }
func (w *verifMainWorld) OnRequeue(m *nsq.Message, delay time.Duration, backoff bool) {
	w.reqs++
}
func (w *verifMainWorld) OnTouch(m *nsq.Message) {}

func verifInstallMainModels() {
	verifrt.Stub("github.com/nsqio/go-nsq.NewConfig", func() *nsq.Config { return &nsq.Config{} })
	verifrt.Stub("flag.Var", func(v flag.Value, name string, usage string) {})
	verifrt.Stub("flag.Parse", func() {})
	verifrt.Stub("os/signal.Notify", func(c chan<- os.Signal, sig ...os.Signal) {})
	verifrt.Stub("log.Fatal", func(v ...interface{}) {
		verifMW.fatal = true
		<-make(chan int) // the process is gone
	})
	verifrt.Stub("log.Fatalf", func(f string, v ...interface{}) {
		verifMW.fatal = true
		<-make(chan int)
	})
	verifrt.Stub("github.com/bitly/timer_metrics.NewTimerMetrics", func(statusEvery int, prefix string) *timer_metrics.TimerMetrics {
		return &timer_metrics.TimerMetrics{}
	})
	verifrt.Stub("github.com/bitly/go-hostpool.New", func(hosts []string) hostpool.HostPool {
		return &verifHostPool{hosts: hosts}
	})
	verifrt.Stub("github.com/bitly/go-hostpool.NewEpsilonGreedy", func(hosts []string, decay time.Duration, calc hostpool.EpsilonValueCalculator) hostpool.HostPool {
		return &verifHostPool{hosts: hosts}
	})
	verifrt.Stub("github.com/nsqio/go-nsq.NewProducer", func(addr string, cfg *nsq.Config) (*nsq.Producer, error) {
		p := &nsq.Producer{}
		verifMW.producers = append(verifMW.producers, &verifWiredProducer{p: p, addr: addr})
		return p, nil
	})
	verifrt.Stub("(*github.com/nsqio/go-nsq.Producer).PublishAsync", func(p *nsq.Producer, topic string, body []byte, doneChan chan *nsq.ProducerTransaction, args ...interface{}) error {
		w := verifMW
		for _, x := range w.producers {
			if x.p == p {
				cp := make([]byte, len(body))
				copy(cp, body)
				w.arrivals = append(w.arrivals, verifArrival{addr: x.addr, topic: topic, body: cp})
				t := &nsq.ProducerTransaction{Args: args}
				go func() { doneChan <- t }()
				return nil
			}
		}
		panic("verif: publish through an unknown producer")
	})
	verifrt.Stub("github.com/nsqio/go-nsq.NewConsumer", func(topic string, channel string, cfg *nsq.Config) (*nsq.Consumer, error) {
		c := &nsq.Consumer{}
		verifMW.consumers = append(verifMW.consumers, &verifWiredConsumer{c: c, topic: topic, channel: channel})
		return c, nil
	})
	verifrt.Stub("(*github.com/nsqio/go-nsq.Consumer).AddConcurrentHandlers", func(c *nsq.Consumer, h nsq.Handler, n int) {
		x := verifMW.consumer(c)
		x.handler, x.nHandlers = h, n
	})
	verifrt.Stub("(*github.com/nsqio/go-nsq.Consumer).AddHandler", func(c *nsq.Consumer, h nsq.Handler) {
		x := verifMW.consumer(c)
		x.handler, x.nHandlers = h, 1
	})
	verifrt.Stub("(*github.com/nsqio/go-nsq.Consumer).ConnectToNSQDs", func(c *nsq.Consumer, addrs []string) error {
		x := verifMW.consumer(c)
		x.nsqds = append(x.nsqds, addrs...)
		return nil
	})
	verifrt.Stub("(*github.com/nsqio/go-nsq.Consumer).ConnectToNSQLookupds", func(c *nsq.Consumer, addrs []string) error {
		return nil
	})
}

// verifSourceDelivers (gosmt side of the source nsqd): the message of topic t, body b, goes to the
// first consumer of t that subscribed at the source and has a handler; then what the client
// library does with the handler's result (error => requeue, nil => finish, unless the handler
// took over the response).
func (w *verifMainWorld) verifSourceDelivers(srcAddr, t string, b []byte) {
	for _, x := range w.consumers {
		subscribed := false
		for _, a := range x.nsqds {
			if a == srcAddr {
				subscribed = true
			}
		}
		if x.topic != t || !subscribed || x.handler == nil || x.nHandlers < 1 {
			continue
		}
		body := make([]byte, len(b))
		copy(body, b)
		var id nsq.MessageID
		id[0] = 'm'
		m := &nsq.Message{ID: id, Body: body, Attempts: 1, Delegate: w}
		w.byMsg[m] = b
		err := x.handler.HandleMessage(m)
		if err != nil {
			if !m.IsAutoResponseDisabled() {
				m.Requeue(-1)
			}
		} else if !m.IsAutoResponseDisabled() {
			m.Finish()
		}
		return
	}
}

func verifModeFlag(c int) string {
	switch c {
	case 0:
		return "round-robin"
	case 1:
		return "hostpool"
	}
	return "epsilon-greedy"
}

func verifSameString(a, b string) bool {
	if len(a) != len(b) {
		return false
	}
	same := true
	for i := 0; i < len(a); i++ {
		if a[i] != b[i] {
			same = false
		}
	}
	return same
}

func verifTopicChar(c byte) bool {
	return c == '.' || c == '_' || c == '-' || (c >= 'a' && c <= 'z') || (c >= 'A' && c <= 'Z') || (c >= '0' && c <= '9')
}

// a valid topic name of 1..max characters (the tool refuses others before it relays anything)
func verifTopicName(name string, max int) string {
	s := verifrt.String(name, max)
	verifrt.Assume(len(s) >= 1)
	for i := 0; i < len(s); i++ {
		verifrt.Assume(verifTopicChar(s[i]))
	}
	return s
}

// The tool as started from the command line: 1..3 --topic flags with ANY valid, pairwise
// different names, with or without --destination-topic (any valid name), every --mode, 1..2
// destination nsqds, one source nsqd holding one message (any 1 byte after a tag byte) per topic.
// Every message arrives at a configured destination, byte-exact, under its own topic's name (or
// under the destination topic when one was given), and is finished at the source - exactly once.
func VerifC20_NsqToNsqMainWiring() {
	if verifrt.Symbolic() {
		verifrt.Atomic(verifNsqToNsqMainWiring)
	} else {
		verifNsqToNsqMainWiring()
	}
}

func verifNsqToNsqMainWiring() {
	w := &verifMainWorld{byMsg: map[*nsq.Message][]byte{}}
	verifMW = w
	nTopics := 1 + verifrt.Choice("ntopics", verifrt.Bound("topics", 3, 3))
	withDest := verifrt.Choice("destTopic", 2) == 1
	modeC := verifrt.Choice("modeFlag", 3)
	nDest := 1 + verifrt.Choice("ndest", 2)
	// (epsilon-greedy differs from hostpool only in the pool main() constructs; the quick tier
	// runs it with up to 2 topics)
	verifrt.Assume(modeC != 2 || nTopics <= verifrt.Bound("epsilonGreedyTopics", 2, 3))

	var names []string
	for i := 0; i < nTopics; i++ {
		t := verifTopicName("topic", verifrt.Bound("topicLen", 2, 3))
		for _, o := range names {
			verifrt.Assume(!verifSameString(o, t))
		}
		names = append(names, t)
	}
	dest := ""
	if withDest {
		dest = verifTopicName("dest", verifrt.Bound("topicLen", 2, 3))
	}
	var bodies [][]byte
	for i := 0; i < nTopics; i++ {
		bodies = append(bodies, []byte{byte('0' + i), verifrt.Byte("payload")})
	}

	// the network
	srcAddr := "source.verif:4150"
	var destAddrs []string
	if verifrt.Symbolic() {
		verifInstallMainModels()
		for i := 0; i < nDest; i++ {
			destAddrs = append(destAddrs, "dest"+string(rune('0'+i))+".verif:4150")
		}
	} else {
		w.src = verifStartFakeSource()
		for i := 0; i < nTopics; i++ {
			w.src.hold(names[i], bodies[i])
		}
		srcAddr = w.src.addr()
		for i := 0; i < nDest; i++ {
			d := verifStartFakeNsqd()
			for k := range d.gates {
				d.gates[k] <- true // accepts every publish
			}
			w.dests = append(w.dests, d)
			destAddrs = append(destAddrs, d.addr())
		}
	}

	// the command line
	fFalse, fChannel, fDest, fMax, fEvery, fMode, e1, e2 := false, "c20chan", dest, 200, 250, verifModeFlag(modeC), "", ""
	showVersion, channel, destTopic, maxInFlight, statusEvery, mode = &fFalse, &fChannel, &fDest, &fMax, &fEvery, &fMode
	requireJSONField, requireJSONValue = &e1, &e2
	whitelistJSONFields = nil
	lookupdHTTPAddrs = nil
	nsqdTCPAddrs = app.StringArray{srcAddr}
	destNsqdTCPAddrs = app.StringArray(destAddrs)
	topics = app.StringArray(append([]string{}, names...))

	if verifrt.Symbolic() {
		go main()
		verifrt.Rest() // main has wired everything and waits for a signal
		verifrt.Assert(!w.fatal, "valid-command-line-is-not-refused")
		for i := 0; i < nTopics; i++ {
			w.verifSourceDelivers(srcAddr, names[i], bodies[i])
			verifrt.Rest()
		}
	} else {
		os.Args = os.Args[:1]
		go main()
		w.verifCollectNative(nTopics)
	}

	// ---- the statement, at the destinations and at the source ----
	for i := 0; i < nTopics; i++ {
		want := names[i]
		if withDest {
			want = dest
		}
		arrived, elsewhere := 0, 0
		for _, a := range w.arrivals {
			if len(a.body) >= 1 && a.body[0] == bodies[i][0] {
				known := false
				for _, d := range destAddrs {
					if d == a.addr {
						known = true
					}
				}
				verifrt.Assert(known, "arrives-at-a-configured-destination")
				verifrt.Assert(verifSameBytes(a.body, bodies[i]), "arrives-unmodified")
				if verifSameString(a.topic, want) {
					arrived++
				} else {
					elsewhere++
				}
			}
		}
		if withDest {
			verifrt.Assert(elsewhere == 0, "with-destination-topic-nothing-arrives-under-another-topic")
			verifrt.Assert(arrived >= 1, "message-arrives-under-the-destination-topic")
		} else {
			verifrt.Assert(elsewhere == 0, "message-of-a-topic-never-arrives-under-another-topics-name")
			verifrt.Assert(arrived >= 1, "message-arrives-under-its-own-topics-name")
		}
		fin := 0
		for _, f := range w.fins {
			if verifSameBytes(f, bodies[i]) {
				fin++
			}
		}
		verifrt.Assert(fin <= 1, "finished-at-most-once")
		verifrt.Assert(fin == 0 || arrived >= 1, "finished-only-when-it-arrived-where-it-belongs")
		verifrt.Assert(fin == 1, "accepted-message-is-finished-at-the-source")
	}
	verifrt.Assert(len(w.arrivals) == nTopics, "one-publish-per-source-message")
	verifrt.Assert(w.reqs == 0, "nothing-requeued-with-healthy-destinations")

	verifrt.Reach("three-topics-keep-their-names", nTopics == 3 && !withDest && len(w.arrivals) == 3)
	verifrt.Reach("two-topics-into-one-destination-topic", nTopics == 2 && withDest && len(w.arrivals) == 2)
	verifrt.Reach("round-robin-two-destinations", modeC == 0 && nDest == 2 && nTopics >= 2 && len(w.arrivals) >= 2 && w.arrivals[0].addr != w.arrivals[1].addr)
	verifrt.Reach("epsilon-greedy", modeC == 2 && len(w.arrivals) >= 1)
	w.verifShutdownNative()
}
