//go:build verif

package main

import (
	"errors"
	"io"
	"log"
	"strconv"
	"sync"
	"time"

	"github.com/bitly/go-hostpool"
	"github.com/bitly/timer_metrics"
	"github.com/nsqio/go-nsq"
	"github.com/nsqio/nsq/internal/app"
	"github.com/nsqio/nsq/internal/verifrt"
)

// ---- environment: destinations -----------------------------------------------------------
//
// Contract of (*nsq.Producer).PublishAsync as the tool sees it: either a synchronous error (not
// connected / stopped: nothing is in flight), or nil and later exactly one ProducerTransaction
// on doneChan carrying the caller's args and the destination's verdict (Error nil = accepted).
// A connection answers in publish order. Under gosmt PublishAsync is redirected to
// verifPublishAsyncModel; natively real Producers talk to loopback verifFakeNsqd endpoints whose
// answers the harness releases, and a synchronous error is produced by stopping the Producer.

type verifPub struct {
	dest     int
	k        int // ordinal on that destination
	topic    string
	body     []byte
	delivery int // ghost: the delivery being handled when the publish was made
	done     chan *nsq.ProducerTransaction
	args     []interface{}
	answered bool
	accepted bool
}

type verifDestN struct {
	p        *nsq.Producer
	addr     string
	srv      *verifFakeNsqd
	downFrom int // deliveries >= downFrom get a synchronous error from this destination
	seen     int // PUBs of this destination already brought into world.pubs
	stopped  bool
}

// one delivery attempt of a source message
type verifDelivery struct {
	src  int
	m    *nsq.Message
	err  error
	fin  int
	req  int
	reqDelay   time.Duration
	reqBackoff bool
}

type verifSource struct {
	body     []byte
	inFlight bool
	finished bool
	accepted int // destinations' "accepted" verdicts for an exact copy of this message
	attempts int
}

type verifWorld struct {
	mu         sync.Mutex
	dests      []*verifDestN
	pubs       []*verifPub
	deliveries []*verifDelivery
	sources    []*verifSource
	cur        int
	touches    int
	auto       []bool // non-nil: destination 0 answers its k-th publish at once with auto[k]
}

var verifW *verifWorld

func verifPublishAsyncModel(p *nsq.Producer, topic string, body []byte, doneChan chan *nsq.ProducerTransaction, args ...interface{}) error {
	w := verifW
	for i, d := range w.dests {
		if d.p == p {
			if w.cur >= d.downFrom {
				return errors.New("verif: not connected")
			}
			cp := make([]byte, len(body))
			copy(cp, body)
			k := 0
			for _, q := range w.pubs {
				if q.dest == i {
					k++
				}
			}
			q := &verifPub{dest: i, k: k, topic: topic, body: cp, delivery: w.cur, done: doneChan, args: args}
			w.pubs = append(w.pubs, q)
			d.seen++
			if w.auto != nil {
				// the answer is on its way while the caller is still inside HandleMessage
				q.answered, q.accepted = true, w.auto[k]
				t := &nsq.ProducerTransaction{Args: args}
				if !q.accepted {
					t.Error = errors.New("verif: E_PUB_FAILED")
				}
				go func() { doneChan <- t }()
			}
			return nil
		}
	}
	panic("verif: publish to an unknown producer")
}

// MessageDelegate: what the source nsqd would see
func (w *verifWorld) find(m *nsq.Message) *verifDelivery {
	for _, d := range w.deliveries {
		if d.m == m {
			return d
		}
	}
	panic("verif: response for an unknown message")
}

func (w *verifWorld) lock() {
	if !verifrt.Symbolic() {
		w.mu.Lock()
	}
}
func (w *verifWorld) unlock() {
	if !verifrt.Symbolic() {
		w.mu.Unlock()
	}
}

func (w *verifWorld) OnFinish(m *nsq.Message) {
	w.lock()
	defer w.unlock()
	d := w.find(m)
	d.fin++
	// the statement's core: FIN only after a destination accepted this very message
	ok := false
	for _, q := range w.pubs {
		if q.delivery == w.index(d) && q.answered && q.accepted && verifSameBytes(q.body, w.sources[d.src].body) {
			ok = true
		}
	}
	if w.auto == nil { // (with immediate answers the log is read back afterwards: judged in check)
		verifrt.Assert(ok, "finish-only-after-destination-accepted")
	}
}

func (w *verifWorld) OnRequeue(m *nsq.Message, delay time.Duration, backoff bool) {
	w.lock()
	defer w.unlock()
	d := w.find(m)
	d.req++
	d.reqDelay, d.reqBackoff = delay, backoff
}

func (w *verifWorld) OnTouch(m *nsq.Message) {
	w.lock()
	defer w.unlock()
	w.touches++
}

func (w *verifWorld) index(d *verifDelivery) int {
	for i, x := range w.deliveries {
		if x == d {
			return i
		}
	}
	return -1
}

func verifSameBytes(a, b []byte) bool {
	if len(a) != len(b) {
		return false
	}
	same := true
	for i := range a {
		if a[i] != b[i] {
			same = false
		}
	}
	return same
}

func verifNewWorld(nDest int, downFrom []int) (*verifWorld, app.StringArray, map[string]*nsq.Producer) {
	w := &verifWorld{}
	verifW = w
	if verifrt.Symbolic() {
		verifrt.Stub("(*github.com/nsqio/go-nsq.Producer).PublishAsync", verifPublishAsyncModel)
	}
	var addrs app.StringArray
	producers := map[string]*nsq.Producer{}
	for i := 0; i < nDest; i++ {
		d := &verifDestN{downFrom: downFrom[i]}
		if verifrt.Symbolic() {
			d.p = &nsq.Producer{}
			d.addr = "dest" + strconv.Itoa(i)
		} else {
			d.srv = verifStartFakeNsqd()
			d.addr = d.srv.addr()
			p, err := nsq.NewProducer(d.addr, nsq.NewConfig())
			if err != nil {
				panic(err)
			}
			p.SetLogger(log.New(io.Discard, "", 0), nsq.LogLevelError)
			d.p = p
		}
		w.dests = append(w.dests, d)
		addrs = append(addrs, d.addr)
		producers[d.addr] = d.p
	}
	return w, addrs, producers
}

// beforeDelivery: a destination that goes down loses its connection - every publish still in
// flight on it fails (natively: Producer.Stop does exactly that) - and from now on answers
// PublishAsync with a synchronous error.
func (w *verifWorld) beforeDelivery(i int) {
	w.cur = i
	lost := false
	for di, d := range w.dests {
		if i >= d.downFrom && !d.stopped {
			d.stopped = true
			for _, q := range w.pubs {
				if q.dest == di && !q.answered {
					w.lock()
					q.answered, q.accepted = true, false
					w.unlock()
					lost = true
					if verifrt.Symbolic() {
						q.done <- &nsq.ProducerTransaction{Args: q.args, Error: errors.New("verif: not connected")}
					}
				}
			}
			if !verifrt.Symbolic() {
				d.p.Stop()
			}
		}
	}
	if lost {
		w.settle()
	}
}

// refreshSources: the source nsqd's view - a message is in flight while its latest delivery has
// no response, and gone once a delivery was finished.
func (w *verifWorld) refreshSources() {
	w.lock()
	defer w.unlock()
	for i, s := range w.sources {
		s.inFlight, s.finished = false, false
		for _, d := range w.deliveries {
			if d.src == i {
				if d.fin+d.req == 0 {
					s.inFlight = true
				}
				if d.fin > 0 {
					s.finished = true
				}
			}
		}
	}
}

// observePubs: natively read the destinations' logs (waiting briefly for a publish that is on
// its way when one is expected); new PUBs belong to the delivery just handled.
func (w *verifWorld) observePubs(expectNew bool) {
	if verifrt.Symbolic() {
		return
	}
	// (bounded by a count of sleeps, not by time.Now: a replay may run on the model's clock)
	for tries := 0; ; tries++ {
		found := false
		for i, d := range w.dests {
			topics, bodies := d.srv.log()
			for d.seen < len(bodies) {
				w.lock()
				q := &verifPub{dest: i, k: d.seen, topic: topics[d.seen], body: bodies[d.seen], delivery: w.cur}
				if w.auto != nil {
					q.answered, q.accepted = true, w.auto[q.k]
				}
				w.pubs = append(w.pubs, q)
				w.unlock()
				d.seen++
				found = true
			}
		}
		if found || !expectNew || tries >= 1500 {
			return
		}
		time.Sleep(time.Millisecond)
	}
}

// answer: the destination gives its verdict on a publish.
func (w *verifWorld) answer(q *verifPub, accept bool) {
	w.lock()
	q.answered, q.accepted = true, accept
	w.unlock()
	if verifrt.Symbolic() {
		t := &nsq.ProducerTransaction{Args: q.args}
		if !accept {
			t.Error = errors.New("verif: E_PUB_FAILED")
		}
		q.done <- t
		return
	}
	w.dests[q.dest].srv.answer(q.k, accept)
}

// settle: let the responders work off what has been answered.
func (w *verifWorld) settle() {
	if verifrt.Symbolic() {
		verifrt.Join()
		return
	}
	deadline := verifWallClock().Add(1500 * time.Millisecond)
	for {
		w.lock()
		pending := false
		for _, q := range w.pubs {
			if q.answered {
				d := w.deliveries[q.delivery]
				if d.fin+d.req == 0 {
					pending = true
				}
			}
		}
		w.unlock()
		if !pending {
			// leave a little room for a (wrong) second response to show up
			time.Sleep(20 * time.Millisecond)
			return
		}
		if verifWallClock().After(deadline) {
			return
		}
		time.Sleep(time.Millisecond)
	}
}

func (w *verifWorld) shutdown() {
	if verifrt.Symbolic() {
		return
	}
	for _, d := range w.dests {
		for k := 0; k < 32; k++ {
			select {
			case d.srv.gates[k] <- false:
			default:
			}
		}
		if !d.stopped {
			d.stopped = true
			d.p.Stop()
		}
		d.srv.ln.Close()
	}
}

// oldest unanswered publish of a destination (connections answer in order)
func (w *verifWorld) oldestOpen(dest int) *verifPub {
	for _, q := range w.pubs {
		if q.dest == dest && !q.answered {
			return q
		}
	}
	return nil
}

// ---- environment: host pool (any selection policy: round robin, epsilon greedy, ...) --------

type verifHostPool struct {
	hostpool.HostPool // only Get is used by the tool
	hosts             []string
}

type verifHPResp struct {
	hostpool.HostPoolResponse
	host string
}

func (r *verifHPResp) Host() string   { return r.host }
func (r *verifHPResp) Mark(err error) {}

func (hp *verifHostPool) Get() hostpool.HostPoolResponse {
	i := 0
	if len(hp.hosts) > 1 {
		i = verifrt.Choice("host", len(hp.hosts))
	}
	return &verifHPResp{host: hp.hosts[i]}
}

// ---- the relay under test -------------------------------------------------------------------

func verifNewRelay(mode int, addrs app.StringArray, producers map[string]*nsq.Producer) *TopicHandler {
	empty1, empty2 := "", ""
	requireJSONField, requireJSONValue = &empty1, &empty2
	whitelistJSONFields = nil
	status := map[string]*timer_metrics.TimerMetrics{}
	for _, a := range addrs {
		status[a] = &timer_metrics.TimerMetrics{}
	}
	ph := &PublishHandler{
		addresses:        addrs,
		producers:        producers,
		mode:             mode,
		hostPool:         &verifHostPool{hosts: addrs},
		respChan:         make(chan *nsq.ProducerTransaction, len(addrs)),
		perAddressStatus: status,
		timermetrics:     &timer_metrics.TimerMetrics{},
	}
	for i := 0; i < len(addrs); i++ {
		go ph.responder()
	}
	return &TopicHandler{publishHandler: ph, destinationTopic: "c20dest"}
}

// deliver: one delivery attempt of source message src through the real handler, followed by what
// the client library does with the handler's result (go-nsq's documented contract: error =>
// requeue, nil => finish, both only while auto-response is still enabled).
func (w *verifWorld) deliver(th *TopicHandler, src int) *verifDelivery {
	w.beforeDelivery(len(w.deliveries))
	s := w.sources[src]
	s.attempts++
	body := make([]byte, len(s.body))
	copy(body, s.body)
	var id nsq.MessageID
	id[0], id[1] = byte('a'+src), byte('0'+s.attempts)
	m := &nsq.Message{ID: id, Body: body, Attempts: uint16(s.attempts), Delegate: w}
	d := &verifDelivery{src: src, m: m}
	w.lock()
	w.deliveries = append(w.deliveries, d)
	w.unlock()
	nPubs := len(w.pubs)
	d.err = th.HandleMessage(m)
	if d.err != nil {
		if !m.IsAutoResponseDisabled() {
			m.Requeue(-1)
		}
	} else if !m.IsAutoResponseDisabled() {
		m.Finish()
	}
	w.observePubs(d.err == nil)

	if d.err == nil {
		verifrt.Assert(len(w.pubs) == nPubs+1, "accepted-delivery-is-published-to-exactly-one-destination")
		if len(w.pubs) == nPubs+1 {
			q := w.pubs[nPubs]
			verifrt.Assert(verifSameBytes(q.body, s.body), "published-body-is-the-message-unmodified")
			verifrt.Assert(q.topic == "c20dest", "published-on-the-destination-topic")
		}
		if w.auto == nil {
			w.lock()
			verifrt.Assert(d.fin == 0, "no-finish-before-the-destination-answered")
			verifrt.Assert(d.req == 0, "no-requeue-before-the-destination-answered")
			w.unlock()
		}
	} else {
		w.lock()
		verifrt.Assert(d.fin == 0, "publish-error-never-finishes")
		verifrt.Assert(d.req == 1, "publish-error-requeues")
		w.unlock()
	}
	return d
}

// afterAnswers: bookkeeping of the source queue + the per-delivery verdict oracle.
func (w *verifWorld) check() {
	w.lock()
	defer w.unlock()
	for i, d := range w.deliveries {
		s := w.sources[d.src]
		var q *verifPub
		for _, x := range w.pubs {
			if x.delivery == i {
				q = x
			}
		}
		verifrt.Assert(d.fin+d.req <= 1, "at-most-one-response-per-delivery")
		if d.err != nil || q == nil {
			continue
		}
		if q.answered {
			if q.accepted {
				verifrt.Assert(d.fin == 1 && d.req == 0, "accepted-publish-finishes-the-message")
			} else {
				verifrt.Assert(d.req == 1 && d.fin == 0, "rejected-publish-requeues-the-message")
			}
		} else {
			verifrt.Assert(d.fin == 0 && d.req == 0, "unanswered-publish-leaves-the-message-in-flight")
		}
		if d.fin > 0 {
			s.finished = true
		}
	}
	for _, q := range w.pubs {
		if src := w.sources[w.deliveries[q.delivery].src]; q.answered && q.accepted && verifSameBytes(q.body, src.body) {
			src.accepted++
		}
	}
	for _, s := range w.sources {
		// no source message is given up (finished) unless some destination accepted an exact copy
		verifrt.Assert(!s.finished || s.accepted >= 1, "finished-source-message-arrived-at-a-destination")
	}
}

func verifModeOf(choice int) int {
	if choice == 0 {
		return ModeRoundRobin
	}
	return ModeHostPool
}

// Sequences of deliveries (including redeliveries of requeued messages) against 1 or 2
// destinations that accept, reject, are down (synchronous error) and recover in any pattern,
// answers given at once or later, in round-robin and host-pool mode.
func VerifC20_NsqToNsqRelay() { verifrt.Atomic(verifNsqToNsqRelay) }

func verifNsqToNsqRelay() {
	nDest := 1 + verifrt.Choice("ndest", 2)
	mode := verifModeOf(verifrt.Choice("mode", 2))
	steps := verifrt.Bound("deliveries", 2, 3)
	downFrom := []int{steps, steps}
	for i := 0; i < nDest; i++ {
		downFrom[i] = verifrt.Choice("downFrom", steps+1)
	}
	w, addrs, producers := verifNewWorld(nDest, downFrom)
	nSrc := 2
	for i := 0; i < nSrc; i++ {
		w.sources = append(w.sources, &verifSource{body: verifrt.BytesN("body", 2)})
	}
	th := verifNewRelay(mode, addrs, producers)
	th.publishHandler.counter = uint64(verifrt.Choice("counter0", 2))

	sawRedeliveryAccepted := false
	sawDeferred := false
	for step := 0; step < steps; step++ {
		// the source nsqd sends the first message that is neither finished nor in flight
		w.refreshSources()
		src := -1
		for i, s := range w.sources {
			if src < 0 && !s.finished && !s.inFlight {
				src = i
			}
		}
		if src < 0 {
			break
		}
		d := w.deliver(th, src)
		if d.err != nil {
			continue // requeued by the client library
		}
		// the destination answers now, or later (after further deliveries)
		if verifrt.Choice("answerNow", 2) == 0 {
			q := w.pubs[len(w.pubs)-1]
			// connections answer in order: everything older on that destination is answered first
			for {
				o := w.oldestOpen(q.dest)
				if o == nil {
					break
				}
				acc := verifrt.Choice("accept", 2) == 0
				w.answer(o, acc)
				w.settle()
				od := w.deliveries[o.delivery]
				if acc && w.sources[od.src].attempts > 1 {
					sawRedeliveryAccepted = true
				}
				if o == q {
					break
				}
			}
		} else {
			sawDeferred = true
		}
	}
	// outstanding answers arrive, destinations in any order
	for {
		var open []int
		for i := range w.dests {
			if w.oldestOpen(i) != nil {
				open = append(open, i)
			}
		}
		if len(open) == 0 {
			break
		}
		pick := open[0]
		if len(open) > 1 {
			pick = open[verifrt.Choice("answerDest", len(open))]
		}
		w.answer(w.oldestOpen(pick), verifrt.Choice("accept", 2) == 0)
	}
	w.settle()
	w.check()
	w.shutdown()

	nFin, nReq := 0, 0
	for _, d := range w.deliveries {
		nFin += d.fin
		nReq += d.req
	}
	verifrt.Reach("a-message-finished-and-another-requeued", nFin >= 1 && nReq >= 1)
	verifrt.Reach("requeued-message-accepted-on-redelivery", sawRedeliveryAccepted)
	verifrt.Reach("answers-arrive-after-later-deliveries", sawDeferred && nFin >= 1 && len(w.pubs) >= 2)
	verifrt.Reach("synchronous-publish-error", len(w.deliveries) > 0 && w.deliveries[0].err != nil)
	verifrt.Reach("host-pool-two-destinations", mode == ModeHostPool && nDest == 2 && nFin >= 1)
}

// The answer races the handler: one destination that answers each publish immediately, so the
// responder may run anywhere between PublishAsync returning and HandleMessage returning (all
// interleavings at synchronisation points within the preemption bound). Each message still gets
// exactly one response, FIN iff the destination accepted.
func VerifC20_NsqToNsqAnswerRacesHandler() {
	n := verifrt.Bound("messages", 1, 2)
	w, addrs, producers := verifNewWorld(1, []int{n, n})
	w.auto = []bool{}
	for i := 0; i < n; i++ {
		acc := verifrt.Choice("accept", 2) == 0
		w.auto = append(w.auto, acc)
		if !verifrt.Symbolic() {
			w.dests[0].srv.answer(i, acc)
		}
		w.sources = append(w.sources, &verifSource{body: verifrt.BytesN("body", 2)})
	}
	th := verifNewRelay(ModeRoundRobin, addrs, producers)
	for i := 0; i < n; i++ {
		w.deliver(th, i)
	}
	w.settle()
	w.check()
	w.shutdown()
	nFin, nReq := 0, 0
	for _, d := range w.deliveries {
		nFin += d.fin
		nReq += d.req
	}
	verifrt.Assert(nFin+nReq == n, "every-message-answered-once")
	verifrt.Reach("answered-inside-the-handler-finished", nFin == n)
	verifrt.Reach("answered-inside-the-handler-requeued", nReq == n)
}

// verifWallClock: the real clock for the native harness's own waiting (the replay overlay rewrites
// every literal time.Now() call of the package - harness files included - to the model clock).
var verifWallClock = time.Now
