//go:build verif

package main

import (
	"strings"

	"github.com/nsqio/nsq/internal/verifrt"
)

// VerifC19_NoOverwrite: updateFile / Write / Sync / Close called the way the router calls them
// (two open-write-close cycles), with ANY subset of the colliding names already present in the
// work dir and the output dir (revisions 0..2 of the current name), for gzip on/off, work-dir
// on/off, rotate-interval on/off, rotate-size off / smaller than an existing file:
//   - what existed before is still there with its old content as a prefix (never truncated,
//     replaced or unlinked), and unchanged byte for byte whenever the mode is "exclusive create";
//   - every record written and synced is in a readable file, durable, and - with a work dir -
//     has arrived in the output dir under a name that was free;
//   - a crash after any unlink/replace effect loses neither (disk model, symbolic runs only).
func VerifC19_NoOverwrite() { verifrt.Atomic(verifC19NoOverwrite) }

func verifC19NoOverwrite() {
	cfg := verifCfg{
		gzip:        verifrt.Choice("gzip", 2) == 1,
		workDir:     verifrt.Choice("workdir", 2) == 1,
		rotateEvery: verifrt.Choice("rotateInterval", 2) == 1,
		maxInFlight: 1,
	}
	if verifrt.Choice("rotateSize", 2) == 1 {
		cfg.rotateSize = 2 // existing files (3 bytes) are already over the limit
	}
	r := verifNewRun(cfg)
	defer r.cleanup()
	f := r.newLogger("t")
	r.f = f
	revs := verifrt.Bound("revisions", 2, 3)
	// any subset of colliding names exists beforehand
	var existed []string
	dirs := []string{r.work}
	if cfg.workDir {
		dirs = append(dirs, r.out)
	}
	for _, dir := range dirs {
		for rev := 0; rev < revs; rev++ {
			if verifrt.Choice("exists", 2) == 1 {
				p := r.fileName(f, dir, "00", rev)
				if r.exists(p) {
					continue // without <REV> in the name all revisions are the same file
				}
				existed = append(existed, p)
				r.preExisting(p, []byte{'P', byte('0' + len(existed)), ';'})
			}
		}
	}
	exclusive := cfg.gzip || cfg.rotateEvery
	before := r.snapshot()
	late := 0

	for cycle := 0; cycle < 2; cycle++ {
		f.updateFile()
		m := r.newMessage(verifrt.BytesN("body", 1))
		i := len(r.msgs) - 1
		_, err := f.Write(m.Body)
		verifrt.Assert(err == nil, "write-succeeds")
		_, err = f.Write([]byte("\n"))
		verifrt.Assert(err == nil, "newline-write-succeeds")
		verifrt.Assert(f.Sync() == nil, "sync-succeeds")
		// ghost: from here on the channel may stop owing the message
		files := r.snapshot()
		verifrt.Assert(r.recordIn(files, r.recs[i], true), "synced-record-is-durable-in-a-readable-file")
		r.fin[i] = true
		r.nFin++
		// a file may appear in the output dir under the hand-off name while the work file is open
		switch verifrt.Choice("late", 3) {
		case 1:
			if r.intrude(false) {
				late++
			}
		case 2:
			if r.intrude(true) {
				late++
			}
		}
		f.Close()
		r.stateCheck()
		// the router clears f.out itself only on some paths; make the second cycle start
		// from "no file open" as after a restart of the logger
		f.out = nil
	}

	after := r.snapshot()
	// nothing that existed was touched in exclusive-create modes; in append mode only the
	// work-dir file of the chosen name may have grown
	for _, b := range before {
		found := false
		same := false
		for _, a := range after {
			if a.path == b.path {
				found = true
				same = len(a.raw) == len(b.raw) && verifHasPrefix(a.raw, b.raw)
			}
		}
		if exclusive || (cfg.workDir && strings.HasPrefix(b.path, r.out+"/")) {
			verifrt.Assert(found && same, "existing-file-untouched-under-exclusive-create")
		}
	}
	// every finished record ended up in the output dir
	inOut := true
	for i := range r.recs {
		var outFiles []verifFile
		for _, a := range after {
			if strings.HasPrefix(a.path, r.out+"/") {
				outFiles = append(outFiles, a)
			}
		}
		inOut = verifAnd(inOut, r.recordIn(outFiles, r.recs[i], true))
	}
	verifrt.Assert(inOut, "closed-file-arrives-in-output-dir")
	verifrt.Observe("files", len(after))
	verifrt.Reach("no-collision", len(existed) == 0 && late == 0)
	verifrt.Reach("collision-at-hand-off-resolved-by-next-revision", late == 2 && verifGhost(r.links == 2))
	verifrt.Reach("collision-in-output-dir-skipped", cfg.workDir && len(existed) > 0 && verifGhost(r.links == 2))
	verifrt.Reach("all-candidate-names-taken", len(existed) == len(dirs)*revs)
	verifrt.Reach("appended-to-existing-file", !exclusive && len(existed) > 0 && len(after) == len(before))
}

// VerifC19_OneDirectoryTwoSpellings: --work-dir and --output-dir name the SAME directory under
// two spellings (a trailing slash here; a symlink natively behaves alike). The logger then runs in
// work-dir mode and "moves" every closed file onto itself: link(src, dst) fails with EEXIST
// because dst IS src. Whatever the hand-off does about that, a record that was written, synced
// and answered FIN must still be in a readable file afterwards - an EEXIST at the hand-off never
// licenses removing the source. Two open-write-sync-close cycles, gzip on/off, rotate-interval
// on/off (disk model with inode identity: os.SameFile is answered from it).
func VerifC19_OneDirectoryTwoSpellings() { verifrt.Atomic(verifC19AliasDirs) }

func verifC19AliasDirs() {
	cfg := verifCfg{
		aliasDirs:   true,
		gzip:        verifrt.Choice("gzip", 2) == 1,
		rotateEvery: verifrt.Choice("rotateInterval", 2) == 1,
		maxInFlight: 1,
	}
	r := verifNewRun(cfg)
	defer r.cleanup()
	f := r.newLogger("t")
	r.f = f
	for cycle := 0; cycle < 2; cycle++ {
		f.updateFile()
		m := r.newMessage(verifrt.BytesN("body", 1))
		i := len(r.msgs) - 1
		_, err := f.Write(m.Body)
		verifrt.Assert(err == nil, "write-succeeds")
		_, err = f.Write([]byte("\n"))
		verifrt.Assert(err == nil, "newline-write-succeeds")
		verifrt.Assert(f.Sync() == nil, "sync-succeeds")
		r.fin[i] = true
		r.nFin++
		f.Close()
		f.out = nil
		r.stateCheck() // (the same durability oracle the disk model applies after every unlink)
		files := r.snapshot()
		for k := 0; k <= i; k++ {
			verifrt.Assert(r.recordIn(files, r.recs[k], true), "finished-record-survives-the-hand-off-onto-itself")
		}
	}
	verifrt.Reach("two-files-closed-in-the-aliased-directory", r.nFin == 2)
}
