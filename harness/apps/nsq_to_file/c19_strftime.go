//go:build verif

package main

import (
	"time"

	"github.com/nsqio/nsq/internal/verifrt"
)

// VerifC19_DatetimeInName: the <DATETIME> part of the file name is what decides "same file or
// next file". strftime must translate the documented directives of the default format (and of
// the second-resolution variants people use for fine rotation) to the Go layout that prints
// exactly those fields, keep every other character - including a stray or trailing '%' -
// literally, and never panic on any short format string; and currentFilename must substitute it
// for every <DATETIME> in the format.
func VerifC19_DatetimeInName() {
	r := verifNewRun(verifCfg{maxInFlight: 1}) // (also fixes the model clock's range before its first reading)
	defer r.cleanup()
	layoutOf := func(format string) string {
		if verifrt.Symbolic() {
			var got string
			verifrt.Stub("(time.Time).Format", func(t time.Time, layout string) string { got = layout; return "X" })
			strftime(format, verifrt.Now())
			return got
		}
		// natively the layout is observed through its effect on a date whose fields all differ
		verifrt.Now() // (keeps the model clock readings aligned with the symbolic run)
		return strftime(format, time.Date(2009, time.February, 7, 18, 41, 56, 0, time.UTC))
	}
	want := func(layout string) string {
		if verifrt.Symbolic() {
			return layout
		}
		return time.Date(2009, time.February, 7, 18, 41, 56, 0, time.UTC).Format(layout)
	}
	verifrt.Assert(layoutOf("%Y-%m-%d_%H") == want("2006-01-02_15"), "default-datetime-format-is-year-month-day-hour")
	verifrt.Assert(layoutOf("%Y%m%d%H%M%S") == want("20060102150405"), "second-resolution-format")
	verifrt.Assert(layoutOf("%y.%b.%d") == want("06.Jan.02"), "short-year-month-name")
	verifrt.Assert(layoutOf("100%") == want("100%"), "trailing-percent-kept")
	verifrt.Assert(layoutOf("%%H") == want("%H"), "escaped-percent")
	verifrt.Assert(layoutOf("%Q-x") == want("%Q-x"), "unknown-directive-kept")
	// any three characters: no panic, and characters that are not part of a directive survive
	f := verifrt.StringN("format", 3)
	verifrt.Assume(f[0] != '%' && f[1] != '%' && f[2] != '%')
	var out string
	panicked := verifrt.Panics(func() { out = layoutOf(f) })
	verifrt.Assert(!panicked, "strftime-never-panics")
	if verifrt.Symbolic() {
		verifrt.Assert(out == f, "format-without-directives-is-literal")
	}
	// currentFilename replaces every <DATETIME>
	if verifrt.Symbolic() {
		verifrt.Stub("(time.Time).Format", verifTimeFormat)
	}
	r.opts.FilenameFormat = "<DATETIME>/<TOPIC><REV>.<DATETIME>.log"
	r.opts.RotateSize = 1
	fl := r.newLogger("t")
	name := fl.currentFilename()
	verifrt.Assert(name == "00/t<REV>.00.log", "datetime-substituted-everywhere")
	verifrt.Reach("translated", true)
}
