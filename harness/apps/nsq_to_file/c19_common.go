//go:build verif

package main

// C19 environment: a disk model (symbolic runs) / a scratch directory on the real file system
// (native replay), a gzip event model, a controllable consumer, ticker and clock, and the
// property's oracle written over a mode-independent snapshot of "what is in which file and how
// much of it would survive a crash".
//
// Symbolic runs: every os / gzip / consumer call of file_logger.go is redirected (verifrt.Stub)
// to the model below. Native replay: nothing is redirected - the real os, the real gzip, a real
// (unconnected) go-nsq consumer; the snapshot is read back from the scratch directory, gzip files
// are really decompressed, and "durable" is measured with cachestat(2): a file whose pages are
// all clean has been fsynced.

import (
	"bufio"
	"bytes"
	"compress/gzip"
	"errors"
	"fmt"
	"io"
	"io/fs"
	"os"
	"os/signal"
	"path/filepath"
	"reflect"
	"runtime"
	"strings"
	"syscall"
	"time"
	"unsafe"

	"github.com/nsqio/go-nsq"
	"github.com/nsqio/nsq/internal/lg"
	"github.com/nsqio/nsq/internal/verifrt"
)

// ---------------------------------------------------------------- configuration

type verifCfg struct {
	aliasDirs   bool // --work-dir and --output-dir are the same directory spelled differently
	gzip        bool
	workDir     bool  // work-dir differs from output-dir
	skipEmpty   bool  // --skip-empty-files
	rotateSize  int64 // --rotate-size
	rotateEvery bool  // --rotate-interval set (one minute; the model clock decides at every check whether it has elapsed)
	maxInFlight int
	starved     bool // consumer reports IsStarved() for the whole run
	dateRoll    bool // the clock may cross a <DATETIME> boundary during the run
	subDir      bool // filename format contains a directory component
	faults      int  // >0: one of the first `faults` fallible disk operations fails
	rotLimit    bool // VerifC19_RotationSizeLimit: witness bookkeeping for "a rotation could not flush its pending batch"
}

const (
	verifT0   = int64(1577836800) * 1000000000 // 2020-01-01T00:00:00Z
	verifHour = int64(3600) * 1000000000
)

// ---------------------------------------------------------------- disk model (symbolic runs)

type verifInode struct {
	data    []byte
	durable int // length of the prefix that survives a crash
}

type verifEntry struct {
	path string
	ino  *verifInode
}

type verifHandle struct {
	path   string
	ino    *verifInode
	app    bool
	pos    int
	closed bool
	broken bool // every write and fsync through this handle fails from now on
	void   bool // writes "succeed" but the data goes nowhere; fsync fails
}

type verifGz struct {
	w      io.Writer
	buf    []byte
	closed bool
}

type verifDisk struct {
	entries []verifEntry
	fds     map[*os.File]*verifHandle
	gzs     map[*gzip.Writer]*verifGz
	ops     int // fallible operations so far
	faultAt int // index of the operation that fails (-1: none)
	faulted bool
	created int // files created by the run
	// sizeLimit >= 0: the process's file size limit (RLIMIT_FSIZE, SIGXFSZ ignored): a write(2) that
	// would make a file longer than this is cut at the limit, and fails with EFBIG when nothing fits
	sizeLimit int
}

func (d *verifDisk) lookup(path string) *verifInode {
	for i := range d.entries {
		if d.entries[i].path == path {
			return d.entries[i].ino
		}
	}
	return nil
}

func (d *verifDisk) unlink(path string) {
	var n []verifEntry
	for _, e := range d.entries {
		if e.path != path {
			n = append(n, e)
		}
	}
	d.entries = n
}

// plainWriteFault: is a write through this handle one of the numbered fault positions? Only the
// writes of gzip members are: a failing or short write(2) of a plain output file is a fault the
// kernel can be made to produce (file size limit), it is injected - in the model and natively, at
// the same write - by limitFileSize (VerifC19_FileSizeLimit) and not by number.
func (d *verifDisk) plainWriteFault(h *verifHandle) bool { return verifCur.cfg.gzip }

// fault reports whether this (fallible) operation is the one chosen to fail.
func (d *verifDisk) fault() bool {
	d.ops++
	if d.ops-1 == d.faultAt {
		d.faulted = true
		return true
	}
	return false
}

var verifErrIO = errors.New("verif: injected I/O error")
var verifErrClosed = errors.New("verif: file already closed")

type verifFileInfo struct {
	name string
	size int64
	ino  *verifInode // identity, for os.SameFile
}

// os.SameFile over the disk model: two names of one inode (hard links, or one path spelled twice).
func verifSameFile(a, b os.FileInfo) bool {
	x, ok1 := a.(verifFileInfo)
	y, ok2 := b.(verifFileInfo)
	return ok1 && ok2 && x.ino != nil && x.ino == y.ino
}

func (fi verifFileInfo) Name() string       { return fi.name }
func (fi verifFileInfo) Size() int64        { return fi.size }
func (fi verifFileInfo) Mode() fs.FileMode  { return 0644 }
func (fi verifFileInfo) ModTime() time.Time { return time.Time{} }
func (fi verifFileInfo) IsDir() bool        { return false }
func (fi verifFileInfo) Sys() interface{}   { return nil }

// the run the stubs operate on
var verifCur *verifRun

func verifOpenFile(name string, flag int, perm os.FileMode) (*os.File, error) {
	r := verifCur
	d := r.disk
	if d.fault() {
		return nil, &os.PathError{Op: "open", Path: name, Err: verifErrIO}
	}
	ino := d.lookup(name)
	if ino != nil && flag&os.O_CREATE != 0 && flag&os.O_EXCL != 0 {
		return nil, &os.PathError{Op: "open", Path: name, Err: syscall.EEXIST}
	}
	if ino == nil {
		if flag&os.O_CREATE == 0 {
			return nil, &os.PathError{Op: "open", Path: name, Err: syscall.ENOENT}
		}
		ino = &verifInode{}
		d.entries = append(d.entries, verifEntry{name, ino})
		d.created++
	} else if flag&os.O_TRUNC != 0 {
		ino.data = nil
		ino.durable = 0
		r.crashCheck("open-trunc")
	}
	h := &verifHandle{path: name, ino: ino, app: flag&os.O_APPEND != 0}
	f := &os.File{}
	d.fds[f] = h
	return f, nil
}

func verifFileWrite(f *os.File, b []byte) (int, error) {
	r := verifCur
	d := r.disk
	h := d.fds[f]
	if h == nil || h.closed {
		return 0, verifErrClosed
	}
	n := len(b)
	var err error
	if h.broken {
		return 0, &os.PathError{Op: "write", Path: h.path, Err: verifErrIO}
	}
	if h.void {
		return n, nil
	}
	if d.sizeLimit >= 0 {
		// what the kernel does at the file size limit, seen through os.File.Write (which repeats a
		// short write(2) until everything is written or an error comes back)
		at := h.pos
		if h.app {
			at = len(h.ino.data)
		}
		if at+n > d.sizeLimit {
			n = d.sizeLimit - at
			if n < 0 {
				n = 0
			}
			d.faulted = true
			err = &os.PathError{Op: "write", Path: h.path, Err: syscall.EFBIG}
		}
	} else if d.plainWriteFault(h) && d.fault() {
		// a failing write may have written part of the data
		if n > 0 {
			n--
		}
		err = &os.PathError{Op: "write", Path: h.path, Err: verifErrIO}
	}
	ino := h.ino
	if h.app {
		h.pos = len(ino.data)
	}
	over := h.pos < len(ino.data)
	for i := 0; i < n; i++ {
		if h.pos < len(ino.data) {
			ino.data[h.pos] = b[i]
		} else {
			ino.data = append(ino.data, b[i])
		}
		h.pos++
	}
	if over && n > 0 {
		// bytes replaced in place: after a crash either version may be on disk
		if ino.durable > h.pos-n {
			ino.durable = h.pos - n
		}
		r.crashCheck("overwrite")
	}
	return n, err
}

func verifFileSync(f *os.File) error {
	d := verifCur.disk
	h := d.fds[f]
	if h == nil || h.closed {
		return verifErrClosed
	}
	if h.broken || h.void || d.fault() {
		return &os.PathError{Op: "sync", Path: h.path, Err: verifErrIO}
	}
	h.ino.durable = len(h.ino.data)
	verifCur.syncs++
	return nil
}

func verifFileClose(f *os.File) error {
	d := verifCur.disk
	h := d.fds[f]
	if h == nil || h.closed {
		return verifErrClosed
	}
	h.closed = true
	if d.fault() {
		return &os.PathError{Op: "close", Path: h.path, Err: verifErrIO}
	}
	return nil
}

func verifFileStat(f *os.File) (os.FileInfo, error) {
	d := verifCur.disk
	h := d.fds[f]
	if h == nil {
		return nil, verifErrClosed
	}
	return verifFileInfo{name: h.path, size: int64(len(h.ino.data)), ino: h.ino}, nil
}

func verifFileName(f *os.File) string {
	h := verifCur.disk.fds[f]
	if h == nil {
		return ""
	}
	return h.path
}

func verifOsStat(name string) (os.FileInfo, error) {
	d := verifCur.disk
	if d.fault() {
		return nil, &os.PathError{Op: "stat", Path: name, Err: verifErrIO}
	}
	ino := d.lookup(name)
	if ino == nil {
		return nil, &os.PathError{Op: "stat", Path: name, Err: syscall.ENOENT}
	}
	return verifFileInfo{name: name, size: int64(len(ino.data)), ino: ino}, nil
}

func verifMkdirAll(path string, perm os.FileMode) error {
	verifCur.mkdirs++
	return nil
}

func verifLink(oldname, newname string) error {
	r := verifCur
	d := r.disk
	if d.fault() {
		return &os.LinkError{Op: "link", Old: oldname, New: newname, Err: verifErrIO}
	}
	ino := d.lookup(oldname)
	if ino == nil {
		return &os.LinkError{Op: "link", Old: oldname, New: newname, Err: syscall.ENOENT}
	}
	if d.lookup(newname) != nil {
		return &os.LinkError{Op: "link", Old: oldname, New: newname, Err: syscall.EEXIST}
	}
	d.entries = append(d.entries, verifEntry{newname, ino})
	r.links++
	return nil
}

func verifRemove(name string) error {
	r := verifCur
	d := r.disk
	if d.fault() {
		return &os.PathError{Op: "remove", Path: name, Err: verifErrIO}
	}
	if d.lookup(name) == nil {
		return &os.PathError{Op: "remove", Path: name, Err: syscall.ENOENT}
	}
	d.unlink(name)
	r.crashCheck("remove")
	return nil
}

// os.Rename replaces an existing destination (only mutants of nsq_to_file call it).
func verifRename(oldname, newname string) error {
	r := verifCur
	d := r.disk
	if d.fault() {
		return &os.LinkError{Op: "rename", Old: oldname, New: newname, Err: verifErrIO}
	}
	ino := d.lookup(oldname)
	if ino == nil {
		return &os.LinkError{Op: "rename", Old: oldname, New: newname, Err: syscall.ENOENT}
	}
	d.unlink(newname)
	d.unlink(oldname)
	d.entries = append(d.entries, verifEntry{newname, ino})
	r.crashCheck("rename")
	return nil
}

func verifErrnoOf(err error) error {
	switch e := err.(type) {
	case *os.PathError:
		return e.Err
	case *os.LinkError:
		return e.Err
	}
	return err
}

func verifIsExist(err error) bool    { return verifErrnoOf(err) == syscall.EEXIST }
func verifIsNotExist(err error) bool { return verifErrnoOf(err) == syscall.ENOENT }

// os.Exit: the process is gone at this instant - which is a crash point of the property.
func verifExit(code int) {
	r := verifCur
	r.exitedProcess = true
	r.crashCheck("exit")
	if r.cfg.faults > 0 {
		verifrt.Reach("zz-fault-ends-in-exit", r.disk.faulted)
	}
	if r.cfg.rotLimit {
		verifrt.Reach("zz-rotation-cannot-flush-the-pending-gzip-batch-and-exits", r.lostAtRotation)
	}
	verifrt.Done()
}

// ---- gzip event model: a member reaches the file only when the writer is closed.
// Modelled member layout: 'G', payload length, payload, 'Z'. Flush writes an unterminated chunk.

func verifGzNew(w io.Writer, level int) (*gzip.Writer, error) {
	z := &gzip.Writer{}
	verifCur.disk.gzs[z] = &verifGz{w: w}
	return z, nil
}

func verifGzNewDefault(w io.Writer) *gzip.Writer {
	z, _ := verifGzNew(w, 6)
	return z
}

func verifGzWrite(z *gzip.Writer, p []byte) (int, error) {
	g := verifCur.disk.gzs[z]
	if g == nil || g.closed {
		return 0, errors.New("verif: gzip write after close")
	}
	g.buf = append(g.buf, p...)
	return len(p), nil
}

func verifGzClose(z *gzip.Writer) error {
	g := verifCur.disk.gzs[z]
	if g == nil || g.closed {
		return nil
	}
	g.closed = true
	pending := len(g.buf)
	m := make([]byte, 0, len(g.buf)+3)
	m = append(m, 'G', byte(len(g.buf)))
	m = append(m, g.buf...)
	m = append(m, 'Z')
	g.buf = nil
	verifCur.gzCloses++
	_, err := g.w.Write(m)
	if r := verifCur; err != nil && r.cfg.rotLimit && r.curEv == verifEvMsg && pending > 0 && pending == r.recLen*(len(r.msgs)-1-r.nFin) {
		// (witness bookkeeping) the member that could not be written holds the whole pending batch
		// but not the record of the message being delivered: this is the Close() of a rotation, not
		// the Sync() that follows a write
		r.lostAtRotation = true
	}
	return err
}

func verifGzFlush(z *gzip.Writer) error {
	g := verifCur.disk.gzs[z]
	if g == nil || g.closed {
		return errors.New("verif: gzip flush after close")
	}
	m := append([]byte{'F', byte(len(g.buf))}, g.buf...)
	g.buf = nil
	_, err := g.w.Write(m)
	return err
}

// verifGunzipModel: payload of the complete members at the start of raw.
func verifGunzipModel(raw []byte) []byte {
	var out []byte
	p := 0
	for p+3 <= len(raw) {
		if raw[p] != 'G' {
			break
		}
		n := int(raw[p+1])
		if p+2+n+1 > len(raw) || raw[p+2+n] != 'Z' {
			break
		}
		out = append(out, raw[p+2:p+2+n]...)
		p += n + 3
	}
	return out
}

// verifGunzipReal: payload of the complete gzip members at the start of raw (native replay).
func verifGunzipReal(raw []byte) []byte {
	var out []byte
	br := bufio.NewReader(bytes.NewReader(raw))
	zr, err := gzip.NewReader(br)
	if err != nil {
		return nil
	}
	for {
		zr.Multistream(false)
		var member bytes.Buffer
		if _, err := io.Copy(&member, zr); err != nil {
			break // truncated or corrupt member: nothing of it counts
		}
		out = append(out, member.Bytes()...)
		if err := zr.Reset(br); err != nil {
			break
		}
	}
	return out
}

// ---- consumer, ticker, clock (symbolic runs)

func verifConsumerStop(c *nsq.Consumer) {
	r := verifCur
	r.stopRequested++
	if r.stopClosesAtOnce {
		// an unconnected consumer stops at once; the closed termChan keeps the router's SIGTERM
		// branch enabled until it happens to pick StopChan - explore up to two more rounds
		r.stopCalls[c]++
		verifrt.Assume(r.stopCalls[c] <= 3)
		if r.stopCalls[c] == 1 {
			close(c.StopChan)
		}
		return
	}
	if r.termClosed && r.stopRequested > 1 {
		// termChan is closed: the router comes back here in every iteration until StopChan is
		// closed as well. The first call returns at once (one whole SIGTERM iteration); every
		// later one returns when the harness lets it (release), so that "the router has gone round
		// once more" is an event of the harness like the others and the model run is finite.
		<-r.stopGate
	}
}
func verifConsumerStarved(c *nsq.Consumer) bool { return verifCur.cfg.starved }

func verifNewTicker(d time.Duration) *time.Ticker { return &time.Ticker{C: verifCur.tickC} }
func verifTickerStop(t *time.Ticker)              { verifCur.tickStopped = true }

// <DATETIME> is rendered with "%H"; the model clock stays within two hours of verifT0, so the
// real time.Format yields "00" or "01" - this stub is that function.
func verifTimeFormat(t time.Time, layout string) string {
	verifrt.Assert(layout == "15", "strftime-%H-is-the-hour-layout")
	if !verifCur.cfg.dateRoll {
		return "00"
	}
	if t.UnixNano() < verifT0+verifHour {
		return "00"
	}
	return "01"
}

func verifInstallStubs() {
	verifrt.Stub("os.OpenFile", verifOpenFile)
	verifrt.Stub("(*os.File).Write", verifFileWrite)
	verifrt.Stub("(*os.File).Sync", verifFileSync)
	verifrt.Stub("(*os.File).Close", verifFileClose)
	verifrt.Stub("(*os.File).Stat", verifFileStat)
	verifrt.Stub("(*os.File).Name", verifFileName)
	verifrt.Stub("os.Stat", verifOsStat)
	verifrt.Stub("os.SameFile", verifSameFile)
	verifrt.Stub("os.MkdirAll", verifMkdirAll)
	verifrt.Stub("os.Link", verifLink)
	verifrt.Stub("os.Remove", verifRemove)
	verifrt.Stub("os.Rename", verifRename)
	verifrt.Stub("os.IsExist", verifIsExist)
	verifrt.Stub("os.IsNotExist", verifIsNotExist)
	verifrt.Stub("os.Exit", verifExit)
	verifrt.Stub("os.Getpid", func() int { return 4242 })
	verifrt.Stub("compress/gzip.NewWriterLevel", verifGzNew)
	verifrt.Stub("compress/gzip.NewWriter", verifGzNewDefault)
	verifrt.Stub("(*compress/gzip.Writer).Write", verifGzWrite)
	verifrt.Stub("(*compress/gzip.Writer).Close", verifGzClose)
	verifrt.Stub("(*compress/gzip.Writer).Flush", verifGzFlush)
	verifrt.Stub("(*github.com/nsqio/go-nsq.Consumer).Stop", verifConsumerStop)
	verifrt.Stub("(*github.com/nsqio/go-nsq.Consumer).IsStarved", verifConsumerStarved)
	verifrt.Stub("time.NewTicker", verifNewTicker)
	verifrt.Stub("(*time.Ticker).Stop", verifTickerStop)
	verifrt.Stub("(time.Time).Format", verifTimeFormat)
}

// ---------------------------------------------------------------- the run

type verifRun struct {
	cfg  verifCfg
	f    *FileLogger
	opts *Options
	disk *verifDisk // symbolic runs
	root string     // native replay: scratch directory
	work string
	out  string

	msgs   []*nsq.Message
	recs   [][]byte // body + "\n" of each message handed to the logger
	fin    []bool   // FIN issued
	nFin   int
	pre    [][]byte // content of the files that existed before the run
	prePos []string

	tickC            chan time.Time
	tickStopped      bool
	stopRequested    int
	stopClosesAtOnce bool
	stopClosed       bool
	stopCalls        map[*nsq.Consumer]int
	termClosed       bool     // SIGTERM has been delivered: termChan is closed
	msgsAtTerm       int      // messages handed over before that
	lateFin          int      // messages handed over after SIGTERM and finished
	stopGate         chan int // symbolic runs: see verifConsumerStop
	limited          bool     // a file size limit is in force
	limitBefore      int      // event index before which the limit is set (-1: never)
	limitRoom        int
	oldFsize         syscall.Rlimit
	loggers          []*FileLogger
	routerExited     bool
	exitedProcess    bool
	syncs, gzCloses  int
	links, mkdirs    int
	crashChecks      int
	intrusions       int
	breakBefore      int // event index before which the open file breaks (-1: never)
	broke            bool
	breakVoid        bool
	carried          int
	recLen           int  // length of a record (VerifC19_RotationSizeLimit)
	curEv            int  // the event being delivered
	lostAtRotation   bool // symbolic runs: see verifGzClose

	limitNeedsPending bool // the limit comes into force only at a moment when a batch is pending (gzip: see VerifC19_RotationSizeLimit)

	// native replay
	synced   map[uint64]int // inode -> length known to be on disk
	t0       time.Time
	ticks    int
	tickStep time.Duration
}

func verifNopLog(lvl lg.LogLevel, f string, args ...interface{}) {}

// verifNewRun builds the options, the environment and a FileLogger exactly as NewFileLogger
// does, minus the network (the consumer is never connected).
func verifNewRun(cfg verifCfg) *verifRun {
	r := &verifRun{cfg: cfg, tickC: make(chan time.Time), tickStep: 700 * time.Millisecond, stopCalls: map[*nsq.Consumer]int{}, breakBefore: -1, limitBefore: -1, stopGate: make(chan int)}
	verifCur = r
	verifrt.FreeRun() // native replay: real goroutines, the harness waits for them itself (settle)
	if verifrt.Symbolic() {
		verifInstallStubs()
		r.disk = &verifDisk{fds: map[*os.File]*verifHandle{}, gzs: map[*gzip.Writer]*verifGz{}, faultAt: -1, sizeLimit: -1}
		r.out = "/o"
		r.work = "/o"
		if cfg.workDir {
			r.work = "/w"
		}
		if cfg.dateRoll {
			verifrt.ClockRange(verifT0, verifT0+2*verifHour)
		} else {
			verifrt.ClockRange(verifT0, verifT0+verifHour)
		}
	} else {
		time.Local = time.UTC
		root, err := os.MkdirTemp("", "nsq-verif-c19-")
		if err != nil {
			panic(err)
		}
		r.root = root
		r.out = filepath.Join(root, "o")
		r.work = r.out
		if cfg.workDir {
			r.work = filepath.Join(root, "w")
		}
		os.MkdirAll(r.out, 0777)
		os.MkdirAll(r.work, 0777)
		r.synced = map[uint64]int{}
	}
	o := NewOptions()
	o.Channel = "c"
	o.MaxInFlight = cfg.maxInFlight
	o.OutputDir = r.out
	o.WorkDir = r.work
	if cfg.aliasDirs {
		// ONE directory configured under two spellings: the options differ as strings (so the
		// logger runs in work-dir mode) while every joined path names the same file
		o.WorkDir = r.out + "/"
	}
	o.DatetimeFormat = "%H"
	o.FilenameFormat = "<TOPIC><REV>.<DATETIME>.log"
	if cfg.subDir {
		o.FilenameFormat = "d/<TOPIC><REV>.<DATETIME>.log"
	}
	o.GZIP = cfg.gzip
	o.SkipEmptyFiles = cfg.skipEmpty
	o.RotateSize = cfg.rotateSize
	if cfg.rotateEvery {
		o.RotateInterval = time.Minute
	}
	o.SyncInterval = time.Hour // (plan() shortens it natively when the event sequence contains sync ticks)
	r.opts = o
	return r
}

func (r *verifRun) newLogger(topic string) *FileLogger {
	cff, err := computeFilenameFormat(r.opts, topic)
	verifrt.Assert(err == nil, "filename-format-accepted")
	var cons *nsq.Consumer
	if verifrt.Symbolic() {
		cons = &nsq.Consumer{StopChan: make(chan int)}
	} else {
		cons, err = nsq.NewConsumer(topic, "c", nsq.NewConfig())
		if err != nil {
			panic(err)
		}
		cons.SetLogger(nil, nsq.LogLevelError)
		if r.cfg.starved {
			verifMakeStarved(cons)
		}
	}
	return &FileLogger{
		logf:           verifNopLog,
		opts:           r.opts,
		topic:          topic,
		consumer:       cons,
		logChan:        make(chan *nsq.Message, 1),
		filenameFormat: cff,
		termChan:       make(chan bool),
		hupChan:        make(chan bool),
	}
}

// verifMakeStarved (native replay): give the real consumer one connection record whose
// in-flight count has reached its RDY count, which is what IsStarved() looks at.
func verifMakeStarved(c *nsq.Consumer) {
	conn := &nsq.Conn{}
	cv := reflect.ValueOf(conn).Elem()
	for _, n := range []string{"messagesInFlight", "rdyCount"} {
		*(*int64)(unsafe.Pointer(cv.FieldByName(n).UnsafeAddr())) = 1
	}
	mv := reflect.ValueOf(c).Elem().FieldByName("connections")
	mv = reflect.NewAt(mv.Type(), unsafe.Pointer(mv.UnsafeAddr())).Elem()
	mv.SetMapIndex(reflect.ValueOf("verif"), reflect.ValueOf(conn))
}

// fileName: the path the logger uses for (datetime, revision) in dir - used only to place
// pre-existing files where they collide.
func (r *verifRun) fileName(f *FileLogger, dir, datetime string, rev int) string {
	n := strings.Replace(f.filenameFormat, "<DATETIME>", datetime, -1)
	n = strings.Replace(n, "<REV>", fmt.Sprintf("-%06d", rev), -1)
	return dir + "/" + n
}

// preExisting puts a file with the given content at path before the run (durable).
func (r *verifRun) preExisting(path string, content []byte) {
	r.pre = append(r.pre, content)
	r.prePos = append(r.prePos, path)
	if verifrt.Symbolic() {
		cp := append([]byte{}, content...)
		r.disk.entries = append(r.disk.entries, verifEntry{path, &verifInode{data: cp, durable: len(cp)}})
		return
	}
	os.MkdirAll(filepath.Dir(path), 0777)
	fh, err := os.OpenFile(path, os.O_WRONLY|os.O_CREATE|os.O_EXCL, 0666)
	if err != nil {
		panic(err)
	}
	fh.Write(content)
	fh.Sync()
	fh.Close()
}

// breakOpenFile: from now on the logger's open file is unusable (a dying disk, a revoked
// mount). void=false: every write and fsync fails. void=true: writes report success but the
// data goes nowhere, and fsync fails - the only error the logger ever gets is the one from
// fsync. Natively the descriptor is re-pointed at /dev/null opened read-only (EBADF on write,
// EINVAL on fsync) resp. write-only (writes swallowed, EINVAL on fsync).
func (r *verifRun) breakOpenFile(void bool) bool {
	f := r.f
	if f.out == nil {
		return false
	}
	if verifrt.Symbolic() {
		h := r.disk.fds[f.out]
		if h == nil || h.closed {
			return false
		}
		h.broken = !void
		h.void = void
		r.disk.faulted = true
		return true
	}
	mode := syscall.O_RDONLY
	if void {
		mode = syscall.O_WRONLY
	}
	null, err := syscall.Open("/dev/null", mode, 0)
	if err != nil {
		return false
	}
	defer syscall.Close(null)
	return syscall.Dup3(null, int(f.out.Fd()), 0) == nil
}

// limitFileSize: from now on no file can grow beyond (length of the logger's open file, 0 if
// none is open) + room bytes: a full disk, an exceeded quota, the file size limit. A write(2) that
// crosses the limit is cut short there, one that starts at the limit fails (EFBIG) - so os.File.Write
// reports a short count and an error - while fsync, close, link and unlink keep working.
// Symbolic runs: verifDisk.sizeLimit. Natively: RLIMIT_FSIZE of the test process with SIGXFSZ
// ignored, i.e. the real kernel fails the same write at the same byte.
func (r *verifRun) limitFileSize(room int) {
	f := r.f
	size := 0
	if verifrt.Symbolic() {
		if f.out != nil {
			if h := r.disk.fds[f.out]; h != nil && !h.closed {
				size = len(h.ino.data)
			}
		}
		r.disk.sizeLimit = size + room
		r.limited = true
		return
	}
	if f.out != nil {
		if fi, err := f.out.Stat(); err == nil {
			size = int(fi.Size())
		}
	}
	verifHasDirtyPages(filepath.Join(r.out, "verif-probe-only")) // (the cachestat probe writes a file: run it before the limit)
	signal.Ignore(syscall.SIGXFSZ)
	if err := syscall.Getrlimit(syscall.RLIMIT_FSIZE, &r.oldFsize); err != nil {
		fmt.Printf("VERIF-NOTE getrlimit: %v\n", err)
		return
	}
	lim := r.oldFsize
	lim.Cur = uint64(size + room)
	if err := syscall.Setrlimit(syscall.RLIMIT_FSIZE, &lim); err != nil {
		fmt.Printf("VERIF-NOTE setrlimit: %v\n", err)
		return
	}
	r.limited = true
}

func (r *verifRun) exists(path string) bool {
	if verifrt.Symbolic() {
		return r.disk.lookup(path) != nil
	}
	_, err := os.Lstat(path)
	return err == nil
}

// intrude: somebody else (another instance, an operator) creates a file in the output dir under
// exactly the name the currently open work file is going to be moved to; with next also under
// the name of the following revision. Reports whether a file was created.
func (r *verifRun) intrude(next bool) bool {
	f := r.f
	if f.out == nil || !r.cfg.workDir {
		return false
	}
	src := f.out.Name()
	if !r.exists(src) {
		return false // already handed off
	}
	dst := r.out + strings.TrimPrefix(src, r.work)
	did := false
	if !r.exists(dst) {
		r.preExisting(dst, []byte{'I', byte('0' + len(r.pre)), ';'})
		did = true
	}
	if next {
		dst2 := r.fileName(f, r.out, r.lastDatetime(), int(f.rev)+1)
		if !r.exists(dst2) {
			r.preExisting(dst2, []byte{'I', byte('0' + len(r.pre)), ';'})
			did = true
		}
	}
	return did
}

// lastDatetime: the <DATETIME> value inside the logger's current file name.
func (r *verifRun) lastDatetime() string {
	if strings.Contains(r.f.filename, ".01.") {
		return "01"
	}
	return "00"
}

// ---------------------------------------------------------------- snapshot

type verifFile struct {
	path    string
	raw     []byte
	durable int
}

func (r *verifRun) snapshot() []verifFile {
	var fs []verifFile
	if verifrt.Symbolic() {
		for _, e := range r.disk.entries {
			fs = append(fs, verifFile{e.path, e.ino.data, e.ino.durable})
		}
		return fs
	}
	filepath.Walk(r.root, func(p string, fi os.FileInfo, err error) error {
		if err != nil || !fi.Mode().IsRegular() {
			return nil
		}
		data, err := os.ReadFile(p)
		if err != nil {
			return nil
		}
		ino := fi.Sys().(*syscall.Stat_t).Ino
		if !verifHasDirtyPages(p) {
			r.synced[ino] = len(data)
		}
		d := r.synced[ino]
		if d > len(data) {
			d = len(data)
			r.synced[ino] = d
		}
		fs = append(fs, verifFile{p, data, d})
		return nil
	})
	return fs
}

func (r *verifRun) readable(raw []byte) []byte {
	if !r.cfg.gzip {
		return raw
	}
	if verifrt.Symbolic() {
		return verifGunzipModel(raw)
	}
	return verifGunzipReal(raw)
}

// cachestat(2) (Linux >= 6.5): number of dirty / under-writeback pages of a file.
type verifCsRange struct{ off, len uint64 }
type verifCsStat struct{ cache, dirty, writeback, evicted, recentlyEvicted uint64 }

var verifCsProbe int // 0 unknown, 1 usable, 2 not usable

func verifCachestat(f *os.File) (verifCsStat, bool) {
	var rg verifCsRange
	var st verifCsStat
	_, _, e := syscall.Syscall6(451, f.Fd(), uintptr(unsafe.Pointer(&rg)), uintptr(unsafe.Pointer(&st)), 0, 0, 0)
	return st, e == 0
}

// verifHasDirtyPages: true if part of the file has not reached the disk. If the kernel or
// the file system cannot tell (probe fails) every file counts as synced, so that the native
// run can only under-report, never raise an alarm of its own.
func verifHasDirtyPages(path string) bool {
	if verifCsProbe == 0 {
		verifCsProbe = 2
		if t, err := os.CreateTemp(filepath.Dir(path), ".verif-probe"); err == nil {
			t.Write([]byte("x"))
			a, ok1 := verifCachestat(t)
			t.Sync()
			b, ok2 := verifCachestat(t)
			if ok1 && ok2 && a.dirty+a.writeback > 0 && b.dirty+b.writeback == 0 {
				verifCsProbe = 1
			}
			t.Close()
			os.Remove(t.Name())
		}
		fmt.Printf("VERIF-NOTE cachestat usable=%v\n", verifCsProbe == 1)
	}
	if verifCsProbe != 1 {
		return false
	}
	f, err := os.Open(path)
	if err != nil {
		return false
	}
	defer f.Close()
	st, ok := verifCachestat(f)
	return ok && st.dirty+st.writeback > 0
}

// ---------------------------------------------------------------- oracle

// verifGhost: a fact about counters that only the disk model keeps (number of fsyncs, links,
// gzip members). The native run follows the same path but cannot see them, so there it is true.
func verifGhost(c bool) bool { return c || !verifrt.Symbolic() }

// boolean connectives without short-circuit control flow (operands are already evaluated, so
// the executor builds one term instead of forking)
func verifAnd(a, b bool) bool { return a && b }
func verifOr(a, b bool) bool  { return a || b }

// verifContains: rec occurs in hay (pure boolean term, no branching on symbolic bytes).
func verifContains(hay, rec []byte) bool {
	found := false
	for p := 0; p+len(rec) <= len(hay); p++ {
		match := true
		for k := 0; k < len(rec); k++ {
			match = verifAnd(match, hay[p+k] == rec[k])
		}
		found = verifOr(found, match)
	}
	return found
}

func verifHasPrefix(hay, pre []byte) bool {
	if len(hay) < len(pre) {
		return false
	}
	match := true
	for k := 0; k < len(pre); k++ {
		match = verifAnd(match, hay[k] == pre[k])
	}
	return match
}

// recordIn: the record is in the readable content of some file; durableOnly restricts every
// file to what survives a crash.
func (r *verifRun) recordIn(files []verifFile, rec []byte, durableOnly bool) bool {
	found := false
	for _, fl := range files {
		raw := fl.raw
		if durableOnly {
			raw = raw[:fl.durable]
		}
		found = verifOr(found, verifContains(r.readable(raw), rec))
	}
	return found
}

// allFinishedIn: every message for which FIN has been issued is still in a file.
func (r *verifRun) allFinishedIn(files []verifFile, durableOnly bool) bool {
	ok := true
	for i := range r.recs {
		if r.fin[i] {
			ok = verifAnd(ok, r.recordIn(files, r.recs[i], durableOnly))
		}
	}
	return ok
}

// preserved: the content of every file that existed before the run is still the beginning of
// some file (nsq_to_file may append to a file or move it, never shorten, replace or drop it).
func (r *verifRun) preserved(files []verifFile, durableOnly bool) bool {
	ok := true
	for _, p := range r.pre {
		found := false
		for _, fl := range files {
			raw := fl.raw
			if durableOnly {
				raw = raw[:fl.durable]
			}
			found = verifOr(found, verifHasPrefix(raw, p))
		}
		ok = verifAnd(ok, found)
	}
	return ok
}

// crashCheck (symbolic runs; called by the disk model right after every effect that removes a
// name or replaces bytes): if the machine stopped now, nothing finished and nothing old is lost.
func (r *verifRun) crashCheck(where string) {
	files := r.snapshot()
	r.crashChecks++
	verifrt.Assert(r.allFinishedIn(files, true), "finished-message-still-durable")
	verifrt.Assert(r.preserved(files, true), "existing-file-still-durable")
}

// stateCheck: at a quiescent point (both modes).
func (r *verifRun) stateCheck() {
	files := r.snapshot()
	verifrt.Assert(r.allFinishedIn(files, false), "finished-message-still-in-a-readable-file")
	verifrt.Assert(r.allFinishedIn(files, true), "finished-message-still-durable")
	verifrt.Assert(r.preserved(files, false), "existing-file-not-overwritten-or-dropped")
	verifrt.Assert(r.preserved(files, true), "existing-file-still-durable")
}

// ---- the recording message delegate: FIN is the moment the channel stops owing the message.

type verifDelegate struct{ r *verifRun }

func (d *verifDelegate) OnFinish(m *nsq.Message) {
	r := d.r
	idx := -1
	for i, x := range r.msgs {
		if x == m {
			idx = i
		}
	}
	verifrt.Assert(idx >= 0, "fin-for-a-known-message")
	if idx < 0 {
		return
	}
	verifrt.Assert(!r.fin[idx], "fin-at-most-once")
	files := r.snapshot()
	verifrt.Assert(r.recordIn(files, r.recs[idx], false), "fin-only-after-body-and-newline-are-in-a-readable-file")
	verifrt.Assert(r.recordIn(files, r.recs[idx], true), "fin-only-after-fsync")
	r.fin[idx] = true
	if r.termClosed && idx >= r.msgsAtTerm {
		r.lateFin++
	}
	r.nFin++
	// (witness bookkeeping) the message was written into a file that has been rotated away since
	if r.f != nil && r.f.out != nil {
		cur := r.f.out.Name()
		for _, fl := range files {
			if fl.path == cur && !r.recordIn([]verifFile{fl}, r.recs[idx], false) {
				r.carried++
			}
		}
	}
}
func (d *verifDelegate) OnRequeue(m *nsq.Message, delay time.Duration, backoff bool) {}
func (d *verifDelegate) OnTouch(m *nsq.Message)                                      {}

// ---------------------------------------------------------------- driving the router

func (r *verifRun) start(f *FileLogger) {
	r.f = f
	r.loggers = append(r.loggers, f)
	verifrt.Go("router", func() {
		f.router()
		r.routerExited = true
	})
	r.settle()
	if !verifrt.Symbolic() {
		r.t0 = verifWallClock()
	}
}

// verifWallClock: the real clock for the native harness's own waiting. (Written this way because
// the replay overlay rewrites every literal time.Now() call of the package - harness files
// included - to the model clock.)
var verifWallClock = time.Now

// settle: wait until the router is parked in its select with nothing left to receive.
func (r *verifRun) settle() {
	if verifrt.Symbolic() {
		verifrt.Join()
		return
	}
	deadline := verifWallClock().Add(10 * time.Second)
	if r.termClosed {
		deadline = verifWallClock().Add(3 * time.Second)
	}
	for verifWallClock().Before(deadline) {
		if r.routerExited {
			return
		}
		idle := true
		for _, l := range r.loggers {
			idle = idle && len(l.logChan) == 0
		}
		if idle && verifRouterParked() {
			return
		}
		if idle && r.termClosed && !r.stopClosesAtOnce && r.nFin == len(r.msgs) {
			// termChan is closed: the router never parks again, it goes round its SIGTERM branch;
			// it has come to rest when everything handed to it has been written, synced and finished
			time.Sleep(2 * time.Millisecond)
			if r.nFin == len(r.msgs) {
				return
			}
		}
		time.Sleep(200 * time.Microsecond)
	}
	fmt.Println("VERIF-NOTE settle timed out")
	buf := make([]byte, 1<<16)
	fmt.Printf("VERIF-NOTE stacks: %s\n", buf[:runtime.Stack(buf, true)])
}

// verifRouterParked (native replay): every router goroutine, and the topic discoverer's loop if
// there is one, is blocked in its select.
func verifRouterParked() bool {
	buf := make([]byte, 1<<18)
	buf = buf[:runtime.Stack(buf, true)]
	n := 0
	for _, g := range strings.Split(string(buf), "\n\n") {
		if strings.Contains(g, ".(*FileLogger).router(") || strings.Contains(g, ".(*TopicDiscoverer).run(") {
			nl := strings.IndexByte(g, '\n')
			if nl < 0 || !strings.Contains(g[:nl], "[select") {
				return false
			}
			n++
		}
	}
	return n > 0
}

// newMessage: the body is a distinct letter followed by the given (symbolic) bytes, so two
// messages never have the same record and "still present" cannot be satisfied by another one.
func (r *verifRun) newMessage(tail []byte) *nsq.Message {
	i := len(r.msgs)
	body := append([]byte{byte('a' + i)}, tail...)
	m := &nsq.Message{Body: body, Delegate: &verifDelegate{r}, Attempts: 1}
	m.ID[0] = byte('a' + i)
	r.msgs = append(r.msgs, m)
	rec := append(append([]byte{}, body...), '\n')
	r.recs = append(r.recs, rec)
	r.fin = append(r.fin, false)
	return m
}

// handle: what go-nsq's handler loop does with a message (consumer.go handlerLoop): call the
// handler; unless the handler disabled auto-response, FIN on nil / REQ on error right away.
func (r *verifRun) handle(f *FileLogger, m *nsq.Message) {
	err := f.HandleMessage(m)
	if err != nil {
		if !m.IsAutoResponseDisabled() {
			m.Requeue(-1)
		}
		return
	}
	if !m.IsAutoResponseDisabled() {
		m.Finish()
	}
}

// the five things that can happen to a router
const (
	verifEvMsg = iota
	verifEvTick
	verifEvHup
	verifEvTerm
	verifEvStop
	verifEvIntrude // not an input of the router: a file appears under the hand-off name
)

func (r *verifRun) deliver(ev int, body []byte) {
	r.curEv = ev
	switch ev {
	case verifEvMsg:
		r.handle(r.f, r.newMessage(body))
	case verifEvTick:
		if verifrt.Symbolic() {
			r.tickC <- time.Time{}
		} else {
			r.ticks++
			due := r.t0.Add(time.Duration(r.ticks)*r.tickStep + 30*time.Millisecond)
			if d := time.Until(due); d > 0 {
				time.Sleep(d)
			}
		}
	case verifEvHup:
		r.f.hupChan <- true
	case verifEvTerm:
		// SIGTERM / SIGINT: topic_discoverer closes termChan (and leaves its loop: no SIGHUP is
		// forwarded afterwards). From now on the router takes that branch in every iteration in
		// which it does not pick another ready channel, until StopChan is closed; go-nsq goes on
		// handing the messages it had already received to HandleMessage in the meantime.
		verifrt.Assume(!r.termClosed)
		r.termClosed = true
		r.msgsAtTerm = len(r.msgs)
		close(r.f.termChan)
	case verifEvStop:
		r.stopClosed = true
		close(r.f.consumer.StopChan)
	case verifEvIntrude:
		if r.intrude(verifrt.Choice("intrudeNext", 2) == 1) {
			r.intrusions++
		} else {
			verifrt.Assume(false) // nothing to collide with: same as the shorter sequence
		}
	}
	r.settle()
	if r.termClosed && ev != verifEvTerm && ev != verifEvIntrude {
		r.afterTerm(ev)
	}
}

// afterTerm (symbolic runs): termChan is closed and the router is parked inside consumer.Stop()
// (verifConsumerStop). Let it go round until it has taken what the event gave it: a message is
// received and written in the first round and synced and finished by the SIGTERM branch of the
// second; a closed StopChan is seen in the first. (The rounds in which the router picks the closed
// termChan again before the other ready channel change nothing in its state - its batch is empty
// after a SIGTERM iteration - so those schedules are cut.) Natively the real router spins through
// the same iterations on its own and settle() waits for the outcome.
func (r *verifRun) afterTerm(ev int) {
	if !verifrt.Symbolic() || r.routerExited || r.exitedProcess {
		return
	}
	rounds := 1
	if ev == verifEvMsg {
		rounds = 2
	}
	for i := 0; i < rounds && !r.routerExited; i++ {
		r.stopGate <- 1
		verifrt.Join()
		verifrt.Assume(len(r.f.logChan) == 0)
	}
	if ev == verifEvStop {
		verifrt.Assume(r.routerExited)
	}
}

func (r *verifRun) cleanup() {
	if !verifrt.Symbolic() && r.limited {
		syscall.Setrlimit(syscall.RLIMIT_FSIZE, &r.oldFsize)
	}
	if !verifrt.Symbolic() && r.root != "" {
		os.RemoveAll(r.root)
	}
}
