//go:build verif

package main

import (
	"github.com/nsqio/nsq/internal/verifrt"
)

// VerifC19_FileSizeLimit: the write(2) faults. Before any one event of the sequence the disk
// fills up / the quota or the file size limit is reached: no file can grow more than `room` bytes
// beyond the length the open output file has at that moment. room = 0: the next write fails
// outright; room smaller than a record: the body (or the body but not the newline) is written
// only in part - os.File.Write reports a short count and EFBIG; room of a record or more: that
// record still fits and the fault strikes inside a later one. fsync, close, link and unlink keep
// succeeding, so the only thing that tells nsq_to_file that a record is torn is the result of the
// write itself. Whatever it does about it (it exits), no message may be finished whose body and
// newline are not in a readable file and fsynced, and what was finished before stays.
//
// Unlike the numbered faults of VerifC19_Faults this one is produced by the real kernel in the
// native replay (RLIMIT_FSIZE of the test process, SIGXFSZ ignored; see limitFileSize): the same
// write fails at the same byte, so a counterexample replays natively. In gzip mode only room = 0
// is explored (the model's gzip members do not have the length of real ones, so "how much of a
// member still fits" would differ between model and replay).
func VerifC19_FileSizeLimit() { verifrt.Atomic(verifC19FileSizeLimit) }

func verifC19FileSizeLimit() {
	cfg := verifCfg{
		gzip:        verifrt.Choice("gzip", 2) == 1,
		workDir:     verifrt.Choice("workdir", 2) == 1,
		maxInFlight: 1 + verifrt.Choice("maxInFlight", 2),
		faults:      1,
	}
	r := verifNewRun(cfg)
	defer r.cleanup()
	n := verifrt.Bound("events", 3, 4)
	bodyLen := 1 // symbolic bytes per body: a record is letter, byte, newline
	rec := bodyLen + 2
	evs := r.plan(n, []int{verifEvMsg, verifEvHup, verifEvTerm, verifEvStop})
	limitBefore := verifrt.Choice("limitBefore", n+1) // n: never
	room := 0
	if limitBefore < n {
		room = verifrt.Choice("room", verifrt.Bound("room", rec+1, 3*rec))
		verifrt.Assume(!(cfg.gzip && room > 0))
		verifrt.Assume(limitBefore < len(evs)) // (the sequence ended earlier: same as "never")
	}
	if limitBefore < n {
		r.limitBefore, r.limitRoom = limitBefore, room
	}
	r.start(r.newLogger("t"))
	r.drive(evs, bodyLen)
	// (reached only if the logger did not exit)
	verifrt.Observe("finished", r.nFin)
	verifrt.Reach("b-no-limit-two-finished", limitBefore == n && r.nFin >= 2)
	verifrt.Reach("c-no-limit-gzip", limitBefore == n && r.nFin >= 1 && cfg.gzip)
	verifrt.Reach("d-limit-not-reached-by-the-run", limitBefore < n && r.nFin >= 1 && !r.hitLimit())
	verifrt.Reach("a-limit-leaves-room-for-exactly-one-record-which-is-finished", limitBefore < n && room == rec && r.nFin >= 1 && !r.hitLimit())
	if !verifrt.Symbolic() {
		verifrt.Reach("zz-fault-ends-in-exit", true)
	}
}

// hitLimit (symbolic runs): a write has been cut or refused by the file size limit.
func (r *verifRun) hitLimit() bool { return verifrt.Symbolic() && r.disk.faulted }
