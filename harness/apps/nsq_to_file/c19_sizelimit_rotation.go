//go:build verif

package main

import (
	"github.com/nsqio/nsq/internal/verifrt"
)

// VerifC19_RotationSizeLimit: the write(2) fault of VerifC19_FileSizeLimit (disk full / quota /
// file size limit: no file can grow more than `room` bytes beyond the length the open output file
// has at the moment the limit comes into force; fsync, close, link, unlink and the creation of new
// files keep working) combined with rotation by size, interval or <DATETIME> rollover, with
// max-in-flight 3 so that records stay written-but-unfinished across events.
//
// The run starts with a message and a sync tick (the first file now holds a finished, fsynced
// record), then any events from {message, sync tick, SIGHUP, consumer stopped}; the limit comes
// into force before any one of them. The case this harness is there for: a rotation (a message or
// a tick that finds the file due) has to close a file whose batch is still pending, the flush of
// that batch fails, while a NEW file - empty, hence far below the same limit - can be written
// without any error. In gzip mode the compressed bytes of a pending batch reach the file only when
// the member is finished, so for that batch the rotation's Close() IS the write, and its result the
// only sign that the records did not make it. Whatever nsq_to_file does about it (it exits), no
// message may be finished whose body and newline are not in a readable (gzip: decompressible) file
// and fsynced, and what was finished before stays.
//
// Model and native replay agree on which write fails although a real gzip member does not have
// the length of a model member: in gzip mode the limit is put into force only at a moment when a
// batch is pending (natively the member's header is in the file already, the model has written
// nothing of it yet) with room 0, measured in each world from the file's own length at that
// moment. From then on the next write to that file - the rest of the pending member, in both
// worlds - fails at its first byte, and a file created later has room for (at least) what the
// first file held when the limit was set: one whole member with a record, real or modelled.
// Without gzip every byte is where the model says, and the room is any value up to a record and a
// bit (thorough: two records).
func VerifC19_RotationSizeLimit() { verifrt.Atomic(verifC19RotationSizeLimit) }

func verifC19RotationSizeLimit() {
	cfg := verifCfg{
		gzip:        verifrt.Choice("gzip", 2) == 1,
		workDir:     verifrt.Choice("workdir", 2) == 1,
		skipEmpty:   verifrt.Choice("skipEmpty", verifrt.Bound("skip-empty-values", 1, 2)) == 1,
		maxInFlight: 3, // records stay written-but-unfinished across a rotation
		faults:      1,
		rotLimit:    true,
	}
	mode := verifrt.Choice("rotateBy", verifrt.Bound("rotate-modes", 1, 3))
	switch mode {
	case 0:
		cfg.rotateSize = 4 // a record is 3 bytes: the file is over the limit after two
	case 1:
		cfg.rotateEvery = true
	case 2:
		cfg.dateRoll = true
	}
	r := verifNewRun(cfg)
	defer r.cleanup()
	bodyLen := 1
	rec := bodyLen + 2
	r.recLen = rec
	k := 2
	if kb := verifrt.Bound("events-after-the-first-sync-when-rotating-by-size", 2, 3); mode == 0 {
		k = kb // (the clock-driven modes fork at every reading of the clock: two events there)
	}
	evs := []int{verifEvMsg, verifEvTick}
	evs = append(evs, r.plan(k, []int{verifEvMsg, verifEvTick, verifEvHup, verifEvStop})...)
	if !verifrt.Symbolic() {
		r.opts.SyncInterval = r.tickStep // (the fixed prefix contains a tick plan() has not seen)
	}
	n := 2 + k
	limitBefore := 2 + verifrt.Choice("limitBefore", k+1) // n: never
	room := 0
	if limitBefore < n {
		verifrt.Assume(limitBefore < len(evs)) // (the sequence ended earlier: same as "never")
		if cfg.gzip {
			r.limitNeedsPending = true
		} else {
			room = verifrt.Choice("room", verifrt.Bound("room", rec+2, 2*rec+1))
		}
		r.limitBefore, r.limitRoom = limitBefore, room
	}
	r.start(r.newLogger("t"))
	r.drive(evs, bodyLen)
	// (reached only if the logger did not exit)
	files := r.snapshot()
	verifrt.Observe("finished", r.nFin)
	verifrt.Reach("a-no-limit-rotated-two-files-gzip", limitBefore == n && cfg.gzip && r.nFin >= 2 && len(files) >= 2)
	verifrt.Reach("b-no-limit-rotated-with-a-pending-record", limitBefore == n && r.carried > 0)
	verifrt.Reach("c-plain-limit-not-reached-because-the-rotation-opened-a-new-file", limitBefore < n && !cfg.gzip && room < rec && r.nFin >= 2 && len(files) >= 2 && !r.hitLimit())
	verifrt.Reach("d-first-record-finished-by-the-tick", r.nFin >= 1 && len(r.msgs) >= 1)
	if !verifrt.Symbolic() {
		verifrt.Reach("zz-fault-ends-in-exit", true)
		verifrt.Reach("zz-rotation-cannot-flush-the-pending-gzip-batch-and-exits", true)
	}
}

// batchPending: records have been written that are neither synced nor finished yet, and their
// file is still open. (The same in both worlds: a message handed to the router is either finished
// or sits in the open file's batch; in gzip mode that batch is inside the gzip writer.)
func (r *verifRun) batchPending() bool {
	f := r.f
	p := f.out != nil && len(r.msgs) > r.nFin && !r.routerExited
	if verifrt.Symbolic() && p {
		g := r.disk.gzs[f.gzipWriter]
		verifrt.Assert(g != nil && !g.closed && len(g.buf) == r.recLen*(len(r.msgs)-r.nFin), "model-gzip-batch-holds-the-unfinished-records")
	}
	return p
}
