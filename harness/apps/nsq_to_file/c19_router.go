//go:build verif

package main

import (
	"fmt"

	"github.com/nsqio/nsq/internal/verifrt"
)

// plan draws the event sequence (before the router starts: natively the sync ticker is a real
// one, and it is only given a short period when the sequence contains ticks).
func (r *verifRun) plan(n int, alphabet []int) []int {
	var evs []int
	ticks, termSeen := false, false
	for i := 0; i < n; i++ {
		ev := alphabet[verifrt.Choice("event", len(alphabet))]
		// sequences that cannot happen or add nothing are cut here, before anything runs
		verifrt.Assume(!(ev == verifEvTick && termSeen))          // the first SIGTERM iteration stops the ticker
		verifrt.Assume(!(ev == verifEvHup && termSeen))           // topic_discoverer forwards no SIGHUP after SIGTERM
		verifrt.Assume(!(ev == verifEvTerm && termSeen))          // termChan is closed once
		verifrt.Assume(!(ev == verifEvTerm && r.cfg.starved))     // (native consumer with a fake starved connection cannot Stop())
		verifrt.Assume(!(ev == verifEvIntrude && !r.cfg.workDir)) // no hand-off, nothing to collide with
		termSeen = termSeen || ev == verifEvTerm
		evs = append(evs, ev)
		ticks = ticks || ev == verifEvTick
		if ev == verifEvStop {
			break
		}
	}
	if !verifrt.Symbolic() && ticks {
		r.opts.SyncInterval = r.tickStep
	}
	return evs
}

// drive: hand the router a sequence of n events chosen from the alphabet
// {message, sync tick, SIGHUP, SIGTERM iteration, consumer stopped}; after every event (router
// parked again) the state oracle runs; the FIN oracle runs inside every OnFinish.
func (r *verifRun) drive(plan []int, bodyLen int) {
	for i, ev := range plan {
		if i == r.breakBefore {
			r.broke = r.breakOpenFile(r.breakVoid)
		}
		if i == r.limitBefore {
			if r.limitNeedsPending && !r.batchPending() {
				verifrt.Assume(false) // (gzip: nothing pending, the limit would strike natively inside a member header the model does not have)
			}
			r.limitFileSize(r.limitRoom)
		}
		if (ev == verifEvTick && r.tickStopped) || (r.termClosed && (ev == verifEvTick || ev == verifEvHup || ev == verifEvTerm)) {
			verifrt.Assume(false) // the ticker is stopped by the first SIGTERM iteration; no SIGHUP, no second SIGTERM after it
		}
		if ev == verifEvTerm && r.cfg.starved {
			verifrt.Assume(false) // native consumer with a fake starved connection cannot Stop()
		}
		var body []byte
		if ev == verifEvMsg {
			body = verifrt.BytesN(fmt.Sprintf("body%d", len(r.msgs)), bodyLen)
		}
		r.deliver(ev, body)
		r.stateCheck()
		if ev == verifEvStop {
			verifrt.Assert(r.routerExited, "router-exits-when-the-consumer-has-stopped")
			break
		}
	}
}

// VerifC19_FinAfterSync: the router under every event sequence of bounded length, for gzip
// on/off, work-dir on/off, max-in-flight 1/2, starved or not: FIN only for messages whose body
// and newline are in a readable file and fsynced; finished messages stay durable through HUP
// close/reopen, hand-off to the output dir and shutdown; crash after any disk effect keeps them.
func VerifC19_FinAfterSync() { verifrt.Atomic(verifC19FinAfterSync) }

func verifC19FinAfterSync() {
	cfg := verifCfg{
		gzip:        verifrt.Choice("gzip", 2) == 1,
		workDir:     verifrt.Choice("workdir", 2) == 1,
		maxInFlight: 1 + verifrt.Choice("maxInFlight", 2),
		starved:     verifrt.Choice("starved", 2) == 1,
	}
	r := verifNewRun(cfg)
	defer r.cleanup()
	evs := r.plan(verifrt.Bound("events", 3, 5), []int{verifEvMsg, verifEvTick, verifEvHup, verifEvTerm, verifEvStop, verifEvIntrude})
	r.start(r.newLogger("t"))
	r.drive(evs, verifrt.Bound("symbolic-body-bytes", 1, 2))
	verifrt.Observe("finished", r.nFin)
	verifrt.Reach("a-message-after-sigterm-is-written-and-finished", r.lateFin > 0 && r.nFin >= 2)
	verifrt.Reach("a-message-was-finished", r.nFin > 0)
	verifrt.Reach("two-finished-in-one-sync", r.nFin >= 2 && verifGhost(r.syncs == 1) && !cfg.gzip)
	verifrt.Reach("gzip-finished", r.nFin > 0 && cfg.gzip)
	verifrt.Reach("written-but-not-yet-finished", len(r.msgs) > r.nFin)
	verifrt.Reach("handed-off-to-output-dir", verifGhost(r.links > 0) && r.nFin > 0)
	verifrt.Reach("reopened-after-hup", r.nFin >= 2 && verifGhost(r.syncs >= 3))
	verifrt.Reach("stopped-after-sigterm-with-a-late-message", r.lateFin == 1 && r.routerExited)
	verifrt.Reach("hand-off-name-taken-meanwhile", r.intrusions > 0 && verifGhost(r.links > 0) && r.nFin > 0)
}

// VerifC19_Rotation: the router with rotation by size (the limit is crossed by the second record),
// by interval (elapsed or not at every check, as the model clock decides), by <DATETIME> rollover (the clock may cross the hour at any
// reading), with and without --skip-empty-files, gzip, work dir, a directory component in the
// file name, and optionally a file already sitting where the NEXT revision would go:
// messages finished before a rotation stay durable in a readable file, nothing existing is
// overwritten, FIN still only after write+fsync in the new file.
func VerifC19_Rotation() { verifrt.Atomic(verifC19Rotation) }

func verifC19Rotation() {
	cfg := verifCfg{
		gzip:        verifrt.Choice("gzip", 2) == 1,
		workDir:     verifrt.Choice("workdir", 2) == 1,
		skipEmpty:   verifrt.Choice("skipEmpty", 2) == 1,
		maxInFlight: 3, // messages stay written-but-unfinished across a rotation
	}
	mode := verifrt.Choice("rotateBy", 3)
	switch mode {
	case 0:
		cfg.rotateSize = 4 // a record is 3 bytes: the file is over the limit after two
	case 1:
		cfg.rotateEvery = true
	case 2:
		cfg.dateRoll = true
		cfg.subDir = true
	}
	r := verifNewRun(cfg)
	defer r.cleanup()
	f := r.newLogger("t")
	// a file in the way of the second revision / the second hour
	way := verifrt.Choice("inTheWay", 4)
	verifrt.Assume((mode == 2) == (way == 0 || way == 3) || way == 0) // revision collisions for size/interval, next-hour collision for date
	verifrt.Assume(!(way == 2 && !cfg.workDir))                      // (without a work dir that is case 1 again)
	switch way {
	case 1:
		r.preExisting(r.fileName(f, r.work, "00", 1), []byte("P1;"))
	case 2:
		r.preExisting(r.fileName(f, r.out, "00", 1), []byte("P2;"))
	case 3:
		r.preExisting(r.fileName(f, r.out, "01", 0), []byte("P3;"))
	}
	evs := r.plan(verifrt.Bound("events", 3, 4), []int{verifEvMsg, verifEvTick, verifEvHup})
	r.start(f)
	r.drive(evs, 1)
	files := r.snapshot()
	verifrt.Observe("finished", r.nFin)
	verifrt.Reach("finished-messages-in-two-files", r.nFin >= 2 && len(files) >= 2+len(r.pre))
	verifrt.Reach("rotated-by-date", mode == 2 && len(files) >= 2 && r.nFin >= 2)
	verifrt.Reach("rotated-with-a-file-in-the-way", len(r.pre) > 0 && r.nFin >= 2 && len(files) >= 3)
	verifrt.Reach("tick-with-skip-empty", cfg.skipEmpty && r.nFin >= 1 && len(files) >= 1)
	verifrt.Reach("unfinished-message-carried-over-a-rotation", r.carried > 0)
}

// VerifC19_Faults: one of the fallible disk operations (open, write of a gzip member - possibly
// partial -, fsync, close, stat, link, remove) fails, at any position of any event
// sequence. nsq_to_file answers every such failure by exiting; whatever it does, no FIN may be
// issued for a message whose record is not durable, and at the instant of the exit every
// finished message and every pre-existing file must survive. (Disk-model only: a real disk
// cannot be made to fail these operations on demand, so a counterexample here cannot be replayed
// natively. The faults a real kernel can be made to produce are checked where they replay: a
// failing or short write(2) of a plain output file in VerifC19_FileSizeLimit, a file on which
// every write and/or fsync fails in VerifC19_BrokenFile.)
func VerifC19_Faults() { verifrt.Atomic(verifC19Faults) }

func verifC19Faults() {
	cfg := verifCfg{
		gzip:        verifrt.Choice("gzip", 2) == 1,
		workDir:     verifrt.Choice("workdir", 2) == 1,
		maxInFlight: 2,
		faults:      verifrt.Bound("fault-positions", 14, 20),
	}
	r := verifNewRun(cfg)
	defer r.cleanup()
	f := r.newLogger("t")
	if cfg.workDir && verifrt.Choice("collision", 2) == 1 {
		r.preExisting(r.fileName(f, r.out, "00", 0), []byte("P1;"))
	}
	faultAt := verifrt.Choice("faultAt", cfg.faults+1) - 1
	if verifrt.Symbolic() {
		r.disk.faultAt = faultAt
	}
	evs := r.plan(verifrt.Bound("events", 3, 4), []int{verifEvMsg, verifEvHup, verifEvStop})
	r.start(f)
	r.drive(evs, 1)
	verifrt.Reach("no-fault-run-finishes-messages", r.nFin > 0 && !(verifrt.Symbolic() && r.disk.faulted))
	if verifrt.Symbolic() {
		verifrt.Reach("zz-fault-position-beyond-the-run", faultAt >= 0 && !r.disk.faulted)
	} else {
		// a real disk does not fail on demand: the native run of a fault witness is the
		// fault-free run of the same events (it must still satisfy every oracle)
		verifrt.Reach("zz-fault-position-beyond-the-run", faultAt >= 0)
		verifrt.Reach("zz-fault-ends-in-exit", faultAt >= 0)
	}
}

// VerifC19_BrokenFile: before any one event of the sequence the logger's open file stops
// working: either every write and fsync fails, or writes are swallowed and only fsync reports
// the failure. Unlike VerifC19_Faults this is a fault a
// real kernel can be made to produce, so a counterexample replays natively. Whatever the logger
// does about the errors (it exits), no message may be finished that is not durable, and what
// was finished before stays.
func VerifC19_BrokenFile() { verifrt.Atomic(verifC19BrokenFile) }

func verifC19BrokenFile() {
	cfg := verifCfg{
		gzip:        verifrt.Choice("gzip", 2) == 1,
		workDir:     verifrt.Choice("workdir", 2) == 1,
		maxInFlight: 1 + verifrt.Choice("maxInFlight", 2),
		faults:      1,
	}
	r := verifNewRun(cfg)
	defer r.cleanup()
	n := verifrt.Bound("events", 3, 4)
	evs := r.plan(n, []int{verifEvMsg, verifEvHup, verifEvStop})
	r.breakBefore = verifrt.Choice("breakBefore", n+1)
	r.breakVoid = verifrt.Choice("breakKind", 2) == 1
	if r.breakBefore == n {
		r.breakBefore = -1
	}
	r.start(r.newLogger("t"))
	r.drive(evs, 1)
	// (reached only if the logger did not exit)
	verifrt.Reach("a-healthy-file-two-finished", r.breakBefore < 0 && r.nFin >= 2)
	verifrt.Reach("b-healthy-file-gzip", r.breakBefore < 0 && r.nFin >= 1 && cfg.gzip)
	verifrt.Reach("c-healthy-file-work-dir", r.breakBefore < 0 && r.nFin >= 1 && cfg.workDir && verifGhost(r.links > 0))
	verifrt.Reach("d-nothing-open-to-break", r.breakBefore >= 0 && !r.broke)
	if !verifrt.Symbolic() {
		verifrt.Reach("zz-fault-ends-in-exit", true)
	}
}

// VerifC19_ManyPending: deeper router states - a run of up to max-in-flight+1 messages first
// (so that up to max-in-flight-1 records are written but unfinished, or the buffer has just
// filled and been flushed), then any two events. Same oracles; reaches the "finish a whole
// batch after one fsync" loop with long batches.
func VerifC19_ManyPending() { verifrt.Atomic(verifC19ManyPending) }

func verifC19ManyPending() {
	k := verifrt.Bound("max-in-flight", 4, 8)
	cfg := verifCfg{
		gzip:        verifrt.Choice("gzip", 2) == 1,
		workDir:     verifrt.Choice("workdir", 2) == 1,
		maxInFlight: k,
	}
	r := verifNewRun(cfg)
	defer r.cleanup()
	j := 1 + verifrt.Choice("prefix", k+1)
	var evs []int
	for i := 0; i < j; i++ {
		evs = append(evs, verifEvMsg)
	}
	evs = append(evs, r.plan(2, []int{verifEvMsg, verifEvTick, verifEvHup, verifEvTerm, verifEvStop})...)
	r.start(r.newLogger("t"))
	r.drive(evs, 1)
	verifrt.Observe("finished", r.nFin)
	verifrt.Reach("batch-of-three-finished-after-one-fsync", r.nFin >= 4 && verifGhost(r.syncs == 2) && !cfg.gzip)
	verifrt.Reach("buffer-filled-and-flushed", r.nFin == k+1 && len(r.msgs) == k+1)
	verifrt.Reach("gzip-batch", r.nFin >= 4 && cfg.gzip && verifGhost(r.gzCloses <= 4))
	verifrt.Reach("late-message-after-a-batch-finished-by-sigterm", r.lateFin == 1 && r.nFin >= 4 && r.nFin == len(r.msgs))
}
