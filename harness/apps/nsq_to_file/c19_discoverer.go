//go:build verif

package main

import (
	"os"
	"syscall"
	"time"

	"github.com/nsqio/go-nsq"
	"github.com/nsqio/nsq/internal/lg"
	"github.com/nsqio/nsq/internal/verifrt"
)

// VerifC19_Signals: the whole signal path - TopicDiscoverer.run with two topics, its loggers
// created by the real NewFileLogger (the consumer is never connected), SIGHUP and SIGTERM sent
// as os.Signal values on the channels main() registers with signal.Notify. HUP must reach every
// logger (each syncs, finishes and closes its file), TERM must stop every router and run()
// returns only after all of them have exited; through all of it FIN only after write+fsync and
// every finished message durable in a readable file (gzip or not, work dir or not).
func VerifC19_Signals() { verifrt.Atomic(verifC19Signals) }

func verifC19Signals() {
	cfg := verifCfg{
		gzip:        verifrt.Choice("gzip", 2) == 1,
		workDir:     verifrt.Choice("workdir", 2) == 1,
		maxInFlight: 2,
	}
	r := verifNewRun(cfg)
	defer r.cleanup()
	r.stopClosesAtOnce = true
	r.opts.Topics = []string{"ta", "tb"}
	var ncfg *nsq.Config
	if verifrt.Symbolic() {
		verifrt.Stub("github.com/nsqio/go-nsq.NewConsumer", func(topic, channel string, c *nsq.Config) (*nsq.Consumer, error) {
			return &nsq.Consumer{StopChan: make(chan int)}, nil
		})
		verifrt.Stub("(*github.com/nsqio/go-nsq.Consumer).AddHandler", func(c *nsq.Consumer, h nsq.Handler) {})
		verifrt.Stub("(*github.com/nsqio/go-nsq.Consumer).ConnectToNSQDs", func(c *nsq.Consumer, a []string) error { return nil })
		verifrt.Stub("(*github.com/nsqio/go-nsq.Consumer).ConnectToNSQLookupds", func(c *nsq.Consumer, a []string) error { return nil })
	} else {
		ncfg = nsq.NewConfig()
	}
	hup := make(chan os.Signal, 1)
	term := make(chan os.Signal, 1)
	nolog := func(lvl lg.LogLevel, f string, args ...interface{}) {}
	d := &TopicDiscoverer{logf: nolog, opts: r.opts, topics: make(map[string]*FileLogger), hupChan: hup, termChan: term, cfg: ncfg}
	returned := false
	verifrt.Go("discoverer", func() {
		d.run()
		returned = true
	})
	r.settleAll(d)
	a, b := d.topics["ta"], d.topics["tb"]
	verifrt.Assert(a != nil && b != nil && len(d.topics) == 2, "a-logger-per-topic")
	if a == nil || b == nil {
		return
	}
	if !verifrt.Symbolic() {
		for _, l := range r.loggers {
			l.consumer.SetLogger(nil, nsq.LogLevelError)
		}
	}
	send := func(l *FileLogger) {
		r.handle(l, r.newMessage(verifrt.BytesN("body", 1)))
		r.settleAll(d)
		r.stateCheck()
	}
	send(a) // the first message of a file is synced and finished at once
	send(b)
	send(a) // this one stays written-but-unfinished until the next sync point
	send(b)
	pendingBeforeHup := len(r.msgs) - r.nFin
	hupSent := verifrt.Choice("hup", 2) == 1
	if hupSent {
		hup <- syscall.SIGHUP
		r.settleAll(d)
		r.stateCheck()
		// the signal reached both loggers: each had one unfinished message, both are finished now
		verifrt.Assert(r.nFin == len(r.msgs), "hup-syncs-and-finishes-in-every-logger")
	}
	if verifrt.Choice("more", 2) == 1 {
		send(a)
	}
	term <- syscall.SIGTERM
	if verifrt.Symbolic() {
		verifrt.Join()
	} else {
		for i := 0; i < 20000 && !returned; i++ {
			time.Sleep(500 * time.Microsecond)
		}
	}
	verifrt.Assert(returned, "run-returns-after-term")
	r.stateCheck()
	// after a clean stop nothing written is left unacknowledged or unsynced
	verifrt.Assert(r.nFin == len(r.msgs), "clean-stop-finishes-everything-written")
	verifrt.Observe("finished", r.nFin)
	verifrt.Reach("hup-then-term", hupSent && pendingBeforeHup == 2 && r.nFin == len(r.msgs) && len(r.msgs) == 5)
	verifrt.Reach("term-finishes-pending", !hupSent && pendingBeforeHup == 2 && r.nFin == len(r.msgs))
	// a handler of go-nsq that is still busy hands over one more message after all that (Stop()
	// only sends CLS; StopChan is closed at the latest 30 s later, handlers running or not). Nobody
	// writes it any more, so nobody may finish it (the FIN oracle runs inside OnFinish).
	finBefore := r.nFin
	r.handle(a, r.newMessage(verifrt.BytesN("late", 1)))
	r.stateCheck()
	verifrt.Assert(r.nFin == finBefore, "message-handed-over-after-the-router-has-gone-is-not-finished")
}

// settleAll: every router and the discoverer loop are parked.
func (r *verifRun) settleAll(d *TopicDiscoverer) {
	if len(r.loggers) == 0 {
		if verifrt.Symbolic() {
			verifrt.Join()
		} else {
			for i := 0; i < 20000 && !(len(d.topics) == 2 && verifRouterParked()); i++ {
				time.Sleep(500 * time.Microsecond)
			}
		}
		for _, l := range d.topics {
			r.loggers = append(r.loggers, l)
		}
		if len(r.loggers) > 0 {
			r.f = r.loggers[0]
		}
		return
	}
	r.settle()
}
