#!/bin/bash
# usage: try_mutant_wt.sh <prop> <mN> [extra gosmt args] -- run the quick check of <prop> against a scratch
# worktree of /repo with /verif/seeded/<prop>-<mN>/patch.diff applied (nothing touches /repo itself)
export GOFLAGS=-mod=mod GOPROXY=off GOSUMDB=off GOTOOLCHAIN=local
prop=$1; m=$2; shift 2
id=$prop-$m; wt=/tmp/tm/$id
mkdir -p /tmp/tm
git -C /repo worktree remove --force $wt 2>/dev/null
git -C /repo worktree add --detach $wt HEAD >/dev/null 2>&1 || { echo "$id: worktree failed"; exit 9; }
( cd $wt && git apply /verif/seeded/$id/patch.diff ) || { echo "$id: patch failed"; git -C /repo worktree remove --force $wt; exit 9; }
cd /verif
t0=$(date +%s)
timeout 1800 ./bin/gosmt -prop $prop -repo $wt -evidence /tmp/tm/$id.evidence.json "$@" > /tmp/tm/$id.log 2>&1
rc=$?
t1=$(date +%s)
echo "$id rc=$rc $((t1-t0))s $(grep -E '^(VIOLATION|INCONCLUSIVE)' /tmp/tm/$id.log | cut -c1-230 | head -3 | tr '\n' '|')"
git -C /repo worktree remove --force $wt
