#!/usr/bin/env python3
# Generates /verif/MANIFEST.json from the table below.
import json, os
V = os.path.dirname(os.path.dirname(os.path.abspath(__file__)))
TECH = "bounded symbolic execution of the real functions from go/ssa (own SSA->SMT-LIB executor) + z3 decides every assertion under the path condition; sat models replayed natively"
NOTE_COMMON = " Trusted base: the executor's operational model of Go (maps, channels, select, scheduler at sync-op granularity), the environment contracts listed in the evidence file (time as an int64 clock, sync, atomic, fmt, regexp unrolling), z3 4.8.12. Bounded: nothing outside the bounds in the evidence is claimed."
CLAIMED = {
 "C12": ("One inductive step of NewGUID from ANY generator state and clock reading (error => state unchanged; success => id > lastID and recorded), k consecutive calls under an arbitrary monotone clock, field non-overlap, Hex injectivity/charset: all decided by the solver for every 64-bit value; counterexamples replayed natively. Bounded model checking, no unbounded claim.",
         "Clock readings limited to the 41-bit timestamp field's range (to ~2085); concurrency on the factory is reduced to the mutex contract (Lock/Unlock bracket the step); GenerateID's sleep/retry loop is not a liveness claim.", "5 (C12)"),
}
NA_REASON = "no check registered yet in this build of /verif (solver-based harness not written or not yet clean on the unchanged tree); see DESIGN.md section 5 for the planned encoding"
props = [json.loads(l) for l in open(os.path.join(V, "properties.jsonl"))]
checks, na = [], []
for p in props:
    pid = p["id"]
    if pid in CLAIMED:
        text, note, ref = CLAIMED[pid]
        checks.append({
            "property_id": pid,
            "quick_cmd": "./check %s quick" % pid,
            "thorough_cmd": "./check %s thorough" % pid,
            "evidence_file": "/verif/evidence/%s.json" % pid,
            "replay_cmd_template": "./check %s --replay {path}" % pid,
            "engine": "gosmt",
            "level_claimed": {"category": "model_checking", "text": text, "design_ref": "DESIGN.md §" + ref},
            "level_note": note + NOTE_COMMON,
            "technique": TECH,
        })
    else:
        na.append({"property_id": pid, "reason": NA_REASON})
m = {
 "version": 1,
 "setup_cmd": "cd /verif/engine && GOFLAGS=-mod=mod GOPROXY=off GOSUMDB=off GOTOOLCHAIN=local go build -o ../bin/gosmt .",
 "hooks": {"guard": "verif", "enable": "harnesses and the verifrt runtime are mounted with go/packages and `go test -overlay` under build tag verif; nothing is written into /repo",
           "baseline_off_cmd": "cd /repo && go test -vet=off -count=1 -timeout 25m ./...", "source_commits": [], "add_only": True},
 "engines": [{"name": "gosmt", "path": "/verif/engine", "serves_properties": sorted(CLAIMED), "kind_free_text": "symbolic executor for go/ssa (x/tools v0.29.0) emitting SMT-LIB2 bit-vector queries to a live z3 process; fork by re-execution; native replay via go test -overlay"}],
 "checks": checks,
 "not_applicable": na,
 "notes": "Exit codes: 0 held within bounds; 1 + VIOLATION line for a natively replayed counterexample; 2 + INCONCLUSIVE for anything undecided (never counted as held).",
}
json.dump(m, open(os.path.join(V, "MANIFEST.json"), "w"), indent=1)
print("claimed:", sorted(CLAIMED), "n/a:", len(na))
