#!/usr/bin/env python3
# Generates /verif/MANIFEST.json from the table below.
import json, os
V = os.path.dirname(os.path.dirname(os.path.abspath(__file__)))
TECH = "bounded symbolic execution of the real functions from go/ssa (own SSA->SMT-LIB executor) + z3 decides every assertion under the path condition; sat models replayed natively"
NOTE_COMMON = " Trusted base: the executor's operational model of Go (maps, channels, select, scheduler at sync-op granularity), the environment contracts listed in the evidence file (time as an int64 clock, sync, atomic, fmt, regexp unrolling), z3 4.8.12. Bounded: nothing outside the bounds in the evidence is claimed."
CLAIMED = {
 "C12": ("One inductive step of NewGUID from ANY generator state and clock reading (error => state unchanged; success => id > lastID and recorded), k consecutive calls under an arbitrary monotone clock, field non-overlap, Hex injectivity/charset: all decided by the solver for every 64-bit value; counterexamples replayed natively. Bounded model checking, no unbounded claim.",
         "Clock readings limited to the 41-bit timestamp field's range (2013..2080); concurrency on the factory is reduced to the mutex contract (Lock/Unlock bracket the step); GenerateID's sleep/retry loop is not a liveness claim.", "5 (C12)"),
 "C07": ("Solver-decided round trips of the real encoders/decoders for every timestamp/attempts/id/body within the bound: decodeMessage(WriteTo(m)) == m, decodeMessage on any buffer, writeMessageToBackend hands the backend exactly the encoding with pooled-buffer reuse, SendFramedResponse size/type/data; PUB/DPUB/MPUB store exactly the bytes after the length prefix (shared with C09).",
         "Bodies up to 4 (quick) / 12 (thorough) bytes; TLS/snappy/deflate transforms, disk queue files and the HTTP text-mpub splitter are outside this check (the latter is planned under C10).", "5 (C07)"),
 "C04": ("Inductive one-iteration lemma of the decimal parser's loop from an arbitrary loop-head state (so numbers of any length, 'far beyond 64 bits' included), DPUB range/exactness for every uint64 delay with the parser replaced by its lemma-checked contract, TOUCH cap min(now+T, delivered+max-msg-timeout) and the timeout/deferred scans (never early, exactly the due entries, heaps stay valid) from any valid channel state with symbolic deadlines and scan instant.",
         "max-req-timeout case-split over {0, 1 ms, 1 h, 2^40 ms}; channel states up to 3 in-flight / 3 deferred messages (4 thorough); 'delivered soon after' (queueScanLoop's random selection, ticker periods) and deferred messages that overflowed to disk are outside.", "5 (C04)"),
 "C02": ("One consumer answer (FIN/REQ/TOUCH through the real protocol handlers) from ANY valid channel state built through the real insertion code (symbolic ids, owners, deadlines; 0-2 in flight, 0-1 deferred, 0-1 queued; 3/1/1 thorough): accepted iff in flight and held by the answering connection, else the documented non-fatal E_*_FAILED with no change to any store, deadline or counter; post-conditions of FIN (in no store), REQ (exactly one of queue/deferred, delay = min(requested, max)), TOUCH; heap/map representation invariant re-established after every operation.",
         "Step-wise (inductive over the invariant), not whole histories; interleavings of answers with the timeout scan and the delivery pump are not yet covered by this check; attempts counting in the delivery pump is outside.", "5 (C02)"),
 "C09": ("The real Exec/PUB/DPUB/MPUB/RDY/state handlers over symbolic wire bytes: PUB/DPUB with any topic bytes, any 4-byte size and any following bytes (accept iff valid, exactly one message = the bytes on the wire, exactly prefix+body consumed, no allocation above max-msg-size before refusal); MPUB all-or-nothing with the batch bounded by max-body-size; name rule == documented rule for every string <= 12/16 bytes (regexp unrolled from the source literal); RDY range for every uint64; out-of-state / malformed commands fatal E_INVALID; no panic; every Exec error implements ChildErr.",
         "max-msg-size 3 / max-body-size 14 and streams up to 10/20 bytes (config constants chosen small, sizes symbolic); IDENTIFY option ranges, AUTH, SUB success path, TLS and heartbeats are not covered here; 'other clients unaffected' is reduced to panic-freedom of the per-connection handlers.", "5 (C09)"),
 "C15": ("nsqlookupd's real IOLoop over any ASCII byte stream up to 6/8 bytes, IDENTIFY with any 4-byte size and following bytes (never panics, nonsense sizes/truncated/undecodable bodies are fatal E_BAD_BODY and register nothing), required-field check via the json contract model, and for every command of a second connection (any keyword/params/state): registrations of the first connection intact, documented error code, no panic.",
         "Bytes >= 0x80 in the command line (std UTF-8 path) and allocations above 6 bytes are cut as outside the claim (an oversized allocation preceding the refusal is not flagged); HTTP handlers are covered under C14; encoding/json is a contract model.", "5 (C15)"),
 "C03": ("Readiness predicate for every counter value, RDY range for every uint64, ONE iteration of the real delivery pump (messagePump loop-step) from an arbitrary loop-head state (a message is written only if the connection was ready at the top of that iteration, at most one per iteration, registered in flight before the write, attempts+1), FIN counters through the real handler, and topic pause against the real topic pump goroutine under all interleavings within the preemption bound (paused before or after Start).",
         "Loop-step covers one iteration from the stated state space (RDY/in-flight <= 3, one waiting message); output-buffer timing and competing consumers > 1 are outside; native replay of the pump harness reaches the loop-head state through the real entry (subscription event).", "5 (C03)"),
 "C05": ("Channel close from any valid state (the backend receives exactly the unfinished messages byte-identical, once), topic close against the real pump thread, metadata round trip through the json contract model (non-ephemeral topics/channels/paused flags restored, every restored topic started), and close racing scans/REQ/publish under all interleavings within the preemption bound (every owed or acknowledged message is on disk).",
         "go-diskqueue and the process restart itself are replaced by a FIFO stub contract; two shutdown windows are genuine defects recorded as known findings (REQ 0 racing close, publish racing topic close); the consumer-pump window is covered only by the pump loop-step of C03.", "5 (C05)"),
 "C08": ("Empty/Delete step from any valid channel state, ephemeral channel life cycle (no disk backend, overflow dropped, delete callback exactly once), and Channel.Empty racing FIN/REQ/TOUCH/timeout scan in two threads under every interleaving within the preemption bound: no panic, no deadlock, structures consistent and nothing left at quiescence. Counterexample schedules are imposed on the real code natively (instrumented copy + baton scheduler).",
         "Ten interleavings where Empty is not atomic with respect to answers/scans are genuine nsq defects listed in known_findings.json (discarded messages resurrected, consumer in-flight count -1, map/heap inconsistency); the crash among them was repaired (fix f3573c0). Topic/channel deletion racing creation and SUB is not covered yet.", "5 (C08)"),
 "C13": ("Ledger over 1 (quick) / 2 (thorough) arbitrary operations (publish with backend failure, deferred publish, delivery, FIN/REQ for any id by either of two consumers, both scans, empty) from any valid channel state: received == depth + in-flight + deferred + finished + emptied, per-consumer in-flight count == messages it holds and never negative; topic message_count/message_bytes == what was acknowledged incl. partial multi-publish failure; GetStats wiring and topic/channel filters for symbolic counters.",
         "Text rendering (printStats) and statsd are outside; producer client stats (sync.Map of connections) not covered; concurrency of counters is covered under C08.", "5 (C13)"),
 "C16": ("readResponseBounded for every int32 size prefix, lookupPeer.Command with one fault bit per I/O call, connectCallback (REGISTER set == live topics/channels), the real lookupLoop goroutine under churn, faults, two peers and reconfiguration against a scripted nsqlookupd, GetTopic pre-creating every channel its lookupds know before the first message, and delete-then-recreate notification ordering.",
         "Loop harnesses explore one canonical run-to-block schedule (races only in NotifyOrderRace); convergence time and real sockets are outside; the Notify reordering race is a genuine defect recorded as known finding.", "5 (C16)"),
 "C17": ("All ten state-changing nsqadmin actions through the real handlers and through the route table recorded from NewHTTPServer: without an admin identity 403 and zero upstream interactions; with one (or no admin list) exactly the requested action on every relevant upstream; identity decision over symbolic admin lists / header names / look-alike values; /config CIDR gate for any IPv4 client and network before the option is read or written; read-only views never 403.",
         "httprouter dispatch, header canonicalisation beyond three header names, non-ASCII identities, IPv6 CIDRs and notification POSTs are outside; clusterinfo methods are recorders symbolically and loopback servers natively.", "5 (C17)"),
 "C18": ("Union/dedup/sorting of every clusterinfo fetch function against scripted upstreams (any subset failing: plain error / partial result + PartialErr / nil), field-wise sums of TopicStats.Add/ChannelStats.Add from arbitrary aggregate states, GETV1 contract, nsqadmin views (502 only when a whole stage got no answer, warning iff something failed, totals == sums), fetch goroutine interleavings, and garbage upstream JSON shapes that must not crash nsqadmin.",
         "JSON syntax-level malformation is only modelled as a GETV1 error; counters above 2^63-1, float percentile arithmetic and the graphite handler are outside; encoding/json is a contract model.", "5 (C18)"),
 "C20": ("to_nsq's real readAndPublish loop over any bytes/delimiter/chunking (records == reference split, byte-exact, in order, to every destination, final unterminated record whole, publish error stops), nsq_to_nsq HandleMessage + responder goroutines (FIN only after an accepted publish, REQ otherwise, exactly one response), nsq_to_http POST/GET publishers in modes all/round-robin/hostpool for any status or transport error.",
         "go-nsq's connection/backoff machinery and hostpool internals are contracts (stubs); a down destination stays down within one run.", "5 (C20)"),
}
NA_REASON = "no check registered yet in this build of /verif (solver-based harness not written or not yet clean on the unchanged tree); see DESIGN.md section 5 for the planned encoding"
props = [json.loads(l) for l in open(os.path.join(V, "properties.jsonl"))]
checks, na = [], []
for p in props:
    pid = p["id"]
    if pid in CLAIMED:
        text, note, ref = CLAIMED[pid]
        checks.append({
            "property_id": pid,
            "quick_cmd": "./check %s quick" % pid,
            "thorough_cmd": "./check %s thorough" % pid,
            "evidence_file": "/verif/evidence/%s.json" % pid,
            "replay_cmd_template": "./check %s --replay {path}" % pid,
            "engine": "gosmt",
            "level_claimed": {"category": "model_checking", "text": text, "design_ref": "DESIGN.md §" + ref},
            "level_note": note + NOTE_COMMON,
            "technique": TECH,
        })
    else:
        na.append({"property_id": pid, "reason": NA_REASON})
m = {
 "version": 1,
 "setup_cmd": "cd /verif/engine && GOFLAGS=-mod=mod GOPROXY=off GOSUMDB=off GOTOOLCHAIN=local go build -o ../bin/gosmt .",
 "hooks": {"guard": "verif", "enable": "harnesses and the verifrt runtime are mounted with go/packages and `go test -overlay` under build tag verif; nothing is written into /repo",
           "baseline_off_cmd": "cd /repo && go test -vet=off -count=1 -timeout 25m ./...", "source_commits": [], "add_only": True},
 "engines": [{"name": "gosmt", "path": "/verif/engine", "serves_properties": sorted(CLAIMED), "kind_free_text": "symbolic executor for go/ssa (x/tools v0.29.0) emitting SMT-LIB2 bit-vector queries to a live z3 process; fork by re-execution; native replay via go test -overlay"}],
 "checks": checks,
 "not_applicable": na,
 "notes": "Exit codes: 0 held within bounds; 1 + VIOLATION line for a natively replayed counterexample; 2 + INCONCLUSIVE for anything undecided (never counted as held).",
}
json.dump(m, open(os.path.join(V, "MANIFEST.json"), "w"), indent=1)
print("claimed:", sorted(CLAIMED), "n/a:", len(na))
