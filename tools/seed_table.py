#!/usr/bin/env python3
# Fills seeded/<id>/meta.json "detected_by" from the latest try_mutant_wt.sh log (/tmp/tm/<id>.log)
# and prints a table (id, summary, detecting harness/labels) for DESIGN.md.
import json, os, re, sys
S='/verif/seeded'
rows=[]
for d in sorted(os.listdir(S)):
    mp=os.path.join(S,d,'meta.json')
    if not os.path.exists(mp): continue
    meta=json.load(open(mp))
    notes=os.path.join(S,d,'notes.md')
    summary=open(notes).readline().strip('# \n') if os.path.exists(notes) else ''
    summary=re.sub(r'^(C\d\d )?/?\s*[Mm]utant\s*\S*\s*[—-]+\s*','',summary)
    log='/tmp/tm/%s.log'%d
    det=meta.get('detected_by','')
    if os.path.exists(log):
        v=sorted(set(re.findall(r'^VIOLATION property=\S+ replay=\S*/(Verif\w+?)-(.+?)-\d+\.json',open(log).read(),re.M)))
        if v:
            det='; '.join('%s [%s]'%(h,l) for h,l in v[:3])
            meta['detected_by']=det
            meta['detected']=True
            json.dump(meta,open(mp,'w'),indent=1)
    rows.append((d,summary,det))
for d,s,det in rows:
    print('| %s | %s | %s |'%(d,s[:150],det[:200] if det and not det.startswith('(filled') else '(see round-1 record in section 0.5)'))
