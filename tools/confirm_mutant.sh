#!/bin/bash
# usage: confirm_mutant.sh <prop> <mN> <pkgdir-of-demo>
# Confirms in a scratch worktree that the mutant compiles, passes the existing suite, and that the
# demonstration fails with it and passes without it; then stores it under /verif/seeded/<prop>-<mN>/.
export GOFLAGS=-mod=mod GOPROXY=off GOSUMDB=off GOTOOLCHAIN=local
prop=$1; m=$2; dir=$3
# every go test runs in its own network namespace (the suite binds fixed ports, e.g. 4152)
NS="unshare -rn /verif/tools/netns_run.sh"
src=/tmp/mut/$prop/out/$m
id=$prop-$m
wt=/tmp/confirm/$id
dst=/verif/seeded/$id
mkdir -p /tmp/confirm
git -C /repo worktree remove --force $wt 2>/dev/null
git -C /repo worktree add --detach $wt HEAD >/dev/null 2>&1 || { echo "$id: worktree failed"; exit 1; }
demo=$(ls $src/*demo* 2>/dev/null | head -1)
[ -z "$demo" ] && { echo "$id: no demo"; exit 1; }
tests=$(grep -oE '^func (Test[A-Za-z0-9_]+)' $demo | awk '{print $2}' | paste -sd'|')
cp $demo $wt/$dir/zz_seed_demo_test.go
cd $wt
clean_out=$(timeout 300 $NS go test -vet=off -count=1 -timeout 120s -run "^($tests)\$" ./$dir 2>&1); clean_rc=$?
git apply $src/patch.diff || { echo "$id: patch does not apply"; exit 1; }
build_out=$(go build ./... 2>&1); build_rc=$?
mut_out=$(timeout 300 $NS go test -vet=off -count=1 -timeout 120s -run "^($tests)\$" ./$dir 2>&1); mut_rc=$?
rm -f $wt/$dir/zz_seed_demo_test.go
suite_out=$(timeout 1500 $NS go test -vet=off -count=1 -timeout 25m ./... 2>&1); suite_rc=$?
if [ $suite_rc -ne 0 ]; then suite_out=$(timeout 1500 $NS go test -vet=off -count=1 -timeout 25m ./... 2>&1); suite_rc=$?; fi
status=rejected
if [ $clean_rc -eq 0 ] && [ $build_rc -eq 0 ] && [ $mut_rc -ne 0 ] && [ $suite_rc -eq 0 ]; then status=confirmed; fi
echo "$id: clean_demo_rc=$clean_rc build_rc=$build_rc mutant_demo_rc=$mut_rc suite_rc=$suite_rc => $status"
if [ $status = confirmed ]; then
  mkdir -p $dst
  cp $src/patch.diff $dst/patch.diff
  cp $demo $dst/demo_test.go.txt
  cp $src/notes.md $dst/notes.md 2>/dev/null
  python3 - "$prop" "$id" "$dir" "$tests" <<'PY' > $dst/meta.json
import json,sys
prop,id_,d,tests=sys.argv[1:5]
print(json.dumps({"id":id_,"property":prop,"origin":"independent sub-agent given only the property text and a scratch worktree",
 "demo":{"file":"demo_test.go.txt","copy_to":d+"/zz_seed_demo_test.go","run":"go test -vet=off -count=1 -run '^(%s)$' ./%s"%(tests,d)},
 "confirmed":{"compiles":True,"existing_suite_passes_with_mutant":True,"demo_passes_on_clean_tree":True,"demo_fails_with_mutant":True,
  "how":"tools/confirm_mutant.sh in scratch worktree /tmp/confirm/"+id_+" (removed afterwards)"},
 "needs_to_manifest":"see notes.md","detected_by":"(filled in after running the checks)"},indent=1))
PY
else
  mkdir -p /tmp/confirm/logs; { echo "== clean"; echo "$clean_out" | tail -20; echo "== build"; echo "$build_out" | tail; echo "== mutant demo"; echo "$mut_out" | tail -20; echo "== suite"; echo "$suite_out" | grep -v "^ok" | tail -30; } > /tmp/confirm/logs/$id.log
fi
cd /; git -C /repo worktree remove --force $wt
