#!/bin/sh
ip link set lo up 2>/dev/null
exec "$@"
