#!/bin/bash
# usage: try_mutant.sh <patch.diff> <prop> [extra gosmt args]  -- apply to /repo, run quick check, undo
patch=$1; prop=$2; shift 2
cd /repo || exit 9
if ! git diff --quiet; then echo "/repo dirty"; exit 9; fi
git apply "$patch" || { echo "patch failed"; exit 9; }
( cd /verif && timeout 900 ./bin/gosmt -prop "$prop" "$@" 2>&1 | grep -E "^(VIOLATION|OK|INCONCLUSIVE|KNOWN|  violation)" | cut -c1-400 )
git -C /repo checkout -- .
