package main

// Work-splitting pool: the DFS over decision prefixes of each harness is split across
// workers. A task is (harness, root prefix); a worker explores the subtree below the
// root and hands sibling subtrees of the first few free decisions back to the queue.

import (
	"fmt"
	"os"
	"sync"
	"time"
)

type task struct {
	h    int
	root []decision
}

type pool struct {
	mu          sync.Mutex
	cond        *sync.Cond
	queue       []task
	outstanding int
	idle        int
	workers     int
}

func newPool(workers int) *pool {
	p := &pool{workers: workers}
	p.cond = sync.NewCond(&p.mu)
	return p
}

func (p *pool) put(t task) {
	p.mu.Lock()
	p.queue = append(p.queue, t)
	p.outstanding++
	p.mu.Unlock()
	p.cond.Signal()
}

func (p *pool) get() (task, bool) {
	p.mu.Lock()
	defer p.mu.Unlock()
	for len(p.queue) == 0 {
		if p.outstanding == 0 {
			p.cond.Broadcast()
			return task{}, false
		}
		p.cond.Wait()
	}
	t := p.queue[len(p.queue)-1]
	p.queue = p.queue[:len(p.queue)-1]
	return t, true
}

func (p *pool) done() {
	p.mu.Lock()
	p.outstanding--
	if p.outstanding == 0 {
		p.cond.Broadcast()
	}
	p.mu.Unlock()
}

// hungry reports whether more tasks would help keep the workers busy.
func (p *pool) hungry() bool {
	p.mu.Lock()
	defer p.mu.Unlock()
	return len(p.queue) < p.workers
}

func copyTrail(t []decision) []decision {
	r := make([]decision, len(t))
	copy(r, t)
	return r
}

// exploreRoot explores the subtree below in.trail[:rootLen], splitting when useful.
var exploreDeadline time.Time

func (in *Interp) exploreRoot(p *pool, hidx int, fnRun func(), root []decision) {
	in.trail = copyTrail(root)
	rootLen := len(root)
	aborts := 0
	for {
		nIncon := len(in.h.Inconclusive)
		fnRun()
		if len(in.h.Inconclusive) > nIncon {
			aborts++
			if aborts >= 3 {
				return
			}
		}
		if in.h.Paths >= in.maxPaths {
			in.h.Inconclusive = append(in.h.Inconclusive, fmt.Sprintf("path limit %d reached", in.maxPaths))
			return
		}
		if !exploreDeadline.IsZero() && time.Now().After(exploreDeadline) {
			// a path explosion (typically caused by a change to the code under test) must not hang the
			// check: what was not explored is inconclusive, violations found so far are still reported
			if !in.h.budgetHit {
				in.h.budgetHit = true
				in.h.Inconclusive = append(in.h.Inconclusive, "exploration time budget exceeded (path explosion): not all paths explored")
			}
			return
		}
		// split: hand the siblings of the first free decisions to other workers
		for p != nil && rootLen < len(in.trail) && rootLen < 40 && p.hungry() {
			d := in.trail[rootLen]
			for j := d.idx + 1; j < len(d.alts); j++ {
				r := copyTrail(in.trail[:rootLen+1])
				r[rootLen].idx = j
				// the sibling is a pinned choice: a single alternative
				r[rootLen] = decision{alts: []int64{d.alts[j]}, idx: 0, kind: d.kind}
				p.put(task{h: hidx, root: r})
			}
			in.trail[rootLen] = decision{alts: []int64{d.alts[d.idx]}, idx: 0, kind: d.kind}
			rootLen++
		}
		// backtrack within the subtree
		ok := false
		for len(in.trail) > rootLen {
			d := &in.trail[len(in.trail)-1]
			if d.idx+1 < len(d.alts) {
				d.idx++
				ok = true
				break
			}
			in.trail = in.trail[:len(in.trail)-1]
		}
		if !ok {
			return
		}
	}
}

func mergeRuns(dst, src *HarnessRun) {
	dst.Paths += src.Paths
	dst.Steps += src.Steps
	dst.Obligations += src.Obligations
	dst.Discharged += src.Discharged
	dst.Trivial += src.Trivial
	dst.Undecided += src.Undecided
	dst.Decisions += src.Decisions
	dst.UnknownBranches += src.UnknownBranches
	dst.RetriedUnknown += src.RetriedUnknown
	dst.IfConverted += src.IfConverted
	dst.AllocCuts += src.AllocCuts
	dst.CacheHits += src.CacheHits
	dst.CrossChecked += src.CrossChecked
	dst.CrossAgreed += src.CrossAgreed
	dst.CrossUnknown += src.CrossUnknown
	dst.Sliced += src.Sliced
	dst.Violations = append(dst.Violations, src.Violations...)
	for k, v := range src.ViolCount {
		dst.ViolCount[k] += v
	}
	for k := range src.ReachDecl {
		dst.ReachDecl[k] = true
	}
	for k, m := range src.PossDecl {
		if _, ok := dst.PossDecl[k]; !ok {
			dst.PossDecl[k] = m
		}
	}
	for k := range src.Reached {
		if !dst.Reached[k] {
			dst.Reached[k] = true
			dst.ReachModel[k] = src.ReachModel[k]
			dst.ReachObserve[k] = src.ReachObserve[k]
			dst.ReachTrail[k] = src.ReachTrail[k]
			dst.ReachSched[k] = src.ReachSched[k]
		}
	}
	for k := range src.Funcs {
		dst.Funcs[k] = true
	}
	for k := range src.Intrinsics {
		dst.Intrinsics[k] = true
	}
	for k, v := range src.Bounds {
		dst.Bounds[k] = v
	}
	seen := map[string]bool{}
	for _, m := range dst.Inconclusive {
		seen[m] = true
	}
	for _, m := range src.Inconclusive {
		if !seen[m] {
			seen[m] = true
			dst.Inconclusive = append(dst.Inconclusive, m)
		}
	}
}

type solverTotals struct {
	wall                     float64
	sat, unsat, unknown, err int
}

// runAll explores every harness with a shared pool of workers.
func runAll(l *loaded, hs []harnessInfo, jobs int) ([]*HarnessRun, []string, solverTotals) {
	p := newPool(jobs)
	results := make([]*HarnessRun, len(hs))
	hwall := make([]float64, len(hs))
	hq := make([]solverTotals, len(hs))
	for i, h := range hs {
		results[i] = newHarnessRun(h.Name)
		if l.pkgs[h.Dir] == nil || l.pkgs[h.Dir].Func(h.Name) == nil {
			results[i].Inconclusive = append(results[i].Inconclusive, "harness function not found in SSA")
			continue
		}
		p.put(task{h: i})
	}
	initPkgs := initPackages(l.prog)
	var mu sync.Mutex
	var wg sync.WaitGroup
	var tot solverTotals
	t0 := time.Now()
	for w := 0; w < jobs; w++ {
		wg.Add(1)
		go func(w int) {
			defer wg.Done()
			interps := map[int]*Interp{}
			for {
				t, ok := p.get()
				if !ok {
					break
				}
				in := interps[t.h]
				if in == nil {
					var err error
					in, err = newInterp(l, *flagTier, *flagTimeout)
					if err != nil {
						mu.Lock()
						results[t.h].Inconclusive = append(results[t.h].Inconclusive, "cannot start solver: "+err.Error())
						mu.Unlock()
						p.done()
						continue
					}
					in.initPkgs = initPkgs
					in.trace = *flagTrace
					if *flagMaxPaths > 0 {
						in.maxPaths = *flagMaxPaths
					}
					if *flagSMTLog != "" && w == 0 {
						f, _ := os.Create(*flagSMTLog)
						in.solver.log = f
					}
					in.h = newHarnessRun(hs[t.h].Name)
					interps[t.h] = in
				}
				fn := l.pkgs[hs[t.h].Dir].Func(hs[t.h].Name)
				var pp *pool = p
				if jobs == 1 {
					pp = nil
				}
				in.exploreRoot(pp, t.h, func() { in.runPath(fn) }, t.root)
				p.done()
			}
			mu.Lock()
			for hi, in := range interps {
				mergeRuns(results[hi], in.h)
				in.solver.Close()
				if in.solver2 != nil {
					in.solver2.Close()
				}
				q := &hq[hi]
				q.wall += in.solver.wall.Seconds()
				q.sat += in.solver.nSat
				q.unsat += in.solver.nUnsat
				q.unknown += in.solver.nUnknown
				q.err += in.solver.nErr
				if el := time.Since(t0).Seconds(); el > hwall[hi] {
					hwall[hi] = el
				}
			}
			mu.Unlock()
		}(w)
	}
	wg.Wait()
	stats := make([]string, len(hs))
	for i, h := range hs {
		r := results[i]
		finishReach(r)
		q := hq[i]
		tot.wall += q.wall
		tot.sat += q.sat
		tot.unsat += q.unsat
		tot.unknown += q.unknown
		tot.err += q.err
		stats[i] = fmt.Sprintf("%s: paths=%d steps=%d obligations=%d discharged=%d violations=%d queries(sat=%d unsat=%d unknown=%d cached=%d) solver_cpu=%.1fs",
			h.Name, r.Paths, r.Steps, r.Obligations, r.Discharged, len(r.Violations), q.sat, q.unsat, q.unknown, r.CacheHits, q.wall)
		fmt.Fprintln(os.Stderr, stats[i])
	}
	return results, stats, tot
}
