package main

// strings.Builder (uses unsafe internally) and abi.NoEscape.

func init() {
	bufOf := func(args []value) *value {
		st := (*(args[0].(*value))).(structure)
		return &st[1]
	}
	intrinsics["internal/abi.NoEscape"] = func(in *Interp, fr *frame, args []value) value { return args[0] }
	intrinsics["(*strings.Builder).String"] = func(in *Interp, fr *frame, args []value) value {
		b, _ := (*bufOf(args)).([]value)
		r := make([]*Term, len(b))
		for i, e := range b {
			r[i] = e.(*Term)
		}
		return strV{r}
	}
	intrinsics["(*strings.Builder).Len"] = func(in *Interp, fr *frame, args []value) value {
		b, _ := (*bufOf(args)).([]value)
		return in.tt.Const(64, uint64(len(b)))
	}
	intrinsics["(*strings.Builder).Cap"] = intrinsics["(*strings.Builder).Len"]
	intrinsics["(*strings.Builder).Reset"] = func(in *Interp, fr *frame, args []value) value {
		*bufOf(args) = []value(nil)
		return nil
	}
	intrinsics["(*strings.Builder).Grow"] = func(in *Interp, fr *frame, args []value) value { return nil }
	intrinsics["(*strings.Builder).Write"] = func(in *Interp, fr *frame, args []value) value {
		p := bufOf(args)
		b, _ := (*p).([]value)
		src := args[1].([]value)
		b = append(b, src...)
		*p = b
		return tuple{in.tt.Const(64, uint64(len(src))), iface{}}
	}
	intrinsics["(*strings.Builder).WriteString"] = func(in *Interp, fr *frame, args []value) value {
		p := bufOf(args)
		b, _ := (*p).([]value)
		s := args[1].(strV)
		for _, t := range s.b {
			b = append(b, t)
		}
		*p = b
		return tuple{in.tt.Const(64, uint64(len(s.b))), iface{}}
	}
	intrinsics["(*strings.Builder).WriteByte"] = func(in *Interp, fr *frame, args []value) value {
		p := bufOf(args)
		b, _ := (*p).([]value)
		b = append(b, args[1])
		*p = b
		return iface{}
	}
	intrinsics["(*strings.Builder).WriteRune"] = func(in *Interp, fr *frame, args []value) value {
		r := args[1].(*Term)
		if !r.IsConst() {
			in.unsupported("strings.Builder.WriteRune of symbolic rune")
		}
		p := bufOf(args)
		b, _ := (*p).([]value)
		s := in.mkStr(string(rune(r.sval())))
		for _, t := range s.b {
			b = append(b, t)
		}
		*p = b
		return tuple{in.tt.Const(64, uint64(len(s.b))), iface{}}
	}
}
