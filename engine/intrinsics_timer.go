package main

import "go/types"

// Tickers and timers: channels that never fire by themselves (the environment decides when a
// tick happens: harnesses put a value into .C, or hand the code a pre-filled channel).
func init() {
	mk := func(tyName string) intrinsic {
		return func(in *Interp, fr *frame, args []value) value {
			tp := in.prog.ImportedPackage("time")
			t := tp.Type(tyName).Object().Type()
			var cell value = in.zero(t)
			in.chanSeq++
			timeT := tp.Type("Time").Object().Type()
			(cell.(structure))[0] = &chanV{id: in.chanSeq, cap: 1, et: timeT, name: tyName}
			return &cell
		}
	}
	intrinsics["time.NewTicker"] = mk("Ticker")
	intrinsics["time.NewTimer"] = mk("Timer")
	intrinsics["(*time.Ticker).Stop"] = func(in *Interp, fr *frame, args []value) value { return nil }
	intrinsics["(*time.Ticker).Reset"] = func(in *Interp, fr *frame, args []value) value { return nil }
	intrinsics["(*time.Timer).Stop"] = func(in *Interp, fr *frame, args []value) value { return in.tt.True }
	intrinsics["(*time.Timer).Reset"] = func(in *Interp, fr *frame, args []value) value { return in.tt.True }
	intrinsics["time.After"] = func(in *Interp, fr *frame, args []value) value {
		tp := in.prog.ImportedPackage("time")
		in.chanSeq++
		return &chanV{id: in.chanSeq, cap: 1, et: tp.Type("Time").Object().Type(), name: "After"}
	}
	intrinsics["time.Tick"] = intrinsics["time.After"]
	_ = types.Typ
}
