package main

import "unicode"

// unicode predicates (the package's tables are not initialised in the interpreter).
func init() {
	intrinsics["unicode.IsSpace"] = func(in *Interp, fr *frame, args []value) value {
		r := args[0].(*Term)
		if r.IsConst() {
			return in.tt.Bool(unicode.IsSpace(rune(r.sval())))
		}
		tt := in.tt
		c := tt.False
		for _, x := range []uint64{'\t', '\n', '\v', '\f', '\r', ' ', 0x85, 0xA0, 0x1680, 0x2028, 0x2029, 0x202f, 0x205f, 0x3000} {
			c = tt.Or(c, tt.Eq(r, tt.Const(32, x)))
		}
		c = tt.Or(c, tt.And(tt.ULe(tt.Const(32, 0x2000), r), tt.ULe(r, tt.Const(32, 0x200a))))
		return c
	}
	conc := func(name string, f func(rune) bool) {
		intrinsics[name] = func(in *Interp, fr *frame, args []value) value {
			r := args[0].(*Term)
			if !r.IsConst() {
				in.unsupported("%s of symbolic rune", name)
			}
			return in.tt.Bool(f(rune(r.sval())))
		}
	}
	conc("unicode.IsLetter", unicode.IsLetter)
	conc("unicode.IsDigit", unicode.IsDigit)
	conc("unicode.IsUpper", unicode.IsUpper)
	conc("unicode.IsLower", unicode.IsLower)
	conc("unicode.IsPunct", unicode.IsPunct)
	conc("unicode.IsPrint", unicode.IsPrint)
	conc("unicode.IsControl", unicode.IsControl)
	concR := func(name string, f func(rune) rune) {
		intrinsics[name] = func(in *Interp, fr *frame, args []value) value {
			r := args[0].(*Term)
			if !r.IsConst() {
				in.unsupported("%s of symbolic rune", name)
			}
			return in.tt.Const(32, uint64(f(rune(r.sval()))))
		}
	}
	concR("unicode.ToLower", unicode.ToLower)
	concR("unicode.ToUpper", unicode.ToUpper)
	concR("unicode.SimpleFold", unicode.SimpleFold)
}
