package main

// Intrinsics: the harness runtime (verifrt) and contract models for the environment
// (time, sync, atomic, fmt, logging, bytealg ...). Everything hit is listed in evidence.

import (
	"fmt"
	"go/token"
	"go/types"
	"math"
	"sort"
	"strconv"
	"strings"

	"golang.org/x/tools/go/ssa"
)

type intrinsic func(in *Interp, fr *frame, args []value) value

var intrinsics map[string]intrinsic

const rtPkg = "github.com/nsqio/nsq/internal/verifrt."

func init() {
	intrinsics = map[string]intrinsic{}
	reg := func(name string, f intrinsic) { intrinsics[name] = f }

	// ------------------------------------------------------------ verifrt
	intN := func(w int) intrinsic {
		return func(in *Interp, fr *frame, args []value) value {
			return in.fresh(in.argStr(args[0]), w)
		}
	}
	reg(rtPkg+"Int64", intN(64))
	reg(rtPkg+"Uint64", intN(64))
	reg(rtPkg+"Int", intN(64))
	reg(rtPkg+"Int32", intN(32))
	reg(rtPkg+"Uint32", intN(32))
	reg(rtPkg+"Int16", intN(16))
	reg(rtPkg+"Uint16", intN(16))
	reg(rtPkg+"Byte", intN(8))
	reg(rtPkg+"Bool", intN(0))
	reg(rtPkg+"Duration", intN(64))
	reg(rtPkg+"Choice", func(in *Interp, fr *frame, args []value) value {
		n := args[1].(*Term).sval()
		v := in.decide("choice:"+in.argStr(args[0]), func() []int64 {
			alts := make([]int64, n)
			for i := range alts {
				alts[i] = int64(i)
			}
			return alts
		})
		in.noteChoice(in.argStr(args[0]), v)
		return in.tt.Const(64, uint64(v))
	})
	bytesOf := func(in *Interp, name string, n int) []value {
		r := make([]value, n)
		for i := 0; i < n; i++ {
			r[i] = in.freshNamed(fmt.Sprintf("%s[%d]", name, i), 8)
		}
		return r
	}
	reg(rtPkg+"Bytes", func(in *Interp, fr *frame, args []value) value {
		name := in.uniq(in.argStr(args[0]))
		max := args[1].(*Term).sval()
		n := in.decide("len:"+name, func() []int64 {
			alts := make([]int64, max+1)
			for i := range alts {
				alts[i] = int64(i)
			}
			return alts
		})
		in.noteLen(name, n)
		return bytesOf(in, name, int(n))
	})
	reg(rtPkg+"BytesN", func(in *Interp, fr *frame, args []value) value {
		name := in.uniq(in.argStr(args[0]))
		n := args[1].(*Term).sval()
		in.noteLen(name, n)
		return bytesOf(in, name, int(n))
	})
	reg(rtPkg+"String", func(in *Interp, fr *frame, args []value) value {
		name := in.uniq(in.argStr(args[0]))
		max := args[1].(*Term).sval()
		n := in.decide("len:"+name, func() []int64 {
			alts := make([]int64, max+1)
			for i := range alts {
				alts[i] = int64(i)
			}
			return alts
		})
		in.noteLen(name, n)
		b := make([]*Term, n)
		for i := range b {
			b[i] = in.freshNamed(fmt.Sprintf("%s[%d]", name, i), 8)
		}
		return strV{b}
	})
	reg(rtPkg+"StringN", func(in *Interp, fr *frame, args []value) value {
		name := in.uniq(in.argStr(args[0]))
		n := args[1].(*Term).sval()
		in.noteLen(name, n)
		b := make([]*Term, n)
		for i := range b {
			b[i] = in.freshNamed(fmt.Sprintf("%s[%d]", name, i), 8)
		}
		return strV{b}
	})
	reg(rtPkg+"Assume", func(in *Interp, fr *frame, args []value) value {
		c := args[0].(*Term)
		if c.IsConst() {
			if c.val == 0 {
				panic(pathEnd{"assume false"})
			}
			return nil
		}
		r, vals := in.check(c)
		if r == Unsat {
			panic(pathEnd{"assume infeasible"})
		}
		in.pc = append(in.pc, c)
		if r == Sat {
			in.model = in.modelFrom(vals)
		} else {
			in.model = nil
			in.h.UnknownBranches++
		}
		return nil
	})
	reg(rtPkg+"Assert", func(in *Interp, fr *frame, args []value) value {
		in.assertTerm(fr, args[0].(*Term), in.argStr(args[1]))
		return nil
	})
	reg(rtPkg+"Reach", func(in *Interp, fr *frame, args []value) value {
		label := in.argStr(args[0])
		c := args[1].(*Term)
		in.h.ReachDecl[label] = true
		if in.h.Reached[label] {
			return nil
		}
		if c.IsConst() {
			if c.val != 0 {
				r, vals := in.check()
				if r == Sat {
					in.markReached(label, in.modelFrom(vals))
				}
			}
			return nil
		}
		r, vals := in.check(c)
		if r == Sat {
			in.pcPush(c)
			in.markReached(label, in.modelFrom(vals))
			in.pcPop()
		}
		return nil
	})
	// Possible: like Reach, but a label that no path can satisfy is a VIOLATION ("impossible"):
	// the solver has shown that, for every input / random outcome / schedule within the bounds,
	// the stated event cannot happen (used for "can be selected", "is eventually reachable").
	reg(rtPkg+"Possible", func(in *Interp, fr *frame, args []value) value {
		label := in.argStr(args[0])
		if _, ok := in.h.PossDecl[label]; !ok {
			m := map[string]uint64{}
			if r, vals := in.check(); r == Sat {
				m = in.modelFrom(vals)
			}
			in.h.PossDecl[label] = m
		}
		return intrinsics[rtPkg+"Reach"](in, fr, args)
	})
	reg(rtPkg+"Observe", func(in *Interp, fr *frame, args []value) value {
		tag := in.argStr(args[0])
		in.observeVal(tag, args[1])
		return nil
	})
	reg(rtPkg+"Tier", func(in *Interp, fr *frame, args []value) value {
		if in.tier == "thorough" {
			return in.tt.Const(64, 1)
		}
		return in.tt.Const(64, 0)
	})
	reg(rtPkg+"Bound", func(in *Interp, fr *frame, args []value) value {
		name := in.argStr(args[0])
		v := args[1].(*Term)
		if in.tier == "thorough" {
			v = args[2].(*Term)
		}
		in.h.Bounds[name] = v.sval()
		return v
	})
	reg(rtPkg+"AllocLimit", func(in *Interp, fr *frame, args []value) value {
		in.allocLimit = args[0].(*Term).sval()
		in.h.Bounds["alloc-limit"] = in.allocLimit
		return nil
	})
	reg(rtPkg+"AllocBound", func(in *Interp, fr *frame, args []value) value {
		in.allocLimit = args[0].(*Term).sval()
		in.allocCut = true
		in.h.Bounds["alloc-bound(outside claim above)"] = in.allocLimit
		return nil
	})
	reg(rtPkg+"Preemptions", func(in *Interp, fr *frame, args []value) value {
		in.maxPreempt = int(args[0].(*Term).sval())
		in.h.Bounds["preemptions"] = int64(in.maxPreempt)
		return nil
	})
	reg(rtPkg+"Symbolic", func(in *Interp, fr *frame, args []value) value { return in.tt.True })
	reg(rtPkg+"Go", func(in *Interp, fr *frame, args []value) value {
		in.spawn(fr, args[1], nil, token.NoPos, in.argStr(args[0]))
		return nil
	})
	reg(rtPkg+"Join", func(in *Interp, fr *frame, args []value) value {
		th := in.cur
		th.joiner = true
		th.blocked = func() bool { return true }
		th.desc = "Join"
		in.visit(th, "join")
		in.reschedule(th, "join", token.NoPos)
		th.blocked = nil
		th.joiner = false
		in.hbBarrier()
		return nil
	})
	reg(rtPkg+"Atomic", func(in *Interp, fr *frame, args []value) value {
		in.atomic++
		defer func() { in.atomic-- }()
		in.call(fr, token.NoPos, args[0], nil)
		return nil
	})
	reg(rtPkg+"RaceCheck", func(in *Interp, fr *frame, args []value) value {
		in.race.on = true
		in.h.Bounds["happens-before-race-monitor"] = 1
		return nil
	})
	reg(rtPkg+"Yield", func(in *Interp, fr *frame, args []value) value {
		if in.liveThreads() > 1 {
			in.syncOp(fr, "yield", token.NoPos, nil)
		}
		return nil
	})
	reg(rtPkg+"Stub", func(in *Interp, fr *frame, args []value) value {
		name := in.argStr(args[0])
		f := args[1].(iface)
		in.hook[name] = f.v
		in.h.Intrinsics["stub:"+name] = true
		return nil
	})
	// StubNative: the same redirect; natively the instrumented copy of the function calls the stub too
	intrinsics[rtPkg+"StubNative"] = intrinsics[rtPkg+"Stub"]
	reg(rtPkg+"Now", func(in *Interp, fr *frame, args []value) value { return in.timeNow() })
	reg(rtPkg+"ClockRange", func(in *Interp, fr *frame, args []value) value {
		in.clockLo, in.clockHi = args[0].(*Term), args[1].(*Term)
		return nil
	})
	reg(rtPkg+"Since", func(in *Interp, fr *frame, args []value) value {
		now := in.timeNow()
		return in.tt.Sub(timeNS(now), timeNS(args[0]))
	})
	reg(rtPkg+"LastNow", func(in *Interp, fr *frame, args []value) value {
		if in.clockLast == nil {
			return in.tt.Const(64, 0)
		}
		return in.clockLast
	})
	reg(rtPkg+"Done", func(in *Interp, fr *frame, args []value) value { panic(pathEnd{"harness done"}) })
	reg(rtPkg+"Blocked", func(in *Interp, fr *frame, args []value) value {
		// number of other threads currently blocked
		n := 0
		for _, t := range in.threads {
			if t != in.cur && !t.done && t.blocked != nil && !t.blocked() {
				n++
			}
		}
		return in.tt.Const(64, uint64(n))
	})
	reg(rtPkg+"Panics", func(in *Interp, fr *frame, args []value) value {
		// run f; report whether it panicked (target or runtime panic)
		panicked := false
		func() {
			defer func() {
				if r := recover(); r != nil {
					switch r.(type) {
					case targetPanic, runtimePanic:
						panicked = true
					default:
						panic(r)
					}
				}
			}()
			in.call(fr, token.NoPos, args[0], nil)
		}()
		return in.tt.Bool(panicked)
	})
	reg(rtPkg+"MatchUF", func(in *Interp, fr *frame, args []value) value {
		// uninterpreted predicate over (pattern id, subject bytes)
		return in.tt.True
	})

	// ------------------------------------------------------------ time
	reg("time.Now", func(in *Interp, fr *frame, args []value) value { return in.timeNow() })
	reg("time.Since", func(in *Interp, fr *frame, args []value) value {
		now := in.timeNow()
		return in.tt.Sub(timeNS(now), timeNS(args[0]))
	})
	reg("time.Until", func(in *Interp, fr *frame, args []value) value {
		now := in.timeNow()
		return in.tt.Sub(timeNS(args[0]), timeNS(now))
	})
	reg("time.Unix", func(in *Interp, fr *frame, args []value) value {
		sec, ns := args[0].(*Term), args[1].(*Term)
		return in.mkTime(in.tt.Add(in.tt.Mul(sec, in.tt.Const(64, 1000000000)), ns))
	})
	reg("(time.Time).UnixNano", func(in *Interp, fr *frame, args []value) value { return timeNS(args[0]) })
	reg("(time.Time).Unix", func(in *Interp, fr *frame, args []value) value {
		return in.tt.SDiv(timeNS(args[0]), in.tt.Const(64, 1000000000))
	})
	reg("(time.Time).Add", func(in *Interp, fr *frame, args []value) value {
		return in.mkTime(in.tt.Add(timeNS(args[0]), args[1].(*Term)))
	})
	reg("(time.Time).Sub", func(in *Interp, fr *frame, args []value) value {
		return in.tt.Sub(timeNS(args[0]), timeNS(args[1]))
	})
	reg("(time.Time).Before", func(in *Interp, fr *frame, args []value) value {
		return in.tt.SLt(timeNS(args[0]), timeNS(args[1]))
	})
	reg("(time.Time).After", func(in *Interp, fr *frame, args []value) value {
		return in.tt.SLt(timeNS(args[1]), timeNS(args[0]))
	})
	reg("(time.Time).Equal", func(in *Interp, fr *frame, args []value) value {
		return in.tt.Eq(timeNS(args[0]), timeNS(args[1]))
	})
	reg("(time.Time).IsZero", func(in *Interp, fr *frame, args []value) value {
		return in.tt.Eq(timeNS(args[0]), in.tt.Const(64, 0))
	})
	reg("(time.Time).Format", func(in *Interp, fr *frame, args []value) value { return in.mkStr("«time»") })
	reg("(time.Time).String", func(in *Interp, fr *frame, args []value) value { return in.mkStr("«time»") })
	reg("(time.Duration).String", func(in *Interp, fr *frame, args []value) value { return in.mkStr("«duration»") })
	reg(rtPkg+"SleepYields", func(in *Interp, fr *frame, args []value) value {
		in.sleepYields = true
		return nil
	})
	reg("time.Sleep", func(in *Interp, fr *frame, args []value) value {
		// a sleeping thread lets the others run: with verifrt.SleepYields the switch away from it
		// is not charged to the preemption bound (it is a blocking operation, not a preemption)
		in.freeYield = in.sleepYields
		in.syncOp(fr, "sleep", fr.callpos, nil)
		in.freeYield = false
		in.ghostInc("sleeps")
		return nil
	})

	// ------------------------------------------------------------ sync
	lock := func(in *Interp, fr *frame, args []value) value {
		m := in.mutex(args[0].(*value))
		m.writersWaiting++
		func() {
			defer func() { m.writersWaiting-- }()
			in.syncOp(fr, "Lock", fr.callpos, func() bool { return !m.locked && m.readers == 0 })
		}()
		m.locked = true
		m.owner = in.cur.id
		in.hbAcquire(m)
		return nil
	}
	unlock := func(in *Interp, fr *frame, args []value) value {
		m := in.mutex(args[0].(*value))
		if !m.locked {
			panic(runtimePanic{"fatal error: sync: unlock of unlocked mutex"})
		}
		m.locked = false
		in.hbRelease(m)
		in.syncOp(fr, "Unlock", fr.callpos, nil)
		return nil
	}
	reg("(*sync.Mutex).Lock", lock)
	reg("(*sync.Mutex).Unlock", unlock)
	reg("(*sync.Mutex).TryLock", func(in *Interp, fr *frame, args []value) value {
		m := in.mutex(args[0].(*value))
		in.syncOp(fr, "TryLock", fr.callpos, nil)
		if m.locked || m.readers > 0 {
			return in.tt.False
		}
		m.locked = true
		in.hbAcquire(m)
		return in.tt.True
	})
	reg("(*sync.RWMutex).Lock", lock)
	reg("(*sync.RWMutex).Unlock", unlock)
	reg("(*sync.RWMutex).RLock", func(in *Interp, fr *frame, args []value) value {
		m := in.mutex(args[0].(*value))
		in.syncOp(fr, "RLock", fr.callpos, func() bool { return !m.locked && m.writersWaiting == 0 })
		m.readers++
		in.hbAcquire(m)
		return nil
	})
	reg("(*sync.RWMutex).RUnlock", func(in *Interp, fr *frame, args []value) value {
		m := in.mutex(args[0].(*value))
		if m.readers <= 0 {
			panic(runtimePanic{"fatal error: sync: RUnlock of unlocked RWMutex"})
		}
		m.readers--
		in.hbRelease(m)
		in.syncOp(fr, "RUnlock", fr.callpos, nil)
		return nil
	})
	reg("(*sync.Once).Do", func(in *Interp, fr *frame, args []value) value {
		p := args[0].(*value)
		st := in.onceState[p]
		if st == nil {
			st = &onceSt{}
			in.onceState[p] = st
		}
		in.syncOp(fr, "Once.Do", fr.callpos, func() bool { return !st.running })
		if st.done {
			in.hbAcquire(st)
			return nil
		}
		st.running = true
		defer func() { st.running = false; st.done = true; in.hbRelease(st) }()
		in.call(fr, token.NoPos, args[1], nil)
		return nil
	})
	reg("(*sync.WaitGroup).Add", func(in *Interp, fr *frame, args []value) value {
		p := args[0].(*value)
		st := in.wgState[p]
		if st == nil {
			st = &wgSt{}
			in.wgState[p] = st
		}
		st.n += args[1].(*Term).sval()
		if st.n < 0 {
			panic(runtimePanic{"sync: negative WaitGroup counter"})
		}
		return nil
	})
	reg("(*sync.WaitGroup).Done", func(in *Interp, fr *frame, args []value) value {
		p := args[0].(*value)
		st := in.wgState[p]
		if st == nil {
			st = &wgSt{}
			in.wgState[p] = st
		}
		st.n--
		if st.n < 0 {
			panic(runtimePanic{"sync: negative WaitGroup counter"})
		}
		in.hbRelease(st)
		in.syncOp(fr, "wg.Done", fr.callpos, nil)
		return nil
	})
	reg("(*sync.WaitGroup).Wait", func(in *Interp, fr *frame, args []value) value {
		p := args[0].(*value)
		st := in.wgState[p]
		if st == nil {
			st = &wgSt{}
			in.wgState[p] = st
		}
		in.syncOp(fr, "wg.Wait", fr.callpos, func() bool { return st.n == 0 })
		in.hbAcquire(st)
		return nil
	})
	reg("(*sync.Pool).Get", func(in *Interp, fr *frame, args []value) value {
		p := args[0].(*value)
		// reuse the most recently Put object if any (exercises reset-before-reuse)
		if l := in.poolState[p]; len(l) > 0 {
			v := l[len(l)-1]
			in.poolState[p] = l[:len(l)-1]
			return v
		}
		st := (*p).(structure)
		// field "New" is the last field of sync.Pool
		newf := st[len(st)-1]
		if f, ok := newf.(*ssa.Function); ok && f == nil {
			return iface{}
		}
		return in.call(fr, token.NoPos, newf, nil)
	})
	reg("(*sync.Pool).Put", func(in *Interp, fr *frame, args []value) value {
		p := args[0].(*value)
		in.poolState[p] = append(in.poolState[p], args[1])
		return nil
	})

	// ------------------------------------------------------------ sync/atomic
	atomicPre := func(in *Interp, fr *frame, args []value) {
		in.syncOp(fr, "atomic", fr.callpos, nil)
		if in.race.on && len(args) > 0 {
			if p, ok := args[0].(*value); ok && p != nil {
				in.race.atomic[p] = true
				in.hbBoth(p)
			}
		}
	}
	for _, ty := range []string{"Int32", "Int64", "Uint32", "Uint64", "Uintptr"} {
		ty := ty
		reg("sync/atomic.Load"+ty, func(in *Interp, fr *frame, args []value) value {
			atomicPre(in, fr, args)
			return in.loadPtr(nil, args[0])
		})
		reg("sync/atomic.Store"+ty, func(in *Interp, fr *frame, args []value) value {
			atomicPre(in, fr, args)
			in.storePtr(nil, args[0], args[1])
			return nil
		})
		reg("sync/atomic.Add"+ty, func(in *Interp, fr *frame, args []value) value {
			atomicPre(in, fr, args)
			v := in.tt.Add(in.loadPtr(nil, args[0]).(*Term), args[1].(*Term))
			in.storePtr(nil, args[0], v)
			return v
		})
		reg("sync/atomic.Swap"+ty, func(in *Interp, fr *frame, args []value) value {
			atomicPre(in, fr, args)
			old := in.loadPtr(nil, args[0])
			in.storePtr(nil, args[0], args[1])
			return old
		})
		reg("sync/atomic.CompareAndSwap"+ty, func(in *Interp, fr *frame, args []value) value {
			atomicPre(in, fr, args)
			old := in.loadPtr(nil, args[0]).(*Term)
			if in.branch(in.tt.Eq(old, args[1].(*Term)), "cas") {
				in.storePtr(nil, args[0], args[2])
				return in.tt.True
			}
			return in.tt.False
		})
		// typed atomics: struct{ _ noCopy; [_ align64;] v T }
		field := func(p value) *value {
			st := (*(p.(*value))).(structure)
			return &st[len(st)-1]
		}
		reg("(*sync/atomic."+ty+").Load", func(in *Interp, fr *frame, args []value) value {
			atomicPre(in, fr, args)
			return *field(args[0])
		})
		reg("(*sync/atomic."+ty+").Store", func(in *Interp, fr *frame, args []value) value {
			atomicPre(in, fr, args)
			*field(args[0]) = args[1]
			return nil
		})
		reg("(*sync/atomic."+ty+").Add", func(in *Interp, fr *frame, args []value) value {
			atomicPre(in, fr, args)
			c := field(args[0])
			*c = in.tt.Add((*c).(*Term), args[1].(*Term))
			return *c
		})
		reg("(*sync/atomic."+ty+").Swap", func(in *Interp, fr *frame, args []value) value {
			atomicPre(in, fr, args)
			c := field(args[0])
			old := *c
			*c = args[1]
			return old
		})
		reg("(*sync/atomic."+ty+").CompareAndSwap", func(in *Interp, fr *frame, args []value) value {
			atomicPre(in, fr, args)
			c := field(args[0])
			if in.branch(in.tt.Eq((*c).(*Term), args[1].(*Term)), "cas") {
				*c = args[2]
				return in.tt.True
			}
			return in.tt.False
		})
	}
	reg("(*sync/atomic.Bool).Load", func(in *Interp, fr *frame, args []value) value {
		atomicPre(in, fr, args)
		st := (*(args[0].(*value))).(structure)
		return in.tt.Not(in.tt.Eq(st[len(st)-1].(*Term), in.tt.Const(32, 0)))
	})
	reg("(*sync/atomic.Bool).Store", func(in *Interp, fr *frame, args []value) value {
		atomicPre(in, fr, args)
		st := (*(args[0].(*value))).(structure)
		st[len(st)-1] = in.tt.Ite(args[1].(*Term), in.tt.Const(32, 1), in.tt.Const(32, 0))
		return nil
	})
	// atomic.Value: struct{ v any }
	reg("(*sync/atomic.Value).Load", func(in *Interp, fr *frame, args []value) value {
		atomicPre(in, fr, args)
		return (*(args[0].(*value))).(structure)[0]
	})
	reg("(*sync/atomic.Value).Store", func(in *Interp, fr *frame, args []value) value {
		atomicPre(in, fr, args)
		if args[1].(iface).t == nil {
			panic(targetPanic{iface{types.Typ[types.String], in.mkStr("sync/atomic: store of nil value into Value")}})
		}
		(*(args[0].(*value))).(structure)[0] = args[1]
		return nil
	})

	// ------------------------------------------------------------ fmt / errors / logging
	sprintf := func(in *Interp, format strV, rest []value) strV {
		fs, ok := concStr(format)
		if !ok {
			return in.mkStr("«fmt»")
		}
		var out []*Term
		ai := 0
		for i := 0; i < len(fs); i++ {
			if fs[i] != '%' {
				out = append(out, in.tt.bytes[fs[i]])
				continue
			}
			j := i + 1
			for j < len(fs) && strings.IndexByte("+-# 0123456789.", fs[j]) >= 0 {
				j++
			}
			if j >= len(fs) {
				break
			}
			verb := fs[j]
			i = j
			if verb == '%' {
				out = append(out, in.tt.bytes['%'])
				continue
			}
			if ai >= len(rest) {
				out = append(out, in.mkStr("%!"+string(verb)+"(MISSING)").b...)
				continue
			}
			a := rest[ai]
			ai++
			out = append(out, in.fmtArg(a, verb).b...)
		}
		return strV{out}
	}
	reg("fmt.Sprintf", func(in *Interp, fr *frame, args []value) value {
		return sprintf(in, args[0].(strV), args[1].([]value))
	})
	reg("fmt.Errorf", func(in *Interp, fr *frame, args []value) value {
		s := sprintf(in, args[0].(strV), args[1].([]value))
		return in.newError(s)
	})
	reg("fmt.Sprint", func(in *Interp, fr *frame, args []value) value {
		var out []*Term
		for _, a := range args[0].([]value) {
			out = append(out, in.fmtArg(a, 'v').b...)
		}
		return strV{out}
	})
	reg("fmt.Sprintln", func(in *Interp, fr *frame, args []value) value {
		var out []*Term
		for i, a := range args[0].([]value) {
			if i > 0 {
				out = append(out, in.tt.bytes[' '])
			}
			out = append(out, in.fmtArg(a, 'v').b...)
		}
		out = append(out, in.tt.bytes['\n'])
		return strV{out}
	})
	noop := func(in *Interp, fr *frame, args []value) value { return nil }
	for _, n := range []string{"fmt.Printf", "fmt.Println", "fmt.Print", "log.Printf", "log.Println", "log.Print", "(*log.Logger).Printf", "(*log.Logger).Println", "(*log.Logger).Output"} {
		n := n
		reg(n, func(in *Interp, fr *frame, args []value) value {
			if strings.HasPrefix(n, "fmt.") {
				return tuple{in.tt.Const(64, 0), iface{}}
			}
			if strings.HasSuffix(n, "Output") {
				return iface{}
			}
			return nil
		})
	}
	reg("github.com/nsqio/nsq/internal/lg.Logf", noop)
	reg("github.com/nsqio/nsq/internal/lg.LogFatal", func(in *Interp, fr *frame, args []value) value {
		panic(targetPanic{iface{types.Typ[types.String], in.mkStr("lg.LogFatal: os.Exit(1)")}})
	})
	reg("os.Exit", func(in *Interp, fr *frame, args []value) value {
		panic(targetPanic{iface{types.Typ[types.String], in.mkStr("os.Exit")}})
	})
	reg("runtime.Gosched", func(in *Interp, fr *frame, args []value) value {
		if in.liveThreads() > 1 {
			in.syncOp(fr, "gosched", token.NoPos, nil)
		}
		return nil
	})
	reg("runtime.GOMAXPROCS", func(in *Interp, fr *frame, args []value) value { return in.tt.Const(64, 4) })
	reg("runtime.NumCPU", func(in *Interp, fr *frame, args []value) value { return in.tt.Const(64, 4) })
	reg("runtime.SetFinalizer", noop)
	reg("runtime.KeepAlive", noop)

	// ------------------------------------------------------------ bytealg & friends
	indexByte := func(in *Interp, b []*Term, c *Term) value {
		r := in.tt.Const(64, ^uint64(0))
		for i := len(b) - 1; i >= 0; i-- {
			r = in.tt.Ite(in.tt.Eq(b[i], c), in.tt.Const(64, uint64(i)), r)
		}
		return r
	}
	sliceBytes := func(v value) []*Term {
		switch v := v.(type) {
		case []value:
			b := make([]*Term, len(v))
			for i, e := range v {
				b[i] = e.(*Term)
			}
			return b
		case strV:
			return v.b
		}
		panic(fmt.Sprintf("sliceBytes of %T", v))
	}
	reg("internal/bytealg.IndexByte", func(in *Interp, fr *frame, args []value) value {
		return indexByte(in, sliceBytes(args[0]), args[1].(*Term))
	})
	reg("internal/bytealg.IndexByteString", func(in *Interp, fr *frame, args []value) value {
		return indexByte(in, sliceBytes(args[0]), args[1].(*Term))
	})
	reg("bytes.IndexByte", func(in *Interp, fr *frame, args []value) value {
		return indexByte(in, sliceBytes(args[0]), args[1].(*Term))
	})
	reg("strings.IndexByte", func(in *Interp, fr *frame, args []value) value {
		return indexByte(in, sliceBytes(args[0]), args[1].(*Term))
	})
	eqBytes := func(in *Interp, fr *frame, args []value) value {
		a, b := sliceBytes(args[0]), sliceBytes(args[1])
		if len(a) != len(b) {
			return in.tt.False
		}
		r := in.tt.True
		for i := range a {
			r = in.tt.And(r, in.tt.Eq(a[i], b[i]))
		}
		return r
	}
	reg("bytes.Equal", eqBytes)
	reg("internal/bytealg.Equal", eqBytes)
	reg("internal/bytealg.Count", func(in *Interp, fr *frame, args []value) value {
		b := sliceBytes(args[0])
		r := in.tt.Const(64, 0)
		for i := range b {
			r = in.tt.Add(r, in.tt.Ite(in.tt.Eq(b[i], args[1].(*Term)), in.tt.Const(64, 1), in.tt.Const(64, 0)))
		}
		return r
	})
	intrinsics["internal/bytealg.CountString"] = intrinsics["internal/bytealg.Count"]
	reg("internal/bytealg.Compare", func(in *Interp, fr *frame, args []value) value {
		a, b := strV{sliceBytes(args[0])}, strV{sliceBytes(args[1])}
		lt := in.strLess(a, b)
		eq := in.eqVal(types.Typ[types.String], a, b)
		return in.tt.Ite(eq, in.tt.Const(64, 0), in.tt.Ite(lt, in.tt.Const(64, ^uint64(0)), in.tt.Const(64, 1)))
	})
	reg("internal/bytealg.MakeNoZero", func(in *Interp, fr *frame, args []value) value {
		n := args[0].(*Term).sval()
		r := make([]value, n)
		for i := range r {
			r[i] = in.tt.bytes[0]
		}
		return r
	})
	reg("internal/stringslite.Index", nil)
	delete(intrinsics, "internal/stringslite.Index")
	reg("strconv.Itoa", func(in *Interp, fr *frame, args []value) value {
		t := args[0].(*Term)
		if !t.IsConst() {
			return in.mkStr("«int»")
		}
		return in.mkStr(strconv.FormatInt(t.sval(), 10))
	})
	reg("strconv.FormatInt", func(in *Interp, fr *frame, args []value) value {
		t := args[0].(*Term)
		if !t.IsConst() {
			return in.mkStr("«int»")
		}
		return in.mkStr(strconv.FormatInt(t.sval(), int(args[1].(*Term).sval())))
	})
	reg("errors.New", func(in *Interp, fr *frame, args []value) value { return in.newError(args[0].(strV)) })
	reg("math/rand.Intn", func(in *Interp, fr *frame, args []value) value {
		n := args[0].(*Term)
		v := in.fresh("rand.Intn", 64)
		in.pc = append(in.pc, in.tt.SLe(in.tt.Const(64, 0), v), in.tt.SLt(v, n))
		in.model = nil
		return v
	})
	reg("math/rand.Int31n", func(in *Interp, fr *frame, args []value) value {
		n := args[0].(*Term)
		v := in.fresh("rand.Int31n", 32)
		in.pc = append(in.pc, in.tt.SLe(in.tt.Const(32, 0), v), in.tt.SLt(v, n))
		in.model = nil
		return v
	})
	reg("math/rand.Int", func(in *Interp, fr *frame, args []value) value {
		v := in.fresh("rand.Int", 64)
		in.pc = append(in.pc, in.tt.SLe(in.tt.Const(64, 0), v))
		in.model = nil
		return v
	})
	reg("math/rand.Int63", func(in *Interp, fr *frame, args []value) value {
		v := in.fresh("rand.Int63", 64)
		in.pc = append(in.pc, in.tt.SLe(in.tt.Const(64, 0), v))
		in.model = nil
		return v
	})
	f1 := func(name string, f func(float64) float64) {
		reg(name, func(in *Interp, fr *frame, args []value) value { return f(args[0].(float64)) })
	}
	f2 := func(name string, f func(float64, float64) float64) {
		reg(name, func(in *Interp, fr *frame, args []value) value { return f(args[0].(float64), args[1].(float64)) })
	}
	f2("math.Max", math.Max)
	f2("math.Min", math.Min)
	f2("math.Pow", math.Pow)
	f2("math.Mod", math.Mod)
	f1("math.Abs", math.Abs)
	f1("math.Floor", math.Floor)
	f1("math.Ceil", math.Ceil)
	f1("math.Trunc", math.Trunc)
	f1("math.Sqrt", math.Sqrt)
	f1("math.Log", math.Log)
	f1("math.Exp", math.Exp)
	f1("math.Round", math.Round)
	reg("math.IsNaN", func(in *Interp, fr *frame, args []value) value { return in.tt.Bool(math.IsNaN(args[0].(float64))) })
	reg("math.IsInf", func(in *Interp, fr *frame, args []value) value {
		return in.tt.Bool(math.IsInf(args[0].(float64), int(args[1].(*Term).sval())))
	})
	reg("math.Inf", func(in *Interp, fr *frame, args []value) value { return math.Inf(int(args[0].(*Term).sval())) })
	reg("math.NaN", func(in *Interp, fr *frame, args []value) value { return math.NaN() })
	reg("math.Float64bits", func(in *Interp, fr *frame, args []value) value {
		return in.tt.Const(64, math.Float64bits(args[0].(float64)))
	})
	reg("math.Float64frombits", func(in *Interp, fr *frame, args []value) value {
		t := args[0].(*Term)
		if !t.IsConst() {
			in.unsupported("Float64frombits of symbolic value")
		}
		return math.Float64frombits(t.val)
	})
	reg("os.Hostname", func(in *Interp, fr *frame, args []value) value {
		return tuple{in.mkStr("verifhost"), iface{}}
	})
}

// ---------------------------------------------------------------- helpers

func (in *Interp) argStr(v value) string {
	s, ok := concStr(v.(strV))
	if !ok {
		in.unsupported("verifrt name argument must be a constant string")
	}
	return s
}

func (in *Interp) uniq(name string) string {
	in.nameCtr[name]++
	if n := in.nameCtr[name]; n > 1 {
		return fmt.Sprintf("%s#%d", name, n)
	}
	return name
}

func (in *Interp) freshNamed(name string, w int) *Term {
	v := in.tt.Var(name, w)
	if _, ok := in.varSeen[name]; !ok {
		in.varSeen[name] = len(in.vars)
		in.vars = append(in.vars, v)
	}
	return v
}

func (in *Interp) fresh(name string, w int) *Term { return in.freshNamed(in.uniq(name), w) }

func (in *Interp) noteLen(name string, n int64) {
	in.freshNamed("len:"+name, 64)
	in.pc = append(in.pc, in.tt.Eq(in.tt.Var("len:"+name, 64), in.tt.Const(64, uint64(n))))
	in.model = nil
}

func (in *Interp) noteChoice(name string, n int64) {
	nm := in.uniq("choice:" + name)
	in.freshNamed(nm, 64)
	in.pc = append(in.pc, in.tt.Eq(in.tt.Var(nm, 64), in.tt.Const(64, uint64(n))))
	in.model = nil
}

func (in *Interp) pcPush(c *Term) { in.pc = append(in.pc, c) }
func (in *Interp) pcPop()         { in.pc = in.pc[:len(in.pc)-1] }

func (in *Interp) ghostInc(k string) {
	if v, ok := in.ghost[k].(int); ok {
		in.ghost[k] = v + 1
	} else {
		in.ghost[k] = 1
	}
}

// time model: time.Time is structure{wall uint64, ext int64, loc *Location}; we keep
// unix nanoseconds in ext and set wall=1 as a marker for "modelled non-zero instant".
func (in *Interp) mkTime(ns *Term) value {
	return structure{in.tt.Const(64, 0), ns, (*value)(nil)}
}

func timeNS(v value) *Term { return v.(structure)[1].(*Term) }

func (in *Interp) timeNow() value {
	in.clockN++
	v := in.freshNamed(fmt.Sprintf("clock#%d", in.clockN), 64)
	tt := in.tt
	// monotone, and within [2013-01-01, 2080-01-01): Add/Sub of durations cannot wrap and the
	// 41-bit timestamp field of message ids does not overflow
	lo := tt.Const(64, 1356998400000000000)
	hi := tt.Const(64, 3471292800000000000)
	if in.clockLo != nil {
		lo, hi = in.clockLo, in.clockHi
	}
	if in.clockLast != nil {
		in.pc = append(in.pc, tt.SLe(in.clockLast, v))
		in.model = nil
	} else {
		in.pc = append(in.pc, tt.SLe(lo, v))
		in.model = nil
	}
	in.pc = append(in.pc, tt.SLt(v, hi))
	in.model = nil
	in.clockLast = v
	return in.mkTime(v)
}

func (in *Interp) newError(s strV) value {
	// *errors.errorString{s}
	ep := in.prog.ImportedPackage("errors")
	if ep == nil {
		in.unsupported("errors package not loaded")
	}
	t := ep.Type("errorString").Object().Type()
	var cell value = structure{s}
	return iface{t: types.NewPointer(t), v: &cell}
}

func (in *Interp) fmtArg(a value, verb byte) strV {
	if it, ok := a.(iface); ok {
		if it.t == nil {
			return in.mkStr("<nil>")
		}
		// error / Stringer
		if verb == 'v' || verb == 's' || verb == 'q' {
			if m := in.findMethod(it.t, "Error"); m != nil {
				if s, ok := in.tryCallStr(m, it.v); ok {
					return s
				}
			} else if m := in.findMethod(it.t, "String"); m != nil {
				if s, ok := in.tryCallStr(m, it.v); ok {
					return s
				}
			}
		}
		return in.fmtPlain(it.t, it.v, verb)
	}
	return in.fmtPlain(nil, a, verb)
}

func (in *Interp) findMethod(t types.Type, name string) *ssa.Function {
	ms := in.prog.MethodSets.MethodSet(t)
	for i := 0; i < ms.Len(); i++ {
		if ms.At(i).Obj().Name() == name {
			sig := ms.At(i).Type().(*types.Signature)
			if sig.Params().Len() == 0 && sig.Results().Len() == 1 && isStringType(sig.Results().At(0).Type()) {
				return in.prog.MethodValue(ms.At(i))
			}
		}
	}
	return nil
}

func (in *Interp) tryCallStr(m *ssa.Function, recv value) (s strV, ok bool) {
	r := in.call(nil, token.NoPos, m, []value{recv})
	s, ok = r.(strV)
	return
}

func (in *Interp) fmtPlain(t types.Type, v value, verb byte) strV {
	switch v := v.(type) {
	case strV:
		if verb == 'q' {
			return strV{append(append([]*Term{in.tt.bytes['"']}, v.b...), in.tt.bytes['"'])}
		}
		return v
	case *Term:
		if v.IsConst() {
			if v.w == 0 {
				return in.mkStr(strconv.FormatBool(v.val != 0))
			}
			signed := true
			if t != nil {
				_, signed, _ = isIntType(t)
			}
			if verb == 'x' {
				return in.mkStr(strconv.FormatUint(v.val, 16))
			}
			if signed {
				return in.mkStr(strconv.FormatInt(v.sval(), 10))
			}
			return in.mkStr(strconv.FormatUint(v.val, 10))
		}
		return in.mkStr("«int»")
	case []value:
		// []byte with %s / %q
		if len(v) > 0 {
			if _, ok := v[0].(*Term); ok && (verb == 's' || verb == 'q') {
				b := make([]*Term, len(v))
				for i, e := range v {
					b[i] = e.(*Term)
				}
				return strV{b}
			}
		}
		return in.mkStr("«slice»")
	case float64:
		return in.mkStr(strconv.FormatFloat(v, 'g', -1, 64))
	}
	return in.mkStr("«val»")
}

// observeVal records a value for translator validation.
func (in *Interp) observeVal(tag string, v value) {
	tag = in.uniq("obs:" + tag)
	switch x := v.(type) {
	case iface:
		in.observeVal2(tag, x.v)
	default:
		in.observeVal2(tag, v)
	}
}

func (in *Interp) observeVal2(tag string, v value) {
	switch x := v.(type) {
	case *Term:
		in.observes[tag] = x
	case strV:
		in.observes[tag+".len"] = in.tt.Const(64, uint64(len(x.b)))
		for i, b := range x.b {
			in.observes[fmt.Sprintf("%s[%d]", tag, i)] = b
		}
	case []value:
		in.observes[tag+".len"] = in.tt.Const(64, uint64(len(x)))
		for i, b := range x {
			if t, ok := b.(*Term); ok {
				in.observes[fmt.Sprintf("%s[%d]", tag, i)] = t
			}
		}
	case array:
		in.observeVal2(tag, []value(x))
	}
}

func sortedKeys[V any](m map[string]V) []string {
	ks := make([]string, 0, len(m))
	for k := range m {
		ks = append(ks, k)
	}
	sort.Strings(ks)
	return ks
}
