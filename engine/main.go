package main

// gosmt: load /repo's current tree with the harness overlay, symbolically execute the
// harnesses of one property, decide obligations with an SMT solver, replay
// counterexamples natively, write evidence.

import (
	"encoding/json"
	"flag"
	"go/types"
	"fmt"
	"os"
	"path/filepath"
	"regexp"
	"sort"
	"strconv"
	"strings"
	"time"

	"golang.org/x/tools/go/packages"
	"golang.org/x/tools/go/ssa"
	"golang.org/x/tools/go/ssa/ssautil"
)

var (
	flagProp     = flag.String("prop", "", "property id (C01..C20)")
	flagTier     = flag.String("tier", "quick", "quick|thorough")
	flagHarness  = flag.String("harness", "", "regexp restricting harness functions")
	flagTrace    = flag.Bool("trace", false, "trace SSA instructions")
	flagVerif    = flag.String("verif", "/verif", "verif dir")
	flagRepo     = flag.String("repo", "", "repo dir (default $VERIF_REPO or /repo)")
	flagJobs     = flag.Int("j", 0, "parallel harness workers (default min(16, n))")
	flagMaxPaths = flag.Int("maxpaths", 0, "override max paths per harness")
	flagNoReplay = flag.Bool("noreplay", false, "do not replay natively")
	flagTimeout  = flag.Int("solver-timeout", 30000, "per-query solver timeout ms")
	flagEvidence = flag.String("evidence", "", "evidence file (default <verif>/evidence/<prop>.json)")
	flagSMTLog   = flag.String("smtlog", "", "dump SMT-LIB traffic to this file (single harness)")
	flagBudget   = flag.Int("budget", 0, "exploration time budget in seconds (default: 1200 quick, 7200 thorough; $VERIF_BUDGET)")
	flagSelftest = flag.Bool("selftest", false, "run engine self tests")
	flagReplayF  = flag.String("replay", "", "re-run a stored replay json natively")
)

type harnessInfo struct {
	Name   string
	Dir    string // package dir relative to repo, e.g. "nsqd"
	File   string
}

var reHarness = regexp.MustCompile(`(?m)^func (Verif(C\d\d)_\w+)\(\)`)

func findHarnesses(verif, prop string) ([]harnessInfo, map[string][]string) {
	var hs []harnessInfo
	dirFiles := map[string][]string{}
	root := filepath.Join(verif, "harness")
	filepath.Walk(root, func(p string, fi os.FileInfo, err error) error {
		if err != nil || fi.IsDir() || !strings.HasSuffix(p, ".go") {
			return nil
		}
		rel, _ := filepath.Rel(root, filepath.Dir(p))
		dirFiles[rel] = append(dirFiles[rel], p)
		data, _ := os.ReadFile(p)
		for _, m := range reHarness.FindAllStringSubmatch(string(data), -1) {
			if m[2] == prop {
				hs = append(hs, harnessInfo{Name: m[1], Dir: rel, File: p})
			}
		}
		return nil
	})
	sort.Slice(hs, func(i, j int) bool { return hs[i].Name < hs[j].Name })
	return hs, dirFiles
}

func repoDir() string {
	if *flagRepo != "" {
		return *flagRepo
	}
	if r := os.Getenv("VERIF_REPO"); r != "" {
		return r
	}
	return "/repo"
}

// overlayFor builds the overlay (virtual path -> content) for the given package dirs.
func overlayFor(repo, verif string, dirFiles map[string][]string, dirs map[string]bool, withTest map[string]string) map[string]string {
	ov := map[string]string{}
	ov[filepath.Join(repo, "internal/verifrt/rt.go")] = filepath.Join(verif, "rt/verifrt/rt.go")
	for d := range dirs {
		for _, f := range dirFiles[d] {
			ov[filepath.Join(repo, d, "zz_verif_"+filepath.Base(f))] = f
		}
	}
	for k, v := range withTest {
		ov[k] = v
	}
	return ov
}

type loaded struct {
	prog *ssa.Program
	pkgs map[string]*ssa.Package // by dir
}

func load(repo, verif string, dirFiles map[string][]string, dirs map[string]bool) (*loaded, error) {
	ovPaths := overlayFor(repo, verif, dirFiles, dirs, nil)
	ov := map[string][]byte{}
	for k, v := range ovPaths {
		data, err := os.ReadFile(v)
		if err != nil {
			return nil, err
		}
		ov[k] = data
	}
	var patterns []string
	for d := range dirs {
		patterns = append(patterns, "./"+d)
	}
	sort.Strings(patterns)
	cfg := &packages.Config{
		Mode:       packages.LoadAllSyntax,
		Dir:        repo,
		BuildFlags: []string{"-tags=verif"},
		Env:        append(os.Environ(), "CGO_ENABLED=0", "GOFLAGS=-mod=mod", "GOPROXY=off", "GOSUMDB=off", "GOTOOLCHAIN=local"),
		Overlay:    ov,
	}
	pkgs, err := packages.Load(cfg, patterns...)
	if err != nil {
		return nil, err
	}
	var errs []string
	packages.Visit(pkgs, nil, func(p *packages.Package) {
		for _, e := range p.Errors {
			errs = append(errs, e.Error())
		}
	})
	if len(errs) > 0 {
		if len(errs) > 10 {
			errs = errs[:10]
		}
		return nil, fmt.Errorf("load errors:\n%s", strings.Join(errs, "\n"))
	}
	prog, spkgs := ssautil.AllPackages(pkgs, ssa.InstantiateGenerics)
	prog.Build()
	l := &loaded{prog: prog, pkgs: map[string]*ssa.Package{}}
	for i, p := range pkgs {
		d := strings.TrimPrefix(p.PkgPath, "github.com/nsqio/nsq/")
		l.pkgs[d] = spkgs[i]
	}
	packages.Visit(pkgs, nil, func(p *packages.Package) {
		if strings.HasPrefix(p.PkgPath, "github.com/nsqio/nsq/") && !strings.HasSuffix(p.PkgPath, "/verifrt") {
			loadedPkgs[strings.TrimPrefix(p.PkgPath, "github.com/nsqio/nsq/")] = p
		}
	})
	return l, nil
}

// packages whose init functions are executed at the start of every path
func initPackages(prog *ssa.Program) []*ssa.Package {
	var r []*ssa.Package
	want := func(path string) bool {
		if strings.HasPrefix(path, "github.com/nsqio/nsq/") {
			return !strings.HasSuffix(path, "/verifrt")
		}
		switch path {
		case "io", "errors", "bufio", "bytes", "strconv", "encoding/binary", "encoding/hex", "io/fs", "os", "syscall", "context",
			"github.com/nsqio/go-diskqueue", "strings", "sort", "net/url", "path/filepath":
			return true
		}
		return false
	}
	for _, p := range prog.AllPackages() {
		if want(p.Pkg.Path()) {
			r = append(r, p)
		}
	}
	sort.Slice(r, func(i, j int) bool { return r[i].Pkg.Path() < r[j].Pkg.Path() })
	// dependency order: a package's initialisers run after those of the packages it imports
	byPath := map[string]*ssa.Package{}
	for _, p := range r {
		byPath[p.Pkg.Path()] = p
	}
	var out []*ssa.Package
	done := map[string]bool{}
	var visit func(p *types.Package)
	visit = func(p *types.Package) {
		if done[p.Path()] {
			return
		}
		done[p.Path()] = true
		for _, imp := range p.Imports() {
			visit(imp)
		}
		if sp := byPath[p.Path()]; sp != nil {
			out = append(out, sp)
		}
	}
	for _, p := range r {
		visit(p.Pkg)
	}
	return out
}

func newInterp(l *loaded, tier string, solverTimeout int) (*Interp, error) {
	tt := NewTermTable()
	s, err := NewSolver(KindZ3, tt, solverTimeout)
	if err != nil {
		return nil, err
	}
	var s2 *Solver
	crossN := 12
	if tier == "thorough" {
		crossN = 40
	}
	if os.Getenv("VERIF_NO_CROSSCHECK") == "" {
		s2, _ = NewSolver(KindCVC5, tt, 5000)
	}
	in := &Interp{prog: l.prog, tt: tt, solver: s, solver2: s2, crossLeft: crossN, tier: tier, maxSteps: 3000000, maxPaths: 200000, maxPreempt: 2, fnInfos: map[*ssa.Function]*fnInfo{}, varMemo: map[int][]int{}, qcache: map[string]*qcEntry{}, noSlice: os.Getenv("VERIF_NOSLICE") != ""}
	return in, nil
}

func (in *Interp) resetPath() {
	in.globals = map[*ssa.Global]*value{}
	in.pc = in.pc[:0]
	in.tp = 0
	in.steps = 0
	in.model = nil
	in.vars = nil
	in.varSeen = map[string]int{}
	in.observes = map[string]*Term{}
	in.nameCtr = map[string]int{}
	in.allocLimit = 0
	in.allocCut = false
	in.threads = nil
	in.cur = nil
	in.atomic = 0
	in.preempts = 0
	in.sched = nil
	in.chanSeq = 0
	in.hook = map[string]value{}
	in.clockLast = nil
	in.blobs = map[int]*jsonBlob{}
	in.blobSeq = 0
	in.loopSpecs = map[string]*loopSpec{}
	in.loopPost = map[string]value{}
	in.regexps = map[*value]string{}
	in.clockLo, in.clockHi = nil, nil
	in.sleepYields, in.freeYield = false, false
	in.clockN = 0
	in.mutexes = map[*value]*mutexState{}
	in.raceReset()
	in.onceState = map[*value]*onceSt{}
	in.wgState = map[*value]*wgSt{}
	in.poolState = map[*value][]value{}
	in.ghost = map[string]value{}
	in.callDepth = 0
	if in.tier == "thorough" {
		in.maxPreempt = 3
	} else {
		in.maxPreempt = 2
	}
}

// initGlobals runs the selected packages' variable initialisers (concretely).
// packages whose globals are immutable tables: initialised once per interpreter and shared
// by all paths
var frozenPkgs = map[string]bool{"unicode/utf8": true, "strconv": true, "encoding/hex": true}

func (in *Interp) initGlobals() {
	saved := in.h.Funcs
	in.h.Funcs = map[string]bool{}
	if in.frozen == nil {
		in.frozen = map[*ssa.Global]*value{}
		keep := in.globals
		in.globals = map[*ssa.Global]*value{}
		for _, p := range in.prog.AllPackages() {
			if frozenPkgs[p.Pkg.Path()] {
				in.runPkgInit(p)
			}
		}
		in.frozen = in.globals
		in.globals = keep
		in.steps = 0
	}
	for g, c := range in.frozen {
		in.globals[g] = c
	}
	for _, p := range in.initPkgs {
		if frozenPkgs[p.Pkg.Path()] {
			continue
		}
		s0 := in.steps
		in.runPkgInit(p)
		if os.Getenv("VERIF_INITSTEPS") != "" && in.h.Paths == 0 {
			fmt.Fprintf(os.Stderr, "init %s: %d steps\n", p.Pkg.Path(), in.steps-s0)
		}
	}
	in.h.Funcs = saved
}

// runPkgInit interprets pkg.init but skips calls to other packages' init functions
// (those in the list are run on their own) and tolerates unsupported initialisers.
func (in *Interp) runPkgInit(p *ssa.Package) {
	fn := p.Func("init")
	if fn == nil || fn.Blocks == nil {
		return
	}
	fr := &frame{in: in, fn: fn, th: in.cur, env: map[ssa.Value]value{}}
	// walk blocks linearly following jumps; init has the shape:
	// 0: if init$guard goto 2 else 1 ; 1: guard=true; dep inits...; stores ; jump 2 ; 2: return
	// initialisers can contain control flow, so interpret properly but intercept calls.
	fr.block = fn.Blocks[0]
	fr.locals = make([]value, len(fn.Locals))
	for i, l := range fn.Locals {
		fr.locals[i] = in.zero(deref(l.Type()))
		fr.env[l] = &fr.locals[i]
	}
	for fr.block != nil {
		blk := fr.block
		nonPhis := in.executePhis(fr)
		jumped := false
		for _, instr := range nonPhis {
			if c, ok := instr.(*ssa.Call); ok {
				if callee := c.Call.StaticCallee(); callee != nil && callee.Name() == "init" && callee.Pkg != p && callee.Signature.Recv() == nil {
					continue
				}
				// tolerate failures of individual initialisers
				okc := in.tryInstr(fr, instr)
				if !okc {
					if v, isv := instr.(ssa.Value); isv {
						fr.env[v] = in.safeZero(v.Type())
					}
				}
				continue
			}
			var k continuation
			ok := func() (ok bool) {
				defer func() {
					if r := recover(); r != nil {
						switch r.(type) {
						case killThread:
							panic(r)
						}
						ok = false
					}
				}()
				k = in.visitInstr(fr, instr)
				return true
			}()
			if !ok {
				if v, isv := instr.(ssa.Value); isv {
					fr.env[v] = in.safeZero(v.Type())
				}
				continue
			}
			if k == kReturn {
				return
			}
			if k == kJump {
				jumped = true
				break
			}
		}
		if !jumped && fr.block == blk {
			return
		}
	}
}

func (in *Interp) safeZero(t types.Type) (v value) {
	defer func() {
		if recover() != nil {
			v = nil
		}
	}()
	return in.zero(t)
}

func (in *Interp) tryInstr(fr *frame, instr ssa.Instruction) (ok bool) {
	defer func() {
		if r := recover(); r != nil {
			switch r.(type) {
			case killThread:
				panic(r)
			}
			ok = false
		}
	}()
	in.visitInstr(fr, instr)
	return true
}

// assertTerm handles verifrt.Assert and implicit obligations.
// crossCheck re-decides an assertion query with the second solver (cvc5) and compares verdicts:
// a sample of the deciding queries of every harness is diffed on every run, so an encoding or
// solver bug that makes z3 answer unsat wrongly shows up as a disagreement (= inconclusive).
func (in *Interp) crossCheck(as []*Term, r Result) {
	if in.solver2 == nil || (r != Sat && r != Unsat) {
		return
	}
	in.crossLeft--
	r2, _, _ := in.solver2.Check(as, nil)
	in.h.CrossChecked++
	switch {
	case r2 == r:
		in.h.CrossAgreed++
	case r2 == Sat || r2 == Unsat:
		in.h.Inconclusive = append(in.h.Inconclusive, fmt.Sprintf("solver disagreement: z3 says %v, cvc5 says %v", r, r2))
	default:
		in.h.CrossUnknown++
		if r2 == SolverError {
			in.solver2.Close()
			if s, err := NewSolver(KindCVC5, in.tt, 5000); err == nil {
				in.solver2 = s
			} else {
				in.solver2 = nil
			}
		}
	}
}

func (in *Interp) assertTerm(fr *frame, c *Term, label string) {
	h := in.h
	h.Obligations++
	if c.IsConst() {
		if c.val != 0 {
			h.Trivial++
			h.Discharged++
			return
		}
		// concretely false on a feasible path
		r, vals := in.check()
		if r == Sat {
			in.reportViolation(fr, label, "assert", "assertion is false on this path", in.modelFrom(vals))
		} else if r == Unsat {
			h.Discharged++
		} else {
			h.Undecided++
		}
		panic(pathEnd{"assertion failed"})
	}
	if h.ViolCount[label] >= 3 {
		// enough counterexamples for this label; keep exploring under the assumption
		in.pc = append(in.pc, c)
		in.model = nil
		return
	}
	in.crossNext = in.solver2 != nil && in.crossLeft > 0
	r, vals := in.check(in.tt.Not(c))
	in.crossNext = false
	switch r {
	case Unsat:
		h.Discharged++
	case Sat:
		in.pcPush(in.tt.Not(c))
		in.reportViolation(fr, label, "assert", "", in.modelFrom(vals))
		in.pcPop()
	default:
		h.Undecided++
		h.Inconclusive = append(h.Inconclusive, "undecided assertion "+label)
	}
	// continue under the assumption that it holds
	r2, vals2 := in.check(c)
	if r2 == Unsat {
		panic(pathEnd{"assertion cannot hold"})
	}
	in.pc = append(in.pc, c)
	if r2 == Sat {
		in.model = in.modelFrom(vals2)
	} else {
		in.model = nil
	}
}

func (in *Interp) markReached(label string, model map[string]uint64) {
	in.h.Reached[label] = true
	in.h.ReachModel[label] = model
	obs := map[string]uint64{}
	memo := map[int]uint64{}
	ev := map[int]bool{}
	for k, t := range in.observes {
		if in.tt.evaluable(t, ev, model) {
			obs[k] = in.tt.Eval(t, model, memo)
		}
	}
	in.h.ReachObserve[label] = obs
	in.h.ReachTrail[label] = in.trailVals()
	in.h.ReachSched[label] = append([]schedStep{}, in.sched...)
}

func (in *Interp) trailVals() []int64 {
	r := make([]int64, 0, in.tp)
	for i := 0; i < in.tp && i < len(in.trail); i++ {
		r = append(r, in.trail[i].alts[in.trail[i].idx])
	}
	return r
}

func (in *Interp) reportViolation(fr *frame, label, kind, detail string, model map[string]uint64) {
	h := in.h
	h.ViolCount[label]++
	if h.ViolCount[label] > 3 {
		return
	}
	if model == nil {
		r, vals := in.check()
		if r != Sat {
			h.Inconclusive = append(h.Inconclusive, fmt.Sprintf("path of %s violation %s not confirmed sat (%v)", kind, label, r))
			return
		}
		model = in.modelFrom(vals)
	}
	v := &Violation{Label: label, Kind: kind, Detail: detail, Model: model, Trail: in.trailVals(), Sched: append([]schedStep{}, in.sched...)}
	if fr != nil {
		v.Stack = in.stack(fr)
	}
	v.Observe = map[string]string{}
	memo := map[int]uint64{}
	ev := map[int]bool{}
	for k, t := range in.observes {
		if in.tt.evaluable(t, ev, model) {
			v.Observe[k] = strconv.FormatUint(in.tt.Eval(t, model, memo), 10)
		}
	}
	h.Violations = append(h.Violations, v)
}

// runPath executes the harness once under the current decision trail.
func (in *Interp) runPath(fn *ssa.Function) {
	in.resetPath()
	in.pathDone = make(chan pathResult, 16)
	in.exited = make(chan struct{}, 256)
	entry := &nativeFn{name: "entry", f: func(in *Interp, fr *frame, args []value) value {
		in.initGlobals()
		in.callSSA(nil, 0, fn, nil, nil)
		return nil
	}}
	main := in.spawn(nil, entry, nil, 0, "main")
	main.isMain = true
	in.cur = main
	main.wake <- true
	res := <-in.pathDone
	// drain: kill every thread that has not finished
	for _, t := range in.threads {
		if !t.done {
			t.wake <- false
		}
	}
	for range in.threads {
		<-in.exited
	}
	in.h.Paths++
	in.h.Steps += in.steps
	switch p := res.panicVal.(type) {
	case nil:
	case pathEnd:
	case abortHarness:
		in.h.Inconclusive = append(in.h.Inconclusive, p.msg)
	case targetPanic:
		msg := in.panicString(p.v)
		in.reportViolation(nil, "panic", "panic", fmt.Sprintf("panic in thread %s: %s", res.thread.name, msg), nil)
	case runtimePanic:
		in.reportViolation(nil, "panic", "panic", fmt.Sprintf("runtime error in thread %s: %s", res.thread.name, p.msg), nil)
	case deadlockErr:
		in.reportViolation(nil, "deadlock", "deadlock", "all goroutines blocked: "+p.desc, nil)
	default:
		in.h.Inconclusive = append(in.h.Inconclusive, fmt.Sprintf("internal error: %v", p))
	}
}

func (in *Interp) panicString(v value) string {
	it, ok := v.(iface)
	if !ok {
		return in.show(v)
	}
	if it.t == nil {
		return "nil"
	}
	if m := in.findMethod(it.t, "Error"); m != nil {
		ok := false
		var s strV
		func() {
			defer func() { recover() }()
			s, ok = in.tryCallStr(m, it.v)
		}()
		if ok {
			if cs, c := concStr(s); c {
				return cs
			}
		}
	}
	return in.show(it.v)
}

func (in *Interp) runHarness(fn *ssa.Function, name string) *HarnessRun {
	in.h = newHarnessRun(name)
	in.trail = nil
	aborts := 0
	for {
		nIncon := len(in.h.Inconclusive)
		in.runPath(fn)
		if len(in.h.Inconclusive) > nIncon {
			aborts++
			if aborts >= 3 {
				break
			}
		}
		if in.h.Paths >= in.maxPaths {
			in.h.Inconclusive = append(in.h.Inconclusive, fmt.Sprintf("path limit %d reached", in.maxPaths))
			break
		}
		if !in.backtrack() {
			break
		}
	}
	return in.h
}

// finishReach: witnesses that no path reached. A plain Reach label is a vacuity failure
// (inconclusive); a Possible label is a violation - provided the exploration was complete
// (no abort, no path limit, no undecided query), otherwise it stays inconclusive.
func finishReach(r *HarnessRun) {
	complete := len(r.Inconclusive) == 0 && r.Undecided == 0
	for _, l := range sortedKeys(r.ReachDecl) {
		if r.Reached[l] {
			continue
		}
		if m, isPoss := r.PossDecl[l]; isPoss && complete {
			r.Violations = append(r.Violations, &Violation{Label: l, Kind: "impossible", Model: m,
				Detail: "no input, random outcome or schedule within the bounds makes this happen (unsat on every path that declares it)"})
			continue
		}
		r.Inconclusive = append(r.Inconclusive, "vacuity: witness not reachable: "+l)
	}
}

// ---------------------------------------------------------------- known findings

type Finding struct {
	Property string `json:"property"`
	Status   string `json:"status"` // known | fixed
	Harness  string `json:"harness"`
	Label    string `json:"label"`
	Match    string `json:"match"` // substring of detail/stack that pins the specific failure
	What     string `json:"what"`
	Commit   string `json:"commit,omitempty"`
}

func loadFindings(verif string) []Finding {
	var fs []Finding
	data, err := os.ReadFile(filepath.Join(verif, "known_findings.json"))
	if err != nil {
		return nil
	}
	json.Unmarshal(data, &fs)
	return fs
}

func matchFinding(fs []Finding, prop, harness string, v *Violation) *Finding {
	for i := range fs {
		f := &fs[i]
		if f.Status != "known" || f.Property != prop || f.Harness != harness || f.Label != v.Label {
			continue
		}
		if f.Match == "" || strings.Contains(v.Detail, f.Match) || strings.Contains(v.Stack, f.Match) {
			return f
		}
	}
	return nil
}

// ---------------------------------------------------------------- main

type evidence struct {
	PropertyID  string                 `json:"property_id"`
	Tier        string                 `json:"tier"`
	Seed        int                    `json:"seed"`
	Level       string                 `json:"level"`
	Coverage    map[string]interface{} `json:"coverage"`
	Assumptions []string               `json:"assumptions"`
	WallS       float64                `json:"wall_s"`
	Violations  int                    `json:"violations"`
}

func main() {
	flag.Parse()
	if *flagSelftest {
		os.Exit(selftest())
	}
	os.Setenv("GOFLAGS", "-mod=mod")
	os.Setenv("GOPROXY", "off")
	os.Setenv("GOSUMDB", "off")
	os.Setenv("GOTOOLCHAIN", "local")
	prop := *flagProp
	if prop == "" {
		fmt.Fprintln(os.Stderr, "usage: gosmt -prop Cxx [-tier quick|thorough]")
		os.Exit(2)
	}
	if t := os.Getenv("VERIF_TIER"); t != "" && !isFlagSet("tier") {
		*flagTier = t
	}
	seed, _ := strconv.Atoi(os.Getenv("VERIF_SEED"))
	t0 := time.Now()
	verif, repo := *flagVerif, repoDir()
	if *flagReplayF != "" {
		os.Exit(replayStored(repo, verif, prop, *flagReplayF))
	}
	hs, dirFiles := findHarnesses(verif, prop)
	collectNativeStubs(dirFiles)
	if *flagHarness != "" {
		re := regexp.MustCompile(*flagHarness)
		var f []harnessInfo
		for _, h := range hs {
			if re.MatchString(h.Name) {
				f = append(f, h)
			}
		}
		hs = f
	}
	if len(hs) == 0 {
		fmt.Printf("INCONCLUSIVE property=%s reason=no harness found\n", prop)
		os.Exit(2)
	}
	dirs := map[string]bool{}
	for _, h := range hs {
		dirs[h.Dir] = true
		loadedHarnessDirs[h.Dir] = true
	}
	l, err := load(repo, verif, dirFiles, dirs)
	if err != nil {
		fmt.Printf("INCONCLUSIVE property=%s reason=harness does not compile against the current tree: %v\n", prop, err)
		os.Exit(2)
	}
	loadS := time.Since(t0).Seconds()
	budget := *flagBudget
	if budget == 0 {
		if v, err := strconv.Atoi(os.Getenv("VERIF_BUDGET")); err == nil && v > 0 {
			budget = v
		} else if *flagTier == "thorough" {
			budget = 7200
		} else {
			budget = 1200
		}
	}
	exploreDeadline = time.Now().Add(time.Duration(budget) * time.Second)
	jobs := *flagJobs
	if jobs <= 0 {
		jobs = 16
		if v, err := strconv.Atoi(os.Getenv("VERIF_JOBS")); err == nil && v > 0 {
			jobs = v
		}
	}
	results, solverStats, tot := runAll(l, hs, jobs)
	solverWall := tot.wall
	nSat, nUnsat, nUnknown, nErr := tot.sat, tot.unsat, tot.unknown, tot.err

	// ---- triage violations: known findings, native replay
	findings := loadFindings(verif)
	exit := 0
	var violLines, knownLines, inconLines []string
	replayed, replayOK := 0, 0
	witnessReplayed, witnessOK := 0, 0
	witnessSkipped := 0
	replayDir := filepath.Join(verif, "replays", prop)
	os.MkdirAll(replayDir, 0o755)
	nviol := 0
	for i, hr := range results {
		h := hs[i]
		for _, msg := range hr.Inconclusive {
			inconLines = append(inconLines, fmt.Sprintf("%s: %s", h.Name, msg))
		}
		byLabel := map[string][]*Violation{}
		var labels []string
		for _, v := range hr.Violations {
			key := v.Label
			if v.Kind == "panic" || v.Kind == "deadlock" {
				key = v.Label + "|" + firstLine(v.Detail)
			}
			if _, ok := byLabel[key]; !ok {
				labels = append(labels, key)
			}
			byLabel[key] = append(byLabel[key], v)
		}
		for _, key := range labels {
			vs := byLabel[key]
			if f := matchFinding(findings, prop, h.Name, vs[0]); f != nil {
				knownLines = append(knownLines, fmt.Sprintf("KNOWN-FINDING: property=%s %s [%s/%s]", prop, f.What, h.Name, vs[0].Label))
				continue
			}
			confirmed := false
			var lastPath string
			var why string
			for n, v := range vs {
				path := filepath.Join(replayDir, fmt.Sprintf("%s-%s-%d.json", h.Name, sanitize(v.Label), n))
				lastPath = path
				writeReplay(path, prop, h, v, *flagTier)
				if *flagNoReplay {
					confirmed = true
					why = "replay skipped (-noreplay)"
					break
				}
				replayed++
				ok, out := replayNative(repo, verif, dirFiles, h, path, v)
				if !ok && len(v.Sched) > 0 && n < 3 {
					// the native thread structure can differ from the symbolic one (symbolic-only stubs,
					// canonical-schedule harnesses): the counterexample also counts as reproduced when
					// the same assertion fails with the goroutines running freely
					saved := v.Sched
					v.Sched = nil
					writeReplay(path, prop, h, v, *flagTier)
					ok, out = replayNative(repo, verif, dirFiles, h, path, v)
					if !ok {
						v.Sched = saved
						writeReplay(path, prop, h, v, *flagTier)
					}
				}
				if ok {
					replayOK++
					confirmed = true
					break
				}
				why = out
			}
			if confirmed {
				nviol++
				violLines = append(violLines, fmt.Sprintf("VIOLATION property=%s replay=%s", prop, lastPath))
				fmt.Fprintf(os.Stderr, "  violation %s in %s: %s %s\n", vs[0].Label, h.Name, vs[0].Detail, vs[0].Stack)
				exit = 1
			} else {
				inconLines = append(inconLines, fmt.Sprintf("%s: counterexample for %s did not reproduce natively (encoding or model wrong): %s", h.Name, vs[0].Label, why))
			}
		}
		// translator validation: replay one reached witness natively and compare observations
		if !*flagNoReplay {
			var labels []string
			for _, lab := range sortedKeys(hr.ReachModel) {
				// "sym:" witnesses only exist under the symbolic executor (loop-step observations)
				if !strings.HasPrefix(lab, "sym:") {
					labels = append(labels, lab)
				}
			}
			limit := 1
			if *flagTier == "thorough" {
				limit = 3
			}
			for k, lab := range labels {
				if k >= limit {
					break
				}
				path := filepath.Join(replayDir, fmt.Sprintf("%s-witness-%s.json", h.Name, sanitize(lab)))
				v := &Violation{Label: lab, Kind: "witness", Model: hr.ReachModel[lab], Sched: hr.ReachSched[lab]}
				writeReplay(path, prop, h, v, *flagTier)
				witnessReplayed++
				knownLabels := map[string]bool{}
				for _, f := range findings {
					if f.Status == "known" && f.Property == prop && f.Harness == h.Name {
						knownLabels[f.Label] = true
					}
				}
				ok, out := replayWitness(repo, verif, dirFiles, h, path, lab, hr.ReachObserve[lab], knownLabels)
				if !ok && len(v.Sched) > 0 {
					// the native thread structure can differ from the symbolic one (symbolic-only stubs);
					// a witness may also be replayed with the goroutines running freely
					v.Sched = nil
					if first, rerr := os.ReadFile(strings.TrimSuffix(path, ".json") + ".native.log"); rerr == nil {
						os.WriteFile(strings.TrimSuffix(path, ".json")+".scheduled.native.log", first, 0o644)
					}
					writeReplay(path, prop, h, v, *flagTier)
					ok, out = replayWitness(repo, verif, dirFiles, h, path, lab, hr.ReachObserve[lab], knownLabels)
				}
				if ok {
					witnessOK++
				} else if len(hr.ReachSched[lab]) > 0 && strings.HasPrefix(out, "witness label not reached natively") {
					// a witness of a concurrent harness whose imposed schedule could not be followed natively
					// and whose free-running replay took another (legal) interleaving: not reaching the
					// label says nothing about the encoding - counted as not validated, not as a mismatch
					witnessSkipped++
				} else {
					inconLines = append(inconLines, fmt.Sprintf("%s: witness %s does not replay natively as predicted: %s", h.Name, lab, out))
				}
			}
		}
	}
	if len(inconLines) > 0 && exit == 0 {
		exit = 2
	}

	// ---- evidence
	ev := buildEvidence(prop, *flagTier, seed, hs, results, solverStats, map[string]interface{}{
		"load_s": loadS, "solver_s": solverWall, "queries": map[string]int{"sat": nSat, "unsat": nUnsat, "unknown": nUnknown, "error": nErr},
		"counterexamples_replayed": replayed, "counterexamples_reproduced": replayOK,
		"witnesses_replayed": witnessReplayed, "witnesses_matching": witnessOK, "witnesses_schedule_dependent_not_validated": witnessSkipped,
		"known_findings": knownLines, "inconclusive": inconLines,
	}, nviol, time.Since(t0).Seconds(), witnessOK+replayOK)
	evPath := *flagEvidence
	if evPath == "" {
		evPath = filepath.Join(verif, "evidence", prop+".json")
	}
	os.MkdirAll(filepath.Dir(evPath), 0o755)
	data, _ := json.MarshalIndent(ev, "", " ")
	os.WriteFile(evPath, data, 0o644)

	for _, l := range knownLines {
		fmt.Println(l)
	}
	for _, l := range inconLines {
		fmt.Printf("INCONCLUSIVE property=%s reason=%s\n", prop, l)
	}
	for _, l := range violLines {
		fmt.Println(l)
	}
	if exit == 0 {
		fmt.Printf("OK property=%s tier=%s harnesses=%d paths=%d obligations=%d discharged=%d wall=%.1fs\n", prop, *flagTier, len(hs), ev.Coverage["states"], ev.Coverage["obligations"], ev.Coverage["discharged"], time.Since(t0).Seconds())
	}
	os.Exit(exit)
}

func isFlagSet(name string) bool {
	set := false
	flag.Visit(func(f *flag.Flag) {
		if f.Name == name {
			set = true
		}
	})
	return set
}

func firstLine(s string) string {
	if i := strings.Index(s, " [at "); i >= 0 {
		s = s[:i]
	}
	if i := strings.IndexByte(s, '\n'); i >= 0 {
		return s[:i]
	}
	return s
}

func sanitize(s string) string {
	var sb strings.Builder
	for _, c := range s {
		if c >= 'a' && c <= 'z' || c >= 'A' && c <= 'Z' || c >= '0' && c <= '9' || c == '-' || c == '_' {
			sb.WriteRune(c)
		} else {
			sb.WriteByte('_')
		}
	}
	r := sb.String()
	if len(r) > 60 {
		r = r[:60]
	}
	return r
}

func buildEvidence(prop, tier string, seed int, hs []harnessInfo, results []*HarnessRun, stats []string, extra map[string]interface{}, nviol int, wall float64, validated int) *evidence {
	paths, steps, obl, dis, triv, und := 0, 0, 0, 0, 0, 0
	xc, xa, xu, retried := 0, 0, 0, 0
	funcs := map[string]bool{}
	intr := map[string]bool{}
	bounds := map[string]interface{}{}
	var samples []interface{}
	reached := []string{}
	for i, r := range results {
		paths += r.Paths
		steps += r.Steps
		obl += r.Obligations
		dis += r.Discharged
		triv += r.Trivial
		und += r.Undecided
		xc += r.CrossChecked
		xa += r.CrossAgreed
		xu += r.CrossUnknown
		retried += r.RetriedUnknown
		for f := range r.Funcs {
			if strings.Contains(f, "nsqio/nsq") && !strings.Contains(f, "Verif") && !strings.Contains(f, "verif") {
				funcs[strings.ReplaceAll(f, "github.com/nsqio/nsq/", "")] = true
			}
		}
		for f := range r.Intrinsics {
			if !strings.HasPrefix(f, rtPkg) {
				intr[f] = true
			}
		}
		if len(r.Bounds) > 0 {
			bounds[hs[i].Name] = r.Bounds
		}
		for _, lab := range sortedKeys(r.ReachModel) {
			reached = append(reached, hs[i].Name+":"+lab)
			if len(samples) < 12 {
				m := r.ReachModel[lab]
				small := map[string]uint64{}
				for _, k := range sortedKeys(m) {
					if len(small) < 12 {
						small[k] = m[k]
					}
				}
				samples = append(samples, map[string]interface{}{"harness": hs[i].Name, "witness": lab, "model": small})
			}
		}
	}
	if len(samples) == 0 {
		samples = append(samples, map[string]interface{}{"note": "no witness models recorded", "harnesses": stats})
	}
	cov := map[string]interface{}{
		"states":                        paths,
		"transitions":                   steps,
		"traces_validated_against_impl": validated,
		"samples":                       samples,
		"obligations":                   obl,
		"discharged":                    dis,
		"discharged_concretely":         triv,
		"undecided":                     und,
		"cross_checked_with_cvc5":       map[string]int{"queries": xc, "same_verdict": xa, "cvc5_unknown_or_timeout": xu},
		"queries_decided_on_retry":      retried,
		"harnesses":                     stats,
		"functions_encoded":             sortedKeys(funcs),
		"bounds":                        bounds,
		"witnesses_reached":             reached,
		"intrinsics":                    sortedKeys(intr),
		"explanation":                   "states = symbolic leaf paths explored (each path stands for all inputs satisfying its path condition); transitions = SSA instructions interpreted; obligations = harness assertions + implicit no-panic checks sent to the solver under the path condition; a sat answer is replayed against the native build before it is reported",
	}
	for k, v := range extra {
		cov[k] = v
	}
	as := []string{
		"bounded: every verdict is for all values within the bounds listed under coverage.bounds; nothing outside is claimed",
		"environment models (intrinsics listed in coverage.intrinsics) are trusted contracts, validated by native replay of witnesses",
		"interleavings at synchronisation-operation granularity with a bounded number of preemptions, sequential consistency",
		"map iteration in insertion order",
		"solver: z3 4.8.12 over QF bit-vector terms generated from go/ssa of the current /repo tree; a sample of the assertion verdicts of every harness is re-decided by cvc5 1.0 on every run (coverage.cross_checked_with_cvc5), a disagreement makes the run inconclusive; a query the resident z3 times out on (30 s) is retried once by z3 5.1 with 120 s (coverage.queries_decided_on_retry) before it counts as undecided",
	}
	return &evidence{PropertyID: prop, Tier: tier, Seed: seed, Level: "model_checking", Coverage: cov, Assumptions: as, WallS: wall, Violations: nviol}
}
