package main

// Boxed value representation (after x/tools go/ssa/interp), with symbolic scalars.
//
//   bool, all integer types  -> *Term
//   float32/64               -> float64 (concrete only)
//   string                   -> strV (concrete length, symbolic bytes)
//   slice                    -> []value (nil = nil slice)
//   array                    -> array
//   struct                   -> structure
//   pointer                  -> *value, or symElemPtr (element pointer with symbolic index)
//   map                      -> *mapV
//   chan                     -> *chanV
//   interface                -> iface
//   func                     -> *ssa.Function, *closure, *ssa.Builtin, *nativeFn
//   tuple                    -> tuple

import (
	"fmt"
	"go/types"
	"strings"

	"golang.org/x/tools/go/ssa"
)

type value interface{}

type tuple []value
type array []value
type structure []value

type iface struct {
	t types.Type
	v value
}

type closure struct {
	Fn  *ssa.Function
	Env []value
}

type strV struct{ b []*Term }

type symElemPtr struct {
	base []value
	idx  *Term
}

// unsafeP is an unsafe.Pointer derived from &slice[off].
type unsafeP struct {
	base []value
	off  int
	cell *value
}

type mapEntry struct {
	k, v  value
	alive bool
}

type mapV struct {
	kt, vt  types.Type
	entries []*mapEntry
	rc      value // identity cell for the happens-before race monitor (a map is one location)
}

type chanV struct {
	id     int
	cap    int
	buf    []value
	closed bool
	et     types.Type
	env    bool // environment channel: readiness is nondeterministic
	name   string
	// rendezvous bookkeeping for unbuffered channels
	recvWaiting int
	sendq       []*sendReq
}

type sendReq struct {
	v    value
	th   *thread
	done bool
}

type bad struct{}

type deferred struct {
	fn    value
	args  []value
	instr *ssa.Defer
	tail  *deferred
}

func (in *Interp) mkStr(s string) strV {
	if len(s) == 0 {
		return strV{}
	}
	b := make([]*Term, len(s))
	for i := 0; i < len(s); i++ {
		b[i] = in.tt.bytes[s[i]]
	}
	return strV{b}
}

// concStr returns the Go string if every byte is concrete.
func concStr(s strV) (string, bool) {
	bs := make([]byte, len(s.b))
	for i, t := range s.b {
		if !t.IsConst() {
			return "", false
		}
		bs[i] = byte(t.val)
	}
	return string(bs), true
}

func isIntType(t types.Type) (w int, signed bool, ok bool) {
	b, isb := t.Underlying().(*types.Basic)
	if !isb {
		return 0, false, false
	}
	switch b.Kind() {
	case types.Int8:
		return 8, true, true
	case types.Int16:
		return 16, true, true
	case types.Int32:
		return 32, true, true
	case types.Int64, types.Int, types.UntypedInt, types.UntypedRune:
		return 64, true, true
	case types.Uint8:
		return 8, false, true
	case types.Uint16:
		return 16, false, true
	case types.Uint32:
		return 32, false, true
	case types.Uint64, types.Uint, types.Uintptr:
		return 64, false, true
	}
	return 0, false, false
}

func isFloatType(t types.Type) bool {
	b, isb := t.Underlying().(*types.Basic)
	return isb && b.Info()&types.IsFloat != 0
}

func isBoolType(t types.Type) bool {
	b, isb := t.Underlying().(*types.Basic)
	return isb && b.Info()&types.IsBoolean != 0
}

func isStringType(t types.Type) bool {
	b, isb := t.Underlying().(*types.Basic)
	return isb && b.Info()&types.IsString != 0
}

func (in *Interp) zero(t types.Type) value {
	switch t := t.(type) {
	case *types.Basic:
		if t.Kind() == types.UntypedNil {
			panic("untyped nil has no zero value")
		}
		if w, _, ok := isIntType(t); ok {
			return in.tt.Const(w, 0)
		}
		switch {
		case t.Info()&types.IsBoolean != 0:
			return in.tt.False
		case t.Info()&types.IsFloat != 0:
			return float64(0)
		case t.Info()&types.IsString != 0:
			return strV{}
		case t.Kind() == types.UnsafePointer:
			return unsafeP{}
		case t.Info()&types.IsComplex != 0:
			return complex128(0)
		}
		panic(fmt.Sprintf("zero: unsupported basic %v", t))
	case *types.Pointer:
		return (*value)(nil)
	case *types.Array:
		a := make(array, t.Len())
		for i := range a {
			a[i] = in.zero(t.Elem())
		}
		return a
	case *types.Named, *types.Alias:
		return in.zero(t.Underlying())
	case *types.Interface:
		return iface{}
	case *types.Slice:
		return []value(nil)
	case *types.Struct:
		s := make(structure, t.NumFields())
		for i := range s {
			s[i] = in.zero(t.Field(i).Type())
		}
		return s
	case *types.Tuple:
		if t.Len() == 1 {
			return in.zero(t.At(0).Type())
		}
		s := make(tuple, t.Len())
		for i := range s {
			s[i] = in.zero(t.At(i).Type())
		}
		return s
	case *types.Chan:
		return (*chanV)(nil)
	case *types.Map:
		return (*mapV)(nil)
	case *types.Signature:
		return (*ssa.Function)(nil)
	case *types.TypeParam:
		panic("zero of type parameter")
	}
	panic(fmt.Sprintf("zero: unexpected type %T %v", t, t))
}

// copyVal makes a value copy (arrays and structs are values).
func copyVal(v value) value {
	switch v := v.(type) {
	case array:
		a := make(array, len(v))
		for i := range v {
			a[i] = copyVal(v[i])
		}
		return a
	case structure:
		a := make(structure, len(v))
		for i := range v {
			a[i] = copyVal(v[i])
		}
		return a
	case tuple:
		panic("copyVal of tuple")
	}
	return v
}

func sameType(x, y types.Type) bool {
	if x == nil || y == nil {
		return x == y
	}
	return types.Identical(x, y)
}

// eqVal returns a Bool term for x == y at static type t.
func (in *Interp) eqVal(t types.Type, x, y value) *Term {
	tt := in.tt
	switch x := x.(type) {
	case *Term:
		return tt.Eq(x, y.(*Term))
	case float64:
		return tt.Bool(x == y.(float64))
	case strV:
		ys := y.(strV)
		if len(x.b) != len(ys.b) {
			return tt.False
		}
		r := tt.True
		for i := range x.b {
			r = tt.And(r, tt.Eq(x.b[i], ys.b[i]))
			if r == tt.False {
				break
			}
		}
		return r
	case *value:
		switch yp := y.(type) {
		case *value:
			return tt.Bool(x == yp)
		case symElemPtr:
			return in.eqVal(t, y, x)
		}
	case symElemPtr:
		// compare by cell identity per index
		r := tt.False
		for j := range x.base {
			var same bool
			switch yp := y.(type) {
			case *value:
				same = &x.base[j] == yp
			case symElemPtr:
				in.unsupported("comparison of two symbolic element pointers")
				_ = yp
			}
			if same {
				r = tt.Or(r, tt.Eq(x.idx, tt.Const(x.idx.w, uint64(j))))
			}
		}
		return r
	case *mapV:
		return tt.Bool(x == y.(*mapV))
	case *chanV:
		return tt.Bool(x == y.(*chanV))
	case unsafeP:
		return tt.Bool(x.cell == y.(unsafeP).cell)
	case iface:
		yi := y.(iface)
		if x.t == nil || yi.t == nil {
			return tt.Bool(x.t == nil && yi.t == nil)
		}
		if !sameType(x.t, yi.t) {
			return tt.False
		}
		return in.eqVal(x.t, x.v, yi.v)
	case array:
		ya := y.(array)
		var et types.Type
		if at, ok := t.Underlying().(*types.Array); ok {
			et = at.Elem()
		}
		r := tt.True
		for i := range x {
			r = tt.And(r, in.eqVal(et, x[i], ya[i]))
			if r == tt.False {
				break
			}
		}
		return r
	case structure:
		ys := y.(structure)
		st, _ := t.Underlying().(*types.Struct)
		r := tt.True
		for i := range x {
			var ft types.Type
			if st != nil {
				ft = st.Field(i).Type()
				if st.Field(i).Name() == "_" {
					continue
				}
			}
			r = tt.And(r, in.eqVal(ft, x[i], ys[i]))
			if r == tt.False {
				break
			}
		}
		return r
	case *ssa.Function:
		if yf, ok := y.(*ssa.Function); ok {
			return tt.Bool(x == yf)
		}
		return tt.Bool(x == nil && y == nil)
	case *closure:
		if yc, ok := y.(*closure); ok {
			return tt.Bool(x == yc)
		}
		return tt.False
	case []value:
		// only comparison with nil is legal
		ys := y.([]value)
		return tt.Bool(x == nil && ys == nil)
	}
	panic(fmt.Sprintf("eqVal: unhandled %T vs %T", x, y))
}

// ---- debugging / rendering ----

func (in *Interp) show(v value) string {
	var sb strings.Builder
	in.writeVal(&sb, v, 0)
	return sb.String()
}

func (in *Interp) writeVal(sb *strings.Builder, v value, depth int) {
	if depth > 4 {
		sb.WriteString("…")
		return
	}
	switch v := v.(type) {
	case nil:
		sb.WriteString("<nil>")
	case *Term:
		if v.IsConst() {
			if v.w == 0 {
				fmt.Fprintf(sb, "%v", v.val != 0)
			} else {
				fmt.Fprintf(sb, "%d", v.sval())
			}
		} else {
			fmt.Fprintf(sb, "«t%d»", v.id)
		}
	case strV:
		if s, ok := concStr(v); ok {
			fmt.Fprintf(sb, "%q", s)
		} else {
			fmt.Fprintf(sb, "«str len %d»", len(v.b))
		}
	case []value:
		sb.WriteString("[")
		for i, e := range v {
			if i > 0 {
				sb.WriteString(" ")
			}
			if i > 16 {
				sb.WriteString("…")
				break
			}
			in.writeVal(sb, e, depth+1)
		}
		sb.WriteString("]")
	case array:
		in.writeVal(sb, []value(v), depth)
	case structure:
		sb.WriteString("{")
		for i, e := range v {
			if i > 0 {
				sb.WriteString(" ")
			}
			in.writeVal(sb, e, depth+1)
		}
		sb.WriteString("}")
	case iface:
		if v.t == nil {
			sb.WriteString("nil-iface")
		} else {
			fmt.Fprintf(sb, "(%v)", v.t)
			in.writeVal(sb, v.v, depth+1)
		}
	case *value:
		if v == nil {
			sb.WriteString("nil-ptr")
		} else {
			sb.WriteString("&")
			in.writeVal(sb, *v, depth+1)
		}
	case tuple:
		sb.WriteString("(")
		for i, e := range v {
			if i > 0 {
				sb.WriteString(", ")
			}
			in.writeVal(sb, e, depth+1)
		}
		sb.WriteString(")")
	default:
		fmt.Fprintf(sb, "%T", v)
	}
}
