package main

import "go/token"

// errors.Is without reflection: identity of the interface values along the Unwrap chain (the std
// implementation also consults an Is method; honoured when present). Non-comparable dynamic types
// do not occur for the sentinel errors the code under test compares with.
func init() {
	intrinsics["errors.Is"] = func(in *Interp, fr *frame, args []value) value {
		err, _ := args[0].(iface)
		target, _ := args[1].(iface)
		for depth := 0; depth < 16; depth++ {
			if err.t == nil {
				return in.tt.Bool(target.t == nil)
			}
			if target.t != nil {
				if eq := in.eqVal(nil, err, target); eq.IsConst() && eq.val != 0 {
					return in.tt.True
				}
			}
			if m := in.findMethod(err.t, "Is"); m != nil && len(m.Params) == 2 {
				if r, ok := in.call(fr, token.NoPos, m, []value{err.v, target}).(*Term); ok && r.IsConst() && r.val != 0 {
					return in.tt.True
				}
			}
			m := in.findMethod(err.t, "Unwrap")
			if m == nil {
				return in.tt.False
			}
			next, ok := in.call(fr, token.NoPos, m, []value{err.v}).(iface)
			if !ok {
				return in.tt.False
			}
			err = next
		}
		return in.tt.False
	}
}
