package main

// Intrinsics added for C14 (nsqlookupd registry).

func init() {
	// (*strings.Builder).copyCheck only detects a Builder that was copied by value after first
	// use (it stores its own address through unsafe.Pointer -> uintptr). No code under test
	// copies a Builder, so the check is a no-op here. Needed by net/url.unescape ('%23' in
	// "topic=e%23ephemeral").
	intrinsics["(*strings.Builder).copyCheck"] = func(in *Interp, fr *frame, args []value) value { return nil }
}
